#!/bin/bash
# benign_run.sh [glob] : run all checks on every benign fixture (mutants/*/benign*.patch); any report is a false alarm
cd /verif
PAR=${PAR:-8} tools/trypatch.sh ${1:-mutants/*/benign*.patch} 2>&1 | cut -c1-420 > /var/tmp/benign_run.log
echo "silent: $(grep -c 'nothing reported' /var/tmp/benign_run.log)  of $(grep -c '^== ' /var/tmp/benign_run.log)"
grep -v "nothing reported" /var/tmp/benign_run.log | grep -B1 -E "VIOLATION|UNDECIDED|PATCH-FAIL" | grep -v "^--"
