#!/bin/bash
# killmatrix.sh : stop a running seedmatrix/trypatch sweep (by process id; never pkill -f with a pattern from an
# interactive command line - the pattern matches the command line that contains it)
me=$$; pkill -x xargs 2>/dev/null
for p in $(pgrep -f 'tools/seedmatrix\.sh|tools/trypatch\.sh|/var/tmp/dbcheck\.'); do
  [ "$p" = "$me" ] && continue
  kill "$p" 2>/dev/null
done
sleep 1
rm -rf /var/tmp/seedm.* /var/tmp/tryp.*
find /var/tmp/seedmatrix -size 0 -delete 2>/dev/null
echo "left: $(pgrep -f '/var/tmp/dbcheck\.' | wc -l)"
