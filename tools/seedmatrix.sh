#!/bin/bash
# seedmatrix.sh [ids...] : for every /verif/seeded/<id>/patch.diff apply it to a scratch copy of /repo,
# run all properties' quick rules on the copy and print which (property, rule, construct) report.
# Output: /var/tmp/seedmatrix/<id>.out ; summary on stdout. Scratch copies are removed.
set -u
OUT=/var/tmp/seedmatrix; mkdir -p $OUT
ids=("$@"); if [ ${#ids[@]} -eq 0 ]; then ids=($(ls /verif/seeded)); fi
one() {
  id=$1
  D=$(mktemp -d /var/tmp/seedm.XXXXXX)
  rsync -a --exclude=.git --exclude=single_nodehost_test_dir_safe_to_delete /repo/ "$D/repo/"
  mkdir -p "$D/verif"; cp /verif/known_findings.txt "$D/verif/" 2>/dev/null
  if ! ( cd "$D/repo" && GIT_DIR=/nonexistent git apply --whitespace=nowarn /verif/seeded/$id/patch.diff ); then echo "$id PATCH-FAIL" > $OUT/$id.out; rm -rf "$D"; return; fi
  ${DBCHECK:-/verif/bin/dbcheck} -prop all -repo "$D/repo" -verif "$D/verif" -noselftest 2>&1 | grep -E "^ *(VIOLATION|UNDECIDED|KNOWN|violation|undecided)" | sed "s#$D/repo/##g" > $OUT/$id.out
  rm -rf "$D"
}
export -f one; export OUT
printf "%s\n" "${ids[@]}" | xargs -P ${PAR:-6} -I{} bash -c 'one {}'
for id in "${ids[@]}"; do
  p=${id%-*}
  own=$(grep -c "property=$p" $OUT/$id.out); any=$(grep -c "^VIOLATION" $OUT/$id.out)
  echo "$id own=$own anyprops=$(grep -o '^VIOLATION property=C[0-9]*' $OUT/$id.out | sort -u | sed 's/VIOLATION property=//' | tr '\n' ' ')"
done
