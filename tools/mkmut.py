#!/usr/bin/env python3
"""mkmut.py PROP NAME KIND 'EXPECT[;EXPECT2]' 'WHY'  < edits
edits format (tabs literal):
@@ internal/raft/raft.go
<<<<
old text
====
new text
>>>>
Builds /verif/mutants/PROP/NAME.patch (unified diff against /repo's working tree)."""
import sys, os, subprocess, tempfile, shutil
prop, name, kind, expect, why = sys.argv[1:6]
repo = os.environ.get("REPO", "/repo")
outdir = os.environ.get("MUTDIR", "/verif/mutants")
edits = []
cur = None; mode = None; old = []; new = []
for line in sys.stdin.read().split("\n"):
    if line.startswith("@@ ") and mode is None:
        cur = line[3:].strip()
    elif line == "<<<<" and mode is None:
        mode = "old"; old = []; new = []
    elif line == "====" and mode == "old":
        mode = "new"
    elif line == ">>>>" and mode == "new":
        edits.append((cur, "\n".join(old), "\n".join(new))); mode = None
    elif mode == "old":
        old.append(line)
    elif mode == "new":
        new.append(line)
if not edits:
    sys.exit("no edits parsed")
out = []
tmp = tempfile.mkdtemp(prefix="mkmut-", dir="/var/tmp")
try:
    byfile = {}
    for f, o, n in edits:
        byfile.setdefault(f, []).append((o, n))
    for f, es in byfile.items():
        src = open(os.path.join(repo, f)).read()
        cur = src
        for o, n in es:
            cnt = cur.count(o)
            if cnt != 1:
                sys.exit("edit in %s: old text occurs %d times (want 1):\n%s" % (f, cnt, o))
            cur = cur.replace(o, n)
        os.makedirs(os.path.join(tmp, "a", os.path.dirname(f)), exist_ok=True)
        os.makedirs(os.path.join(tmp, "b", os.path.dirname(f)), exist_ok=True)
        open(os.path.join(tmp, "a", f), "w").write(src)
        open(os.path.join(tmp, "b", f), "w").write(cur)
        p = subprocess.run(["diff", "-u", os.path.join("a", f), os.path.join("b", f)], cwd=tmp, capture_output=True, text=True)
        out.append(p.stdout)
finally:
    shutil.rmtree(tmp)
d = os.path.join(outdir, prop)
os.makedirs(d, exist_ok=True)
with open(os.path.join(d, name + ".patch"), "w") as fh:
    fh.write("# kind: %s\n" % kind)
    for ex in [x for x in expect.split(";") if x]:
        fh.write("# expect: %s\n" % ex)
    fh.write("# why: %s\n" % why)
    fh.write("".join(out))
print("wrote", os.path.join(d, name + ".patch"))
