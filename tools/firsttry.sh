#!/bin/bash
# firsttry.sh ROOT ID... : what the frozen checker ($DBCHECK) reports on each candidate patch ROOT/ID/out/K/patch.diff, PAR at a time
ROOT=$1; shift
one() { d=$1; [ -f $d/patch.diff ] || exit 0; [ -s $d/first_try.txt ] && exit 0; /verif/tools/trypatch.sh $d/patch.diff > $d/first_try.txt 2>&1; }
export -f one
for id in "$@"; do for k in 1 2; do echo $ROOT/$id/out/$k; done; done | xargs -P ${PAR:-4} -I{} bash -c 'one {}'
for id in "$@"; do for k in 1 2; do [ -f $ROOT/$id/out/$k/first_try.txt ] && { echo "## $id/$k"; grep -v "^==" $ROOT/$id/out/$k/first_try.txt | cut -c1-260; }; done; done
