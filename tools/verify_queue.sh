#!/bin/bash
# verify_queue.sh SRC... : verify several candidate seeds, 3 at a time
printf "%s\n" "$@" | xargs -P ${PAR:-3} -I{} /verif/tools/verify_seed.sh {}
for s in "$@"; do echo "== $s"; cat $s/verify.txt; done
