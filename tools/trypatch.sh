#!/bin/bash
# trypatch.sh PATCH... : apply each patch to its own scratch copy of /repo, run all properties (quick rules), print the reports
one() {
  P=$(readlink -f "$1"); D=$(mktemp -d /var/tmp/tryp.XXXXXX)
  rsync -a --exclude=.git --exclude=single_nodehost_test_dir_safe_to_delete /repo/ "$D/repo/"; mkdir -p "$D/verif"; cp /verif/known_findings.txt "$D/verif/"
  if ! ( cd "$D/repo" && GIT_DIR=/nonexistent git apply --whitespace=nowarn "$P" ); then echo "== $P: PATCH-FAIL"; rm -rf "$D"; return; fi
  out=$(${DBCHECK:-/verif/bin/dbcheck} -prop all -repo "$D/repo" -verif "$D/verif" -noselftest 2>&1 | grep -E "^ *(VIOLATION|UNDECIDED|KNOWN)" | grep -v "^VIOLATION" | sed "s#$D/repo/##g" | cut -c1-330 | sort -u)
  echo "== $P"; echo "${out:-  (nothing reported)}"
  rm -rf "$D"
}
export -f one
printf "%s\n" "$@" | xargs -P ${PAR:-4} -I{} bash -c 'one {}'
