#!/usr/bin/env python3
"""record_detect.py [ids...]: write meta.json detected_by from /var/tmp/seedmatrix/<id>.out (produced by seedmatrix.sh),
and print a markdown table for DESIGN.md."""
import json, os, re, sys, glob
ids = sys.argv[1:] or sorted(os.listdir('/verif/seeded'))
rows = []
for i in ids:
    out = '/var/tmp/seedmatrix/%s.out' % i
    meta = '/verif/seeded/%s/meta.json' % i
    if not os.path.exists(out):
        continue
    cur = None; det = []
    txt = open(out).read()
    # sub-lines precede the VIOLATION property= line of their property
    pend = []
    for line in txt.split('\n'):
        m = re.match(r'^\s+(VIOLATION|UNDECIDED) (\S+) (.*?) at (\S+)', line)
        if m:
            pend.append((m.group(2), m.group(3)[:110], m.group(4)))
            continue
        m = re.match(r'^VIOLATION property=(C\d+)', line)
        if m:
            seen = set()
            for rule, cons, pos in pend:
                if (rule) in seen: continue
                seen.add(rule)
                det.append({"property": m.group(1), "rule": rule, "construct": cons, "at": pos})
            pend = []
    mj = json.load(open(meta))
    mj['detected_by'] = det
    json.dump(mj, open(meta, 'w'), indent=1)
    own = [d for d in det if d['property'] == mj['property']]
    oth = sorted(set(d['property'] for d in det if d['property'] != mj['property']))
    rows.append('| %s | %s | %s | %s |' % (i, ', '.join(mj['changed_files']), '; '.join('%s' % d['rule'] for d in own) or '**not detected**', ' '.join(oth)))
print('| seeded | files | rule(s) of the property that report | also reported by |\n|---|---|---|---|')
print('\n'.join(rows))
