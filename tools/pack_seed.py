#!/usr/bin/env python3
"""pack_seed.py PROP SRCK DSTK : copy a sub-agent's change /tmp/seedwork/PROP/out/SRCK into /verif/seeded/PROP-DSTK/
(patch.diff, notes.md, the demonstration with its intended path recorded) and write meta.json from
SRC/verify.txt (produced by tools/verify_seed.sh). Refuses unless build OK, demo PASS without / FAIL with, suite PASS."""
import sys, os, shutil, glob, json, re
pid, sk, dk = sys.argv[1:4]
force = len(sys.argv) > 4 and sys.argv[4] == "--force"
src = os.environ.get("SEEDROOT", "/tmp/seedwork5") + "/%s/out/%s" % (pid, sk)
dst = "/verif/seeded/%s-%s" % (pid, dk)
res = open(os.path.join(src, "verify.txt")).read()
def grab(key):
    m = re.search(r"^%s: (.*)$" % key, res, re.M)
    return m.group(1) if m else None
ok = (grab("build") or "").startswith("OK") and grab("demo_without_change") == "PASS" and grab("demo_with_change") == "FAIL" and (grab("suite") or "").startswith("PASS")
if not ok and not force:
    sys.exit("not confirmed: build=%s without=%s with=%s suite=%s" % (grab("build"), grab("demo_without_change"), grab("demo_with_change"), grab("suite")))
os.makedirs(dst, exist_ok=True)
shutil.copy(os.path.join(src, "patch.diff"), dst)
shutil.copy(os.path.join(src, "notes.md"), os.path.join(dst, "notes.md"))
demos = []
for f in glob.glob(src + "/**/*_test.go", recursive=True):
    rel = f[len(src) + 1:]
    if rel.startswith("demo/"): rel = rel[5:]
    shutil.copy(f, dst)
    demos.append(rel)
notes = open(os.path.join(src, "notes.md")).read()
needs = ""
m = re.search(r"(?is)#+[^\n]*(needs|manifest)[^\n]*\n(.*?)(\n#|\Z)", notes)
if m: needs = " ".join(m.group(2).split())[:600]
meta = {
    "property": pid,
    "round": int(os.environ.get("SEEDROUND", "4")),
    "source": "independent sub-agent given only the property text (plus a list of functions already taken by earlier seeds) and a scratch worktree; nothing from /verif",
    "changed_files": re.findall(r"^\+\+\+ b/(.*)$", open(os.path.join(dst, "patch.diff")).read(), re.M),
    "needs_to_manifest": needs,
    "demonstration": {"files": demos, "tests": grab("demo")},
    "confirmed_by_me": {
        "how": "/verif/tools/verify_seed.sh (fresh worktree of /repo HEAD under /tmp; go build+vet; demo without and with the patch; whole suite with the patch in a private network namespace compared with stable_pass of /root/.vp/BASELINE.json, tests missing from the pass set re-run alone up to 2 more times)",
        "build": grab("build"),
        "demo_without_change": grab("demo_without_change"),
        "demo_with_change": grab("demo_with_change"),
        "suite": grab("suite"),
    },
    "detected_by": [],
}
json.dump(meta, open(os.path.join(dst, "meta.json"), "w"), indent=1)
print("packed", dst, "needs:", needs[:100])
