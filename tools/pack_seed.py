#!/usr/bin/env python3
"""pack_seed.py ID K 'needs-to-manifest one-liner' : copy a verified seeded change from /tmp/out-ID/K into /verif/seeded/ID-K/"""
import sys, os, shutil, glob, json, re
pid, k, needs = sys.argv[1:4]
src = "/tmp/out-%s/%s" % (pid, k)
dst = "/verif/seeded/%s-%s" % (pid, k)
os.makedirs(dst, exist_ok=True)
shutil.copy(os.path.join(src, "patch.diff"), dst)
demo = [f for f in glob.glob(src + "/**/zz_seeded_*_test.go", recursive=True)][0]
shutil.copy(demo, dst)
shutil.copy(os.path.join(src, "notes.md"), os.path.join(dst, "notes.md"))
res = open("/var/tmp/seedverify/%s-%s.txt" % (pid, k)).read()
def grab(key):
    m = re.search(r"^%s: (.*)$" % key, res, re.M)
    return m.group(1) if m else None
demoline = grab("demo")
meta = {
    "property": pid,
    "source": "independent sub-agent given only the property text and a scratch worktree",
    "changed_files": re.findall(r"^\+\+\+ b/(.*)$", open(os.path.join(dst, "patch.diff")).read(), re.M),
    "needs_to_manifest": needs,
    "demonstration": demoline,
    "confirmed_by_me": {
        "how": "/var/tmp/tools/verify_seed.sh (fresh worktree of /repo HEAD; go build ./...; demo test without and with the patch; whole suite in a private network namespace compared with the stable baseline of /root/.vp/BASELINE.json, up to 3 tries because gossip/port tests flake under load)",
        "build": grab("build"),
        "demo_without_change": grab("demo_without_change"),
        "demo_with_change": grab("demo_with_change"),
        "suite": grab("suite"),
    },
    "detected_by": [],
}
json.dump(meta, open(os.path.join(dst, "meta.json"), "w"), indent=1)
print("packed", dst)
