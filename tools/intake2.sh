#!/bin/bash
# intake2.sh ROOT ID... : first-try record (frozen $DBCHECK) then confirmation of the candidates of the given properties
ROOT=$1; shift
PAR=${PAR:-2} /verif/tools/firsttry.sh $ROOT "$@" > $ROOT/ft_$1.txt 2>&1
a=(); for id in "$@"; do for k in 1 2; do [ -f $ROOT/$id/out/$k/patch.diff ] && [ ! -s $ROOT/$id/out/$k/verify.txt ] && a+=($ROOT/$id/out/$k); done; done
[ ${#a[@]} -gt 0 ] && PAR=${PAR:-2} /verif/tools/verify_queue.sh "${a[@]}" > $ROOT/vq_$1.txt 2>&1
