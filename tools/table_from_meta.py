#!/usr/bin/env python3
"""table_from_meta.py : regenerate the seeded-detection table of DESIGN.md §11 from the recorded meta.json files
(detected_by as written by record_detect.py); prints the seeds no rule of their own property reports."""
import json,os
rows=[]; nd=[]
ids=sorted([d for d in os.listdir('/verif/seeded') if os.path.isdir('/verif/seeded/'+d)], key=lambda s:(s.split('-')[0], int(s.split('-')[1])))
for i in ids:
    mj=json.load(open('/verif/seeded/%s/meta.json'%i)); det=mj.get('detected_by',[])
    own=[]
    for d in det:
        if d['property']==mj['property'] and d['rule'] not in own: own.append(d['rule'])
    oth=sorted(set(d['property'] for d in det if d['property']!=mj['property']))
    if not own: nd.append(i)
    rows.append('| %s | %s | %s | %s |'%(i, ', '.join(mj['changed_files']), '; '.join(own) or '**not detected**', ' '.join(oth)))
tbl='| seeded | files | rule(s) of the property that report | also reported by |\n|---|---|---|---|\n'+'\n'.join(rows)
s=open('/verif/DESIGN.md').read()
a=s.index('<!-- SEEDTABLE BEGIN'); b=s.index('<!-- SEEDTABLE END -->')
hdr=s[a:s.index('\n',a)+1]
open('/verif/DESIGN.md','w').write(s[:a]+hdr+tbl+'\n'+s[b:])
print(len(rows),'rows; not detected:',nd)
