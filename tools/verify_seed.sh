#!/bin/bash
# verify_seed.sh SRC [OUTFILE]
#   SRC holds a candidate seeded change produced by a sub-agent:
#     SRC/patch.diff                    the change to lni/dragonboat (non-test files only)
#     SRC/demo/<repo-relative path>/zz_seeded_*_test.go   the demonstration
#     SRC/notes.md
# Confirms, in a fresh worktree of /repo HEAD under /tmp (removed afterwards):
#   build OK with the change; demo passes without it and fails with it;
#   the whole pinned suite (without the demo) still passes with the change, compared with the
#   stable_pass list of /root/.vp/BASELINE.json. The suite runs in a private network namespace
#   (unshare -rn) so that several verifications can run at once; tests missing from the pass set are
#   re-run alone up to 2 more times because gossip/port tests flake under load.
set -u
SRC=$(readlink -f "$1"); OUT=${2:-$SRC/verify.txt}
export GOFLAGS=-mod=mod GOPROXY=off GOSUMDB=off GOTOOLCHAIN=local
unset GOWORK
WT=$(mktemp -d /tmp/vs.XXXXXX); rmdir "$WT"
cleanup() { git -C /repo worktree remove --force "$WT" >/dev/null 2>&1; rm -rf "$WT" "$WT.logs"; git -C /repo worktree prune; }
trap cleanup EXIT
git -C /repo worktree add --detach "$WT" HEAD >/dev/null 2>&1 || { echo "build: WORKTREE-FAIL" > "$OUT"; exit 2; }
mkdir -p "$WT.logs"
: > "$OUT"
if grep -E '^\+\+\+ b/.*_test\.go' "$SRC/patch.diff" >/dev/null; then echo "patch_touches_tests: YES" >> "$OUT"; fi
# demo files
demos=(); pkgs=(); names=()
while IFS= read -r f; do
  rel=${f#$SRC/}; rel=${rel#demo/}
  demos+=("$rel")
  mkdir -p "$WT/$(dirname "$rel")"; cp "$f" "$WT/$rel"
  pkgs+=("./$(dirname "$rel")")
  while IFS= read -r n; do names+=("$n"); done < <(grep -oE '^func (Test[A-Za-z0-9_]*)' "$f" | awk '{print $2}')
done < <(find "$SRC" -name '*_test.go' | sort)
if [ ${#demos[@]} -eq 0 ]; then echo "demo: NONE" >> "$OUT"; exit 2; fi
RUN="^($(IFS='|'; echo "${names[*]}"))\$"
upkgs=($(printf "%s\n" "${pkgs[@]}" | sort -u))
echo "demo: ${demos[*]} tests: ${names[*]}" >> "$OUT"
rundemo() { ( cd "$WT" && unshare -rn bash -c "ip link set lo up; go test -vet=off -count=1 -timeout 10m -run '$RUN' ${upkgs[*]}" ) > "$WT.logs/demo.$1.log" 2>&1; }
( cd "$WT" && go build ./... ) > "$WT.logs/build0.log" 2>&1 || { echo "build_base_with_demo: FAIL" >> "$OUT"; }
if rundemo base; then echo "demo_without_change: PASS" >> "$OUT"; else echo "demo_without_change: FAIL" >> "$OUT"; tail -30 "$WT.logs/demo.base.log" >> "$OUT"; fi
if ! ( cd "$WT" && git apply --whitespace=nowarn "$SRC/patch.diff" ) 2>>"$OUT"; then echo "build: PATCH-DOES-NOT-APPLY" >> "$OUT"; exit 2; fi
if ( cd "$WT" && go build ./... && go vet ./... ) > "$WT.logs/build1.log" 2>&1; then echo "build: OK" >> "$OUT"; else
  if ( cd "$WT" && go build ./... ) >/dev/null 2>&1; then echo "build: OK (go vet complains)" >> "$OUT"; tail -5 "$WT.logs/build1.log" >> "$OUT"; else echo "build: FAIL" >> "$OUT"; tail -20 "$WT.logs/build1.log" >> "$OUT"; exit 2; fi
fi
if rundemo patched; then echo "demo_with_change: PASS" >> "$OUT"; else echo "demo_with_change: FAIL" >> "$OUT"; grep -E "^(--- FAIL|FAIL|panic:)" "$WT.logs/demo.patched.log" | head -5 >> "$OUT"; fi
if [ -n "${NOSUITE:-}" ]; then echo "suite: SKIPPED" >> "$OUT"; exit 0; fi
# suite with the change, without the demo
for d in "${demos[@]}"; do rm -f "$WT/$d"; done
( cd "$WT" && unshare -rn bash -c "ip link set lo up; go test -json -vet=off -count=1 -timeout 25m ./..." ) > "$WT.logs/suite.json" 2>"$WT.logs/suite.err"
python3 - "$WT.logs/suite.json" > "$WT.logs/missing.txt" <<'EOF'
import json,sys
b=json.load(open('/root/.vp/BASELINE.json'))
passed=set(); failed=set()
for line in open(sys.argv[1],errors='replace'):
    line=line.strip()
    if not line.startswith('{'): continue
    try: ev=json.loads(line)
    except Exception: continue
    a=ev.get('Action'); t=ev.get('Test')
    if t is None or a not in('pass','fail'): continue
    (passed if a=='pass' else failed).add(ev.get('Package','')+'::'+t)
passed-=failed
for t in sorted(set(b['stable_pass'])-passed): print(t)
EOF
try=1
while [ -s "$WT.logs/missing.txt" ] && [ $try -lt 3 ]; do
  try=$((try+1)); : > "$WT.logs/still.txt"
  while IFS= read -r t; do
    pkg=${t%%::*}; name=${t##*::}; top=${name%%/*}
    rel=${pkg#github.com/lni/dragonboat/v4}; rel=.${rel}
    if ! ( cd "$WT" && unshare -rn bash -c "ip link set lo up; go test -json -vet=off -count=1 -timeout 15m -run '^${top}\$' $rel" ) 2>/dev/null | grep -F "\"Test\":\"$name\"" | grep -q '"Action":"pass"'; then echo "$t" >> "$WT.logs/still.txt"; fi
  done < "$WT.logs/missing.txt"
  cp "$WT.logs/still.txt" "$WT.logs/missing.txt"
done
if [ -s "$WT.logs/missing.txt" ]; then echo "suite: FAIL (try $try) missing: $(head -5 "$WT.logs/missing.txt" | tr '\n' ' ')" >> "$OUT"; else echo "suite: PASS (try $try)" >> "$OUT"; fi
exit 0
