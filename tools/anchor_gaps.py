#!/usr/bin/env python3
"""anchor_gaps.py [OBLIGDIR] : development aid. For every non-test function of the files a property is anchored in, count
the obligations (of any property) whose position lies inside the function; print the functions nobody looks at.
OBLIGDIR is produced by DBCHECK_OBLIG_DIR=... dbcheck -prop all."""
import json,re,sys,glob,collections,os
od=sys.argv[1] if len(sys.argv)>1 else '/var/tmp/oblig'
pos=collections.defaultdict(lambda: collections.defaultdict(set))  # file -> line -> props
for f in glob.glob(od+'/*.oblig.json'):
    pid=os.path.basename(f)[:3]
    for o in json.load(open(f)):
        for m in re.finditer(r'([\w/\.]+\.go):(\d+)', o.get('pos','')+' '+o.get('detail','')+' '+o.get('construct','')):
            pos[m.group(1)][int(m.group(2))].add(pid)
def funcs(path):
    out=[]; cur=None
    for i,l in enumerate(open(path,errors='replace'),1):
        if l.startswith('func '):
            cur=[re.sub(r'\s*\{\s*$','',l.strip())[:100],i,i]
        if cur and l.startswith('}'):
            cur[2]=i; out.append(tuple(cur)); cur=None
    return out
props=[json.loads(l) for l in open('/verif/properties.jsonl')]
seen=set()
byfile=collections.defaultdict(list)
for p in props:
    for f in p['anchors']['files']:
        byfile[f].append(p['id'])
for f,pids in sorted(byfile.items()):
    path='/repo/'+f
    if not os.path.isfile(path): continue
    gaps=[]
    for name,lo,hi in funcs(path):
        n=sum(1 for x in pos.get(f,{}) if lo<=x<=hi)
        if n==0 and hi-lo>=4: gaps.append((name,lo,hi))
    print('==',f,' '.join(pids),'functions without obligations: %d'%len(gaps))
    for g in gaps: print('    %s  [%d-%d]'%g)
