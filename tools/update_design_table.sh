#!/bin/bash
# regenerate the seeded-detection table of DESIGN.md §11 from /var/tmp/seedmatrix/*.out (run tools/seedmatrix.sh first)
python3 /verif/tools/record_detect.py > /var/tmp/seedtable.md
python3 - <<'PY'
s=open('/verif/DESIGN.md').read()
t=open('/var/tmp/seedtable.md').read(); t=t[t.index('| seeded |'):].strip()
a=s.index('<!-- SEEDTABLE BEGIN'); a=s.index('\n',a)+1
b=s.index('<!-- SEEDTABLE END -->')
open('/verif/DESIGN.md','w').write(s[:a]+t+'\n'+s[b:])
PY
grep -c "not detected" /var/tmp/seedtable.md
