#!/usr/bin/env python3
"""claim.py ID 'technique' 'level text' ['level note'] : mark a property as claimed in props.json and regenerate MANIFEST.json"""
import json, sys, subprocess
pid, technique, text = sys.argv[1:4]
note = sys.argv[4] if len(sys.argv) > 4 else ("Trusted base: go/types, go/ssa and the VTA call graph of x/tools v0.29.0 over /repo's working tree (default build configuration in quick, four configurations in thorough); locks, fields and functions are abstracted to their declarations (no heap/alias analysis); fail-stop calls do not return; the anchored state is not reached via reflect/unsafe. The check decides only the structural clauses named above, not the behavioural statement.")
props = json.load(open('/verif/props.json'))
for p in props:
    if p['id'] == pid:
        p.clear()
        p.update({"id": pid, "claimed": True, "technique": technique, "level_text": text, "level_note": note})
json.dump(props, open('/verif/props.json', 'w'), indent=1)
subprocess.check_call(['python3', '/verif/gen_manifest.py'])
