#!/bin/bash
# intake.sh ROOT ID... : for each property id take the sub-agent's candidates ROOT/ID/out/{1,2}: record what the checks
# report on the patch as it stands today ("first try", before anything is written for it) into ROOT/first_try.txt, then
# confirm the candidate with verify_seed.sh (verify.txt next to the patch).
ROOT=$1; shift
for id in "$@"; do
  for k in 1 2; do
    d=$ROOT/$id/out/$k
    [ -f $d/patch.diff ] || continue
    if [ ! -f $d/first_try.txt ]; then
      DBCHECK=${DBCHECK:-/verif/bin/dbcheck} /verif/tools/trypatch.sh $d/patch.diff > $d/first_try.txt 2>&1
      echo "## $id/$k" >> $ROOT/first_try.txt; cut -c1-400 $d/first_try.txt >> $ROOT/first_try.txt
    fi
    [ -f $d/verify.txt ] || /verif/tools/verify_seed.sh $d
    echo "== $id/$k: $(tr '\n' ' ' < $d/verify.txt | cut -c1-300)"
  done
done
