#!/bin/bash
# mk_seedwork.sh ROOT : prepare a seeding round under ROOT (outside /repo and /verif): per property a directory with
# property.json, already_taken.txt (files/functions touched by every earlier seed of that property - nothing else from
# /verif), a scratch worktree of /repo HEAD and out/{1,2}; plus INSTRUCTIONS.md.
set -e
ROOT=$1; mkdir -p $ROOT
sed "s#ROOT/#$ROOT/#g" /verif/tools/seed_instructions.md > $ROOT/INSTRUCTIONS.md
python3 - "$ROOT" <<'P'
import json,sys,os,re,glob
root=sys.argv[1]
props={json.loads(l)['id']:json.loads(l) for l in open('/verif/properties.jsonl')}
for pid,p in props.items():
    d=f'{root}/{pid}'; os.makedirs(d+'/out/1',exist_ok=True); os.makedirs(d+'/out/2',exist_ok=True)
    json.dump(p,open(d+'/property.json','w'),indent=1)
    lines=[]
    for sd in sorted(glob.glob(f'/verif/seeded/{pid}-*')):
        cur=None; funcs={}
        for l in open(sd+'/patch.diff',errors='replace'):
            m=re.match(r'diff --git a/(\S+)',l)
            if m: cur=m.group(1); funcs.setdefault(cur,[]); continue
            m=re.match(r'@@ .* @@ (func .*)',l)
            if m and cur:
                f=re.sub(r'\s*\{?\s*$','',m.group(1))[:90]
                if f not in funcs[cur]: funcs[cur].append(f)
            m=re.match(r'[-+ ](func [^{]*)',l)
            if m and cur:
                f=m.group(1).strip()[:90]
                if f not in funcs[cur]: funcs[cur].append(f)
        for f,fs in funcs.items():
            lines.append(f'{f}: '+'; '.join(fs))
    open(d+'/already_taken.txt','w').write('\n'.join(lines)+'\n')
P
for i in $(seq -w 1 20); do git -C /repo worktree add --detach $ROOT/C$i/wt HEAD -q; done
git -C /repo worktree list | wc -l
