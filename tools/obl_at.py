#!/usr/bin/env python3
"""obl_at.py FILE LO HI [OBLIGDIR]: development aid - list the obligations (any property) whose position/detail mentions FILE:line with LO<=line<=HI."""
import json,re,sys,glob,os
f,lo,hi=sys.argv[1],int(sys.argv[2]),int(sys.argv[3]); od=sys.argv[4] if len(sys.argv)>4 else '/var/tmp/oblig'
seen=set()
for g in sorted(glob.glob(od+'/*.oblig.json')):
    pid=os.path.basename(g)[:3]
    for o in json.load(open(g)):
        s=o.get('pos','')+' '+o.get('detail','')+' '+o.get('construct','')
        for m in re.finditer(r'([\w/\.]+\.go):(\d+)', s):
            if m.group(1).endswith(f) and lo<=int(m.group(2))<=hi:
                k=(pid,o.get('rule'),o.get('construct'))
                if k not in seen:
                    seen.add(k); print(pid,o.get('rule'),'|',o.get('construct'),'|',o.get('pos'))
                break
