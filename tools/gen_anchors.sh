#!/bin/bash
# regenerate checker/anchors.json (descriptors of every function a rule asks for) from the PINNED /repo tree;
# run after adding rules that name new functions, never on a modified tree. Then rebuild.
set -e
cd /verif/checker
env -u GOWORK GOFLAGS=-mod=mod GOPROXY=off GOSUMDB=off GOTOOLCHAIN=local go build -o /verif/bin/dbcheck .
git -C /repo diff --quiet || { echo "/repo has local modifications"; exit 1; }
/verif/bin/dbcheck -survey anchors 2>/dev/null > /tmp/anchors.json.new; ANCHOR_FIELDS=1 /verif/bin/dbcheck -survey anchors 2>/dev/null > anchor_fields.json
python3 -c "import json;print(len(json.load(open('/tmp/anchors.json.new'))),'anchors')"
mv /tmp/anchors.json.new anchors.json
env -u GOWORK GOFLAGS=-mod=mod GOPROXY=off GOSUMDB=off GOTOOLCHAIN=local go build -o /verif/bin/dbcheck .
