#!/bin/bash
# runmut.sh PROP PATCHFILE [more dbcheck args] : apply a patch to a scratch copy of /repo and run the property's rules on it
set -u
PROP=$1; PATCH=$(readlink -f "$2"); shift 2
D=$(mktemp -d /var/tmp/runmut.XXXXXX)
trap 'rm -rf "$D"' EXIT
rsync -a --exclude=.git --exclude=single_nodehost_test_dir_safe_to_delete ${REPO:-/repo}/ "$D/repo/"
mkdir -p "$D/verif"
( cd "$D/repo" && GIT_DIR=/nonexistent git apply --whitespace=nowarn "$PATCH" ) || { echo "PATCH DOES NOT APPLY"; exit 3; }
if [ -n "${BUILD:-}" ]; then ( cd "$D/repo" && GOFLAGS=-mod=mod GOPROXY=off go build ./... ) || { echo "DOES NOT BUILD"; exit 4; }; fi
${DBCHECK:-/verif/bin/dbcheck} -prop "$PROP" -repo "$D/repo" -verif "$D/verif" -noselftest "$@" 2>&1 | grep -E "^ *(VIOLATION|UNDECIDED|KNOWN|property=)" | sed "s#$D/repo/##g"
exit 0
