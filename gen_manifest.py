#!/usr/bin/env python3
"""Regenerates /verif/MANIFEST.json from props.json (the per-property claim texts)."""
import json, os
here = os.path.dirname(os.path.abspath(__file__))
props = json.load(open(os.path.join(here, "props.json")))
base = json.load(open("/root/.vp/BASELINE.json"))
checks = []
na = []
for p in props:
    if not p.get("claimed"):
        na.append({"property_id": p["id"], "reason": p["reason"]})
        continue
    checks.append({
        "property_id": p["id"],
        "quick_cmd": "/verif/bin/dbcheck -prop %s -tier quick" % p["id"],
        "thorough_cmd": "/verif/bin/dbcheck -prop %s -tier thorough" % p["id"],
        "evidence_file": "/verif/evidence/%s.json" % p["id"],
        "replay_cmd_template": "/verif/bin/dbcheck -prop %s -replay {path}" % p["id"],
        "engine": "dbcheck",
        "level_claimed": {"category": "other", "text": p["level_text"], "design_ref": p.get("design_ref", "DESIGN.md §4 " + p["id"])},
        "level_note": p["level_note"],
        "technique": p["technique"],
    })
m = {
    "version": 1,
    "setup_cmd": "cd /verif/checker && env -u GOWORK GOFLAGS=-mod=mod GOPROXY=off GOSUMDB=off GOTOOLCHAIN=local go build -o /verif/bin/dbcheck .",
    "hooks": {
        "guard": "verif",
        "enable": "none: static analysis needs no instrumentation of lni/dragonboat; checks load /repo's working tree as is",
        "baseline_off_cmd": base["cmd"],
        "source_commits": [],
        "add_only": True,
    },
    "engines": [{
        "name": "dbcheck",
        "path": "/verif/checker",
        "serves_properties": [c["property_id"] for c in checks],
        "kind_free_text": "repository-specific static analyser (go/packages + go/ssa + VTA call graph, x/tools v0.29.0): guard-dominance with polarity, must-pass-through, who-may-write/call, lockset, storage error discipline, ownership, table/enum exhaustiveness, taint",
    }],
    "checks": checks,
    "notes": "Every claim is level 'other': the check decides structural necessary conditions of the property (named in level_claimed.text and DESIGN.md §4) from /repo's source on every run; it never runs dragonboat code and does not decide the behavioural statement itself.",
    "not_applicable": na,
}
json.dump(m, open(os.path.join(here, "MANIFEST.json"), "w"), indent=1)
print("checks:", len(checks), "not_applicable:", len(na))
