package main

import (
	"go/types"

	"golang.org/x/tools/go/ssa"
)

func init() {
	register(&Property{
		ID:          "C06",
		Explanation: "Decides structural necessary conditions of ReadIndex safety: the leader records a ReadIndex request only after the 'committed an entry in the current term' test (and never for a witness); every producer of a ready-to-read record is one of the three classified shapes (single-node leader, quorum-confirmed request, leader's ReadIndexResp); the confirmation routine releases requests only on the quorum-reached edge, is fed r.quorum() and counts distinct senders; every role or term change passes reset, which discards the pending read table on every path; ReadIndex context hints go to voting members only; the client-side release happens only under index>0 && index<=applied. Does not decide freshness over schedules.",
		NotCovered:  "that the captured commit index is fresh under arbitrary message schedules and deposed leaders",
		Run:         runC06,
	})
}

func runC06(e *Engine, r *Report) {
	hasCommitted := r.need(raftT + "hasCommittedEntryAtCurrentTerm")
	single := r.need(raftT + "isSingleNodeQuorum")
	addReq := r.need("(*internal/raft.readIndex).addRequest")
	confirm := r.need("(*internal/raft.readIndex).confirm")
	addReady := r.need(raftT + "addReadyToRead")
	reset := r.need(raftT + "reset")
	quorum := r.need(raftT + "quorum")
	newRI := r.need("internal/raft.newReadIndex")
	witnesses := r.needField("internal/raft", "raft", "witnesses")
	readIndexF := r.needField("internal/raft", "raft", "readIndex")
	termF := r.needField("internal/raft", "raft", "term")
	committedF := r.needField("internal/raft", "entryLog", "committed")
	msgFrom := r.needField("raftpb", "Message", "From")
	msgLogIndex := r.needField("raftpb", "Message", "LogIndex")
	rsIndex := r.needField("internal/raft", "readStatus", "index")
	if hasCommitted == nil || single == nil || addReq == nil || confirm == nil || addReady == nil || reset == nil ||
		quorum == nil || newRI == nil || witnesses == nil || readIndexF == nil || termF == nil || committedF == nil ||
		msgFrom == nil || msgLogIndex == nil || rsIndex == nil {
		return
	}
	tbl, err := e.RaftHandlerTable()
	if err != nil {
		r.undecided("TBL", "raft.handlers", err.Error())
		return
	}

	witnessLookup := func(v ssa.Value) bool {
		ex, ok := v.(*ssa.Extract)
		if !ok || ex.Index != 1 {
			return false
		}
		lk, ok := ex.Tuple.(*ssa.Lookup)
		return ok && fieldV(witnesses)(lk.X)
	}

	// ---- leader records a request only when it has committed in its term
	n := 0
	for _, s := range e.CallerSites(addReq) {
		n++
		key := "readIndex.addRequest in " + fname(s.Parent())
		r.guard("GD-readindex-accept", key, s.(ssa.Instruction),
			reqBool("hasCommittedEntryAtCurrentTerm() is true", e.callV(hasCommitted), true),
			reqBool("requester is not a witness", witnessLookup, false))
		// the recorded index is the commit index
		// (the argument that ends up in readStatus.index, wherever it sits in the parameter list)
		okIdx := false
		rsIndex := e.Field("internal/raft", "readStatus", "index")
		forEachInstr(addReq, func(in ssa.Instruction) {
			st, isS := in.(*ssa.Store)
			if !isS {
				return
			}
			if f, _, isF := fieldOfAddr(st.Addr); !isF || f != rsIndex {
				return
			}
			if p, isP := st.Val.(*ssa.Parameter); isP {
				for pi, q := range addReq.Params {
					if q == p && pi < len(s.Common().Args) && fieldV(committedF)(s.Common().Args[pi]) {
						okIdx = true
					}
				}
			}
		})
		r.check(okIdx, "GD-readindex-accept", key+" records entryLog.committed", e.ipos(s),
			"the recorded read index is the current commit index", "the recorded read index is not entryLog.committed")
		// only from the leader's ReadIndex cell
		for _, c := range e.CellsReaching(tbl, s.Parent()) {
			r.check(c.State == "leader" && c.Type == "ReadIndex", "WMC-readindex-accept", key+" reached from cell "+c.State+"/"+c.Type, e.ipos(s),
				"request recording is driven by the leader's ReadIndex cell", "request recording is reachable from another role or message type")
		}
	}
	r.floor("GD-readindex-accept", n, 1)

	// the 'committed in own term' predicate compares the term of the commit
	// index with raft.term
	okPred := e.returnDependsOn(hasCommitted, isFieldLoad(termF), 1) && e.returnDependsOn(hasCommitted, isFieldLoad(committedF), 1)
	eqShape := false
	forEachInstr(hasCommitted, func(in ssa.Instruction) {
		if ret, ok := in.(*ssa.Return); ok {
			if hasCmpFact([]Fact{{retOperand(ret, 0), true}}, "==", anyV(), fieldV(termF)) {
				eqShape = true
			}
		}
	})
	r.check(okPred && eqShape, "DEP-readindex-term", fname(hasCommitted)+" compares term(committed) == raft.term", e.pos(hasCommitted.Pos()),
		"predicate is an equality between the committed entry's term and raft.term",
		"predicate no longer is `term(committed) == raft.term`")

	// ---- producers of ready-to-read records
	n = 0
	for _, s := range e.CallerSites(addReady) {
		n++
		args := s.Common().Args
		if len(args) < 2 {
			continue
		}
		idx := args[1]
		key := "addReadyToRead in " + fname(s.Parent())
		cells := e.CellsReaching(tbl, s.Parent())
		switch {
		case fieldV(committedF)(idx):
			r.guard("WMC-ready-producer", key+" (single-node leader)", s.(ssa.Instruction),
				reqBool("isSingleNodeQuorum() is true", e.callV(single), true))
			for _, c := range cells {
				r.check(c.State == "leader" && c.Type == "ReadIndex", "WMC-ready-producer", key+" (single-node leader) from cell "+c.State+"/"+c.Type, e.ipos(s),
					"driven by the leader's ReadIndex cell", "reachable from another cell")
			}
		case fieldV(rsIndex)(idx):
			// must come out of confirm(): the function calls confirm and ranges over its result
			has := len(e.SitesIn(s.Parent(), confirm)) > 0
			dep := e.dependsOn(idx, e.callV(confirm), 0)
			r.check(has && dep, "WMC-ready-producer", key+" (quorum confirmed)", e.ipos(s),
				"the released index belongs to a request returned by readIndex.confirm",
				"a readStatus index is released without coming from readIndex.confirm")
			for _, c := range cells {
				r.check(c.State == "leader" && c.Type == "HeartbeatResp", "WMC-ready-producer", key+" (quorum confirmed) from cell "+c.State+"/"+c.Type, e.ipos(s),
					"confirmation is driven by heartbeat responses on the leader", "confirmation reachable from another cell")
			}
		case fieldV(msgLogIndex)(idx):
			for _, c := range cells {
				r.check((c.State == "follower" || c.State == "nonVoting") && c.Type == "ReadIndexResp", "WMC-ready-producer", key+" (leader's ReadIndexResp) from cell "+c.State+"/"+c.Type, e.ipos(s),
					"driven by a ReadIndexResp on a follower/non-voting member", "a message index is released from another cell")
			}
			r.check(len(cells) > 0, "WMC-ready-producer", key+" (leader's ReadIndexResp)", e.ipos(s), "reachable from ReadIndexResp cells", "not reachable from any cell")
		default:
			r.bad("WMC-ready-producer", key+" (unclassified)", e.ipos(s), "unclassified producer of a ready-to-read record: index "+e.describeValue(idx))
		}
	}
	r.floor("WMC-ready-producer", n, 3)

	// ---- confirm: release only on the quorum edge
	var qParam *ssa.Parameter
	for _, p := range confirm.Params {
		if b, ok := p.Type().Underlying().(*types.Basic); ok && b.Kind() == types.Int {
			qParam = p
		}
	}
	if qParam == nil {
		r.undecided("GD-confirm", fname(confirm), "quorum parameter (int) not found")
	} else {
		n = 0
		forEachInstr(confirm, func(in ssa.Instruction) {
			ret, ok := in.(*ssa.Return)
			if !ok || isNilConst(retOperand(ret, 0)) {
				return
			}
			n++
			r.guard("GD-confirm", "non-empty return of "+fname(confirm), in,
				reqCmp("confirmations+1 >= quorum", ">=", anyV(), func(v ssa.Value) bool { return stripConv(v) == ssa.Value(qParam) }))
		})
		r.floor("GD-confirm", n, 1)
		ruleConfirmPrefix(e, r)
		// the lhs of that comparison counts distinct confirmed senders (+1 for self)
		confirmedF := e.Field("internal/raft", "readStatus", "confirmed")
		okCount := false
		isIntParam := func(v ssa.Value) bool {
			p, ok := v.(*ssa.Parameter) // unbound: the quorum parameter of confirm or of a helper it passes it to
			if !ok {
				return false
			}
			bt, isB := p.Type().Underlying().(*types.Basic)
			return isB && bt.Kind() == types.Int
		}
		e.forEachInstrRegion(confirm, 2, func(in ssa.Instruction) {
			b, ok := in.(*ssa.BinOp)
			if !ok || cmpString(b.Op) == "" {
				return
			}
			side := b.X
			if isIntParam(b.X) {
				side = b.Y
			} else if !isIntParam(b.Y) {
				return
			}
			if e.dependsOn(side, func(v ssa.Value) bool { return lenOfV(fieldV(confirmedF))(v) }, 0) {
				if add, ok := stripConv(side).(*ssa.BinOp); ok && intConstV(1)(add.Y) {
					okCount = true
				}
			}
		})
		r.check(okCount, "GD-confirm", fname(confirm)+" counts len(confirmed)+1", e.pos(confirm.Pos()),
			"the quorum test counts the distinct confirming senders plus the leader itself",
			"the quorum test no longer counts len(confirmed)+1")
		// confirmed is keyed by the sender
		okKey := false
		for _, w := range e.FieldWrites(confirmedF) {
			if w.Kind == "mapupdate" && w.Fn == confirm {
				if p, ok := stripConv(w.Key).(*ssa.Parameter); ok && p.Name() == "from" {
					okKey = true
				}
			}
		}
		r.check(okKey, "GD-confirm", fname(confirm)+" records the sender", e.pos(confirm.Pos()),
			"confirmations are keyed by sender id (a sender is counted once)", "confirmations are not keyed by the sender")
		for _, s := range e.CallerSites(confirm) {
			args := s.Common().Args
			okq := len(args) >= 4 && e.callV(quorum)(args[3])
			okf := len(args) >= 4 && fieldV(msgFrom)(args[2])
			r.check(okq && okf, "GD-confirm", "confirm(ctx, m.From, r.quorum()) in "+fname(s.Parent()), e.ipos(s),
				"the confirmation is fed the message sender and the current quorum", "confirm is not called with (m.From, r.quorum())")
		}
	}

	// ---- reset discards pending reads on every path
	res := e.findPath(reset, nil, isReturn, func(in ssa.Instruction) bool {
		st, ok := in.(*ssa.Store)
		if !ok {
			return false
		}
		f, _, ok := fieldOfAddr(st.Addr)
		return ok && f == readIndexF && e.callV(newRI)(st.Val)
	}, nil)
	r.check(!res.Found, "MPT-reset-readindex", fname(reset)+" re-creates raft.readIndex", e.pos(reset.Pos()),
		"every path through reset replaces the pending-read table", "a path through reset keeps the pending-read table of the previous role/term")
	// other writers of raft.readIndex: only reset and construction
	for _, w := range e.FieldWrites(readIndexF) {
		if w.Kind == "init" {
			continue
		}
		r.check(e.callV(newRI)(w.Val), "WMW-readindex", "raft.readIndex written in "+fname(w.Fn), e.ipos(w.Instr),
			"the table is only ever replaced by a fresh one", "raft.readIndex is assigned something other than a fresh table")
	}

	// ---- ctx hints go to voting members only
	ruleHintVoting(e, r)
	ruleAppliedArg(e, r)

	// ---- client side: release only when applied has reached the index
	ruleReadRelease(e, r)
	ruleReadBatchCopy(e, r)
	ruleSingleNodeQuorum(e, r)
	ruleRaftPredicates(e, r, "hasCommittedEntryAtCurrentTerm")
	ruleReadyKeyedByCtx(e, r)
	borrow(e, r, "C03", "GD-campaign-pred")
	borrow(e, r, "C01", "MPT-lastapplied-after-apply")
	ruleConfirmFromAllVoters(e, r)
	ruleReadIndexRespIndex(e, r)
	ruleHeartbeatRespProducer(e, r)
	ruleResponseTypes(e, r, "ReadIndexResp", "HeartbeatResp")
}
