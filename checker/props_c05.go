package main

import (
	"go/types"

	"golang.org/x/tools/go/ssa"
)

func init() {
	register(&Property{
		ID:          "C05",
		Explanation: "Decides structural necessary conditions of at-most-once session semantics: in the function that applies a session-managed proposal the user state machine is updated only after the session lookup succeeded (unless it is the no-op session), only on the 'update required' outcome and never on the 'already responded' outcome; every path from a successful update to a normal exit with a session records the result (unconditionally - the record is also the 'already applied' marker); the unknown-session path reports rejected without reaching the state machine; the responded-to watermark is advanced before the dedup test; the dedup test itself still consults the watermark and the history; session state is written only by Session methods; the session table is part of every snapshot, written before and read before the user payload, with every persisted field restored; serialisation is order-deterministic. Does not decide at-most-once over all operation sequences. The session image written into a snapshot is serialised from the live table on every successful path.",
		NotCovered:  "dedup over arbitrary op sequences, cut points and LRU eviction orders; JSON encoding details (encoding/json sorts map keys: trusted)",
		Run:         runC05,
	})
}

func runC05(e *Engine, r *Report) {
	// borrowed mechanisms (session 6, round 8): the session image and the user data of one snapshot are captured in the same critical section as Prepare (C11)
	borrow(e, r, "C11", "LS-usersm")
	defer ruleSessionTableOnly(e, r)
	const smT = "(*internal/rsm.StateMachine)."
	mgrUpdate := r.needMethod("internal/rsm", "IManagedStateMachine", "Update")
	reg := r.need("(*internal/rsm.SessionManager).ClientRegistered")
	upReq := r.need("(*internal/rsm.SessionManager).UpdateRequired")
	upResp := r.need("(*internal/rsm.SessionManager).UpdateRespondedTo")
	addResp := r.need("(*internal/rsm.Session).addResponse")
	isNoOP := r.need("(*raftpb.Entry).IsNoOPSession")
	if mgrUpdate == nil || reg == nil || upReq == nil || upResp == nil || addResp == nil || isNoOP == nil {
		return
	}
	extractOf := func(fn *ssa.Function, idx int) VM {
		return func(v ssa.Value) bool {
			ex, ok := v.(*ssa.Extract)
			if !ok || ex.Index != idx {
				return false
			}
			c, ok := ex.Tuple.(*ssa.Call)
			return ok && e.CallsTo(c, fn)
		}
	}
	// the function(s) that update the SM for a single session-managed entry
	n := 0
	for _, fn := range e.ScopeFuncs() {
		if fnPkg(fn) != e.pkgTypes("internal/rsm") || !e.IsLive(fn) {
			continue
		}
		// fn decides (session lookup, duplicate test) and updates: both may sit in
		// fn or in helpers it calls; take the innermost function whose region has both
		decide := fn
		region := e.regionOf(decide, 2)
		updFns := map[*ssa.Function]bool{}
		var sites []ssa.CallInstruction
		var testFns []*ssa.Function
		for _, g := range region {
			for _, s := range e.MethodSitesIn(g, mgrUpdate) {
				sites = append(sites, s)
				updFns[g] = true
			}
			if len(e.SitesIn(g, upReq)) > 0 {
				testFns = append(testFns, g)
			}
		}
		if len(sites) == 0 || len(testFns) == 0 {
			continue
		}
		innermost := true
		for _, g := range region {
			if g == fn || g.Parent() != nil {
				continue
			}
			hasU, hasT := false, false
			for _, h := range e.regionOf(g, 2) {
				if len(e.MethodSitesIn(h, mgrUpdate)) > 0 {
					hasU = true
				}
				if len(e.SitesIn(h, upReq)) > 0 {
					hasT = true
				}
			}
			if hasU && hasT {
				innermost = false
			}
		}
		if !innermost {
			continue
		}
		reachesUpdate := func(x ssa.Instruction) bool {
			c, ok := x.(ssa.CallInstruction)
			if !ok {
				return false
			}
			if e.IsMethodCall(c, mgrUpdate) {
				return true
			}
			for _, g := range e.Callees(c) {
				if updFns[g] {
					return true
				}
			}
			return false
		}
		for _, s := range sites {
			n++
			fn := s.Parent()
			key := "state machine Update in " + fname(fn)
			in := s.(ssa.Instruction)
			// registered, unless no-op session
			r.guard("GD-session", key, in,
				reqAny("session is registered (ClientRegistered ok) or the entry uses the no-op session",
					reqBool("", extractOf(reg, 1), true), reqBool("", e.callV(isNoOP), true)),
				reqAny("UpdateRequired says not already responded, or no-op session",
					reqBool("", extractOf(upReq, 1), false), reqBool("", e.callV(isNoOP), true)),
				reqAny("UpdateRequired says update needed, or no-op session",
					reqBool("", extractOf(upReq, 2), true), reqBool("", e.callV(isNoOP), true)))
			// after a successful update, with a session, the response is recorded on every path
			c, ok := s.(*ssa.Call)
			if !ok {
				continue
			}
			res := e.findPath(fn, c, func(x ssa.Instruction) bool { return e.isSuccessReturn(x) }, func(x ssa.Instruction) bool {
				cc, ok := x.(*ssa.Call)
				return ok && e.CallsTo(cc, addResp)
			}, func(p, s2 *ssa.BasicBlock) bool {
				// the only legitimate bypass: session == nil (no-op session)
				fs := expandFacts(edgeOnly(p, s2))
				for _, f := range fs {
					if b, ok := f.V.(*ssa.BinOp); ok && isNilConst(b.Y) {
						if pt, ok := b.X.Type().(*types.Pointer); ok {
							if nt, ok := pt.Elem().(*types.Named); ok && nt.Obj().Name() == "Session" {
								isNil := (b.Op.String() == "==" && f.Pol) || (b.Op.String() == "!=" && !f.Pol)
								if isNil {
									return false
								}
							}
						}
					}
				}
				return true
			})
			var w []string
			if res.Found {
				w = []string{"exit at " + e.ipos(res.Target)}
			}
			r.check(!res.Found, "MPT-session-record", key+" is followed by session.addResponse", e.ipos(s),
				"the result of every applied session proposal is recorded (it is also the 'already applied' marker)",
				"a path returns success after updating the state machine without recording the result in the session: a retry would be applied again", w...)
			// the recorded value is the update's result and the key is the entry's series id
			for _, as := range e.SitesIn(fn, addResp) {
				args := as.Common().Args
				okv := len(args) >= 3 && e.dependsOn(args[2], func(v ssa.Value) bool { return v == ssa.Value(c) }, 0)
				series := e.Field("raftpb", "Entry", "SeriesID")
				okk := len(args) >= 3 && e.dependsOn(args[1], func(v ssa.Value) bool { return fieldV(series)(v) }, 0)
				r.check(okv && okk, "MPT-session-record", "addResponse(e.SeriesID, update result) in "+fname(fn), e.ipos(as),
					"the recorded response is the state machine's result keyed by the entry's series id", "the recorded response is not the update's result keyed by the entry's series id")
			}
			// the watermark is advanced before the dedup test
			for _, tf := range testFns {
				for _, us := range e.SitesIn(tf, upReq) {
					okd := false
					for _, ws := range e.SitesIn(tf, upResp) {
						if dominatesInstr(ws.(ssa.Instruction), us.(ssa.Instruction)) {
							okd = true
						}
					}
					if !okd {
						// the watermark is advanced by the caller before the helper holding the test runs
						isResp := func(x ssa.Instruction) bool {
							c, ok := x.(*ssa.Call)
							return ok && e.CallsTo(c, upResp)
						}
						okd, _ = e.alwaysPrecededBy(us.(ssa.Instruction), isResp, 2)
					}
					r.check(okd, "MPT-session-record", "UpdateRespondedTo precedes UpdateRequired in "+fname(tf), e.ipos(us),
						"acknowledged results are discarded before the duplicate test", "the responded-to watermark is no longer advanced before the duplicate test")
				}
			}
		}
		// the not-registered edge returns rejected without reaching the SM
		for _, tfn := range e.regionOf(fn, 2) {
			fn := tfn
			// which result of fn carries `rejected`: result #2 of the 4-result update function,
			// or the result of a helper that the update function returns as its #2
			rejIdx := -1
			if fn.Signature.Results().Len() == 4 {
				rejIdx = 2
			} else {
				for _, cs := range e.CallerSites(fn) {
					c, ok := cs.(*ssa.Call)
					if !ok || c.Parent().Signature.Results().Len() != 4 || c.Referrers() == nil {
						continue
					}
					forEachInstr(c.Parent(), func(x ssa.Instruction) {
						ret, ok := x.(*ssa.Return)
						if !ok || len(ret.Results) != 4 {
							return
						}
						if ex, ok := retOperand(ret, 2).(*ssa.Extract); ok && ex.Tuple == ssa.Value(c) {
							rejIdx = ex.Index
						}
					})
				}
			}
			forEachInstr(fn, func(in ssa.Instruction) {
				ifi, ok := in.(*ssa.If)
				if !ok {
					return
				}
				if !extractOf(reg, 1)(ifi.Cond) {
					return
				}
				fsucc := in.Block().Succs[1]
				if len(fsucc.Instrs) == 0 {
					return
				}
				res := e.findPath(fn, fsucc.Instrs[0], reachesUpdate, nil, nil)
				if reachesUpdate(fsucc.Instrs[0]) {
					res.Found = true
				}
				r.check(!res.Found, "GD-session", "unknown session never reaches the state machine in "+fname(fn), e.ipos(in),
					"a proposal of an unregistered/evicted session is rejected without touching the state machine", "the unknown-session path can reach the state machine update")
				// and it reports rejected=true
				okRej := false
				if rejIdx < 0 {
					// the outcome travels in a result struct: on the unknown-session edge a bool field of the returned struct is set to true
					forEachInstr(fn, func(x ssa.Instruction) {
						ret, ok := x.(*ssa.Return)
						if !ok || len(ret.Results) == 0 {
							return
						}
						if g, _ := e.guardedOnAllPaths(x, reqBool("", extractOf(reg, 1), false)); !g {
							return
						}
						u, ok := retOperand(ret, 0).(*ssa.UnOp)
						if !ok {
							return
						}
						al, ok := u.X.(*ssa.Alloc)
						if !ok {
							return
						}
						for _, sv := range storesInto(al) {
							if cb, isC := isConstBool(sv); isC && cb {
								okRej = true
							}
						}
					})
				}
				forEachInstr(fn, func(x ssa.Instruction) {
					ret, ok := x.(*ssa.Return)
					if !ok || rejIdx < 0 || len(ret.Results) <= rejIdx {
						return
					}
					g, _ := e.guardedOnAllPaths(x, reqBool("", extractOf(reg, 1), false))
					if g {
						if cb, isC := isConstBool(retOperand(ret, rejIdx)); isC && cb {
							okRej = true
						}
					}
				})
				r.check(okRej, "GD-session", "unknown session is reported rejected in "+fname(fn), e.ipos(in), "rejected=true on the unknown-session path", "the unknown-session path no longer reports rejected")
			})
		}
	}
	r.floor("GD-session", n, 1)

	// ---- the dedup test consults the watermark and the history
	hasResp := r.helper("(*internal/rsm.Session).hasResponded")
	getResp := r.helper("(*internal/rsm.Session).getResponse")
	if hasResp != nil && getResp != nil {
		r.check(len(e.SitesIn(upReq, hasResp)) > 0 && len(e.SitesIn(upReq, getResp)) > 0, "DEP-dedup", "UpdateRequired consults hasResponded and getResponse", e.pos(upReq.Pos()),
			"duplicates are recognised by the watermark and by the recorded responses", "UpdateRequired no longer consults both the watermark and the response history")
		upTo := e.Field("internal/rsm", "Session", "RespondedUpTo")
		okw := false
		forEachInstr(hasResp, func(in ssa.Instruction) {
			if ret, ok := in.(*ssa.Return); ok {
				if hasCmpFactExact([]Fact{{retOperand(ret, 0), true}}, "<=", func(v ssa.Value) bool { p, ok := stripConv(v).(*ssa.Parameter); return ok && p.Name() == "id" }, fieldV(upTo)) {
					okw = true
				}
			}
		})
		r.check(okw, "DEP-dedup", "hasResponded is id <= RespondedUpTo", e.pos(hasResp.Pos()), "late duplicates at or below the watermark are ignored", "hasResponded is no longer `id <= RespondedUpTo`")
		// UpdateRequired's three outcomes: responded -> (_, true, false); recorded -> (v, false, false); else (_, false, true)
		okOut := 0
		forEachInstr(upReq, func(in ssa.Instruction) {
			ret, ok := in.(*ssa.Return)
			if !ok || len(ret.Results) < 3 {
				return
			}
			b1, c1 := isConstBool(retOperand(ret, 1))
			b2, c2 := isConstBool(retOperand(ret, 2))
			if !c1 || !c2 {
				return
			}
			fs := FactsAt(in)
			switch {
			case b1 && !b2:
				if hasBoolFact(fs, e.callV(hasResp), true) {
					okOut |= 1
				}
			case !b1 && !b2:
				if hasBoolFact(fs, extractOf(getResp, 1), true) && hasBoolFact(fs, e.callV(hasResp), false) {
					okOut |= 2
				}
			case !b1 && b2:
				if hasBoolFact(fs, extractOf(getResp, 1), false) && hasBoolFact(fs, e.callV(hasResp), false) {
					okOut |= 4
				}
			default:
				okOut |= 8
			}
		})
		r.check(okOut == 7, "DEP-dedup", "UpdateRequired has exactly the three outcomes (responded / recorded / new)", e.pos(upReq.Pos()),
			"already-acknowledged => ignore; recorded => return cached result; otherwise apply", "UpdateRequired's outcome table changed")
	}
	// clearTo: advances the watermark and prunes the history up to it
	if ct := r.need("(*internal/rsm.Session).clearTo"); ct != nil {
		upTo := e.Field("internal/rsm", "Session", "RespondedUpTo")
		okAll := true
		cnt := 0
		for _, w := range e.FieldWrites(upTo) {
			if w.Fn != ct {
				continue
			}
			cnt++
			if p, ok := stripConv(w.Val).(*ssa.Parameter); !ok || p.Name() != "to" {
				okAll = false
			}
			if g, _ := e.guardedOnAllPaths(w.Instr, reqCmp("", ">", func(v ssa.Value) bool { p, ok := stripConv(v).(*ssa.Parameter); return ok && p.Name() == "to" }, fieldV(upTo))); !g {
				okAll = false
			}
		}
		r.check(okAll && cnt > 0, "DEP-dedup", "clearTo only moves the watermark forward, to the acknowledged id", e.pos(ct.Pos()),
			"the watermark is monotone", "clearTo can move the watermark backwards or to a value other than the acknowledged id")
	}

	// ---- session state writers
	sessT := e.Named("internal/rsm", "Session")
	for _, fn := range []string{"History", "RespondedUpTo", "ClientID"} {
		fld := e.Field("internal/rsm", "Session", fn)
		for _, w := range e.FieldWrites(fld) {
			if w.Kind == "init" {
				continue
			}
			okw := false
			if recv := w.Fn.Signature.Recv(); recv != nil && sessT != nil {
				t := recv.Type()
				if p, ok := t.(*types.Pointer); ok {
					t = p.Elem()
				}
				okw = types.Identical(t, sessT)
			}
			r.check(okw, "WMW-session", "Session."+fn+" written in "+fname(w.Fn), e.ipos(w.Instr), "session state is written only by Session methods", "session state is written from outside the Session type")
		}
	}
	// ---- restore covers every persisted field: either unmarshal into the receiver, or all exported fields assigned
	if rec := r.need("(*internal/rsm.Session).recoverFromSnapshot"); rec != nil {
		whole := false
		forEachCall(rec, func(s ssa.CallInstruction) {
			sc := s.Common().StaticCallee()
			if sc == nil || sc.Name() != "Unmarshal" || len(s.Common().Args) < 2 {
				return
			}
			// second arg is the receiver converted to interface
			a := s.Common().Args[1]
			if mi, ok := a.(*ssa.MakeInterface); ok {
				if p, ok := mi.X.(*ssa.Parameter); ok && p == rec.Params[0] {
					whole = true
				}
			}
		})
		assigned := map[string]bool{}
		for _, fn := range []string{"History", "RespondedUpTo", "ClientID"} {
			for _, w := range e.FieldWrites(e.Field("internal/rsm", "Session", fn)) {
				if w.Fn == rec {
					assigned[fn] = true
				}
			}
		}
		r.check(whole && len(assigned) == 0 || len(assigned) == 3, "TBL-session-restore", "Session.recoverFromSnapshot (V2) restores all persisted fields", e.pos(rec.Pos()),
			"ClientID, RespondedUpTo and History all come back from the snapshot", "the V2 restore path assigns only {"+keysOf(assigned)+"}: a dropped watermark/history makes late duplicates apply again")
		if v1 := r.need("(*internal/rsm.Session).recoverFromV1Snapshot"); v1 != nil {
			a1 := map[string]bool{}
			for _, fn := range []string{"History", "RespondedUpTo", "ClientID"} {
				for _, w := range e.FieldWrites(e.Field("internal/rsm", "Session", fn)) {
					if w.Fn == v1 {
						a1[fn] = true
					}
				}
			}
			r.check(len(a1) == 3, "TBL-session-restore", "Session.recoverFromV1Snapshot restores all persisted fields", e.pos(v1.Pos()), "all three fields", "the V1 restore path assigns only {"+keysOf(a1)+"}")
		}
	}
	// ---- sessions are part of every snapshot, first in the stream, restored first
	if gm := r.need(smT + "getSSMeta"); gm != nil {
		save := r.need("(*internal/rsm.SessionManager).SaveSessions")
		if save != nil {
			res := e.findPath(gm, nil, func(x ssa.Instruction) bool { return e.isSuccessReturn(x) }, func(x ssa.Instruction) bool {
				c, ok := x.(*ssa.Call)
				return ok && e.CallsTo(c, save)
			}, nil)
			r.check(!res.Found, "MPT-session-snapshot", "getSSMeta always captures the session table", e.pos(gm.Pos()), "every snapshot carries the sessions as of its index", "snapshot metadata can be produced without the session table")
		}
	}
	userSave := r.needMethod("internal/rsm", "IStateMachine", "Save")
	for _, nm := range []string{"(*internal/rsm.NativeSM).save", "?(*internal/rsm.NativeSM).saveDummy"} {
		var fn *ssa.Function
		if nm[0] == '?' {
			nm = nm[1:]
			if fn = r.helper(nm); fn == nil {
				// inlined into the managed Save: the dummy branch writes the session bytes there
				fn = r.need("(*internal/rsm.NativeSM).Save")
			}
		} else {
			fn = r.need(nm)
		}
		if fn == nil {
			continue
		}
		// the first write to w carries the session bytes; the user Save comes after it
		var wr ssa.CallInstruction
		forEachCall(fn, func(s ssa.CallInstruction) {
			if wr == nil && s.Common().IsInvoke() && s.Common().Method.Name() == "Write" {
				wr = s
			}
		})
		okw := wr != nil && func() bool {
			p, ok := wr.Common().Args[0].(*ssa.Parameter)
			return ok && p.Name() == "session"
		}()
		r.check(okw, "MPT-session-snapshot", nm+" writes the session bytes first", e.pos(fn.Pos()), "sessions lead the snapshot stream", "the session table is no longer the first thing written to the snapshot stream")
		for _, s := range e.MethodSitesIn(fn, userSave) {
			r.check(wr != nil && dominatesInstr(wr.(ssa.Instruction), s.(ssa.Instruction)), "MPT-session-snapshot", "user SaveSnapshot after the session bytes in "+nm, e.ipos(s),
				"user payload follows the sessions", "the user payload can be written before the session table")
		}
	}
	if ld := r.need("(*dragonboat.snapshotter).Load"); ld != nil {
		ls := e.Method("internal/rsm", "ILoadable", "LoadSessions")
		rc := e.Method("internal/rsm", "IRecoverable", "Recover")
		lss, rcs := e.MethodSitesIn(ld, ls), e.MethodSitesIn(ld, rc)
		okOrder := len(lss) > 0 && len(rcs) > 0
		for _, rs := range rcs {
			dom := false
			for _, l := range lss {
				if dominatesInstr(l.(ssa.Instruction), rs.(ssa.Instruction)) {
					dom = true
				}
			}
			if !dom {
				okOrder = false
			}
		}
		r.check(okOrder, "MPT-session-snapshot", "snapshotter.Load restores sessions before the user payload", e.pos(ld.Pos()),
			"reader order matches writer order", "the reader no longer loads the session table before handing the stream to the user state machine")
	}
	// ---- serialisation order: lrusession.save iterates OrderedDo
	if sv := r.need("(*internal/rsm.lrusession).save"); sv != nil {
		okO := false
		hasRange := false
		// save and the helpers it is split into
		e.forEachInstrRegion(sv, 2, func(in ssa.Instruction) {
			if s, ok := in.(ssa.CallInstruction); ok {
				if sc := s.Common().StaticCallee(); sc != nil && sc.Name() == "OrderedDo" {
					okO = true
				}
			}
			if rg, ok := in.(*ssa.Range); ok {
				if _, isMap := rg.X.Type().Underlying().(*types.Map); isMap {
					if oi, _ := e.orderIndependentRange(rg); !oi {
						hasRange = true
					}
				}
			}
		})
		r.check(okO && !hasRange, "DET-session", "lrusession.save walks the sessions in cache order (OrderedDo), not map order", e.pos(sv.Pos()),
			"identical tables serialise identically on every replica", "session serialisation no longer uses the ordered traversal")
	}
	// the batch classification flags are for-all accumulators (generic.go)
	ruleLoopAcc(e, r, 2, "internal/rsm")
	// ---- a snapshot's session table replaces the live one
	if ld := r.need("(*internal/rsm.lrusession).load"); ld != nil {
		add := e.Func("(*internal/rsm.lrusession).addSessionLocked")
		ruleRestoreReplaces(e, r, "MPT-restore-replaces", ld, r.needField("internal/rsm", "lrusession", "sessions"), func(in ssa.Instruction) bool {
			c, ok := in.(*ssa.Call)
			return ok && add != nil && e.CallsTo(c, add)
		})
	}
	ruleRegisterOnce(e, r)
	ruleSessionLookupSource(e, r)
	borrow(e, r, "C12", "PAIR-pool")
	ruleSessionRegisterResult(e, r)
	ruleSessionSaveComplete(e, r)
	ruleSessionSaveLive(e, r)
	ruleSessionBytesWritten(e, r)
}
