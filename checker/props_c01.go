package main

import (
	"golang.org/x/tools/go/ssa"
)

func init() {
	register(&Property{
		ID:          "C01",
		Explanation: "Linearizability of histories is not decidable statically. Decides narrow structural necessary conditions: a Completed result is produced only at the apply/served sites, and for proposals only when the entry was not rejected; the proposal-applied notification is reachable only from the state machine's apply callback, which is invoked only after the state machine call whose result it carries (and only on its success edge); the applied cursor is published only after the entries were applied; a linearizable read runs the user query only on the success edge of the ReadIndex wait, and a local read only after the ready-for-local-read assertion; the ReadIndex release is driven by an applied index and only under 0 < index <= applied (shared with C06); read confirmation hints go to voting members only (shared with C06/C18).",
		NotCovered:  "real-time order and effect points of operations over concurrent histories (linearizability proper)",
		Run:         runC01,
	})
}

func runC01(e *Engine, r *Report) {
	// borrowed mechanisms (session 6, round 8): the applied index a snapshot is labelled with moves with the entry, inside the state machine lock (C02/C07): a snapshot labelled k-1 that already contains entry k re-applies it
	borrow(e, r, "C02", "MPT-setapplied")
	borrow(e, r, "C07", "PAIR-apply-index-atomic")
	isCall := func(f *ssa.Function) func(ssa.Instruction) bool {
		return func(in ssa.Instruction) bool {
			c, ok := in.(*ssa.Call)
			return ok && f != nil && e.CallsTo(c, f)
		}
	}
	// ---- proposals are completed only from the apply callback
	applied := r.need("(*dragonboat.pendingProposal).applied")
	nodeApply := r.need("(*dragonboat.node).ApplyUpdate")
	applyM := r.needMethod("internal/rsm", "INode", "ApplyUpdate")
	if applied != nil && nodeApply != nil && applyM != nil {
		for _, s := range e.CallerSites(applied) {
			r.check(s.Parent() == nodeApply, "WMC-apply-callback", "pendingProposal.applied called in "+fname(s.Parent()), e.ipos(s),
				"proposals are completed only from the state machine's apply callback", "a proposal can be completed from outside the apply callback")
		}
		// result/rejected are passed through unchanged
		for _, s := range e.SitesIn(nodeApply, applied) {
			args := s.Common().Args
			okp := len(args) >= 6
			if okp {
				p1, i1 := args[4].(*ssa.Parameter)
				p2, i2 := args[5].(*ssa.Parameter)
				okp = i1 && i2 && p1.Name() == "result" && p2.Name() == "rejected"
			}
			r.check(okp, "WMC-apply-callback", "node.ApplyUpdate forwards the state machine's result and rejected flag", e.ipos(s), "the value delivered is the one the state machine returned", "node.ApplyUpdate no longer forwards result/rejected unchanged")
		}
		handle := e.Func("(*internal/rsm.StateMachine).Handle")
		n := 0
		for _, s := range e.AllMethodSites(applyM) {
			if !e.IsLive(s.Parent()) {
				continue
			}
			n++
			fn := s.Parent()
			if handle != nil {
				reach := e.Reach([]*ssa.Function{handle}, nil)
				r.check(reach[fn], "WMC-apply-callback", "INode.ApplyUpdate invoked in "+fname(fn)+" (apply path)", e.ipos(s), "below StateMachine.Handle", "the apply callback is invoked from outside the apply path")
			}
		}
		r.floor("WMC-apply-callback", n, 4)
		// in handleEntry: the callback for a session-managed update carries update()'s result and runs only on its success edge
		if he := r.need("(*internal/rsm.StateMachine).handleEntry"); he != nil {
			upd := e.Func("(*internal/rsm.StateMachine).update")
			for _, s := range e.MethodSitesIn(he, applyM) {
				args := s.Common().Args
				if len(args) < 2 || upd == nil {
					continue
				}
				if !e.dependsOn(args[1], e.callV(upd), 0) {
					continue
				}
				o, _ := e.alwaysPrecededBy(s.(ssa.Instruction), isCall(upd), 0)
				r.check(o && notFromErrEdge(e, he, upd, s), "MPT-apply-then-complete", "apply callback after a successful update in handleEntry", e.ipos(s),
					"Completed is reported only after the local state machine applied the entry", "the apply callback can run without (or after a failed) state machine update")
				// ignored entries are not reported
				ign := func(v ssa.Value) bool {
					ex, ok := v.(*ssa.Extract)
					return ok && ex.Index == 1 && e.callV(upd)(ex)
				}
				if len(args) >= 4 {
					// by role: the very value handed on as the `ignored` argument (a tuple component or a field of a result struct)
					ia := args[3]
					ign = func(v ssa.Value) bool {
						return (v == ia || sameExprV(ia)(v)) && e.dependsOn(v, e.callV(upd), 0)
					}
				}
				r.guard("MPT-apply-then-complete", "apply callback in handleEntry", s.(ssa.Instruction),
					reqBool("not ignored (already responded)", ign, false))
			}
		}
	}
	// ---- Completed only at apply/served sites (shared shape with C12)
	if cc := r.needConst("dragonboat", "requestCompleted"); cc != nil {
		allowed := map[string]bool{
			"(*dragonboat.proposalShard).applied": true, "(*dragonboat.pendingReadIndex).applied": true,
			"(*dragonboat.pendingConfigChange).apply": true, "(*dragonboat.pendingSnapshot).apply": true,
			"(*dragonboat.pendingRaftLogQuery).returned": true,
		}
		root := e.pkgTypes("dragonboat")
		n := 0
		coveredAll := map[string]bool{}
		for _, fn := range e.ScopeFuncs() {
			if fnPkg(fn) != root || !e.IsLive(fn) {
				continue
			}
			forEachInstr(fn, func(in ssa.Instruction) {
				uses := false
				switch x := in.(type) {
				case *ssa.Store:
					uses = constV(cc)(x.Val) && x.Val.Type().String() == cc.Type().String()
				case *ssa.Phi:
					for _, ed := range x.Edges {
						if constV(cc)(ed) && ed.Type().String() == cc.Type().String() {
							uses = true
						}
					}
				case *ssa.Return:
					for _, rv := range x.Results {
						if constV(cc)(rv) && rv.Type().String() == cc.Type().String() {
							uses = true
						}
					}
				case *ssa.Call:
					for _, a := range x.Call.Args {
						if constV(cc)(a) && a.Type().String() == cc.Type().String() {
							uses = true
						}
					}
				}
				if !uses {
					return
				}
				n++
				covered := map[string]bool{}
				okRole := e.onlyCalledFrom(fn, allowed, covered, 3)
				for k := range covered {
					coveredAll[k] = true
				}
				r.check(okRole, "WMC-completed", "requestCompleted produced in "+fname(fn), e.ipos(in),
					"Completed is produced only where the entry was applied / the query was served (or in a helper called only from there)", "a Completed result is produced outside the apply/served sites")
			})
		}
		// every apply/served site still produces (or reaches a helper that produces) Completed
		r.floor("WMC-completed", len(coveredAll), 5)
		ruleCompletedNotRejected(e, r)
	}
	// ---- linearizable read: query only after a successful ReadIndex wait
	if lr := r.need("(*dragonboat.NodeHost).linearizableRead"); lr != nil {
		grs := r.need("dragonboat.getRequestState")
		n := 0
		forEachCall(lr, func(s ssa.CallInstruction) {
			p, ok := s.Common().Value.(*ssa.Parameter)
			if !ok || p.Name() != "f" {
				return
			}
			n++
			o, _ := e.alwaysPrecededBy(s.(ssa.Instruction), isCall(grs), 0)
			r.check(o && notFromErrEdge(e, lr, grs, s), "GD-read-after-confirm", "the query closure runs after a successful ReadIndex wait", e.ipos(s),
				"the local read happens only after the read index was confirmed and applied", "the query can run without a successful ReadIndex wait")
		})
		r.floor("GD-read-after-confirm", n, 1)
		// getRequestState returns nil error only for Completed
		if grs != nil {
			completed := e.Func("(*dragonboat.RequestResult).Completed")
			okc := true
			cnt := 0
			forEachInstr(grs, func(in ssa.Instruction) {
				ret, ok := in.(*ssa.Return)
				if !ok || !isNilConst(retOperand(ret, 1)) {
					return
				}
				cnt++
				if g, _ := e.guardedOnAllPaths(in, reqBool("", e.callV(completed), true)); !g {
					okc = false
				}
			})
			r.check(okc && cnt > 0, "GD-read-after-confirm", "getRequestState succeeds only for a Completed result", e.pos(grs.Pos()), "every other outcome is an error", "getRequestState can return success for a result that is not Completed")
		}
	}
	mustReady := r.need("(*dragonboat.RequestState).mustBeReadyForLocalRead")
	if mustReady != nil {
		for _, nm := range []string{"(*dragonboat.NodeHost).ReadLocalNode", "(*dragonboat.NodeHost).NAReadLocalNode"} {
			fn := r.need(nm)
			if fn == nil {
				continue
			}
			for _, mn := range []string{"Lookup", "NALookup"} {
				lk := e.Func("(*internal/rsm.StateMachine)." + mn)
				for _, s := range e.SitesIn(fn, lk) {
					o, _ := e.alwaysPrecededBy(s.(ssa.Instruction), isCall(mustReady), 0)
					r.check(o, "GD-read-after-confirm", mn+" in "+nm+" after mustBeReadyForLocalRead", e.ipos(s), "a local read needs a completed ReadIndex", "a local read can run without the ready-for-local-read assertion")
				}
			}
		}
		// the assertion really fail-stops unless readyToRead
		rdy := e.Func("(*dragonboat.ready).ready")
		okr := false
		forEachInstr(mustReady, func(in ssa.Instruction) {
			if _, ok := in.(*ssa.Return); ok {
				if g, _ := e.guardedOnAllPaths(in, reqBool("", e.callV(rdy), true)); g {
					okr = true
				}
			}
		})
		r.check(okr, "GD-read-after-confirm", "mustBeReadyForLocalRead returns only when readyToRead is set", e.pos(mustReady.Pos()), "fail-stop otherwise", "mustBeReadyForLocalRead no longer requires the ready-to-read flag")
	}
	// ---- shared clauses
	ruleLastAppliedAfterApply(e, r)
	ruleAppliedArg(e, r)
	ruleHintVoting(e, r)
	ruleReadRelease(e, r)
	ruleConfirmPrefix(e, r)
	ruleReadBatchCopy(e, r)
	ruleReadyKeyedByCtx(e, r)
	ruleReadIndexRespIndex(e, r)
	// shared mechanisms decided by other properties' rule sets
	borrow(e, r, "C06", "GD-readindex-accept", "GD-confirm", "GD-confirm-prefix", "WMC-ready-producer")
	borrow(e, r, "C11", "LS-usersm", "GD-destroyed")
	borrow(e, r, "C12", "PAIR-pool")
	borrow(e, r, "C05", "DEP-dedup", "GD-session", "MPT-session-record")
	borrow(e, r, "C03", "TBL-state-compare", "GD-vote-grant", "GD-leader")
}
