package main

// eff.go: effects — who writes a field, who calls a function, what is
// reachable from where, value-shape matchers.

import (
	"fmt"
	"go/constant"
	"go/token"
	"go/types"
	"sort"
	"strings"

	"golang.org/x/tools/go/ssa"
)

// ---------------------------------------------------------------------------
// call sites

// forEachCall visits every call-like instruction (call, go, defer) of fn.
func forEachCall(fn *ssa.Function, f func(site ssa.CallInstruction)) {
	for _, b := range fn.Blocks {
		for _, in := range b.Instrs {
			if c, ok := in.(ssa.CallInstruction); ok {
				f(c)
			}
		}
	}
}

// forEachInstr visits every instruction of fn.
func forEachInstr(fn *ssa.Function, f func(in ssa.Instruction)) {
	for _, b := range fn.Blocks {
		for _, in := range b.Instrs {
			f(in)
		}
	}
}

// CallsTo: the site may call target (static, or resolved by the call graph).
func (e *Engine) CallsTo(site ssa.CallInstruction, target *ssa.Function) bool {
	if target == nil {
		return false
	}
	for _, c := range e.Callees(site) {
		if c == target {
			return true
		}
	}
	return false
}

// CallsAny: the site may call one of targets.
func (e *Engine) CallsAny(site ssa.CallInstruction, targets map[*ssa.Function]bool) bool {
	for _, c := range e.Callees(site) {
		if targets[c] {
			return true
		}
	}
	return false
}

// SitesIn returns the call sites in fn that may call target.
func (e *Engine) SitesIn(fn *ssa.Function, target *ssa.Function) []ssa.CallInstruction {
	var out []ssa.CallInstruction
	if fn == nil {
		return nil
	}
	forEachCall(fn, func(s ssa.CallInstruction) {
		if e.CallsTo(s, target) {
			out = append(out, s)
		}
	})
	return out
}

// MethodSitesIn returns the call sites in fn invoking method object m
// (interface method or concrete method).
func (e *Engine) MethodSitesIn(fn *ssa.Function, m *types.Func) []ssa.CallInstruction {
	var out []ssa.CallInstruction
	if fn == nil || m == nil {
		return nil
	}
	forEachCall(fn, func(s ssa.CallInstruction) {
		if e.IsMethodCall(s, m) {
			out = append(out, s)
		}
	})
	return out
}

// AllMethodSites returns every scope call site invoking method object m.
func (e *Engine) AllMethodSites(m *types.Func) []ssa.CallInstruction {
	var out []ssa.CallInstruction
	for _, f := range e.ScopeFuncs() {
		out = append(out, e.MethodSitesIn(f, m)...)
	}
	return out
}

// Reach computes the set of functions reachable from roots in the call graph,
// not descending into functions for which stop returns true.
func (e *Engine) Reach(roots []*ssa.Function, stop func(*ssa.Function) bool) map[*ssa.Function]bool {
	seen := map[*ssa.Function]bool{}
	var stack []*ssa.Function
	for _, r := range roots {
		if r != nil && !seen[r] {
			seen[r] = true
			stack = append(stack, r)
		}
	}
	for len(stack) > 0 {
		f := stack[len(stack)-1]
		stack = stack[:len(stack)-1]
		if stop != nil && stop(f) {
			continue
		}
		n := e.CG.Nodes[f]
		if n == nil {
			continue
		}
		for _, ed := range n.Out {
			if isGoSite(ed.Site) {
				continue // a goroutine is a new root, not a callee
			}
			g := ed.Callee.Func
			if !seen[g] {
				seen[g] = true
				stack = append(stack, g)
			}
		}
	}
	return seen
}

func isGoSite(s ssa.CallInstruction) bool {
	_, ok := s.(*ssa.Go)
	return ok
}

// MayReach: the set of functions from which some function in targets is
// reachable (reverse reachability), restricted to the module where possible.
func (e *Engine) MayReach(targets []*ssa.Function) map[*ssa.Function]bool {
	seen := map[*ssa.Function]bool{}
	var stack []*ssa.Function
	for _, t := range targets {
		if t != nil && !seen[t] {
			seen[t] = true
			stack = append(stack, t)
		}
	}
	for len(stack) > 0 {
		f := stack[len(stack)-1]
		stack = stack[:len(stack)-1]
		n := e.CG.Nodes[f]
		if n == nil {
			continue
		}
		for _, ed := range n.In {
			if isGoSite(ed.Site) {
				continue
			}
			g := ed.Caller.Func
			if !seen[g] {
				seen[g] = true
				stack = append(stack, g)
			}
		}
	}
	return seen
}

// Implementations returns the module functions implementing interface method m.
func (e *Engine) Implementations(m *types.Func) []*ssa.Function {
	var out []*ssa.Function
	if m == nil {
		return nil
	}
	recv := m.Type().(*types.Signature).Recv()
	if recv == nil {
		return nil
	}
	it, ok := recv.Type().Underlying().(*types.Interface)
	if !ok {
		return nil
	}
	seen := map[*ssa.Function]bool{}
	for _, f := range e.ModFuncs {
		if f.Signature.Recv() == nil || f.Name() != m.Name() || f.Parent() != nil {
			continue
		}
		rt := f.Signature.Recv().Type()
		if types.Implements(rt, it) || types.Implements(types.NewPointer(rt), it) {
			if !seen[f] {
				seen[f] = true
				out = append(out, f)
			}
		}
	}
	sort.Slice(out, func(i, j int) bool { return fname(out[i]) < fname(out[j]) })
	return out
}

// ---------------------------------------------------------------------------
// field access

// fieldOfAddr: if v is the address of field f of some struct (FieldAddr), or
// an element address within a slice/array loaded from such a field, return f.
func fieldOfAddr(v ssa.Value) (*types.Var, ssa.Value, bool) {
	switch x := v.(type) {
	case *ssa.FieldAddr:
		st := derefStruct(x.X.Type())
		if st == nil {
			return nil, nil, false
		}
		return st.Field(x.Field), x.X, true
	}
	return nil, nil, false
}

func derefStruct(t types.Type) *types.Struct {
	if p, ok := t.Underlying().(*types.Pointer); ok {
		t = p.Elem()
	}
	st, _ := t.Underlying().(*types.Struct)
	return st
}

// loadedField: if v is a load (*FieldAddr) or a Field extraction, returns the
// field and the base.
func loadedField(v ssa.Value) (*types.Var, ssa.Value, bool) {
	v = stripChangeInterface(v)
	switch x := v.(type) {
	case *ssa.UnOp:
		if x.Op == token.MUL {
			return fieldOfAddr(x.X)
		}
	case *ssa.Field:
		st, _ := x.X.Type().Underlying().(*types.Struct)
		if st == nil {
			return nil, nil, false
		}
		return st.Field(x.Field), x.X, true
	}
	return nil, nil, false
}

// WriteKind classifies a write to a field.
type FieldWrite struct {
	Fn    *ssa.Function
	Instr ssa.Instruction
	Field *types.Var
	Kind  string    // store | mapupdate | mapdelete | elemstore | init
	Val   ssa.Value // stored value (store/mapupdate) or key (mapdelete)
	Key   ssa.Value
	Base  ssa.Value
}

// FieldWrites lists every write to field fld in scope functions:
// direct stores, stores into fresh composite literals (Kind init), map
// updates/deletes and element stores through the loaded field.
func (e *Engine) FieldWrites(fld *types.Var) []FieldWrite {
	var out []FieldWrite
	if fld == nil {
		return nil
	}
	for _, fn := range e.ScopeFuncs() {
		if !e.IsLive(fn) {
			continue // test-only helper shipped in a non-test file, unused wrapper
		}
		forEachInstr(fn, func(in ssa.Instruction) {
			switch x := in.(type) {
			case *ssa.Store:
				if f, base, ok := fieldOfAddr(x.Addr); ok && f == fld {
					k := "store"
					if _, fresh := base.(*ssa.Alloc); fresh {
						k = "init"
					}
					out = append(out, FieldWrite{fn, in, f, k, x.Val, nil, base})
					return
				}
				if ia, ok := x.Addr.(*ssa.IndexAddr); ok {
					if f, base, ok := loadedField(ia.X); ok && f == fld {
						out = append(out, FieldWrite{fn, in, f, "elemstore", x.Val, ia.Index, base})
					} else if f, base, ok := fieldOfAddr(ia.X); ok && f == fld { // array field
						out = append(out, FieldWrite{fn, in, f, "elemstore", x.Val, ia.Index, base})
					}
				}
			case *ssa.MapUpdate:
				if f, base, ok := loadedField(x.Map); ok && f == fld {
					out = append(out, FieldWrite{fn, in, f, "mapupdate", x.Value, x.Key, base})
				}
			case *ssa.Call:
				if b, ok := x.Call.Value.(*ssa.Builtin); ok && b.Name() == "delete" && len(x.Call.Args) == 2 {
					if f, base, ok := loadedField(x.Call.Args[0]); ok && f == fld {
						out = append(out, FieldWrite{fn, in, f, "mapdelete", nil, x.Call.Args[1], base})
					}
				}
			}
		})
	}
	sort.Slice(out, func(i, j int) bool { return out[i].Instr.Pos() < out[j].Instr.Pos() })
	return out
}

// FieldReads lists every load of fld in fn.
func FieldReads(fn *ssa.Function, fld *types.Var) []ssa.Instruction {
	var out []ssa.Instruction
	forEachInstr(fn, func(in ssa.Instruction) {
		if v, ok := in.(ssa.Value); ok {
			if f, _, ok := loadedField(v); ok && f == fld {
				out = append(out, in)
			}
		}
	})
	return out
}

// ---------------------------------------------------------------------------
// value matchers (for guard facts)

// VM matches an SSA value by shape.
type VM func(v ssa.Value) bool

func anyV() VM { return func(ssa.Value) bool { return true } }

// fieldV: a load of field fld (through any base), possibly via conversion.
func fieldV(fld *types.Var) VM {
	return func(v ssa.Value) bool {
		v = stripConv(v)
		f, _, ok := loadedField(v)
		return ok && f == fld && fld != nil
	}
}

// fieldPathV: load of a field chain ending in fields... e.g. m.members.Removed
func fieldNameV(names ...string) VM {
	return func(v ssa.Value) bool {
		v = stripConv(v)
		for i := len(names) - 1; i >= 0; i-- {
			f, base, ok := loadedField(v)
			if !ok || f.Name() != names[i] {
				return false
			}
			v = base
			if i > 0 {
				// base is an address (FieldAddr) or a loaded value
				if fa, ok := base.(*ssa.FieldAddr); ok {
					st := derefStruct(fa.X.Type())
					if st == nil || st.Field(fa.Field).Name() != names[i-1] {
						return false
					}
					v = fa.X
					i--
				}
			}
		}
		return true
	}
}

// paramBind maps parameters of a predicate helper that is being looked into
// (Engine.holds) to the argument values of the call under examination, so
// that value matchers phrased over the caller's values (m.From, r.replicaID)
// see through `helper(m.From)`. Single-threaded use only.
var paramBind = map[*ssa.Parameter]ssa.Value{}

func stripConv(v ssa.Value) ssa.Value {
	for {
		switch x := v.(type) {
		case *ssa.Parameter:
			if b, ok := paramBind[x]; ok && b != v {
				v = b
				continue
			}
			return v
		case *ssa.Convert:
			v = x.X
		case *ssa.ChangeType:
			v = x.X
		case *ssa.ChangeInterface:
			v = x.X
		default:
			return v
		}
	}
}

// callV: the value is the result of a call that may resolve to fn (or, for a
// multi-result call, an Extract of it).
func (e *Engine) callV(fns ...*ssa.Function) VM {
	return func(v ssa.Value) bool {
		v = stripConv(v)
		if ex, ok := v.(*ssa.Extract); ok {
			v = ex.Tuple
		}
		c, ok := v.(*ssa.Call)
		if !ok {
			return false
		}
		for _, f := range fns {
			if f != nil && e.CallsTo(c, f) {
				return true
			}
		}
		return false
	}
}

// methodCallV: the value is the result of a call of method object m.
func (e *Engine) methodCallV(ms ...*types.Func) VM {
	return func(v ssa.Value) bool {
		v = stripConv(v)
		if ex, ok := v.(*ssa.Extract); ok {
			v = ex.Tuple
		}
		c, ok := v.(*ssa.Call)
		if !ok {
			return false
		}
		for _, m := range ms {
			if e.IsMethodCall(c, m) {
				return true
			}
		}
		return false
	}
}

func constV(c *types.Const) VM {
	return func(v ssa.Value) bool {
		k, ok := stripConv(v).(*ssa.Const)
		if !ok || k.Value == nil || c == nil {
			return false
		}
		return k.Value.ExactString() == c.Val().ExactString() && types.Identical(k.Type(), c.Type())
	}
}

func intConstV(n int64) VM {
	return func(v ssa.Value) bool {
		k, ok := stripConv(v).(*ssa.Const)
		if !ok || k.Value == nil {
			return false
		}
		return k.Value.ExactString() == fmt.Sprint(n)
	}
}

func paramV(fn *ssa.Function, name string) VM {
	return func(v ssa.Value) bool {
		p, ok := stripConv(v).(*ssa.Parameter)
		return ok && p.Name() == name && p.Parent() == fn
	}
}

func lenOfV(inner VM) VM {
	return func(v ssa.Value) bool {
		c, ok := stripConv(v).(*ssa.Call)
		if !ok {
			return false
		}
		b, ok := c.Call.Value.(*ssa.Builtin)
		return ok && b.Name() == "len" && len(c.Call.Args) == 1 && inner(c.Call.Args[0])
	}
}

// Comparison normal form: op in {<,<=,==,!=}; `a > b` is `b < a`.
// hasCmpFact reports whether facts contain a comparison fact that implies
// `lhs OP rhs` where want is one of "<", "<=", "==", "!=", ">", ">=".
func hasCmpFact(facts []Fact, want string, lhs, rhs VM) bool {
	for _, f := range facts {
		b, ok := f.V.(*ssa.BinOp)
		if !ok {
			continue
		}
		op := cmpString(b.Op)
		if op == "" {
			continue
		}
		if !f.Pol {
			op = negCmp(op)
		}
		op = unsignedZeroNorm(op, b.X, b.Y)
		if lhs(b.X) && rhs(b.Y) && cmpImplies(op, want) {
			return true
		}
		if lhs(b.Y) && rhs(b.X) && cmpImplies(flipCmp(op), want) {
			return true
		}
	}
	return false
}

// hasCmpFactExact: like hasCmpFact but the fact must be exactly `lhs want
// rhs` (not a stronger comparison). Used for must-act conditions, where a
// stronger guard means the action happens in fewer states than required.
func hasCmpFactExact(facts []Fact, want string, lhs, rhs VM) bool {
	for _, f := range facts {
		b, ok := f.V.(*ssa.BinOp)
		if !ok {
			continue
		}
		op := cmpString(b.Op)
		if op == "" {
			continue
		}
		if !f.Pol {
			op = negCmp(op)
		}
		op = unsignedZeroNorm(op, b.X, b.Y)
		if lhs(b.X) && rhs(b.Y) && op == want {
			return true
		}
		if lhs(b.Y) && rhs(b.X) && flipCmp(op) == want {
			return true
		}
	}
	return false
}

// unsignedZeroNorm: for an unsigned x, `x != 0` is `x > 0` and `x <= 0` is
// `x == 0` (and the mirrored forms with the zero on the left).
func unsignedZeroNorm(op string, x, y ssa.Value) string {
	isU := func(v ssa.Value) bool {
		b, ok := v.Type().Underlying().(*types.Basic)
		return ok && b.Info()&types.IsUnsigned != 0
	}
	isZero := func(v ssa.Value) bool {
		c, ok := v.(*ssa.Const)
		if !ok || c.Value == nil || c.Value.Kind() != constant.Int {
			return false
		}
		n, exact := constant.Int64Val(c.Value)
		return exact && n == 0
	}
	if isU(x) && isZero(y) {
		switch op {
		case "!=":
			return ">"
		case "<=":
			return "=="
		}
	}
	if isU(y) && isZero(x) {
		switch op {
		case "!=":
			return "<"
		case ">=":
			return "=="
		}
	}
	return op
}

func cmpString(t token.Token) string {
	switch t {
	case token.LSS:
		return "<"
	case token.LEQ:
		return "<="
	case token.GTR:
		return ">"
	case token.GEQ:
		return ">="
	case token.EQL:
		return "=="
	case token.NEQ:
		return "!="
	}
	return ""
}

func negCmp(op string) string {
	return map[string]string{"<": ">=", "<=": ">", ">": "<=", ">=": "<", "==": "!=", "!=": "=="}[op]
}

func flipCmp(op string) string {
	return map[string]string{"<": ">", "<=": ">=", ">": "<", ">=": "<=", "==": "==", "!=": "!="}[op]
}

// cmpImplies: fact `a have b` implies `a want b`.
func cmpImplies(have, want string) bool {
	if have == want {
		return true
	}
	switch want {
	case "<=":
		return have == "<" || have == "=="
	case ">=":
		return have == ">" || have == "=="
	case "!=":
		return have == "<" || have == ">"
	}
	return false
}

// hasBoolFact: facts contain (v matching m, pol).
func hasBoolFact(facts []Fact, m VM, pol bool) bool {
	for _, f := range facts {
		if f.Pol == pol && m(f.V) {
			return true
		}
	}
	return false
}

// describeFacts renders facts for diagnostics.
func (e *Engine) describeFacts(facts []Fact) []string {
	var out []string
	for _, f := range facts {
		out = append(out, fmt.Sprintf("%s is %v", e.describeValue(f.V), f.Pol))
	}
	return out
}

func (e *Engine) describeValue(v ssa.Value) string { return e.describeValueD(v, 0) }

func (e *Engine) describeValueD(v ssa.Value, d int) string {
	if d > 4 {
		return v.Name()
	}
	switch x := v.(type) {
	case *ssa.Call:
		cs := e.Callees(x)
		if len(cs) > 0 {
			return fname(cs[0]) + "(..)"
		}
		if x.Call.IsInvoke() {
			return x.Call.Method.Name() + "(..)"
		}
		return x.Call.Value.Name() + "(..)"
	case *ssa.BinOp:
		return e.describeValueD(x.X, d+1) + " " + x.Op.String() + " " + e.describeValueD(x.Y, d+1)
	case *ssa.UnOp:
		if x.Op == token.MUL {
			if f, _, ok := fieldOfAddr(x.X); ok {
				return "." + f.Name()
			}
		}
		return x.Op.String() + e.describeValueD(x.X, d+1)
	case *ssa.Const:
		return x.String()
	case *ssa.Parameter:
		return x.Name()
	case *ssa.Extract:
		return e.describeValueD(x.Tuple, d+1) + "#" + fmt.Sprint(x.Index)
	case *ssa.Field:
		return e.describeValueD(x.X, d+1) + "." + fieldName(x)
	case *ssa.Phi:
		if d > 0 {
			return "phi:" + x.Name()
		}
		var parts []string
		for _, ed := range x.Edges {
			parts = append(parts, e.describeValueD(ed, d+1))
		}
		return "phi(" + strings.Join(parts, "|") + ")"
	case *ssa.Convert:
		return e.describeValueD(x.X, d+1)
	}
	return v.Name()
}

func fieldName(x *ssa.Field) string {
	st, _ := x.X.Type().Underlying().(*types.Struct)
	if st == nil {
		return "?"
	}
	return st.Field(x.Field).Name()
}

// ---------------------------------------------------------------------------
// always-calls summaries

// AlwaysReaches computes the set of functions that on every normal return
// have executed a call satisfying hit (directly or through a callee in the
// set), up to depth rounds of closure.
func (e *Engine) AlwaysReaches(hit func(site ssa.CallInstruction) bool, depth int) map[*ssa.Function]bool {
	set := map[*ssa.Function]bool{}
	funcs := e.ScopeFuncs()
	isHit := func(in ssa.Instruction) bool {
		c, ok := in.(*ssa.Call)
		if !ok {
			return false
		}
		if hit(c) {
			return true
		}
		cs := e.Callees(c)
		if len(cs) == 0 {
			return false
		}
		for _, g := range cs {
			if !set[g] {
				return false
			}
		}
		return true
	}
	for round := 0; round < depth; round++ {
		changed := false
		for _, f := range funcs {
			if set[f] || len(f.Blocks) == 0 {
				continue
			}
			// deferred hits count for every exit
			deferredHit := false
			forEachInstr(f, func(in ssa.Instruction) {
				if d, ok := in.(*ssa.Defer); ok && in.Block() == f.Blocks[0] {
					if hit(d) {
						deferredHit = true
					}
				}
			})
			if deferredHit {
				set[f] = true
				changed = true
				continue
			}
			res := e.findPath(f, nil, isReturn, isHit, nil)
			if !res.Found {
				// no normal return avoids a hit; require at least one hit site
				has := false
				forEachInstr(f, func(in ssa.Instruction) {
					if isHit(in) {
						has = true
					}
				})
				if has {
					set[f] = true
					changed = true
				}
			}
		}
		if !changed {
			break
		}
	}
	return set
}

// exprKey renders a side-effect-free expression tree as a canonical string so
// that two separately computed SSA values (go/ssa does no CSE) can be
// recognised as the same source expression. Empty = not a simple expression.
func exprKey(v ssa.Value) string { return exprKeyD(v, 0) }

func exprKeyD(v ssa.Value, d int) string {
	if d > 8 || v == nil {
		return ""
	}
	v = stripConv(v)
	switch x := v.(type) {
	case *ssa.Parameter:
		return "p:" + x.Name()
	case *ssa.Const:
		if x.Value == nil {
			return "nil"
		}
		return "c:" + x.Value.ExactString()
	case *ssa.FreeVar:
		return "fv:" + x.Name()
	case *ssa.Alloc:
		return "a:" + x.Name()
	case *ssa.UnOp:
		if x.Op == token.MUL {
			k := exprKeyD(x.X, d+1)
			if k == "" {
				return ""
			}
			return "*" + k
		}
		k := exprKeyD(x.X, d+1)
		if k == "" {
			return ""
		}
		return x.Op.String() + k
	case *ssa.FieldAddr:
		k := exprKeyD(x.X, d+1)
		st := derefStruct(x.X.Type())
		if k == "" || st == nil {
			return ""
		}
		return k + "." + st.Field(x.Field).Name()
	case *ssa.Field:
		k := exprKeyD(x.X, d+1)
		st, _ := x.X.Type().Underlying().(*types.Struct)
		if k == "" || st == nil {
			return ""
		}
		return k + "." + st.Field(x.Field).Name()
	case *ssa.IndexAddr:
		a, b := exprKeyD(x.X, d+1), exprKeyD(x.Index, d+1)
		if a == "" || b == "" {
			return ""
		}
		return a + "[" + b + "]"
	case *ssa.BinOp:
		a, b := exprKeyD(x.X, d+1), exprKeyD(x.Y, d+1)
		if a == "" || b == "" {
			return ""
		}
		return "(" + a + x.Op.String() + b + ")"
	case *ssa.Call:
		if bi, ok := x.Call.Value.(*ssa.Builtin); ok && len(x.Call.Args) == 1 {
			k := exprKeyD(x.Call.Args[0], d+1)
			if k == "" {
				return ""
			}
			return bi.Name() + "(" + k + ")"
		}
	}
	return ""
}

// sameExprV matches values that denote the same simple expression as v.
func sameExprV(v ssa.Value) VM {
	k := exprKey(v)
	return func(x ssa.Value) bool {
		if stripConv(x) == stripConv(v) {
			return true
		}
		return k != "" && exprKey(x) == k
	}
}

// throughHelpers lifts a predicate on call sites to an instruction predicate
// that also accepts a call of a module function which, on every normal
// return, has executed a matching call (always-calls summary, 3 rounds): a
// required step moved into a helper is still the step.
func (e *Engine) throughHelpers(direct func(ssa.CallInstruction) bool) func(ssa.Instruction) bool {
	fns := e.AlwaysReaches(direct, 3)
	return func(in ssa.Instruction) bool {
		c, ok := in.(ssa.CallInstruction)
		if !ok {
			return false
		}
		if _, isGo := in.(*ssa.Go); isGo {
			return false
		}
		if _, isDefer := in.(*ssa.Defer); isDefer {
			return false // runs at function exit, not here
		}
		if direct(c) {
			return true
		}
		cs := e.Callees(c)
		if len(cs) == 0 {
			return false
		}
		for _, g := range cs {
			if !fns[g] {
				return false
			}
		}
		return true
	}
}
