package main

import (
	"go/types"
	"strings"

	"golang.org/x/tools/go/ssa"
)

func init() {
	register(&Property{
		ID:          "C12",
		Explanation: "Decides structural clauses of 'exactly one truthful terminal result': every terminal notification issued by a pending-request table is paired with detaching that request from the table on every path (slot cleared / map entry deleted / taken with remove=true / table marked stopped), under the table's mutex; terminal notifiers are called only from table methods, and the non-terminal Committed notification only on a borrowed (not removed) request; every table type held by a node is closed by node.close, expired from the tick path (gc) and has its clock advanced on every path of node.tick; requests taken from the ReadIndex queue are terminated or registered on every path of add(); the Completed code is produced only at the apply/served sites; pooled request objects are re-initialised after Get (fresh result channel unless provably empty) and returned to the pool only behind the ready-to-release flag, which is set only after the result was delivered. Does not decide races between expiry, apply and Release. Request admission: slots filled only when empty/open/after hand-over, key agreement, keyed delivery, register-before-queue under the queued entry's identity, refused edges undo the registration.",
		NotCovered:  "exactly-once under racing interleavings of expiry/apply/Release; that the value delivered equals the state machine's result (data flow through the apply queue)",
		Run:         runC12,
	})
}

var c12Tables = []string{"pendingProposal", "proposalShard", "pendingReadIndex", "pendingConfigChange", "pendingSnapshot", "pendingRaftLogQuery"}

func runC12(e *Engine, r *Report) {
	root := e.pkgTypes("dragonboat")
	rsT := e.Named("dragonboat", "RequestState")
	if root == nil || rsT == nil {
		r.undecided("ANCHOR", "dragonboat.RequestState", "type not found")
		return
	}
	terminal := map[*ssa.Function]string{}
	for _, n := range []string{"notify", "timeout", "terminated", "dropped"} {
		if f := r.need("(*dragonboat.RequestState)." + n); f != nil {
			terminal[f] = n
		}
	}
	// pendingSnapshot.notify is a table-level wrapper around RequestState.notify
	psNotify := e.Func("(*dragonboat.pendingSnapshot).notify")
	committedFn := r.need("(*dragonboat.RequestState).committed")
	isTableFn := func(fn *ssa.Function) (string, bool) {
		p := fn
		for p.Parent() != nil {
			p = p.Parent()
		}
		recv := p.Signature.Recv()
		if recv == nil {
			return "", false
		}
		t := recv.Type()
		if pt, ok := t.(*types.Pointer); ok {
			t = pt.Elem()
		}
		nt, ok := t.(*types.Named)
		if !ok || nt.Obj().Pkg() != root {
			return "", false
		}
		for _, tn := range c12Tables {
			if nt.Obj().Name() == tn {
				return tn, true
			}
		}
		return "", false
	}
	// ---- terminal notify sites
	nSites := 0
	for _, fn := range e.ScopeFuncs() {
		if fnPkg(fn) != root || !e.IsLive(fn) {
			continue
		}
		forEachCall(fn, func(s ssa.CallInstruction) {
			sc := s.Common().StaticCallee()
			if sc == nil {
				return
			}
			kind, isTerm := terminal[sc]
			isWrap := psNotify != nil && sc == psNotify
			if !isTerm && !isWrap {
				return
			}
			// inside RequestState's own helpers (timeout -> notify) and the wrapper itself
			if rf := fn.Signature.Recv(); rf != nil && strings.HasSuffix(rf.Type().String(), ".RequestState") {
				return
			}
			if fn == psNotify {
				return
			}
			nSites++
			tn, inTable := isTableFn(fn)
			key := "terminal " + kind + " in " + fname(fn)
			if isWrap {
				key = "terminal notify (snapshot wrapper) in " + fname(fn)
			}
			if !inTable {
				// a helper (e.g. a method of the batch record) is table-internal
				// when every live caller is a table method; the detach
				// obligation then applies at those call sites
				callers := e.CallerSites(fn)
				okAll := len(callers) > 0
				type cs struct {
					s  ssa.CallInstruction
					tn string
				}
				var sites []cs
				for _, c := range callers {
					if p := fnPkg(c.Parent()); p == nil || !scopePkg(p.Path()) || !e.IsLive(outermostFn(c.Parent())) {
						continue
					}
					ctn, ok := isTableFn(c.Parent())
					if !ok {
						okAll = false
					}
					sites = append(sites, cs{c, ctn})
				}
				if okAll && len(sites) > 0 {
					r.ok("WMC-terminal", key+" is a table-internal helper", e.ipos(s), "every caller is a method of a pending table")
					for _, c := range sites {
						if len(c.s.Common().Args) > 0 {
							c12Detach(e, r, c.s.Parent(), c.s, c.tn, key+" via "+fname(c.s.Parent()))
						}
					}
					return
				}
			}
			if !r.check(inTable, "WMC-terminal", key+" is a table method", e.ipos(s),
				"terminal results are produced only by the pending tables", "a terminal result is produced outside the pending-request tables") {
				return
			}
			c12Detach(e, r, fn, s, tn, key)
		})
	}
	r.floor("WMC-terminal", nSites, 18)

	// ---- committed() only on a borrowed request
	if committedFn != nil {
		borrow := e.Func("(*dragonboat.proposalShard).borrowProposal")
		n := 0
		for _, s := range e.CallerSites(committedFn) {
			if fnPkg(s.Parent()) != root {
				continue
			}
			if _, inTable := isTableFn(s.Parent()); !inTable {
				r.bad("WMC-committed", "RequestState.committed called in "+fname(s.Parent()), e.ipos(s), "the commit notification is sent from outside the pending tables")
				continue
			}
			n++
			recv := s.Common().Args[0]
			// the request comes from a borrow (remove=false) or is the single pending slot; never from a take that removes
			// (by role: the take primitive called with remove=false, directly or
			// through a wrapper that passes the constant)
			takeFn := e.Func("(*dragonboat.proposalShard).takeProposal")
			removing, borrowed := false, false
			flagOfTake := func(c *ssa.Call) {
				a := c.Call.Args
				if cb, isC := isConstBool(a[len(a)-1]); isC {
					if cb {
						removing = true
					} else {
						borrowed = true
					}
				}
			}
			e.dependsOn(recv, func(v ssa.Value) bool {
				c, ok := v.(*ssa.Call)
				if !ok || takeFn == nil {
					return false
				}
				if e.CallsTo(c, takeFn) {
					flagOfTake(c)
					return false
				}
				if g := c.Call.StaticCallee(); g != nil && fnPkg(g) == root {
					for _, ts := range e.SitesIn(g, takeFn) {
						if tc, ok := ts.(*ssa.Call); ok {
							flagOfTake(tc)
						}
					}
				}
				return false
			}, 0)
			_ = borrow
			okb := !removing && (borrowed || e.dependsOn(recv, func(v ssa.Value) bool {
				f, _, ok := loadedField(v)
				return ok && f.Name() == "pending"
			}, 0))
			r.check(okb, "WMC-committed", "Committed notification in "+fname(s.Parent())+" uses a borrowed request", e.ipos(s),
				"the request stays in the table after the non-terminal notification", "the Committed notification is sent on a request that was removed from the table (it would never get its terminal result)")
			// and never detaches
		}
		r.floor("WMC-committed", n, 2)
		// borrow passes remove=false, get passes remove=true
		take := e.Func("(*dragonboat.proposalShard).takeProposal")
		if take != nil {
			for _, s := range e.CallerSites(take) {
				args := s.Common().Args
				_, isC := isConstBool(args[len(args)-1])
				r.check(isC, "WMC-committed", "takeProposal(remove) in "+fname(s.Parent())+" passes a constant", e.ipos(s),
					"whether the request is detached is decided statically at each site", "takeProposal is called with a remove flag that is not a constant")
			}
			// takeProposal deletes under `remove` and returns only a matching, unexpired request
			forEachInstr(take, func(in ssa.Instruction) {
				ret, ok := in.(*ssa.Return)
				if !ok || isNilConst(retOperand(ret, 0)) {
					return
				}
				clientID := e.Field("dragonboat", "RequestState", "clientID")
				seriesID := e.Field("dragonboat", "RequestState", "seriesID")
				deadline := e.Field("dragonboat", "RequestState", "deadline")
				stopped := e.Field("dragonboat", "proposalShard", "stopped")
				r.guard("GD-take", "non-nil return of takeProposal", in,
					reqCmp("clientID matches", "==", fieldV(clientID), anyV()),
					reqCmp("seriesID matches", "==", fieldV(seriesID), anyV()),
					reqCmp("not expired (deadline >= now)", ">=", fieldV(deadline), anyV()),
					reqBool("table not stopped", fieldV(stopped), false))
			})
		}
	}

	// ---- sibling: every table of the node is closed, ticked and expired
	nodeT := e.Named("dragonboat", "node")
	if nodeT == nil {
		r.undecided("ANCHOR", "dragonboat.node", "type not found")
		return
	}
	nst := nodeT.Underlying().(*types.Struct)
	type tblField struct {
		fld *types.Var
		tn  string
	}
	var tfs []tblField
	for i := 0; i < nst.NumFields(); i++ {
		f := nst.Field(i)
		if nt, ok := f.Type().(*types.Named); ok && nt.Obj().Pkg() == root {
			for _, tn := range c12Tables {
				if nt.Obj().Name() == tn {
					tfs = append(tfs, tblField{f, tn})
				}
			}
		}
	}
	r.floor("TBL-node-tables", len(tfs), 5)
	callsOn := func(fn *ssa.Function, fld *types.Var, method string) []ssa.CallInstruction {
		var out []ssa.CallInstruction
		forEachCall(fn, func(s ssa.CallInstruction) {
			sc := s.Common().StaticCallee()
			if sc == nil || sc.Name() != method || len(s.Common().Args) == 0 {
				return
			}
			// the receiver is the table field or something embedded in it
			a := s.Common().Args[0]
			for i := 0; i < 4; i++ {
				f, base, ok := fieldOfAddr(a)
				if !ok {
					break
				}
				if f == fld {
					out = append(out, s)
					break
				}
				a = base
			}
		})
		return out
	}
	nodeClose := r.need("(*dragonboat.node).close")
	nodeTick := r.need("(*dragonboat.node).tick")
	handleEvents := r.need("(*dragonboat.node).handleEvents")
	var tickReach map[*ssa.Function]bool
	if handleEvents != nil {
		tickReach = e.Reach([]*ssa.Function{handleEvents}, nil)
	}
	for _, tf := range tfs {
		if nodeClose != nil {
			sites := callsOn(nodeClose, tf.fld, "close")
			ok := len(sites) > 0
			if ok {
				// on every path of node.close
				res := e.findPath(nodeClose, nil, isReturn, func(in ssa.Instruction) bool { return in == sites[0].(ssa.Instruction) }, nil)
				ok = !res.Found
			}
			r.check(ok, "TBL-close", "node.close closes "+tf.fld.Name(), e.pos(nodeClose.Pos()),
				"pending requests of this table are terminated when the shard stops", "node.close does not (always) close "+tf.fld.Name()+": its pending requests would never get a result")
		}
		// deadline tables: tick on every path of node.tick, gc reachable from the step path
		hasDeadline := tf.tn != "pendingRaftLogQuery"
		if !hasDeadline {
			r.exception("pendingRaftLogQuery has no deadline by API design (served in the same step, terminated on close); no tick/gc obligation")
			continue
		}
		if nodeTick != nil {
			sites := callsOn(nodeTick, tf.fld, "tick")
			ok := len(sites) > 0
			if ok {
				res := e.findPath(nodeTick, nil, func(in ssa.Instruction) bool { return e.isSuccessReturn(in) }, func(in ssa.Instruction) bool { return in == sites[0].(ssa.Instruction) }, nil)
				ok = !res.Found
			}
			r.check(ok, "TBL-tick", "node.tick advances the clock of "+tf.fld.Name()+" on every path", e.pos(nodeTick.Pos()),
				"deadlines of this table keep advancing (also while quiesced)", "a path through node.tick does not advance the clock of "+tf.fld.Name()+": its requests would never time out")
		}
		if tickReach != nil {
			var gcFn *ssa.Function
			if nt, ok := tf.fld.Type().(*types.Named); ok {
				gcFn = e.MethodFunc("dragonboat", nt.Obj().Name(), "gc")
			}
			r.check(gcFn != nil && tickReach[gcFn], "TBL-gc", "expiry (gc) of "+tf.fld.Name()+" is reachable from the step/tick path", e.pos(handleEvents.Pos()),
				"expired requests are timed out from the periodic path", "the gc of "+tf.fld.Name()+" is not reachable from node.handleEvents: requests would not expire")
		}
	}
	// gc really times requests out: each gc (or gcAt) compares deadline with now and calls timeout
	deadline := e.Field("dragonboat", "RequestState", "deadline")
	timeoutFn := e.Func("(*dragonboat.RequestState).timeout")
	if deadline != nil && timeoutFn != nil {
		n := 0
		for _, s := range e.CallerSites(timeoutFn) {
			if fnPkg(s.Parent()) != root {
				continue
			}
			n++
			r.guard("GD-expiry", "timeout() in "+fname(s.Parent()), s.(ssa.Instruction),
				reqCmp("deadline < now", "<", fieldV(deadline), anyV()))
		}
		r.floor("GD-expiry", n, 4)
	}

	// ---- ReadIndex: requests taken from the queue are registered or terminated on every path
	if add := r.need("(*dragonboat.pendingReadIndex).add"); add != nil {
		batches := e.Field("dragonboat", "pendingReadIndex", "batches")
		termFn := e.Func("(*dragonboat.RequestState).terminated")
		res := e.findPath(add, nil, isReturn, func(in ssa.Instruction) bool {
			switch x := in.(type) {
			case *ssa.MapUpdate:
				return fieldV(batches)(x.Map)
			case *ssa.Call:
				return termFn != nil && e.CallsTo(x, termFn)
			}
			return false
		}, nil)
		// an empty reqs slice makes the terminate loop vacuous: the loop header edge is allowed
		ok := !res.Found
		if res.Found {
			// accept when the only bypass is the range loop over reqs being empty
			ok = c12OnlyEmptyRangeBypass(e, add, termFn, batches)
		}
		r.check(ok, "OWN-readindex-add", "pendingReadIndex.add registers or terminates the requests", e.pos(add.Pos()),
			"requests handed over by the step worker are never dropped", "a path through pendingReadIndex.add neither registers nor terminates the requests it was given")
	}

	// ---- Completed only at the apply / served sites
	if cc := r.needConst("dragonboat", "requestCompleted"); cc != nil {
		allowed := map[string]bool{
			"(*dragonboat.proposalShard).applied": true, "(*dragonboat.pendingReadIndex).applied": true,
			"(*dragonboat.pendingConfigChange).apply": true, "(*dragonboat.pendingSnapshot).apply": true,
			"(*dragonboat.pendingRaftLogQuery).returned": true,
		}
		n := 0
		coveredAll := map[string]bool{}
		for _, fn := range e.ScopeFuncs() {
			if fnPkg(fn) != root || !e.IsLive(fn) {
				continue
			}
			forEachInstr(fn, func(in ssa.Instruction) {
				// the constant materialised as a stored/returned value (not as a comparison operand)
				uses := false
				switch x := in.(type) {
				case *ssa.Store:
					uses = constV(cc)(x.Val) && x.Val.Type().String() == cc.Type().String()
				case *ssa.Phi:
					for _, ed := range x.Edges {
						if constV(cc)(ed) && ed.Type().String() == cc.Type().String() {
							uses = true
						}
					}
				case *ssa.Return:
					for _, rv := range x.Results {
						if constV(cc)(rv) && rv.Type().String() == cc.Type().String() {
							uses = true
						}
					}
				case *ssa.Call:
					for _, a := range x.Call.Args {
						if constV(cc)(a) && a.Type().String() == cc.Type().String() {
							uses = true
						}
					}
				}
				if !uses {
					return
				}
				n++
				covered := map[string]bool{}
				okRole := e.onlyCalledFrom(fn, allowed, covered, 3)
				for k := range covered {
					coveredAll[k] = true
				}
				r.check(okRole, "WMC-completed", "requestCompleted produced in "+fname(fn), e.ipos(in),
					"Completed is produced only where the entry was applied / the query was served (or in a helper called only from there)", "a Completed result is produced outside the apply/served sites")
			})
		}
		// every apply/served site still produces (or reaches a helper that produces) Completed
		r.floor("WMC-completed", len(coveredAll), 5)
		ruleCompletedNotRejected(e, r)
	}
	// ---- apply callback carries the state machine's result to the table
	ruleAppliedArg(e, r)
	ruleReadBatchCopy(e, r)

	// ---- pool discipline
	c12Pool(e, r)
	ruleStopBeforeTerminate(e, r)
	ruleQueueAdmission(e, r)
	ruleRequestAdmission(e, r)
	ruleLogQueryAnswered(e, r)
	ruleResultTruthfulAPI(e, r)
}

// c12Detach: the notified request is detached from its table on every path.
func c12Detach(e *Engine, r *Report, fn *ssa.Function, s ssa.CallInstruction, tn, key string) {
	recv := s.Common().Args[0]
	// where does the request come from?
	var slotField *types.Var // single-slot `pending` field
	if sc := s.Common().StaticCallee(); sc != nil && sc.Name() == "notify" && strings.Contains(fname(sc), "pendingSnapshot") {
		// table-level wrapper: notifies p.pending
		slotField = e.Field("dragonboat", "pendingSnapshot", "pending")
	}
	var mapField *types.Var // map or slice-in-map field
	fromTake, fromParam, fromQueue := false, false, false
	e.dependsOn(recv, func(v ssa.Value) bool {
		if f, _, ok := loadedField(v); ok {
			switch f.Name() {
			case "pending":
				if _, isMap := f.Type().Underlying().(*types.Map); isMap {
					mapField = f
				} else {
					slotField = f
				}
			case "batches":
				mapField = f
			}
		}
		if c, ok := v.(*ssa.Call); ok {
			if sc := c.Call.StaticCallee(); sc != nil {
				if sc.Name() == "getProposal" || sc.Name() == "takeProposal" {
					fromTake = true
				}
				if sc.Name() == "get" && strings.Contains(fname(sc), "readIndexQueue") {
					fromQueue = true
				}
			}
		}
		if p, ok := v.(*ssa.Parameter); ok && p.Name() != "p" {
			fromParam = true
		}
		return false
	}, 0)
	stoppedStore := func(in ssa.Instruction) bool {
		st, ok := in.(*ssa.Store)
		if !ok {
			return false
		}
		f, _, ok := fieldOfAddr(st.Addr)
		if !ok || f.Name() != "stopped" {
			return false
		}
		cb, isC := isConstBool(st.Val)
		return isC && cb
	}
	// table marked stopped before the notification (close paths): later operations test stopped first
	stoppedBefore := false
	forEachInstr(fn, func(in ssa.Instruction) {
		if stoppedStore(in) && dominatesInstr(in, s.(ssa.Instruction)) {
			stoppedBefore = true
		}
	})
	switch {
	case fromTake:
		r.ok("PAIR-detach", key+" (request taken with remove=true)", e.ipos(s), "the take deleted the request under the table mutex before returning it")
	case slotField != nil:
		// the slot is cleared before or after the notify on every path: either a nil store
		// dominates... (take-then-notify) or every path from the notify to return passes a nil store
		cleared := func(in ssa.Instruction) bool {
			st, ok := in.(*ssa.Store)
			if !ok {
				return false
			}
			f, _, ok := fieldOfAddr(st.Addr)
			return ok && f == slotField && isNilConst(st.Val)
		}
		before := false
		forEachInstr(fn, func(in ssa.Instruction) {
			if cleared(in) && dominatesInstr(in, s.(ssa.Instruction)) {
				before = true
			}
		})
		ok := before
		if !ok {
			res := e.findPath(fn, s.(ssa.Instruction), isReturn, cleared, nil)
			ok = !res.Found
		}
		r.check(ok, "PAIR-detach", key+" (slot "+slotField.Name()+" cleared)", e.ipos(s),
			"the pending slot is cleared together with the terminal notification", "the request stays in the pending slot after its terminal result: it can be notified twice")
		c12Mutex(e, r, fn, s, key)
	case mapField != nil:
		detach := func(in ssa.Instruction) bool {
			switch x := in.(type) {
			case *ssa.Call:
				if b, ok := x.Call.Value.(*ssa.Builtin); ok && b.Name() == "delete" {
					return fieldV(mapField)(x.Call.Args[0])
				}
			case *ssa.Store:
				// rb.requests[idx] = nil
				if ia, ok := x.Addr.(*ssa.IndexAddr); ok && isNilConst(x.Val) {
					_ = ia
					return true
				}
			}
			return false
		}
		ok := stoppedBefore
		if !ok {
			res := e.findPath(fn, s.(ssa.Instruction), isReturn, detach, nil)
			ok = !res.Found
		}
		r.check(ok, "PAIR-detach", key+" (entry removed from "+mapField.Name()+")", e.ipos(s),
			"the request is removed from the table (or the table is stopped) together with the terminal notification",
			"the request stays in the table after its terminal result: it can be notified twice")
		c12Mutex(e, r, fn, s, key)
		// a table that was stopped already terminated everything it holds: later apply /
		// expiry / drop callbacks must not notify out of it again
		if tn == "pendingReadIndex" || tn == "proposalShard" {
			if sf := e.Field("dragonboat", tn, "stopped"); sf != nil && !stoppedBefore {
				r.guard("GD-no-result-after-stop", key+" (entry of "+mapField.Name()+")", s.(ssa.Instruction),
					reqBool("table not stopped", fieldV(sf), false))
			}
		}
	case fromQueue || (fromParam && stoppedBefore) || fromParam:
		// requests that never entered a table (drained queue, add() on a stopped table)
		guard := stoppedBefore
		if !guard {
			// add(): on the stopped edge
			g, _ := e.guardedOnAllPaths(s.(ssa.Instruction), reqBool("", func(v ssa.Value) bool {
				f, _, ok := loadedField(v)
				return ok && f.Name() == "stopped"
			}, true))
			guard = g
		}
		r.check(guard, "PAIR-detach", key+" (request never entered the table)", e.ipos(s),
			"the request is terminated because the table is stopped and never registered it", "a request that is not in the table is terminated while the table is still running")
	default:
		r.bad("PAIR-detach", key, e.ipos(s), "cannot tell where the notified request comes from (not a pending slot, table map, take result or handed-over slice)")
	}
	_ = tn
}

// c12Mutex: the table mutex is held at the notification.
func c12Mutex(e *Engine, r *Report, fn *ssa.Function, s ssa.CallInstruction, key string) {
	held := false
	all := true
	for _, c := range e.HeldAt(s.(ssa.Instruction)) {
		has := false
		for f, m := range c.Held {
			if m == 2 && (f.Name() == "mu" || f.Name() == "Mutex") && f.Pkg() != nil && f.Pkg().Path() == modPath {
				has = true
			}
		}
		if has {
			held = true
		} else {
			all = false
		}
	}
	r.check(held && all, "LS-table-mutex", key+" under the table mutex", e.ipos(s),
		"notify and detach happen in one critical section", "the terminal notification is issued without the table mutex: it can race with another completion of the same request")
}

// c12OnlyEmptyRangeBypass: the only way to return from add() without
// registering or terminating is the terminate-loop over an empty slice.
func c12OnlyEmptyRangeBypass(e *Engine, add, termFn *ssa.Function, batches *types.Var) bool {
	if termFn == nil {
		return false
	}
	// the terminate call must be inside a loop ranging over the parameter slice, on the stopped edge
	ok := false
	for _, s := range e.SitesIn(add, termFn) {
		recv := s.Common().Args[0]
		if e.dependsOn(recv, func(v ssa.Value) bool { p, isP := v.(*ssa.Parameter); return isP && p.Name() == "reqs" }, 0) {
			ok = true
		}
	}
	if !ok {
		return false
	}
	// and every return is reached either through the map update, or through the stopped==true edge
	good := true
	forEachInstr(add, func(in ssa.Instruction) {
		if _, isRet := in.(*ssa.Return); !isRet {
			return
		}
		viaStopped, _ := e.guardedOnAllPaths(in, reqBool("", func(v ssa.Value) bool {
			f, _, ok := loadedField(v)
			return ok && f.Name() == "stopped"
		}, true))
		if viaStopped {
			return
		}
		res := e.findPath(add, nil, func(x ssa.Instruction) bool { return x == in }, func(x ssa.Instruction) bool {
			mu, ok := x.(*ssa.MapUpdate)
			return ok && fieldV(batches)(mu.Map)
		}, nil)
		if res.Found {
			good = false
		}
	})
	return good
}

// c12Pool: Get -> reuse; fresh channel unless provably empty; Put only behind
// readyToRelease; readyToRelease.set only after the send.
func c12Pool(e *Engine, r *Report) {
	root := e.pkgTypes("dragonboat")
	reuse := r.need("(*dragonboat.RequestState).reuse")
	release := r.need("(*dragonboat.RequestState).Release")
	notify := r.need("(*dragonboat.RequestState).notify")
	readyFn := r.need("(*dragonboat.ready).ready")
	setFn := r.need("(*dragonboat.ready).set")
	completedC := r.needField("dragonboat", "RequestState", "CompletedC")
	committedC := r.needField("dragonboat", "RequestState", "committedC")
	rtr := r.needField("dragonboat", "RequestState", "readyToRelease")
	if reuse == nil || release == nil || notify == nil || readyFn == nil || setFn == nil || completedC == nil || rtr == nil || committedC == nil {
		return
	}
	isPoolCall := func(s ssa.CallInstruction, name string) bool {
		sc := s.Common().StaticCallee()
		return sc != nil && sc.Name() == name && sc.Pkg != nil && sc.Pkg.Pkg.Path() == "sync" && strings.HasSuffix(sc.Signature.Recv().Type().String(), "sync.Pool")
	}
	n := 0
	for _, fn := range e.ScopeFuncs() {
		if fnPkg(fn) != root || !e.IsLive(fn) {
			continue
		}
		forEachCall(fn, func(s ssa.CallInstruction) {
			if isPoolCall(s, "Get") {
				// only pools of RequestState
				c, ok := s.(*ssa.Call)
				if !ok {
					return
				}
				isRS := false
				for _, ref := range *c.Referrers() {
					if ta, ok := ref.(*ssa.TypeAssert); ok && strings.HasSuffix(ta.AssertedType.String(), ".RequestState") {
						isRS = true
					}
				}
				if !isRS {
					return
				}
				n++
				res := e.findPath(fn, c, isReturn, func(in ssa.Instruction) bool {
					cc, ok := in.(*ssa.Call)
					return ok && e.CallsTo(cc, reuse)
				}, nil)
				r.check(!res.Found, "PAIR-pool", "pool.Get in "+fname(fn)+" is followed by reuse()", e.ipos(s),
					"a pooled request is re-initialised before it is handed out", "a pooled request can be handed out without reuse(): it may carry a previous result")
			}
			if isPoolCall(s, "Put") {
				n++
				r.check(fn == release, "PAIR-pool", "pool.Put in "+fname(fn), e.ipos(s), "requests return to the pool only through Release", "a request is put back into the pool outside Release()")
				r.guard("PAIR-pool", "pool.Put in "+fname(fn), s.(ssa.Instruction),
					reqBool("readyToRelease.ready() is true", e.callV(readyFn), true))
			}
		})
	}
	r.floor("PAIR-pool", n, 3)
	// reuse: on every path the result channel is replaced unless it is non-nil and empty
	for _, ch := range []*types.Var{completedC} {
		fresh := func(in ssa.Instruction) bool {
			st, ok := in.(*ssa.Store)
			if !ok {
				return false
			}
			f, _, ok := fieldOfAddr(st.Addr)
			if !ok || f != ch {
				return false
			}
			_, isMake := st.Val.(*ssa.MakeChan)
			return isMake
		}
		edgeOK := func(p, s2 *ssa.BasicBlock) bool {
			// do not traverse edges that establish len(ch) <= 0 (i.e. `len(ch) > 0` false) together with ch != nil:
			// we only need: a path on which len(ch) > 0 may hold and no fresh store happens is a violation.
			fs := expandFacts(edgeOnly(p, s2))
			if hasCmpFact(fs, "<=", lenOfV(fieldV(ch)), intConstV(0)) {
				return false
			}
			return true
		}
		res := e.findPath(reuse, nil, isReturn, fresh, edgeOK)
		r.check(!res.Found, "PAIR-pool", "reuse() replaces "+ch.Name()+" unless it is provably empty", e.pos(reuse.Pos()),
			"a reused request never starts with a stale result in its channel", "a path through reuse() keeps a result channel that may still hold the previous request's result")
	}
	// readyToRelease.set only after the result was sent
	for _, s := range e.CallerSites(setFn) {
		args := s.Common().Args
		if len(args) == 0 {
			continue
		}
		f, _, ok := fieldOfAddr(args[0])
		if !ok || f != rtr {
			continue
		}
		fn := s.Parent()
		// dominated by the send on CompletedC: in a select, the send case body
		okSend := false
		forEachInstr(fn, func(in ssa.Instruction) {
			if sel, ok := in.(*ssa.Select); ok {
				for _, st := range sel.States {
					if st.Dir == types.SendOnly && fieldV(completedC)(st.Chan) && dominatesInstr(in, s.(ssa.Instruction)) {
						okSend = true
					}
				}
			}
			if sd, ok := in.(*ssa.Send); ok && fieldV(completedC)(sd.Chan) && dominatesInstr(in, s.(ssa.Instruction)) {
				okSend = true
			}
		})
		// and on the branch where the send case was chosen (select index == send case)
		r.check(okSend && fn == notify, "PAIR-pool", "readyToRelease.set in "+fname(fn), e.ipos(s),
			"a request becomes releasable only after its result was delivered", "readyToRelease is set without a preceding send of the result")
	}
	// Release clears the identity fields before Put
	clears := 0
	for _, fnm := range []string{"key", "clientID", "seriesID", "deadline", "node"} {
		f := e.Field("dragonboat", "RequestState", fnm)
		for _, w := range e.FieldWrites(f) {
			if w.Fn == release {
				clears++
			}
		}
	}
	r.check(clears >= 5, "PAIR-pool", "Release() clears the request identity before Put", e.pos(release.Pos()),
		"a released request carries no key/client/series/deadline of its previous use", "Release() no longer clears all identity fields of the request")
}
