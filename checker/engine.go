package main

// engine.go: loads /repo's current working tree as a type-checked program,
// builds SSA and the VTA call graph and offers resolved lookups (functions,
// types, fields, methods, call sites, callers). Nothing here runs dragonboat
// code.

import (
	"fmt"
	"go/token"
	"go/types"
	"os"
	"sort"
	"strings"
	"time"

	"golang.org/x/tools/go/callgraph"
	"golang.org/x/tools/go/callgraph/cha"
	"golang.org/x/tools/go/callgraph/vta"
	"golang.org/x/tools/go/packages"
	"golang.org/x/tools/go/ssa"
	"golang.org/x/tools/go/ssa/ssautil"
)

const modPath = "github.com/lni/dragonboat/v4"

// BuildConfig is one build configuration of /repo that is analysed.
type BuildConfig struct {
	Name   string
	Tags   string
	GOOS   string
	GOARCH string
}

func (c BuildConfig) String() string { return c.Name }

var defaultConfig = BuildConfig{Name: "linux/amd64"}

var thoroughConfigs = []BuildConfig{
	defaultConfig,
	{Name: "linux/amd64+dragonboat_monkeytest", Tags: "dragonboat_monkeytest"},
	{Name: "darwin/amd64", GOOS: "darwin"},
	{Name: "linux/arm64", GOARCH: "arm64"},
}

// Engine is the resolved program of one build configuration.
type Engine struct {
	Cfg         BuildConfig
	Dir         string
	Fset        *token.FileSet
	Pkgs        []*packages.Package // module packages (non-test)
	PkgByID     map[string]*packages.Package
	Prog        *ssa.Program
	SSAPkgs     map[string]*ssa.Package // by import path
	All         map[*ssa.Function]bool
	CG          *callgraph.Graph
	ModFuncs    []*ssa.Function // every function (incl. closures) defined in the module
	byName      map[string]*ssa.Function
	requested   map[string]bool
	fieldReq    map[string]fieldDesc
	renamed     map[string]*ssa.Function
	RenameNotes []string
	LoadS       float64
	SSAS        float64
	CGS         float64

	noret     map[*ssa.Function]int // 0 unknown 1 returns 2 noreturn
	siteCache map[ssa.CallInstruction][]*ssa.Function
	domCache  map[*ssa.Function]*postDom
	lockCache map[*ssa.Function]*lockFacts
	ctx       *ctxState
}

func short(s string) string {
	s = strings.ReplaceAll(s, modPath+"/", "")
	s = strings.ReplaceAll(s, modPath, "dragonboat")
	return s
}

// fname is the stable key of a function: e.g.
// "(*internal/raft.raft).handleLeaderReadIndex", "dragonboat.panicNow",
// "(*dragonboat.node).processSteps$1".
func fname(f *ssa.Function) string {
	if f == nil {
		return "<nil>"
	}
	return short(f.String())
}

func inModule(p *types.Package) bool {
	return p != nil && (p.Path() == modPath || strings.HasPrefix(p.Path(), modPath+"/"))
}

func fnPkg(f *ssa.Function) *types.Package {
	for f.Parent() != nil {
		f = f.Parent()
	}
	if f.Pkg != nil {
		return f.Pkg.Pkg
	}
	if o := f.Object(); o != nil {
		return o.Pkg()
	}
	if f.Origin() != nil {
		return fnPkg(f.Origin())
	}
	return nil
}

// excluded packages: fuzz drivers, examples, test helpers that ship as
// non-_test files; they are drivers of the library, not the library.
func scopePkg(path string) bool {
	if !strings.HasPrefix(path, modPath) {
		return false
	}
	rel := strings.TrimPrefix(strings.TrimPrefix(path, modPath), "/")
	for _, ex := range []string{"internal/tests", "examples", "plugin/chan", "tools/checkdisk", "internal/logdb/tee", "plugin/tee"} {
		if rel == ex || strings.HasPrefix(rel, ex+"/") {
			return false
		}
	}
	return true
}

// Load loads ./... of dir under cfg. A type error is an error (fail closed).
func Load(dir string, cfg BuildConfig) (*Engine, error) {
	t0 := time.Now()
	env := append(os.Environ(), "GOFLAGS=-mod=mod", "GOPROXY=off", "GOSUMDB=off",
		"GOTOOLCHAIN=local", "GOWORK=off", "CGO_ENABLED=0")
	if cfg.GOOS != "" {
		env = append(env, "GOOS="+cfg.GOOS)
	}
	if cfg.GOARCH != "" {
		env = append(env, "GOARCH="+cfg.GOARCH)
	}
	pc := &packages.Config{
		Mode:  packages.LoadAllSyntax,
		Dir:   dir,
		Env:   env,
		Tests: false,
	}
	if cfg.Tags != "" {
		pc.BuildFlags = []string{"-tags=" + cfg.Tags}
	}
	pkgs, err := packages.Load(pc, "./...")
	if err != nil {
		return nil, fmt.Errorf("load: %v", err)
	}
	if len(pkgs) == 0 {
		return nil, fmt.Errorf("load: zero packages")
	}
	var errs []string
	packages.Visit(pkgs, nil, func(p *packages.Package) {
		for _, e := range p.Errors {
			errs = append(errs, e.Error())
		}
	})
	if len(errs) > 0 {
		sort.Strings(errs)
		if len(errs) > 8 {
			errs = errs[:8]
		}
		return nil, fmt.Errorf("type/load errors (%d): %s", len(errs), strings.Join(errs, "; "))
	}
	e := &Engine{Cfg: cfg, Dir: dir, PkgByID: map[string]*packages.Package{}, SSAPkgs: map[string]*ssa.Package{},
		byName: map[string]*ssa.Function{}, noret: map[*ssa.Function]int{},
		siteCache: map[ssa.CallInstruction][]*ssa.Function{}, domCache: map[*ssa.Function]*postDom{}}
	e.Fset = pkgs[0].Fset
	for _, p := range pkgs {
		if inModule(p.Types) {
			e.Pkgs = append(e.Pkgs, p)
			e.PkgByID[p.PkgPath] = p
		}
	}
	if len(e.Pkgs) < 20 {
		return nil, fmt.Errorf("load: only %d module packages", len(e.Pkgs))
	}
	e.LoadS = time.Since(t0).Seconds()

	t1 := time.Now()
	prog, spkgs := ssautil.AllPackages(pkgs, ssa.InstantiateGenerics)
	prog.Build()
	e.Prog = prog
	for _, sp := range spkgs {
		if sp != nil {
			e.SSAPkgs[sp.Pkg.Path()] = sp
		}
	}
	for _, sp := range prog.AllPackages() {
		e.SSAPkgs[sp.Pkg.Path()] = sp
	}
	e.All = ssautil.AllFunctions(prog)
	e.SSAS = time.Since(t1).Seconds()

	t2 := time.Now()
	e.CG = vta.CallGraph(e.All, cha.CallGraph(prog))
	e.CGS = time.Since(t2).Seconds()

	for f := range e.All {
		p := fnPkg(f)
		if p == nil || !inModule(p) {
			continue
		}
		if f.Synthetic != "" && f.Parent() == nil && !strings.HasPrefix(f.Synthetic, "package init") {
			// wrappers, bound methods, thunks: edges pass through them in
			// the call graph; they hold no source statements.
			continue
		}
		e.ModFuncs = append(e.ModFuncs, f)
		e.byName[fname(f)] = f
	}
	sort.Slice(e.ModFuncs, func(i, j int) bool { return fname(e.ModFuncs[i]) < fname(e.ModFuncs[j]) })
	return e, nil
}

// ScopeFuncs returns module functions of packages in analysis scope.
func (e *Engine) ScopeFuncs() []*ssa.Function {
	var out []*ssa.Function
	for _, f := range e.ModFuncs {
		if p := fnPkg(f); p != nil && scopePkg(p.Path()) {
			out = append(out, f)
		}
	}
	return out
}

// Func resolves a function by its key; every request is recorded (for the
// anchor table) and a name that no longer resolves is looked up by role
// (anchors.go).
func (e *Engine) Func(name string) *ssa.Function {
	if e.requested == nil {
		e.requested = map[string]bool{}
	}
	e.requested[name] = true
	if f := e.byName[name]; f != nil {
		return f
	}
	return e.renamedAnchor(name)
}

func (e *Engine) pkgTypes(rel string) *types.Package {
	path := modPath
	if rel != "" && rel != "dragonboat" {
		path = modPath + "/" + rel
	}
	if rel != "" && !strings.HasPrefix(rel, "internal") && strings.Contains(rel, ".") {
		path = rel // external import path
	}
	if sp := e.SSAPkgs[path]; sp != nil {
		return sp.Pkg
	}
	if sp := e.SSAPkgs[rel]; sp != nil {
		return sp.Pkg
	}
	return nil
}

// Named returns the named type pkg.name or nil.
func (e *Engine) Named(pkg, name string) *types.Named {
	p := e.pkgTypes(pkg)
	if p == nil {
		return nil
	}
	o := p.Scope().Lookup(name)
	if o == nil {
		return nil
	}
	n, _ := o.Type().(*types.Named)
	return n
}

// Field returns the field object of struct type pkg.typ.
func (e *Engine) Field(pkg, typ, field string) *types.Var {
	n := e.Named(pkg, typ)
	if n == nil {
		return nil
	}
	st, ok := n.Underlying().(*types.Struct)
	if !ok {
		return nil
	}
	if e.fieldReq == nil {
		e.fieldReq = map[string]fieldDesc{}
	}
	for i := 0; i < st.NumFields(); i++ {
		if st.Field(i).Name() == field {
			e.fieldReq[pkg+"."+typ+"."+field] = fieldDesc{Index: i, Type: short(st.Field(i).Type().String())}
			return st.Field(i)
		}
	}
	return e.renamedField(pkg, typ, field)
}

// Method returns the declared method object (concrete or interface) pkg.typ.m.
func (e *Engine) Method(pkg, typ, m string) *types.Func {
	n := e.Named(pkg, typ)
	if n == nil {
		return nil
	}
	if it, ok := n.Underlying().(*types.Interface); ok {
		for i := 0; i < it.NumMethods(); i++ {
			if it.Method(i).Name() == m {
				return it.Method(i)
			}
		}
		return nil
	}
	for i := 0; i < n.NumMethods(); i++ {
		if n.Method(i).Name() == m {
			return n.Method(i)
		}
	}
	return nil
}

// Const returns the constant object pkg.name.
func (e *Engine) Const(pkg, name string) *types.Const {
	p := e.pkgTypes(pkg)
	if p == nil {
		return nil
	}
	c, _ := p.Scope().Lookup(name).(*types.Const)
	return c
}

// PkgFunc returns the package-level function pkg.name.
func (e *Engine) PkgFunc(pkg, name string) *ssa.Function {
	p := e.pkgTypes(pkg)
	if p == nil {
		return nil
	}
	o, _ := p.Scope().Lookup(name).(*types.Func)
	if o == nil {
		return nil
	}
	return e.Prog.FuncValue(o)
}

// MethodFunc returns the ssa function of the concrete method.
func (e *Engine) MethodFunc(pkg, typ, m string) *ssa.Function {
	o := e.Method(pkg, typ, m)
	if o == nil {
		return nil
	}
	return e.Prog.FuncValue(o)
}

// Callees resolves a call site: static callee, or VTA edges.
func (e *Engine) Callees(site ssa.CallInstruction) []*ssa.Function {
	if c, ok := e.siteCache[site]; ok {
		return c
	}
	var out []*ssa.Function
	if sc := site.Common().StaticCallee(); sc != nil {
		out = []*ssa.Function{sc}
	} else if n := e.CG.Nodes[site.Parent()]; n != nil {
		seen := map[*ssa.Function]bool{}
		for _, ed := range n.Out {
			if ed.Site == site && !seen[ed.Callee.Func] {
				seen[ed.Callee.Func] = true
				out = append(out, ed.Callee.Func)
			}
		}
		sort.Slice(out, func(i, j int) bool { return out[i].String() < out[j].String() })
	}
	// look through synthetic wrappers/bound-method thunks
	for i, f := range out {
		out[i] = unwrap(f)
	}
	e.siteCache[site] = out
	return out
}

// unwrap follows a synthetic wrapper ($bound, $thunk, promoted-method
// wrapper) to the declared function it forwards to.
func unwrap(f *ssa.Function) *ssa.Function {
	for i := 0; i < 4 && f != nil && f.Synthetic != "" && f.Parent() == nil && len(f.Blocks) > 0; i++ {
		var tgt *ssa.Function
		n := 0
		for _, b := range f.Blocks {
			for _, in := range b.Instrs {
				if c, ok := in.(ssa.CallInstruction); ok {
					n++
					tgt = c.Common().StaticCallee()
				}
			}
		}
		if n != 1 || tgt == nil {
			return f
		}
		f = tgt
	}
	return f
}

// CallerSites returns every call instruction in module functions that may
// call f (through wrappers too).
func (e *Engine) CallerSites(f *ssa.Function) []ssa.CallInstruction {
	var out []ssa.CallInstruction
	seen := map[ssa.CallInstruction]bool{}
	var visit func(g *ssa.Function, depth int)
	visit = func(g *ssa.Function, depth int) {
		n := e.CG.Nodes[g]
		if n == nil {
			return
		}
		for _, ed := range n.In {
			if ed.Site == nil {
				continue
			}
			cf := ed.Caller.Func
			if cf.Synthetic != "" && cf.Parent() == nil && depth < 4 && !strings.HasPrefix(cf.Synthetic, "package init") {
				visit(cf, depth+1)
				continue
			}
			if !seen[ed.Site] {
				seen[ed.Site] = true
				if p := fnPkg(cf); p != nil && inModule(p) && !e.IsLive(cf) {
					continue // caller is dead code / test-only helper
				}
				out = append(out, ed.Site)
			}
		}
	}
	visit(f, 0)
	sort.Slice(out, func(i, j int) bool { return out[i].Pos() < out[j].Pos() })
	return out
}

// IsMethodCall reports whether the call site invokes (statically or through an
// interface) the method object m, or a concrete method implementing it.
func (e *Engine) IsMethodCall(site ssa.CallInstruction, m *types.Func) bool {
	if m == nil {
		return false
	}
	c := site.Common()
	if c.IsInvoke() {
		return c.Method == m || (c.Method.Name() == m.Name() && sameIfaceMethod(c.Method, m))
	}
	if sc := c.StaticCallee(); sc != nil {
		if o, _ := sc.Object().(*types.Func); o != nil && o == m {
			return true
		}
	}
	return false
}

func sameIfaceMethod(a, b *types.Func) bool {
	if a == b {
		return true
	}
	ra, rb := a.Type().(*types.Signature).Recv(), b.Type().(*types.Signature).Recv()
	if ra == nil || rb == nil {
		return false
	}
	ia, ok1 := ra.Type().Underlying().(*types.Interface)
	ib, ok2 := rb.Type().Underlying().(*types.Interface)
	if !ok1 || !ok2 {
		return false
	}
	// embedded interface: a's receiver interface contains b (or vice versa)
	has := func(it *types.Interface, m *types.Func) bool {
		for i := 0; i < it.NumMethods(); i++ {
			if it.Method(i) == m {
				return true
			}
		}
		return false
	}
	return has(ia, b) || has(ib, a)
}

func (e *Engine) pos(p token.Pos) string {
	if !p.IsValid() {
		return "-"
	}
	ps := e.Fset.Position(p)
	f := ps.Filename
	if strings.HasPrefix(f, e.Dir+"/") {
		f = strings.TrimPrefix(f, e.Dir+"/")
	}
	return fmt.Sprintf("%s:%d", f, ps.Line)
}

// instrPos returns the best position for an instruction.
func (e *Engine) ipos(in ssa.Instruction) string {
	if in == nil {
		return "-"
	}
	p := in.Pos()
	if !p.IsValid() {
		if v, ok := in.(ssa.Value); ok {
			_ = v
		}
		// fall back to nearest instruction with a position in the block
		b := in.Block()
		if b != nil {
			for _, x := range b.Instrs {
				if x.Pos().IsValid() {
					p = x.Pos()
					if x == in {
						break
					}
				}
			}
		}
		if !p.IsValid() && in.Parent() != nil {
			p = in.Parent().Pos()
		}
	}
	return e.pos(p)
}
