package main

// Rules written proactively from the anchor-gap survey (tools/anchor_gaps.py):
// mechanisms inside the anchored files that no rule looked at yet. Each is a
// structural necessary condition of the property it is registered under.

import (
	"go/token"
	"go/types"

	"golang.org/x/tools/go/ssa"
)

// stdCallV: the value is the result of a static call of pkgPath.name (a
// standard-library function such as bytes.Equal).
func stdCallV(pkgPath, name string) VM {
	return func(v ssa.Value) bool {
		c, ok := stripConv(v).(*ssa.Call)
		if !ok {
			return false
		}
		sc := c.Call.StaticCallee()
		return sc != nil && sc.Name() == name && sc.Pkg != nil && sc.Pkg.Pkg.Path() == pkgPath
	}
}

// ruleValidatorExact (C14): the bodies of the snapshot validators answer
// "valid" only on the strength of the comparison they exist for. The VAL
// rules decide that a verdict gates; this decides that the verdict itself is
// the checksum / magic / size comparison.
func ruleValidatorExact(e *Engine, r *Report) {
	eq := stdCallV("bytes", "Equal")
	eqDep := func(pred func(ssa.Value) bool) VM {
		return func(v ssa.Value) bool {
			c, ok := stripConv(v).(*ssa.Call)
			if !ok || !eq(v) {
				return false
			}
			for _, a := range c.Call.Args {
				if e.dependsOn(a, pred, 1) {
					return true
				}
			}
			return false
		}
	}
	isSum := func(v ssa.Value) bool {
		c, ok := v.(*ssa.Call)
		return ok && c.Call.IsInvoke() && c.Call.Method.Name() == "Sum"
	}
	n := 0
	if vb := r.need("internal/rsm.validateBlock"); vb != nil {
		n++
		r.returnsOnlyUnder("GD-validator-exact", "validateBlock answers valid", vb, 0, true, nil,
			reqBool("the stored block crc equals the computed one (bytes.Equal over hash.Sum)", eqDep(isSum), true))
	}
	if vh := r.need("internal/rsm.validateHeader"); vh != nil {
		n++
		zero := func(v ssa.Value) bool {
			g, ok := v.(*ssa.Global)
			return ok && g.Name() == "fourZeroBytes"
		}
		r.returnsOnlyUnder("GD-validator-exact", "validateHeader answers valid", vh, 0, true, nil,
			reqAny("the stored header crc equals the computed one, or the legacy all-zero crc",
				reqBool("", eqDep(isSum), true), reqBool("", eqDep(zero), true)))
	}
	if v1 := r.need("(*internal/rsm.v1validator).Validate"); v1 != nil {
		n++
		pc := r.needField("raftpb", "SnapshotHeader", "PayloadChecksum")
		r.returnsOnlyUnder("GD-validator-exact", "v1validator.Validate answers valid", v1, 0, true, nil,
			reqBool("the computed payload checksum equals SnapshotHeader.PayloadChecksum", func(v ssa.Value) bool {
				return eqDep(isSum)(v) && eqDep(fieldV(pc))(v)
			}, true))
	}
	if ms := r.need("(*internal/rsm.v2validator).validateMagicSize"); ms != nil {
		n++
		magic := func(v ssa.Value) bool {
			g, ok := v.(*ssa.Global)
			return ok && g.Name() == "writerMagicNumber"
		}
		total := r.needField("internal/rsm", "v2validator", "total")
		r.returnsOnlyUnder("GD-validator-exact", "v2validator.validateMagicSize answers valid", ms, 0, true, nil,
			reqBool("the tail carries the writer's magic number", eqDep(magic), true),
			reqCmp("the recorded size equals the bytes received", "==", anyV(), func(v ssa.Value) bool {
				return e.dependsOn(v, fieldV(total), 0)
			}))
	}
	if v2 := r.need("(*internal/rsm.v2validator).Validate"); v2 != nil {
		n++
		ms := e.Func("(*internal/rsm.v2validator).validateMagicSize")
		vb2 := e.Func("(*internal/rsm.v2validator).validateBlock")
		vb := e.Func("internal/rsm.validateBlock")
		r.returnsOnlyUnder("GD-validator-exact", "v2validator.Validate answers valid", v2, 0, true, nil,
			reqBool("validateMagicSize accepted the tail", e.callV(ms), true),
			reqAny("the last block validated, or nothing is left over",
				reqBool("", e.callV(vb2, vb), true),
				reqCmp("", "==", lenOfV(anyV()), intConstV(0))))
	}
	r.floor("GD-validator-exact", n, 5)
}

// ruleLastAppliedContiguous (C02, C11): the applied cursor published to the
// read path (StateMachine.lastApplied) moves only over a gap-free run of
// entries that continues the previous cursor: both assertions of
// setLastApplied fail-stop, and the cursor store is behind them.
func ruleLastAppliedContiguous(e *Engine, r *Report) {
	fn := r.need("(*internal/rsm.StateMachine).setLastApplied")
	entIdx := r.needField("raftpb", "Entry", "Index")
	if fn == nil || entIdx == nil {
		return
	}
	isLA := fieldNameV("lastApplied", "index")
	plus1 := func(inner VM) VM {
		return func(v ssa.Value) bool {
			b, ok := stripConv(v).(*ssa.BinOp)
			return ok && b.Op == token.ADD && ((inner(b.X) && intConstV(1)(b.Y)) || (inner(b.Y) && intConstV(1)(b.X)))
		}
	}
	n := 0
	forEachInstr(fn, func(in ssa.Instruction) {
		st, ok := in.(*ssa.Store)
		if !ok {
			return
		}
		f, base, ok := fieldOfAddr(st.Addr)
		if !ok || f.Name() != "index" {
			return
		}
		fa, ok := base.(*ssa.FieldAddr)
		if !ok {
			return
		}
		if s := derefStruct(fa.X.Type()); s == nil || s.Field(fa.Field).Name() != "lastApplied" {
			return
		}
		n++
		r.guard("GD-lastapplied-contiguous", "lastApplied.index stored in setLastApplied", in,
			reqCmp("lastApplied.index+1 == first entry's index", "==", plus1(isLA), fieldV(entIdx)))
	})
	r.floor("GD-lastapplied-contiguous", n, 1)
	// inside the batch: an If comparing e.Index with (running index)+1 whose unequal edge fail-stops
	found := false
	forEachInstr(fn, func(in ssa.Instruction) {
		ifi, ok := in.(*ssa.If)
		if !ok {
			return
		}
		b, ok := ifi.Cond.(*ssa.BinOp)
		if !ok || (b.Op != token.NEQ && b.Op != token.EQL) {
			return
		}
		isPhi := func(v ssa.Value) bool { _, ok := stripConv(v).(*ssa.Phi); return ok }
		if !((fieldV(entIdx)(b.X) && plus1(isPhi)(b.Y)) || (fieldV(entIdx)(b.Y) && plus1(isPhi)(b.X))) {
			return
		}
		bad := ifi.Block().Succs[0]
		if b.Op == token.EQL {
			bad = ifi.Block().Succs[1]
		}
		if e.blockFailStops(bad) {
			found = true
		}
	})
	r.check(found, "GD-lastapplied-contiguous", "setLastApplied fail-stops on an index gap inside the batch", e.pos(fn.Pos()),
		"every entry continues its predecessor", "setLastApplied no longer fail-stops when an entry of the batch does not continue its predecessor: the published applied index can run ahead of what was applied")
}

// ruleQueueAdmission (C12): the two input queues hand a request to the step
// worker only while open, answer "added" only for a request they stored, and
// swap buffers on every get (the returned slice is not written again until
// the next get).
func ruleQueueAdmission(e *Engine, r *Report) {
	n := 0
	for _, tn := range []string{"entryQueue", "readIndexQueue"} {
		add := r.need("(*dragonboat." + tn + ").add")
		get := r.need("(*dragonboat." + tn + ").get")
		stopped := r.needField("dragonboat", tn, "stopped")
		liw := r.needField("dragonboat", tn, "leftInWrite")
		idx := r.needField("dragonboat", tn, "idx")
		mu := r.needField("dragonboat", tn, "mu")
		if add == nil || get == nil || stopped == nil || liw == nil || idx == nil || mu == nil {
			continue
		}
		// the element store: a Store through an IndexAddr whose value is the parameter
		var elemStores []ssa.Instruction
		forEachInstr(add, func(in ssa.Instruction) {
			st, ok := in.(*ssa.Store)
			if !ok {
				return
			}
			if _, ok := st.Addr.(*ssa.IndexAddr); !ok {
				return
			}
			if e.dependsOn(st.Val, func(v ssa.Value) bool { _, isP := v.(*ssa.Parameter); return isP }, 0) {
				elemStores = append(elemStores, in)
			}
		})
		for i, s := range elemStores {
			n++
			r.guard("GD-queue-admission", tn+".add stores the request #"+itoa(i+1), s, reqBool("the queue is not stopped", fieldV(stopped), false))
			r.requireLock("GD-queue-admission", tn+".add stores the request #"+itoa(i+1)+" under the queue mutex", s, mu, 2, "the queue's buffers are swapped by the step worker under the same mutex")
		}
		isElem := func(in ssa.Instruction) bool {
			for _, s := range elemStores {
				if s == in {
					return true
				}
			}
			return false
		}
		// "added" is answered only after the store
		res := e.findPath(add, nil, func(in ssa.Instruction) bool {
			ret, ok := in.(*ssa.Return)
			if !ok || len(ret.Results) < 1 {
				return false
			}
			cb, isC := isConstBool(retOperand(ret, 0))
			return !isC || cb
		}, isElem, nil)
		r.check(!res.Found && len(elemStores) > 0, "GD-queue-admission", tn+".add answers added only for a stored request", e.pos(add.Pos()),
			"every accepting return follows the store", "the queue can answer \"added\" without having stored the request: the request is registered as pending but never reaches the raft core and only ends by timeout", res.Trace(e)...)
		// get flips the buffer and resets the write position on every path
		for _, fl := range []*types.Var{liw, idx} {
			res := e.pathUnless(get, nil, isReturn, isStoreToField(fl), reqCmp("nothing was queued", "==", fieldV(idx), intConstV(0)))
			r.check(!res.Found, "GD-queue-admission", tn+".get resets "+fl.Name()+" on every path that hands out requests", e.pos(get.Pos()),
				"the handed-out buffer is not written again until the next get", "a path through get() hands out the buffer without switching to the other one / rewinding the write position: later requests overwrite or duplicate entries the step worker is processing", res.Trace(e)...)
		}
	}
	r.floor("GD-queue-admission", n, 2)
}

// ruleSessionRegisterResult (C05, C12): the result of a session register /
// unregister entry tells the client the truth: the client id is returned only
// on the path that inserted / removed the session, the empty result only
// where nothing changed.
func ruleSessionRegisterResult(e *Engine, r *Report) {
	val := r.needField("statemachine", "Result", "Value")
	for _, c := range [][3]string{
		{"(*internal/rsm.SessionManager).RegisterClientID", "(*internal/rsm.lrusession).addSession", "inserted"},
		{"(*internal/rsm.SessionManager).UnregisterClientID", "(*internal/rsm.lrusession).delSession", "removed"},
	} {
		fn := r.need(c[0])
		step := r.need(c[1])
		if fn == nil || step == nil || val == nil || len(fn.Params) < 2 {
			continue
		}
		id := fn.Params[1]
		isStep := e.throughHelpers(func(s ssa.CallInstruction) bool { return e.CallsTo(s, step) })
		// returns whose Result.Value derives from the client id
		carriesID := func(in ssa.Instruction) bool {
			ret, ok := in.(*ssa.Return)
			if !ok || len(ret.Results) == 0 {
				return false
			}
			return e.dependsOn(retOperand(ret, 0), func(v ssa.Value) bool { return v == ssa.Value(id) }, 0)
		}
		res := e.findPath(fn, nil, carriesID, isStep, nil)
		any := e.findPath(fn, nil, carriesID, nil, nil)
		r.check(any.Found && !res.Found, "MPT-session-result", fname(fn)+" returns the client id only after the session was "+c[2], e.pos(fn.Pos()),
			"the success result follows the table change", "the success result (client id) can be returned without the session having been "+c[2]+": the client is told the operation took effect when it did not", res.Trace(e)...)
		// and the empty result only where the table did not change
		res2 := e.findPath(fn, nil, func(in ssa.Instruction) bool { return isReturn(in) && !carriesID(in) }, nil, nil)
		if res2.Found {
			// the empty-result return must not be reachable after the step
			for _, s := range e.SitesIn(fn, step) {
				after := e.findPath(fn, s.(ssa.Instruction), func(in ssa.Instruction) bool { return isReturn(in) && !carriesID(in) }, nil, nil)
				r.check(!after.Found, "MPT-session-result", fname(fn)+" returns the empty result only when nothing changed", e.ipos(s),
					"no empty result after the table change", "the session table is changed and the empty (failure) result is returned", after.Trace(e)...)
			}
		}
	}
}

// ruleQuiesceActivity (C17): any message other than a plain heartbeat, and
// every read / membership request taken from the input queues, counts as
// activity: record() leaves the idle clock alone only for a disabled
// quiesce state or a heartbeat type, and the two request handlers record
// before they hand the request to the raft core.
func ruleQuiesceActivity(e *Engine, r *Report) {
	rec := r.need("(*dragonboat.quiesceState).record")
	idle := r.needField("dragonboat", "quiesceState", "idleSince")
	enabled := r.needField("dragonboat", "quiesceState", "enabled")
	hb := r.needConst("raftpb", "Heartbeat")
	hbr := r.needConst("raftpb", "HeartbeatResp")
	if rec == nil || idle == nil || enabled == nil || hb == nil || hbr == nil || len(rec.Params) < 2 {
		return
	}
	mt := func(v ssa.Value) bool { return stripConv(v) == ssa.Value(rec.Params[1]) }
	exempt := reqAny("quiesce disabled or a heartbeat type",
		reqBool("", fieldV(enabled), false),
		reqCmp("", "==", mt, constV(hb)),
		reqCmp("", "==", mt, constV(hbr)))
	res := e.pathUnless(rec, nil, isReturn, isStoreToField(idle), exempt)
	r.check(!res.Found, "GD-quiesce-activity", "quiesceState.record ignores only heartbeats", e.pos(rec.Pos()),
		"every other message type restarts the idle clock (and leaves quiesce)", "a message type other than Heartbeat/HeartbeatResp can be recorded without restarting the idle clock: a quiesced shard does not wake up for it, or an active one falls asleep under load", res.Trace(e)...)
	// exit happens on the recording path whenever quiesced
	exit := r.need("(*dragonboat.quiesceState).exitQuiesce")
	quiesced := r.need("(*dragonboat.quiesceState).quiesced")
	if exit != nil && quiesced != nil {
		for _, st := range func() []ssa.Instruction {
			var out []ssa.Instruction
			forEachInstr(rec, func(in ssa.Instruction) {
				if isStoreToField(idle)(in) {
					out = append(out, in)
				}
			})
			return out
		}() {
			isExit := func(in ssa.Instruction) bool {
				c, ok := in.(*ssa.Call)
				return ok && e.CallsTo(c, exit)
			}
			res := e.pathUnless(rec, st, isReturn, isExit, reqBool("not quiesced", e.callV(quiesced), false))
			r.check(!res.Found, "GD-quiesce-activity", "recorded activity leaves quiesce", e.ipos(st),
				"exitQuiesce on every path on which the state is quiesced", "activity is recorded but a quiesced state is not left", res.Trace(e)...)
		}
	}
	// request handlers record before entering the raft core
	n := 0
	for _, c := range [][2]string{
		{"(*dragonboat.node).handleReadIndex", "(*internal/raft.Peer).ReadIndex"},
		{"(*dragonboat.node).handleConfigChange", "(*internal/raft.Peer).ProposeConfigChange"},
	} {
		fn := r.need(c[0])
		core := r.need(c[1])
		if fn == nil || core == nil {
			continue
		}
		isRec := e.throughHelpers(func(s ssa.CallInstruction) bool { return e.CallsTo(s, rec) })
		for _, s := range e.SitesIn(fn, core) {
			n++
			res := e.findPath(fn, nil, func(in ssa.Instruction) bool { return in == s.(ssa.Instruction) }, isRec, nil)
			r.check(!res.Found, "GD-quiesce-activity", fname(core)+" in "+fname(fn)+" is preceded by quiesceState.record", e.ipos(s),
				"a quiesced replica wakes up before it steps the request", "the request reaches the raft core of a possibly quiesced replica without being recorded as activity: the replica keeps its quiesced (election-free, heartbeat-free) clock and the request waits for a timeout", res.Trace(e)...)
		}
	}
	r.floor("GD-quiesce-activity", n, 2)
}

// ---------------------------------------------------------------------------
// Rules added after the seventh round of independent seeded changes.

// alwaysFollowedBy: on every path from site to a success exit of its
// function an instruction satisfying pred is passed; failing that, the same
// holds after every call site of the function (up to depth).
func (e *Engine) alwaysFollowedBy(site ssa.Instruction, pred func(ssa.Instruction) bool, depth int) (bool, []string) {
	fn := site.Parent()
	res := e.findPath(fn, site, func(in ssa.Instruction) bool { return e.isSuccessReturn(in) }, pred, nil)
	if !res.Found {
		return true, nil
	}
	if depth == 0 {
		return false, res.Trace(e)
	}
	callers := e.CallerSites(fn)
	if len(callers) == 0 {
		return false, res.Trace(e)
	}
	for _, cs := range callers {
		if _, isGo := cs.(*ssa.Go); isGo {
			return false, []string{"spawned by go at " + e.ipos(cs)}
		}
		if !e.IsLive(cs.Parent()) {
			continue
		}
		if ok, w := e.alwaysFollowedBy(cs.(ssa.Instruction), pred, depth-1); !ok {
			return false, append([]string{fname(cs.Parent()) + " at " + e.ipos(cs)}, w...)
		}
	}
	return true, nil
}

// ruleResponseTypes (C03, C06): Peer.Handle drops a message from a sender
// that is not a member only when the message is a response type; the two
// response types whose handlers trust the sender - a granted vote is
// tallied, a ReadIndexResp releases reads at the index it carries - must be
// classified as responses.
func ruleResponseTypes(e *Engine, r *Report, must ...string) {
	fn := r.need("internal/raft.isResponseMessageType")
	mt := e.Named("raftpb", "MessageType")
	if fn == nil || mt == nil || len(fn.Params) == 0 {
		return
	}
	subj := func(v ssa.Value) bool { return stripConv(v) == ssa.Value(fn.Params[0]) }
	set := e.enumCasesReturning(fn, mt, e.pkgTypes("raftpb"), subj, 0, true)
	for _, k := range must {
		why := map[string]string{
			"RequestVoteResp": "a vote granted by a replica that is not (or no longer) a member is tallied towards the election quorum: two leaders in one term",
			"ReadIndexResp":   "a read index supplied by a replica that is not a member releases pending reads",
			"ReplicateResp":   "an acknowledgement from a non-member reaches the leader's progress tracking",
			"HeartbeatResp":   "a heartbeat response from a non-member reaches the leader's read confirmation",
		}[k]
		r.check(set[k], "TBL-response-types", "isResponseMessageType classifies "+k+" as a response", e.pos(fn.Pos()),
			"responses of this type from unknown senders are dropped by Peer.Handle", k+" is no longer classified as a response type, so Peer.Handle lets it through from a sender that is in none of the member maps: "+why)
	}
	r.floor("TBL-response-types", len(set), 4)
}

// ruleRawMkdir (C04, C10, C16): directories that hold replicated state are
// created through fileutil.Mkdir/MkdirAll, which fsync the parent directory;
// the storage, snapshot and transport code never calls the file system's own
// MkdirAll (whose new directory entry is not durable).
func ruleRawMkdir(e *Engine, r *Report) {
	scope := map[string]bool{}
	for _, p := range []string{"internal/tan", "internal/logdb", "internal/logdb/kv/pebble", "internal/logdb/kv", "internal/server", "internal/rsm", "internal/transport", "dragonboat", "tools"} {
		if pk := e.pkgTypes(p); pk != nil {
			scope[pk.Path()] = true
		}
	}
	fu := e.pkgTypes("internal/fileutil")
	control, n := 0, 0
	for _, fn := range e.ScopeFuncs() {
		pk := fnPkg(fn)
		if pk == nil {
			continue
		}
		forEachCall(fn, func(s ssa.CallInstruction) {
			if !isIfaceInvoke(s, "MkdirAll", "Rename", "Create") && !isIfaceInvoke(s, "Mkdir", "Rename", "Create") {
				return
			}
			if pk == fu {
				control++
				return
			}
			if !scope[pk.Path()] || !e.IsLive(outermostFn(fn)) {
				return
			}
			n++
			r.bad("WMC-raw-mkdir", "file system MkdirAll called in "+fname(fn), e.ipos(s),
				"a directory of the storage/snapshot layout is created with the file system's own MkdirAll instead of fileutil.Mkdir/MkdirAll: the new directory's entry in its parent is never fsynced, so everything later written and fsynced inside it can vanish with a power loss")
		})
	}
	r.check(control >= 1, "WMC-raw-mkdir", "positive control: fileutil itself calls the file system's MkdirAll", "-", "the rule recognises the call it forbids elsewhere ("+itoa(control)+" sites)", "the forbidden call is no longer recognised (vfs interface changed?)")
	if n == 0 {
		r.ok("WMC-raw-mkdir", "no raw MkdirAll in the storage, snapshot and transport packages", "-", "all directory creation goes through the fsyncing helpers")
	}
}

// ruleTanSwitchOrder (C04, C10): when Tan rotates its log, the index of the
// log being completed is saved before the new log is registered in the
// manifest (on reopen at most one live log may lack an index file).
func ruleTanSwitchOrder(e *Engine, r *Report) {
	sw := r.need("(*internal/tan.db).switchToNewLog")
	cn := r.need("(*internal/tan.db).createNewLog")
	save := r.need("(*internal/tan.nodeStates).save")
	if sw == nil || cn == nil || save == nil {
		return
	}
	isSave := e.throughHelpers(func(s ssa.CallInstruction) bool { return e.CallsTo(s, save) })
	n := 0
	for _, s := range e.SitesIn(sw, cn) {
		n++
		ok, w := e.alwaysPrecededBy(s.(ssa.Instruction), isSave, 0)
		r.check(ok, "MPT-tan-newlog-order", "log rotation saves the completed log's index before creating the new log", e.ipos(s),
			"at most the newest log lacks an index file at any crash point", "the new log can be registered in the manifest before the index of the completed log is saved: a crash in between leaves two live logs without index and the db refuses to open", w...)
	}
	r.floor("MPT-tan-switch-sites", n, 1)
}

// ruleSnapshotDeleteOlder (C09, C16): saving a snapshot record removes only
// records of older snapshots.
func ruleSnapshotDeleteOlder(e *Engine, r *Report) {
	fn := r.need("(*internal/logdb.db).saveSnapshot")
	ssIdx := r.needField("raftpb", "Snapshot", "Index")
	if fn == nil || ssIdx == nil {
		return
	}
	n := 0
	e.forEachInstrRegion(fn, 1, func(in ssa.Instruction) {
		c, ok := in.(ssa.CallInstruction)
		if !ok || !isIfaceInvoke(c, "Delete", "Put") {
			return
		}
		n++
		r.guard("GD-snapshot-delete-older", "snapshot record deleted in "+fname(in.Parent())+" #"+itoa(n), in,
			reqCmp("the saved snapshot's index > the deleted record's index", ">", fieldV(ssIdx), fieldV(ssIdx)))
	})
	r.floor("GD-snapshot-delete-older", n, 1)
}

// ruleTanStateCache (C09, C03): every record appended to a Tan log is
// reflected in the in-memory view the next write and read consult: the
// index and the cached hard state are updated on the success path of every
// append (the cached state decides whether a later identical state is
// skipped).
func ruleTanStateCache(e *Engine, r *Report) {
	wrec := r.need("(*internal/tan.writer).writeRecord")
	setState := r.need("(*internal/tan.nodeStates).setState")
	updIdx := r.need("(*internal/tan.db).updateIndex")
	dbT := e.Named("internal/tan", "db")
	if wrec == nil || setState == nil || updIdx == nil || dbT == nil {
		return
	}
	n := 0
	for _, s := range e.CallerSites(wrec) {
		fn := s.Parent()
		if fn.Signature.Recv() == nil || !e.IsLive(fn) {
			continue
		}
		if p, ok := fn.Signature.Recv().Type().(*types.Pointer); !ok || !types.Identical(p.Elem(), dbT) {
			continue
		}
		n++
		for _, st := range []struct {
			f    *ssa.Function
			what string
		}{{setState, "the cached hard state"}, {updIdx, "the index"}} {
			isStep := e.throughHelpers(func(c ssa.CallInstruction) bool { return e.CallsTo(c, st.f) })
			ok, w := e.alwaysFollowedBy(s.(ssa.Instruction), isStep, 2)
			r.check(ok, "PAIR-tan-append-view", "record appended in "+fname(fn)+" updates "+st.what, e.ipos(s),
				"the in-memory view follows the log on every successful append", "a record can be appended to the Tan log without updating "+st.what+": the next write compares against / the next read returns a stale view (a later identical hard state is skipped although the log's last record differs)", w...)
		}
	}
	r.floor("PAIR-tan-append-view", n, 1)
}

// ruleSessionSaveComplete (C05): the per-session record written into a
// snapshot holds the whole response history: Session.save serialises the
// session itself, or a copy whose construction copies every History entry
// (no entry is filtered out on the way).
func ruleSessionSaveComplete(e *Engine, r *Report) {
	sv := r.need("(*internal/rsm.Session).save")
	hist := r.needField("internal/rsm", "Session", "History")
	if sv == nil || hist == nil {
		return
	}
	n := 0
	e.forEachInstrRegion(sv, 2, func(in ssa.Instruction) {
		rg, ok := in.(*ssa.Range)
		if !ok || !fieldV(hist)(rg.X) {
			return
		}
		n++
		header, body := rangeLoopBlocks(rg)
		if header == nil {
			r.undecided("TBL-session-save-complete", fname(in.Parent()), "range loop over Session.History not recognised")
			return
		}
		// every iteration reaches a map update / append (the copy) before the next one
		fn := in.Parent()
		skip := false
		for b := range body {
			if b == header {
				continue
			}
			// entry blocks of the body: successors of header
			isEntry := false
			for _, s := range header.Succs {
				if s == b {
					isEntry = true
				}
			}
			if !isEntry || len(b.Instrs) == 0 {
				continue
			}
			// search inside the loop: from the body entry back to the header without copying
			seen := map[*ssa.BasicBlock]bool{}
			var walk func(bb *ssa.BasicBlock) bool
			walk = func(bb *ssa.BasicBlock) bool {
				if bb == header {
					return true
				}
				if seen[bb] || !body[bb] {
					return false
				}
				seen[bb] = true
				for _, x := range bb.Instrs {
					switch y := x.(type) {
					case *ssa.MapUpdate:
						return false
					case *ssa.Call:
						if bi, ok := y.Call.Value.(*ssa.Builtin); ok && bi.Name() == "append" {
							return false
						}
					}
				}
				for _, s := range bb.Succs {
					if walk(s) {
						return true
					}
				}
				return false
			}
			if walk(b) {
				skip = true
			}
		}
		r.check(!skip, "TBL-session-save-complete", "copy of Session.History in "+fname(fn)+" keeps every entry", e.ipos(in),
			"each iteration copies its entry", "the session record written into snapshots is built from a filtered copy of the response history: a replica restored from the snapshot no longer recognises a retry of a dropped entry and applies it a second time")
	})
	// the marshalled value is the session (or was built from it in this region)
	isMarshal := stdCallV("encoding/json", "Marshal")
	m := 0
	forEachInstr(sv, func(in ssa.Instruction) {
		c, ok := in.(*ssa.Call)
		if !ok || !isMarshal(c) || len(c.Call.Args) == 0 || len(sv.Params) == 0 {
			return
		}
		m++
		recv := ssa.Value(sv.Params[0])
		direct := e.dependsOn(c.Call.Args[0], func(v ssa.Value) bool { return v == recv }, 1)
		r.check(direct, "TBL-session-save-complete", "Session.save serialises the session it is called on", e.ipos(in),
			"the record derives from the receiver", "Session.save serialises something that is not derived from the session")
	})
	r.floor("TBL-session-save-complete", m, 1)
}

// ruleSessionBytesWritten (C05, C08): the session section of a snapshot
// image is the session table the caller captured: the managed state machine's
// Save hands its session argument unchanged to the routine that writes it,
// for every kind of request (regular, exported, dummy).
func ruleSessionBytesWritten(e *Engine, r *Report) {
	saveM := r.needMethod("internal/rsm", "IManagedStateMachine", "Save")
	if saveM == nil {
		return
	}
	n := 0
	for _, impl := range e.Implementations(saveM) {
		if !e.IsLive(impl) || !inModule(fnPkg(impl)) {
			continue
		}
		// the []byte parameter
		var sess *ssa.Parameter
		for _, p := range impl.Params {
			if sl, ok := p.Type().Underlying().(*types.Slice); ok {
				if b, ok := sl.Elem().Underlying().(*types.Basic); ok && b.Kind() == types.Byte {
					sess = p
				}
			}
		}
		if sess == nil {
			continue
		}
		forEachCall(impl, func(s ssa.CallInstruction) {
			sc := s.Common().StaticCallee()
			if sc == nil || fnPkg(sc) != fnPkg(impl) {
				return
			}
			for i, a := range s.Common().Args {
				sl, ok := a.Type().Underlying().(*types.Slice)
				if !ok {
					continue
				}
				if b, ok := sl.Elem().Underlying().(*types.Basic); !ok || b.Kind() != types.Byte {
					continue
				}
				_ = i
				n++
				r.check(stripConv(a) == ssa.Value(sess), "DEP-session-bytes", "session bytes handed to "+fname(sc)+" in "+fname(impl), e.ipos(s),
					"the captured session table is written as is", "the session section written into the snapshot image is not the captured session table ("+e.describeValue(a)+"): replicas rebuilt from such an image have lost their client sessions, so retries are rejected or applied again")
			}
		})
	}
	r.floor("DEP-session-bytes", n, 2)
}

// ruleApplyIndexAtomic (C07, C08): a change of replicated state (membership,
// session table, user state machine) and the advance of the applied index
// that labels it happen in one critical section of StateMachine.mu, so that a
// snapshot taken by another worker never carries the change under the
// previous index.
func ruleApplyIndexAtomic(e *Engine, r *Report) {
	mu := r.needField("internal/rsm", "StateMachine", "mu")
	setApplied := r.need("(*internal/rsm.StateMachine).setApplied")
	if mu == nil || setApplied == nil {
		return
	}
	type mut struct {
		fn   *ssa.Function
		what string
	}
	var muts []mut
	for _, c := range [][2]string{
		{"(*internal/rsm.membership).handleConfigChange", "membership change"},
		{"(*internal/rsm.SessionManager).RegisterClientID", "session registration"},
		{"(*internal/rsm.SessionManager).UnregisterClientID", "session removal"},
		{"(*internal/rsm.Session).addResponse", "session response record"},
	} {
		if f := r.need(c[0]); f != nil {
			muts = append(muts, mut{f, c[1]})
		}
	}
	isSet := func(in ssa.Instruction) bool {
		c, ok := in.(*ssa.Call)
		return ok && e.CallsTo(c, setApplied)
	}
	isUnlock := func(in ssa.Instruction) bool {
		c, ok := in.(*ssa.Call)
		if !ok {
			return false
		}
		f, op := lockOp(c)
		return f == mu && (op == "Unlock" || op == "RUnlock")
	}
	smPkg := e.pkgTypes("internal/rsm")
	n := 0
	for _, fn := range e.ScopeFuncs() {
		if fnPkg(fn) != smPkg || !e.IsLive(outermostFn(fn)) {
			continue
		}
		if rv := outermostFn(fn).Signature.Recv(); rv == nil || !hasSuffix(recvTypeName(rv.Type()), "rsm.StateMachine") {
			continue
		}
		for _, m := range muts {
			for _, s := range e.SitesIn(fn, m.fn) {
				n++
				site := s.(ssa.Instruction)
				key := m.what + " in " + fname(fn)
				r.requireLock("PAIR-apply-index-atomic", key+" holds StateMachine.mu", site, mu, 2, "StateMachine.mu")
				// a direct unlock before the index advance
				res := e.findPath(fn, site, isUnlock, isSet, nil)
				// the index advance happens before this activation ends
				var dSet, dUnlock *ssa.Defer
				forEachInstr(fn, func(in ssa.Instruction) {
					d, ok := in.(*ssa.Defer)
					if !ok {
						return
					}
					if e.CallsTo(d, setApplied) {
						dSet = d
					}
					if f, op := lockOp(d); f == mu && op == "Unlock" {
						dUnlock = d
					}
				})
				direct := !e.findPath(fn, site, isReturn, isSet, nil).Found
				deferred := dSet != nil && dominatesInstr(dSet, site) && (dUnlock == nil || dominatesInstr(dUnlock, dSet))
				r.check(!res.Found && (direct || deferred), "PAIR-apply-index-atomic", key+" and setApplied share one critical section", e.ipos(site),
					"the applied index advances before StateMachine.mu is released", "the "+m.what+" becomes visible under StateMachine.mu but the applied index that labels it is advanced later, outside that critical section: a snapshot or stream prepared in between carries the change under the previous index, and a replica restored from it applies the entry a second time / reports a different membership at the same index", res.Trace(e)...)
			}
		}
	}
	r.floor("PAIR-apply-index-atomic", n, 3)
}

func hasSuffix(s, suf string) bool { return len(s) >= len(suf) && s[len(s)-len(suf):] == suf }

// ruleTaskQueueFIFO (C11): the apply task queue hands tasks out in the order
// they were added: Add appends, Get returns the element at the read cursor
// and advances the cursor by one on that path, and the compaction of the
// backing slice re-bases slice and cursor together.
func ruleTaskQueueFIFO(e *Engine, r *Report) {
	add := r.need("(*internal/rsm.TaskQueue).Add")
	get := r.need("(*internal/rsm.TaskQueue).Get")
	tasks := r.needField("internal/rsm", "TaskQueue", "tasks")
	next := r.needField("internal/rsm", "TaskQueue", "next")
	mu := r.needField("internal/rsm", "TaskQueue", "mu")
	if add == nil || get == nil || tasks == nil || next == nil || mu == nil {
		return
	}
	// Add: tasks = append(tasks, task)
	okAdd := false
	forEachInstr(add, func(in ssa.Instruction) {
		st, ok := in.(*ssa.Store)
		if !ok {
			return
		}
		if f, _, ok := fieldOfAddr(st.Addr); !ok || f != tasks {
			return
		}
		c, ok := st.Val.(*ssa.Call)
		if !ok {
			return
		}
		if b, ok := c.Call.Value.(*ssa.Builtin); ok && b.Name() == "append" && len(c.Call.Args) == 2 && fieldV(tasks)(c.Call.Args[0]) {
			okAdd = true
			r.requireLock("TBL-taskqueue-fifo", "TaskQueue.Add appends under the queue mutex", in, mu, 2, "TaskQueue.mu")
		}
	})
	r.check(okAdd, "TBL-taskqueue-fifo", "TaskQueue.Add appends the task at the end", e.pos(add.Pos()), "append(tasks, task)", "Add no longer appends the new task at the end of the queue: tasks (entry batches, snapshot barriers) can be applied out of order")
	// Get: the returned task is tasks[next], next advances by one before returning it
	n := 0
	forEachInstr(get, func(in ssa.Instruction) {
		ret, ok := in.(*ssa.Return)
		if !ok || len(ret.Results) < 2 || in.Block() == get.Recover {
			return
		}
		if cb, isC := isConstBool(retOperand(ret, 1)); isC && !cb {
			return
		}
		n++
		v := stripConv(retOperand(ret, 0))
		un, ok := v.(*ssa.UnOp)
		var ia *ssa.IndexAddr
		if ok {
			ia, _ = un.X.(*ssa.IndexAddr)
		}
		good := ia != nil && fieldV(tasks)(ia.X) && fieldV(next)(ia.Index)
		r.check(good, "TBL-taskqueue-fifo", "TaskQueue.Get returns the task at the read cursor", e.ipos(in), "tasks[next]", "Get returns something other than tasks[next] ("+e.describeValue(v)+"): tasks are not handed out in arrival order")
		if good {
			// the cursor advance lies between the load and the return
			adv := func(x ssa.Instruction) bool {
				st, ok := x.(*ssa.Store)
				if !ok {
					return false
				}
				if f, _, ok := fieldOfAddr(st.Addr); !ok || f != next {
					return false
				}
				b, ok := stripConv(st.Val).(*ssa.BinOp)
				return ok && b.Op == token.ADD && fieldV(next)(b.X) && intConstV(1)(b.Y)
			}
			res := e.findPath(get, un, func(x ssa.Instruction) bool { return x == in }, adv, nil)
			r.check(!res.Found, "TBL-taskqueue-fifo", "TaskQueue.Get advances the read cursor by one for the task it returns", e.ipos(in), "next++ on the returning path", "a task can be returned without advancing the read cursor by one: it is handed out (and applied) again, or the following task is skipped", res.Trace(e)...)
		}
	})
	r.floor("TBL-taskqueue-fifo", n, 1)
	// re-basing: wherever tasks is replaced outside Add (GetAll, resize), next is reset to 0 on the same path
	smPkg := e.pkgTypes("internal/rsm")
	for _, fn := range e.ScopeFuncs() {
		if fnPkg(fn) != smPkg || fn == add {
			continue
		}
		forEachInstr(fn, func(in ssa.Instruction) {
			if !isStoreToField(tasks)(in) || fn.Name() == "NewTaskQueue" {
				return
			}
			zero := func(x ssa.Instruction) bool {
				st, ok := x.(*ssa.Store)
				if !ok {
					return false
				}
				f, _, ok := fieldOfAddr(st.Addr)
				return ok && f == next && intConstV(0)(st.Val)
			}
			res := e.findPath(fn, in, isReturn, zero, nil)
			r.check(!res.Found, "TBL-taskqueue-fifo", "backing slice replaced in "+fname(fn)+" together with a cursor reset", e.ipos(in), "slice and cursor are re-based together", "the task slice is replaced without resetting the read cursor: the cursor then points past (or before) the unprocessed tasks", res.Trace(e)...)
			// a compacting copy starts at the cursor
			if st := in.(*ssa.Store); true {
				if _, isMake := stripConv(st.Val).(*ssa.MakeSlice); isMake {
					forEachInstr(fn, func(y ssa.Instruction) {
						c, ok := y.(*ssa.Call)
						if !ok {
							return
						}
						if b, ok := c.Call.Value.(*ssa.Builtin); !ok || b.Name() != "copy" || len(c.Call.Args) != 2 {
							return
						}
						sl, ok := stripConv(c.Call.Args[1]).(*ssa.Slice)
						r.check(ok && fieldV(tasks)(sl.X) && sl.Low != nil && fieldV(next)(sl.Low) && sl.High == nil, "TBL-taskqueue-fifo", "compaction in "+fname(fn)+" keeps exactly the unprocessed tail", e.ipos(y), "copy(tasks[next:])", "the compaction of the task queue copies a range other than tasks[next:]: unprocessed tasks are lost or processed tasks come back")
					})
				}
			}
		})
	}
}

// ruleTransferTarget (C18, C03): leadership is only ever handed to a full
// voting member: the leader records a transfer target only when it is found
// in raft.remotes, and TimeoutNow goes to that recorded target only.
func ruleTransferTarget(e *Engine, r *Report) {
	tgt := r.needField("internal/raft", "raft", "leaderTransferTarget")
	remotes := r.needField("internal/raft", "raft", "remotes")
	sendTN := r.need(raftT + "sendTimeoutNowMessage")
	if tgt == nil || remotes == nil || sendTN == nil {
		return
	}
	n := 0
	for _, w := range e.FieldWrites(tgt) {
		if w.Kind == "init" || !e.IsLive(w.Fn) {
			continue
		}
		if c, isC := w.Val.(*ssa.Const); isC && c.Value != nil && c.Value.ExactString() == "0" {
			continue // cleared
		}
		n++
		val := w.Val
		inRemotes := func(v ssa.Value) bool {
			ex, ok := v.(*ssa.Extract)
			if !ok || ex.Index != 1 {
				return false
			}
			lk, ok := ex.Tuple.(*ssa.Lookup)
			return ok && lk.CommaOk && fieldV(remotes)(lk.X) && (lk.Index == val || sameExprV(val)(lk.Index))
		}
		r.guard("GD-transfer-target", "leaderTransferTarget set in "+fname(w.Fn), w.Instr,
			reqBool("the target is a full voting member (found in raft.remotes)", inRemotes, true))
	}
	r.floor("GD-transfer-target", n, 1)
	m := 0
	for _, s := range e.CallerSites(sendTN) {
		if !e.IsLive(s.Parent()) || len(s.Common().Args) < 2 {
			continue
		}
		m++
		a := s.Common().Args[1]
		ok := fieldV(tgt)(a)
		if !ok {
			// the value just stored into the field in the same function
			for _, w := range e.FieldWrites(tgt) {
				if w.Fn == s.Parent() && (w.Val == a || sameExprV(w.Val)(a)) {
					ok = true
				}
			}
		}
		if !ok {
			// equal to the recorded target by a dominating comparison
			ok, _ = e.guardedOnAllPaths(s.(ssa.Instruction), reqCmp("", "==", func(v ssa.Value) bool { return v == a || sameExprV(a)(v) }, fieldV(tgt)))
		}
		r.check(ok, "GD-transfer-target", "TimeoutNow in "+fname(s.Parent())+" goes to the recorded transfer target", e.ipos(s),
			"only the vetted target is told to campaign at once", "TimeoutNow is sent to "+e.describeValue(a)+", not to the recorded (membership-checked) transfer target: a replica that is not a full voting member can be told to start an election that bypasses the leader lease")
	}
	r.floor("GD-transfer-target-sites", m, 2)
}

// ruleJobRegistered (C11, C08): a snapshot job handed to a worker is entered
// in the in-progress table of its own kind (the tables the exclusion
// predicates read), on every path of workerPool.start.
func ruleJobRegistered(e *Engine, r *Report) {
	start := r.need("(*dragonboat.workerPool).start")
	if start == nil {
		return
	}
	type kind struct {
		flag, table string
	}
	kinds := []kind{{"Recover", "recovering"}, {"Save", "saving"}, {"Stream", "streaming"}}
	writes := func(fn *ssa.Function, fld *types.Var) bool {
		hit := false
		e.forEachInstrRegion(fn, 1, func(in ssa.Instruction) {
			if mu, ok := in.(*ssa.MapUpdate); ok && fieldV(fld)(mu.Map) {
				hit = true
			}
		})
		return hit
	}
	var all []func(ssa.Instruction) bool
	n := 0
	for _, k := range kinds {
		fl := r.needField("internal/rsm", "Task", k.flag)
		tb := r.needField("dragonboat", "workerPool", k.table)
		if fl == nil || tb == nil {
			continue
		}
		isReg := func(in ssa.Instruction) bool {
			if mu, ok := in.(*ssa.MapUpdate); ok && fieldV(tb)(mu.Map) {
				return true
			}
			c, ok := in.(*ssa.Call)
			if !ok {
				return false
			}
			sc := c.Call.StaticCallee()
			return sc != nil && fnPkg(sc) == fnPkg(start) && writes(sc, tb)
		}
		all = append(all, isReg)
		forEachInstr(start, func(in ssa.Instruction) {
			if !isReg(in) {
				return
			}
			n++
			r.guard("TBL-job-registered", "job entered into workerPool."+k.table+" in "+fname(start), in,
				reqBool("the job is a "+k.flag+" job", fieldV(fl), true))
		})
	}
	anyReg := func(in ssa.Instruction) bool {
		for _, f := range all {
			if f(in) {
				return true
			}
		}
		return false
	}
	res := e.findPath(start, nil, isReturn, anyReg, nil)
	r.check(!res.Found, "TBL-job-registered", "workerPool.start registers the job on every path", e.pos(start.Pos()),
		"no job runs without being entered in an in-progress table", "a snapshot job can be started without being entered in saving/recovering/streaming: the exclusion predicates do not see it and a conflicting job of the same shard is scheduled concurrently", res.Trace(e)...)
	r.floor("TBL-job-registered", n, 3)
}
