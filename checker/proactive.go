package main

// Rules written proactively from the anchor-gap survey (tools/anchor_gaps.py):
// mechanisms inside the anchored files that no rule looked at yet. Each is a
// structural necessary condition of the property it is registered under.

import (
	"fmt"
	"go/token"
	"go/types"
	"regexp"
	"strconv"
	"strings"

	"golang.org/x/tools/go/ssa"
)

// stdCallV: the value is the result of a static call of pkgPath.name (a
// standard-library function such as bytes.Equal).
func stdCallV(pkgPath, name string) VM {
	return func(v ssa.Value) bool {
		c, ok := stripConv(v).(*ssa.Call)
		if !ok {
			return false
		}
		sc := c.Call.StaticCallee()
		return sc != nil && sc.Name() == name && sc.Pkg != nil && sc.Pkg.Pkg.Path() == pkgPath
	}
}

// ruleValidatorExact (C14): the bodies of the snapshot validators answer
// "valid" only on the strength of the comparison they exist for. The VAL
// rules decide that a verdict gates; this decides that the verdict itself is
// the checksum / magic / size comparison.
func ruleValidatorExact(e *Engine, r *Report) {
	eq := stdCallV("bytes", "Equal")
	eqDep := func(pred func(ssa.Value) bool) VM {
		return func(v ssa.Value) bool {
			c, ok := stripConv(v).(*ssa.Call)
			if !ok || !eq(v) {
				return false
			}
			for _, a := range c.Call.Args {
				if e.dependsOn(a, pred, 1) {
					return true
				}
			}
			return false
		}
	}
	isSum := func(v ssa.Value) bool {
		c, ok := v.(*ssa.Call)
		return ok && c.Call.IsInvoke() && c.Call.Method.Name() == "Sum"
	}
	n := 0
	if vb := r.need("internal/rsm.validateBlock"); vb != nil {
		n++
		r.returnsOnlyUnder("GD-validator-exact", "validateBlock answers valid", vb, 0, true, nil,
			reqBool("the stored block crc equals the computed one (bytes.Equal over hash.Sum)", eqDep(isSum), true))
	}
	if vh := r.need("internal/rsm.validateHeader"); vh != nil {
		n++
		zero := func(v ssa.Value) bool {
			g, ok := v.(*ssa.Global)
			return ok && g.Name() == "fourZeroBytes"
		}
		r.returnsOnlyUnder("GD-validator-exact", "validateHeader answers valid", vh, 0, true, nil,
			reqAny("the stored header crc equals the computed one, or the legacy all-zero crc",
				reqBool("", eqDep(isSum), true), reqBool("", eqDep(zero), true)))
	}
	if v1 := r.need("(*internal/rsm.v1validator).Validate"); v1 != nil {
		n++
		pc := r.needField("raftpb", "SnapshotHeader", "PayloadChecksum")
		r.returnsOnlyUnder("GD-validator-exact", "v1validator.Validate answers valid", v1, 0, true, nil,
			reqBool("the computed payload checksum equals SnapshotHeader.PayloadChecksum", func(v ssa.Value) bool {
				return eqDep(isSum)(v) && eqDep(fieldV(pc))(v)
			}, true))
	}
	if ms := r.need("(*internal/rsm.v2validator).validateMagicSize"); ms != nil {
		n++
		magic := func(v ssa.Value) bool {
			g, ok := v.(*ssa.Global)
			return ok && g.Name() == "writerMagicNumber"
		}
		total := r.needField("internal/rsm", "v2validator", "total")
		r.returnsOnlyUnder("GD-validator-exact", "v2validator.validateMagicSize answers valid", ms, 0, true, nil,
			reqBool("the tail carries the writer's magic number", eqDep(magic), true),
			reqCmp("the recorded size equals the bytes received", "==", anyV(), func(v ssa.Value) bool {
				return e.dependsOn(v, fieldV(total), 0)
			}))
	}
	if v2 := r.need("(*internal/rsm.v2validator).Validate"); v2 != nil {
		n++
		ms := e.Func("(*internal/rsm.v2validator).validateMagicSize")
		vb2 := e.Func("(*internal/rsm.v2validator).validateBlock")
		vb := e.Func("internal/rsm.validateBlock")
		r.returnsOnlyUnder("GD-validator-exact", "v2validator.Validate answers valid", v2, 0, true, nil,
			reqBool("validateMagicSize accepted the tail", e.callV(ms), true),
			reqAny("the last block validated, or nothing is left over",
				reqBool("", e.callV(vb2, vb), true),
				reqCmp("", "==", lenOfV(anyV()), intConstV(0))))
	}
	r.floor("GD-validator-exact", n, 5)
}

// ruleLastAppliedContiguous (C02, C11): the applied cursor published to the
// read path (StateMachine.lastApplied) moves only over a gap-free run of
// entries that continues the previous cursor: both assertions of
// setLastApplied fail-stop, and the cursor store is behind them.
func ruleLastAppliedContiguous(e *Engine, r *Report) {
	fn := r.need("(*internal/rsm.StateMachine).setLastApplied")
	entIdx := r.needField("raftpb", "Entry", "Index")
	if fn == nil || entIdx == nil {
		return
	}
	isLA := fieldNameV("lastApplied", "index")
	plus1 := func(inner VM) VM {
		return func(v ssa.Value) bool {
			b, ok := stripConv(v).(*ssa.BinOp)
			return ok && b.Op == token.ADD && ((inner(b.X) && intConstV(1)(b.Y)) || (inner(b.Y) && intConstV(1)(b.X)))
		}
	}
	n := 0
	forEachInstr(fn, func(in ssa.Instruction) {
		st, ok := in.(*ssa.Store)
		if !ok {
			return
		}
		f, base, ok := fieldOfAddr(st.Addr)
		if !ok || f.Name() != "index" {
			return
		}
		fa, ok := base.(*ssa.FieldAddr)
		if !ok {
			return
		}
		if s := derefStruct(fa.X.Type()); s == nil || s.Field(fa.Field).Name() != "lastApplied" {
			return
		}
		n++
		r.guard("GD-lastapplied-contiguous", "lastApplied.index stored in setLastApplied", in,
			reqCmp("lastApplied.index+1 == first entry's index", "==", plus1(isLA), fieldV(entIdx)))
	})
	r.floor("GD-lastapplied-contiguous", n, 1)
	// inside the batch: an If comparing e.Index with (running index)+1 whose unequal edge fail-stops
	found := false
	e.forEachInstrRegion(fn, 1, func(in ssa.Instruction) {
		ifi, ok := in.(*ssa.If)
		if !ok {
			return
		}
		b, ok := ifi.Cond.(*ssa.BinOp)
		if !ok || (b.Op != token.NEQ && b.Op != token.EQL) {
			return
		}
		isPhi := func(v ssa.Value) bool { _, ok := stripConv(v).(*ssa.Phi); return ok }
		if !((fieldV(entIdx)(b.X) && plus1(isPhi)(b.Y)) || (fieldV(entIdx)(b.Y) && plus1(isPhi)(b.X))) {
			return
		}
		bad := ifi.Block().Succs[0]
		if b.Op == token.EQL {
			bad = ifi.Block().Succs[1]
		}
		if e.blockFailStops(bad) {
			found = true
		}
	})
	r.check(found, "GD-lastapplied-contiguous", "setLastApplied fail-stops on an index gap inside the batch", e.pos(fn.Pos()),
		"every entry continues its predecessor", "setLastApplied no longer fail-stops when an entry of the batch does not continue its predecessor: the published applied index can run ahead of what was applied")
}

// ruleQueueAdmission (C12): the two input queues hand a request to the step
// worker only while open, answer "added" only for a request they stored, and
// swap buffers on every get (the returned slice is not written again until
// the next get).
func ruleQueueAdmission(e *Engine, r *Report) {
	n := 0
	for _, tn := range []string{"entryQueue", "readIndexQueue"} {
		add := r.need("(*dragonboat." + tn + ").add")
		get := r.need("(*dragonboat." + tn + ").get")
		stopped := r.needField("dragonboat", tn, "stopped")
		liw := r.needField("dragonboat", tn, "leftInWrite")
		idx := r.needField("dragonboat", tn, "idx")
		mu := r.needField("dragonboat", tn, "mu")
		if add == nil || get == nil || stopped == nil || liw == nil || idx == nil || mu == nil {
			continue
		}
		// the element store: a Store through an IndexAddr whose value is the parameter
		var elemStores []ssa.Instruction
		forEachInstr(add, func(in ssa.Instruction) {
			st, ok := in.(*ssa.Store)
			if !ok {
				return
			}
			if _, ok := st.Addr.(*ssa.IndexAddr); !ok {
				return
			}
			if e.dependsOn(st.Val, func(v ssa.Value) bool { _, isP := v.(*ssa.Parameter); return isP }, 0) {
				elemStores = append(elemStores, in)
			}
		})
		for i, s := range elemStores {
			n++
			r.guard("GD-queue-admission", tn+".add stores the request #"+itoa(i+1), s, reqBool("the queue is not stopped", fieldV(stopped), false))
			r.requireLock("GD-queue-admission", tn+".add stores the request #"+itoa(i+1)+" under the queue mutex", s, mu, 2, "the queue's buffers are swapped by the step worker under the same mutex")
		}
		isElem := func(in ssa.Instruction) bool {
			for _, s := range elemStores {
				if s == in {
					return true
				}
			}
			return false
		}
		// "added" is answered only after the store
		res := e.findPath(add, nil, func(in ssa.Instruction) bool {
			ret, ok := in.(*ssa.Return)
			if !ok || len(ret.Results) < 1 {
				return false
			}
			cb, isC := isConstBool(retOperand(ret, 0))
			return !isC || cb
		}, isElem, nil)
		r.check(!res.Found && len(elemStores) > 0, "GD-queue-admission", tn+".add answers added only for a stored request", e.pos(add.Pos()),
			"every accepting return follows the store", "the queue can answer \"added\" without having stored the request: the request is registered as pending but never reaches the raft core and only ends by timeout", res.Trace(e)...)
		// get flips the buffer and resets the write position on every path
		for _, fl := range []*types.Var{liw, idx} {
			res := e.pathUnless(get, nil, isReturn, isStoreToField(fl), reqCmp("nothing was queued", "==", fieldV(idx), intConstV(0)))
			r.check(!res.Found, "GD-queue-admission", tn+".get resets "+fl.Name()+" on every path that hands out requests", e.pos(get.Pos()),
				"the handed-out buffer is not written again until the next get", "a path through get() hands out the buffer without switching to the other one / rewinding the write position: later requests overwrite or duplicate entries the step worker is processing", res.Trace(e)...)
		}
	}
	r.floor("GD-queue-admission", n, 2)
}

// ruleSessionRegisterResult (C05, C12): the result of a session register /
// unregister entry tells the client the truth: the client id is returned only
// on the path that inserted / removed the session, the empty result only
// where nothing changed.
func ruleSessionRegisterResult(e *Engine, r *Report) {
	val := r.needField("statemachine", "Result", "Value")
	for _, c := range [][3]string{
		{"(*internal/rsm.SessionManager).RegisterClientID", "(*internal/rsm.lrusession).addSession", "inserted"},
		{"(*internal/rsm.SessionManager).UnregisterClientID", "(*internal/rsm.lrusession).delSession", "removed"},
	} {
		fn := r.need(c[0])
		step := r.need(c[1])
		if fn == nil || step == nil || val == nil || len(fn.Params) < 2 {
			continue
		}
		id := fn.Params[1]
		isStep := e.throughHelpers(func(s ssa.CallInstruction) bool { return e.CallsTo(s, step) })
		// returns whose Result.Value derives from the client id
		carriesID := func(in ssa.Instruction) bool {
			ret, ok := in.(*ssa.Return)
			if !ok || len(ret.Results) == 0 {
				return false
			}
			return e.dependsOn(retOperand(ret, 0), func(v ssa.Value) bool { return v == ssa.Value(id) }, 0)
		}
		res := e.findPath(fn, nil, carriesID, isStep, nil)
		any := e.findPath(fn, nil, carriesID, nil, nil)
		r.check(any.Found && !res.Found, "MPT-session-result", fname(fn)+" returns the client id only after the session was "+c[2], e.pos(fn.Pos()),
			"the success result follows the table change", "the success result (client id) can be returned without the session having been "+c[2]+": the client is told the operation took effect when it did not", res.Trace(e)...)
		// and the empty result only where the table did not change
		res2 := e.findPath(fn, nil, func(in ssa.Instruction) bool { return isReturn(in) && !carriesID(in) }, nil, nil)
		if res2.Found {
			// the empty-result return must not be reachable after the step
			for _, s := range e.SitesIn(fn, step) {
				after := e.findPath(fn, s.(ssa.Instruction), func(in ssa.Instruction) bool { return isReturn(in) && !carriesID(in) }, nil, nil)
				r.check(!after.Found, "MPT-session-result", fname(fn)+" returns the empty result only when nothing changed", e.ipos(s),
					"no empty result after the table change", "the session table is changed and the empty (failure) result is returned", after.Trace(e)...)
			}
		}
	}
}

// ruleQuiesceActivity (C17): any message other than a plain heartbeat, and
// every read / membership request taken from the input queues, counts as
// activity: record() leaves the idle clock alone only for a disabled
// quiesce state or a heartbeat type, and the two request handlers record
// before they hand the request to the raft core.
func ruleQuiesceActivity(e *Engine, r *Report) {
	rec := r.need("(*dragonboat.quiesceState).record")
	idle := r.needField("dragonboat", "quiesceState", "idleSince")
	enabled := r.needField("dragonboat", "quiesceState", "enabled")
	hb := r.needConst("raftpb", "Heartbeat")
	hbr := r.needConst("raftpb", "HeartbeatResp")
	if rec == nil || idle == nil || enabled == nil || hb == nil || hbr == nil || len(rec.Params) < 2 {
		return
	}
	mt := func(v ssa.Value) bool { return stripConv(v) == ssa.Value(rec.Params[1]) }
	exempt := reqAny("quiesce disabled or a heartbeat type",
		reqBool("", fieldV(enabled), false),
		reqCmp("", "==", mt, constV(hb)),
		reqCmp("", "==", mt, constV(hbr)))
	res := e.pathUnless(rec, nil, isReturn, isStoreToField(idle), exempt)
	r.check(!res.Found, "GD-quiesce-activity", "quiesceState.record ignores only heartbeats", e.pos(rec.Pos()),
		"every other message type restarts the idle clock (and leaves quiesce)", "a message type other than Heartbeat/HeartbeatResp can be recorded without restarting the idle clock: a quiesced shard does not wake up for it, or an active one falls asleep under load", res.Trace(e)...)
	// exit happens on the recording path whenever quiesced
	exit := r.need("(*dragonboat.quiesceState).exitQuiesce")
	quiesced := r.need("(*dragonboat.quiesceState).quiesced")
	if exit != nil && quiesced != nil {
		for _, st := range func() []ssa.Instruction {
			var out []ssa.Instruction
			forEachInstr(rec, func(in ssa.Instruction) {
				if isStoreToField(idle)(in) {
					out = append(out, in)
				}
			})
			return out
		}() {
			isExit := func(in ssa.Instruction) bool {
				c, ok := in.(*ssa.Call)
				return ok && e.CallsTo(c, exit)
			}
			res := e.pathUnless(rec, st, isReturn, isExit, reqBool("not quiesced", e.callV(quiesced), false))
			r.check(!res.Found, "GD-quiesce-activity", "recorded activity leaves quiesce", e.ipos(st),
				"exitQuiesce on every path on which the state is quiesced", "activity is recorded but a quiesced state is not left", res.Trace(e)...)
		}
	}
	// request handlers record before entering the raft core
	n := 0
	for _, c := range [][2]string{
		{"(*dragonboat.node).handleReadIndex", "(*internal/raft.Peer).ReadIndex"},
		{"(*dragonboat.node).handleConfigChange", "(*internal/raft.Peer).ProposeConfigChange"},
	} {
		fn := r.need(c[0])
		core := r.need(c[1])
		if fn == nil || core == nil {
			continue
		}
		isRec := e.throughHelpers(func(s ssa.CallInstruction) bool { return e.CallsTo(s, rec) })
		for _, g := range e.regionOf(fn, 1) {
			for _, s := range e.SitesIn(g, core) {
				n++
				depth := 0
				if g != fn {
					depth = 1
				}
				okp, w := e.alwaysPrecededBy(s.(ssa.Instruction), isRec, depth)
				r.check(okp, "GD-quiesce-activity", fname(core)+" in "+fname(fn)+" is preceded by quiesceState.record", e.ipos(s),
					"a quiesced replica wakes up before it steps the request", "the request reaches the raft core of a possibly quiesced replica without being recorded as activity: the replica keeps its quiesced (election-free, heartbeat-free) clock and the request waits for a timeout", w...)
			}
		}
	}
	r.floor("GD-quiesce-activity", n, 2)
}

// ---------------------------------------------------------------------------
// Rules added after the seventh round of independent seeded changes.

// alwaysFollowedBy: on every path from site to a success exit of its
// function an instruction satisfying pred is passed; failing that, the same
// holds after every call site of the function (up to depth).
func (e *Engine) alwaysFollowedBy(site ssa.Instruction, pred func(ssa.Instruction) bool, depth int) (bool, []string) {
	fn := site.Parent()
	res := e.findPath(fn, site, func(in ssa.Instruction) bool { return e.isSuccessReturn(in) }, pred, nil)
	if !res.Found {
		return true, nil
	}
	if depth == 0 {
		return false, res.Trace(e)
	}
	callers := e.CallerSites(fn)
	if len(callers) == 0 {
		return false, res.Trace(e)
	}
	for _, cs := range callers {
		if _, isGo := cs.(*ssa.Go); isGo {
			return false, []string{"spawned by go at " + e.ipos(cs)}
		}
		if !e.IsLive(cs.Parent()) {
			continue
		}
		if ok, w := e.alwaysFollowedBy(cs.(ssa.Instruction), pred, depth-1); !ok {
			return false, append([]string{fname(cs.Parent()) + " at " + e.ipos(cs)}, w...)
		}
	}
	return true, nil
}

// ruleResponseTypes (C03, C06): Peer.Handle drops a message from a sender
// that is not a member only when the message is a response type; the two
// response types whose handlers trust the sender - a granted vote is
// tallied, a ReadIndexResp releases reads at the index it carries - must be
// classified as responses.
func ruleResponseTypes(e *Engine, r *Report, must ...string) {
	fn := r.need("internal/raft.isResponseMessageType")
	mt := e.Named("raftpb", "MessageType")
	if fn == nil || mt == nil || len(fn.Params) == 0 {
		return
	}
	subj := func(v ssa.Value) bool { return stripConv(v) == ssa.Value(fn.Params[0]) }
	set := e.enumCasesReturning(fn, mt, e.pkgTypes("raftpb"), subj, 0, true)
	for _, k := range must {
		why := map[string]string{
			"RequestVoteResp": "a vote granted by a replica that is not (or no longer) a member is tallied towards the election quorum: two leaders in one term",
			"ReadIndexResp":   "a read index supplied by a replica that is not a member releases pending reads",
			"ReplicateResp":   "an acknowledgement from a non-member reaches the leader's progress tracking",
			"HeartbeatResp":   "a heartbeat response from a non-member reaches the leader's read confirmation",
		}[k]
		r.check(set[k], "TBL-response-types", "isResponseMessageType classifies "+k+" as a response", e.pos(fn.Pos()),
			"responses of this type from unknown senders are dropped by Peer.Handle", k+" is no longer classified as a response type, so Peer.Handle lets it through from a sender that is in none of the member maps: "+why)
	}
	r.floor("TBL-response-types", len(set), 4)
}

// ruleRawMkdir (C04, C10, C16): directories that hold replicated state are
// created through fileutil.Mkdir/MkdirAll, which fsync the parent directory;
// the storage, snapshot and transport code never calls the file system's own
// MkdirAll (whose new directory entry is not durable).
func ruleRawMkdir(e *Engine, r *Report) {
	scope := map[string]bool{}
	for _, p := range []string{"internal/tan", "internal/logdb", "internal/logdb/kv/pebble", "internal/logdb/kv", "internal/server", "internal/rsm", "internal/transport", "dragonboat", "tools"} {
		if pk := e.pkgTypes(p); pk != nil {
			scope[pk.Path()] = true
		}
	}
	fu := e.pkgTypes("internal/fileutil")
	control, n := 0, 0
	for _, fn := range e.ScopeFuncs() {
		pk := fnPkg(fn)
		if pk == nil {
			continue
		}
		forEachCall(fn, func(s ssa.CallInstruction) {
			if !isIfaceInvoke(s, "MkdirAll", "Rename", "Create") && !isIfaceInvoke(s, "Mkdir", "Rename", "Create") {
				return
			}
			if pk == fu {
				control++
				return
			}
			if !scope[pk.Path()] || !e.IsLive(outermostFn(fn)) {
				return
			}
			n++
			r.bad("WMC-raw-mkdir", "file system MkdirAll called in "+fname(fn), e.ipos(s),
				"a directory of the storage/snapshot layout is created with the file system's own MkdirAll instead of fileutil.Mkdir/MkdirAll: the new directory's entry in its parent is never fsynced, so everything later written and fsynced inside it can vanish with a power loss")
		})
	}
	r.check(control >= 1, "WMC-raw-mkdir", "positive control: fileutil itself calls the file system's MkdirAll", "-", "the rule recognises the call it forbids elsewhere ("+itoa(control)+" sites)", "the forbidden call is no longer recognised (vfs interface changed?)")
	if n == 0 {
		r.ok("WMC-raw-mkdir", "no raw MkdirAll in the storage, snapshot and transport packages", "-", "all directory creation goes through the fsyncing helpers")
	}
}

// ruleTanSwitchOrder (C04, C10): when Tan rotates its log, the index of the
// log being completed is saved before the new log is registered in the
// manifest (on reopen at most one live log may lack an index file).
func ruleTanSwitchOrder(e *Engine, r *Report) {
	sw := r.need("(*internal/tan.db).switchToNewLog")
	cn := r.need("(*internal/tan.db).createNewLog")
	save := r.need("(*internal/tan.nodeStates).save")
	if sw == nil || cn == nil || save == nil {
		return
	}
	isSave := e.throughHelpers(func(s ssa.CallInstruction) bool { return e.CallsTo(s, save) })
	n := 0
	for _, s := range e.SitesIn(sw, cn) {
		n++
		ok, w := e.alwaysPrecededBy(s.(ssa.Instruction), isSave, 0)
		r.check(ok, "MPT-tan-newlog-order", "log rotation saves the completed log's index before creating the new log", e.ipos(s),
			"at most the newest log lacks an index file at any crash point", "the new log can be registered in the manifest before the index of the completed log is saved: a crash in between leaves two live logs without index and the db refuses to open", w...)
	}
	r.floor("MPT-tan-switch-sites", n, 1)
}

// ruleSnapshotDeleteOlder (C09, C16): saving a snapshot record removes only
// records of older snapshots.
func ruleSnapshotDeleteOlder(e *Engine, r *Report) {
	fn := r.need("(*internal/logdb.db).saveSnapshot")
	ssIdx := r.needField("raftpb", "Snapshot", "Index")
	if fn == nil || ssIdx == nil {
		return
	}
	n := 0
	e.forEachInstrRegion(fn, 1, func(in ssa.Instruction) {
		c, ok := in.(ssa.CallInstruction)
		if !ok || !isIfaceInvoke(c, "Delete", "Put") {
			return
		}
		n++
		r.guard("GD-snapshot-delete-older", "snapshot record deleted in "+fname(in.Parent())+" #"+itoa(n), in,
			reqCmp("the saved snapshot's index > the deleted record's index", ">", fieldV(ssIdx), fieldV(ssIdx)))
	})
	r.floor("GD-snapshot-delete-older", n, 1)
}

// ruleTanStateCache (C09, C03): every record appended to a Tan log is
// reflected in the in-memory view the next write and read consult: the
// index and the cached hard state are updated on the success path of every
// append (the cached state decides whether a later identical state is
// skipped).
func ruleTanStateCache(e *Engine, r *Report) {
	wrec := r.need("(*internal/tan.writer).writeRecord")
	setState := r.need("(*internal/tan.nodeStates).setState")
	updIdx := r.need("(*internal/tan.db).updateIndex")
	dbT := e.Named("internal/tan", "db")
	if wrec == nil || setState == nil || updIdx == nil || dbT == nil {
		return
	}
	n := 0
	for _, s := range e.CallerSites(wrec) {
		fn := s.Parent()
		if fn.Signature.Recv() == nil || !e.IsLive(fn) {
			continue
		}
		if p, ok := fn.Signature.Recv().Type().(*types.Pointer); !ok || !types.Identical(p.Elem(), dbT) {
			continue
		}
		n++
		for _, st := range []struct {
			f    *ssa.Function
			what string
		}{{setState, "the cached hard state"}, {updIdx, "the index"}} {
			isStep := e.throughHelpers(func(c ssa.CallInstruction) bool { return e.CallsTo(c, st.f) })
			ok, w := e.alwaysFollowedBy(s.(ssa.Instruction), isStep, 2)
			r.check(ok, "PAIR-tan-append-view", "record appended in "+fname(fn)+" updates "+st.what, e.ipos(s),
				"the in-memory view follows the log on every successful append", "a record can be appended to the Tan log without updating "+st.what+": the next write compares against / the next read returns a stale view (a later identical hard state is skipped although the log's last record differs)", w...)
		}
	}
	r.floor("PAIR-tan-append-view", n, 1)
}

// ruleSessionSaveComplete (C05): the per-session record written into a
// snapshot holds the whole response history: Session.save serialises the
// session itself, or a copy whose construction copies every History entry
// (no entry is filtered out on the way).
func ruleSessionSaveComplete(e *Engine, r *Report) {
	sv := r.need("(*internal/rsm.Session).save")
	hist := r.needField("internal/rsm", "Session", "History")
	if sv == nil || hist == nil {
		return
	}
	n := 0
	e.forEachInstrRegion(sv, 2, func(in ssa.Instruction) {
		rg, ok := in.(*ssa.Range)
		if !ok || !fieldV(hist)(rg.X) {
			return
		}
		n++
		header, body := rangeLoopBlocks(rg)
		if header == nil {
			r.undecided("TBL-session-save-complete", fname(in.Parent()), "range loop over Session.History not recognised")
			return
		}
		// every iteration reaches a map update / append (the copy) before the next one
		fn := in.Parent()
		skip := false
		for b := range body {
			if b == header {
				continue
			}
			// entry blocks of the body: successors of header
			isEntry := false
			for _, s := range header.Succs {
				if s == b {
					isEntry = true
				}
			}
			if !isEntry || len(b.Instrs) == 0 {
				continue
			}
			// search inside the loop: from the body entry back to the header without copying
			seen := map[*ssa.BasicBlock]bool{}
			var walk func(bb *ssa.BasicBlock) bool
			walk = func(bb *ssa.BasicBlock) bool {
				if bb == header {
					return true
				}
				if seen[bb] || !body[bb] {
					return false
				}
				seen[bb] = true
				for _, x := range bb.Instrs {
					switch y := x.(type) {
					case *ssa.MapUpdate:
						return false
					case *ssa.Call:
						if bi, ok := y.Call.Value.(*ssa.Builtin); ok && bi.Name() == "append" {
							return false
						}
					}
				}
				for _, s := range bb.Succs {
					if walk(s) {
						return true
					}
				}
				return false
			}
			if walk(b) {
				skip = true
			}
		}
		r.check(!skip, "TBL-session-save-complete", "copy of Session.History in "+fname(fn)+" keeps every entry", e.ipos(in),
			"each iteration copies its entry", "the session record written into snapshots is built from a filtered copy of the response history: a replica restored from the snapshot no longer recognises a retry of a dropped entry and applies it a second time")
	})
	// the marshalled value is the session (or was built from it in this region)
	isMarshal := stdCallV("encoding/json", "Marshal")
	m := 0
	forEachInstr(sv, func(in ssa.Instruction) {
		c, ok := in.(*ssa.Call)
		if !ok || !isMarshal(c) || len(c.Call.Args) == 0 || len(sv.Params) == 0 {
			return
		}
		m++
		recv := ssa.Value(sv.Params[0])
		direct := e.dependsOn(c.Call.Args[0], func(v ssa.Value) bool { return v == recv }, 1)
		r.check(direct, "TBL-session-save-complete", "Session.save serialises the session it is called on", e.ipos(in),
			"the record derives from the receiver", "Session.save serialises something that is not derived from the session")
	})
	r.floor("TBL-session-save-complete", m, 1)
}

// ruleSessionBytesWritten (C05, C08): the session section of a snapshot
// image is the session table the caller captured: the managed state machine's
// Save hands its session argument unchanged to the routine that writes it,
// for every kind of request (regular, exported, dummy).
func ruleSessionBytesWritten(e *Engine, r *Report) {
	saveM := r.needMethod("internal/rsm", "IManagedStateMachine", "Save")
	if saveM == nil {
		return
	}
	n := 0
	for _, impl := range e.Implementations(saveM) {
		if !e.IsLive(impl) || !inModule(fnPkg(impl)) {
			continue
		}
		// the []byte parameter
		var sess *ssa.Parameter
		for _, p := range impl.Params {
			if sl, ok := p.Type().Underlying().(*types.Slice); ok {
				if b, ok := sl.Elem().Underlying().(*types.Basic); ok && b.Kind() == types.Byte {
					sess = p
				}
			}
		}
		if sess == nil {
			continue
		}
		forEachCall(impl, func(s ssa.CallInstruction) {
			sc := s.Common().StaticCallee()
			if sc == nil || fnPkg(sc) != fnPkg(impl) {
				return
			}
			for i, a := range s.Common().Args {
				sl, ok := a.Type().Underlying().(*types.Slice)
				if !ok {
					continue
				}
				if b, ok := sl.Elem().Underlying().(*types.Basic); !ok || b.Kind() != types.Byte {
					continue
				}
				_ = i
				n++
				r.check(stripConv(a) == ssa.Value(sess), "DEP-session-bytes", "session bytes handed to "+fname(sc)+" in "+fname(impl), e.ipos(s),
					"the captured session table is written as is", "the session section written into the snapshot image is not the captured session table ("+e.describeValue(a)+"): replicas rebuilt from such an image have lost their client sessions, so retries are rejected or applied again")
			}
		})
	}
	r.floor("DEP-session-bytes", n, 1)
}

// ruleApplyIndexAtomic (C07, C08): a change of replicated state (membership,
// session table, user state machine) and the advance of the applied index
// that labels it happen in one critical section of StateMachine.mu, so that a
// snapshot taken by another worker never carries the change under the
// previous index.
func ruleApplyIndexAtomic(e *Engine, r *Report) {
	mu := r.needField("internal/rsm", "StateMachine", "mu")
	setApplied := r.need("(*internal/rsm.StateMachine).setApplied")
	if mu == nil || setApplied == nil {
		return
	}
	type mut struct {
		fn   *ssa.Function
		what string
	}
	var muts []mut
	for _, c := range [][2]string{
		{"(*internal/rsm.membership).handleConfigChange", "membership change"},
		{"(*internal/rsm.SessionManager).RegisterClientID", "session registration"},
		{"(*internal/rsm.SessionManager).UnregisterClientID", "session removal"},
		{"(*internal/rsm.Session).addResponse", "session response record"},
	} {
		if f := r.need(c[0]); f != nil {
			muts = append(muts, mut{f, c[1]})
		}
	}
	isSet := func(in ssa.Instruction) bool {
		c, ok := in.(*ssa.Call)
		return ok && e.CallsTo(c, setApplied)
	}
	isUnlock := func(in ssa.Instruction) bool {
		c, ok := in.(*ssa.Call)
		if !ok {
			return false
		}
		f, op := lockOp(c)
		return f == mu && (op == "Unlock" || op == "RUnlock")
	}
	smPkg := e.pkgTypes("internal/rsm")
	n := 0
	for _, fn := range e.ScopeFuncs() {
		if fnPkg(fn) != smPkg || !e.IsLive(outermostFn(fn)) {
			continue
		}
		if rv := outermostFn(fn).Signature.Recv(); rv == nil || !hasSuffix(recvTypeName(rv.Type()), "rsm.StateMachine") {
			continue
		}
		for _, m := range muts {
			for _, s := range e.SitesIn(fn, m.fn) {
				n++
				key := m.what + " in " + fname(fn)
				r.requireLock("PAIR-apply-index-atomic", key+" holds StateMachine.mu", s.(ssa.Instruction), mu, 2, "StateMachine.mu")
				var check func(site ssa.Instruction, depth int) (bool, []string)
				check = func(site ssa.Instruction, depth int) (bool, []string) {
					g := site.Parent()
					// a direct unlock before the index advance
					res := e.findPath(g, site, isUnlock, isSet, nil)
					if res.Found {
						return false, res.Trace(e)
					}
					var dSet, dUnlock *ssa.Defer
					locks := false
					forEachInstr(g, func(in ssa.Instruction) {
						if c, ok := in.(ssa.CallInstruction); ok {
							if f, _ := lockOp(c); f == mu {
								locks = true
							}
						}
						d, ok := in.(*ssa.Defer)
						if !ok {
							return
						}
						if e.CallsTo(d, setApplied) {
							dSet = d
						}
						if f, op := lockOp(d); f == mu && op == "Unlock" {
							dUnlock = d
						}
					})
					direct := !e.findPath(g, site, isReturn, isSet, nil).Found
					deferred := dSet != nil && dominatesInstr(dSet, site) && (dUnlock == nil || dominatesInstr(dUnlock, dSet))
					if direct || deferred {
						return true, nil
					}
					if locks || depth == 0 {
						return false, []string{"no setApplied before " + fname(g) + " releases the lock / returns"}
					}
					// a helper that runs entirely inside its caller's critical section: the caller must advance the index
					callers := 0
					for _, cs := range e.CallerSites(g) {
						if !e.IsLive(outermostFn(cs.Parent())) {
							continue
						}
						callers++
						if ok, w := check(cs.(ssa.Instruction), depth-1); !ok {
							return false, append([]string{"called from " + fname(cs.Parent())}, w...)
						}
					}
					return callers > 0, nil
				}
				ok, w := check(s.(ssa.Instruction), 2)
				r.check(ok, "PAIR-apply-index-atomic", key+" and setApplied share one critical section", e.ipos(s),
					"the applied index advances before StateMachine.mu is released", "the "+m.what+" becomes visible under StateMachine.mu but the applied index that labels it is advanced later, outside that critical section: a snapshot or stream prepared in between carries the change under the previous index, and a replica restored from it applies the entry a second time / reports a different membership at the same index", w...)
			}
		}
	}
	r.floor("PAIR-apply-index-atomic", n, 3)
}

func hasSuffix(s, suf string) bool { return len(s) >= len(suf) && s[len(s)-len(suf):] == suf }

// ruleTaskQueueFIFO (C11): the apply task queue hands tasks out in the order
// they were added: Add appends, Get returns the element at the read cursor
// and advances the cursor by one on that path, and the compaction of the
// backing slice re-bases slice and cursor together.
func ruleTaskQueueFIFO(e *Engine, r *Report) {
	add := r.need("(*internal/rsm.TaskQueue).Add")
	get := r.need("(*internal/rsm.TaskQueue).Get")
	tasks := r.needField("internal/rsm", "TaskQueue", "tasks")
	next := r.needField("internal/rsm", "TaskQueue", "next")
	mu := r.needField("internal/rsm", "TaskQueue", "mu")
	if add == nil || get == nil || tasks == nil || next == nil || mu == nil {
		return
	}
	// Add: tasks = append(tasks, task)
	okAdd := false
	forEachInstr(add, func(in ssa.Instruction) {
		st, ok := in.(*ssa.Store)
		if !ok {
			return
		}
		if f, _, ok := fieldOfAddr(st.Addr); !ok || f != tasks {
			return
		}
		c, ok := st.Val.(*ssa.Call)
		if !ok {
			return
		}
		if b, ok := c.Call.Value.(*ssa.Builtin); ok && b.Name() == "append" && len(c.Call.Args) == 2 && fieldV(tasks)(c.Call.Args[0]) {
			okAdd = true
			r.requireLock("TBL-taskqueue-fifo", "TaskQueue.Add appends under the queue mutex", in, mu, 2, "TaskQueue.mu")
		}
	})
	r.check(okAdd, "TBL-taskqueue-fifo", "TaskQueue.Add appends the task at the end", e.pos(add.Pos()), "append(tasks, task)", "Add no longer appends the new task at the end of the queue: tasks (entry batches, snapshot barriers) can be applied out of order")
	// Get: the returned task is tasks[next], next advances by one before returning it
	n := 0
	forEachInstr(get, func(in ssa.Instruction) {
		ret, ok := in.(*ssa.Return)
		if !ok || len(ret.Results) < 2 || in.Block() == get.Recover {
			return
		}
		if cb, isC := isConstBool(retOperand(ret, 1)); isC && !cb {
			return
		}
		n++
		v := stripConv(retOperand(ret, 0))
		un, ok := v.(*ssa.UnOp)
		var ia *ssa.IndexAddr
		if ok {
			ia, _ = un.X.(*ssa.IndexAddr)
		}
		good := ia != nil && fieldV(tasks)(ia.X) && fieldV(next)(ia.Index)
		r.check(good, "TBL-taskqueue-fifo", "TaskQueue.Get returns the task at the read cursor", e.ipos(in), "tasks[next]", "Get returns something other than tasks[next] ("+e.describeValue(v)+"): tasks are not handed out in arrival order")
		if good {
			// the cursor advance lies between the load and the return
			adv := func(x ssa.Instruction) bool {
				st, ok := x.(*ssa.Store)
				if !ok {
					return false
				}
				if f, _, ok := fieldOfAddr(st.Addr); !ok || f != next {
					return false
				}
				b, ok := stripConv(st.Val).(*ssa.BinOp)
				return ok && b.Op == token.ADD && fieldV(next)(b.X) && intConstV(1)(b.Y)
			}
			res := e.findPath(get, un, func(x ssa.Instruction) bool { return x == in }, adv, nil)
			r.check(!res.Found, "TBL-taskqueue-fifo", "TaskQueue.Get advances the read cursor by one for the task it returns", e.ipos(in), "next++ on the returning path", "a task can be returned without advancing the read cursor by one: it is handed out (and applied) again, or the following task is skipped", res.Trace(e)...)
		}
	})
	r.floor("TBL-taskqueue-fifo", n, 1)
	// re-basing: wherever tasks is replaced outside Add (GetAll, resize), next is reset to 0 on the same path
	smPkg := e.pkgTypes("internal/rsm")
	for _, fn := range e.ScopeFuncs() {
		if fnPkg(fn) != smPkg || fn == add {
			continue
		}
		forEachInstr(fn, func(in ssa.Instruction) {
			if !isStoreToField(tasks)(in) || fn.Name() == "NewTaskQueue" {
				return
			}
			zero := func(x ssa.Instruction) bool {
				st, ok := x.(*ssa.Store)
				if !ok {
					return false
				}
				f, _, ok := fieldOfAddr(st.Addr)
				return ok && f == next && intConstV(0)(st.Val)
			}
			res := e.findPath(fn, in, isReturn, zero, nil)
			r.check(!res.Found, "TBL-taskqueue-fifo", "backing slice replaced in "+fname(fn)+" together with a cursor reset", e.ipos(in), "slice and cursor are re-based together", "the task slice is replaced without resetting the read cursor: the cursor then points past (or before) the unprocessed tasks", res.Trace(e)...)
			// a compacting copy starts at the cursor
			if st := in.(*ssa.Store); true {
				if _, isMake := stripConv(st.Val).(*ssa.MakeSlice); isMake {
					forEachInstr(fn, func(y ssa.Instruction) {
						c, ok := y.(*ssa.Call)
						if !ok {
							return
						}
						if b, ok := c.Call.Value.(*ssa.Builtin); !ok || b.Name() != "copy" || len(c.Call.Args) != 2 {
							return
						}
						sl, ok := stripConv(c.Call.Args[1]).(*ssa.Slice)
						r.check(ok && fieldV(tasks)(sl.X) && sl.Low != nil && fieldV(next)(sl.Low) && sl.High == nil, "TBL-taskqueue-fifo", "compaction in "+fname(fn)+" keeps exactly the unprocessed tail", e.ipos(y), "copy(tasks[next:])", "the compaction of the task queue copies a range other than tasks[next:]: unprocessed tasks are lost or processed tasks come back")
					})
				}
			}
		})
	}
}

// ruleTransferTarget (C18, C03): leadership is only ever handed to a full
// voting member: the leader records a transfer target only when it is found
// in raft.remotes, and TimeoutNow goes to that recorded target only.
func ruleTransferTarget(e *Engine, r *Report) {
	tgt := r.needField("internal/raft", "raft", "leaderTransferTarget")
	remotes := r.needField("internal/raft", "raft", "remotes")
	if tgt == nil || remotes == nil {
		return
	}
	n := 0
	for _, w := range e.FieldWrites(tgt) {
		if w.Kind == "init" || !e.IsLive(w.Fn) {
			continue
		}
		if c, isC := w.Val.(*ssa.Const); isC && c.Value != nil && c.Value.ExactString() == "0" {
			continue // cleared
		}
		n++
		val := w.Val
		inRemotes := func(v ssa.Value) bool {
			ex, ok := v.(*ssa.Extract)
			if !ok || ex.Index != 1 {
				return false
			}
			lk, ok := ex.Tuple.(*ssa.Lookup)
			return ok && lk.CommaOk && fieldV(remotes)(lk.X) && (lk.Index == val || sameExprV(val)(lk.Index))
		}
		r.guard("GD-transfer-target", "leaderTransferTarget set in "+fname(w.Fn), w.Instr,
			reqBool("the target is a full voting member (found in raft.remotes)", inRemotes, true))
	}
	r.floor("GD-transfer-target", n, 1)
	m := 0
	// every TimeoutNow message built by the raft core: its To is the recorded target. A small
	// sender helper (To = its parameter) is followed to its call sites.
	typF := r.needField("raftpb", "Message", "Type")
	toF := r.needField("raftpb", "Message", "To")
	tn := r.needConst("raftpb", "TimeoutNow")
	checkTarget := func(a ssa.Value, at ssa.Instruction, fn *ssa.Function) {
		m++
		ok := fieldV(tgt)(a)
		if !ok {
			for _, w := range e.FieldWrites(tgt) {
				if w.Fn == fn && (w.Val == a || sameExprV(w.Val)(a)) {
					ok = true
				}
			}
		}
		if !ok {
			ok, _ = e.guardedOnAllPaths(at, reqCmp("", "==", func(v ssa.Value) bool { return v == a || sameExprV(a)(v) }, fieldV(tgt)))
		}
		r.check(ok, "GD-transfer-target", "TimeoutNow in "+fname(fn)+" goes to the recorded transfer target", e.ipos(at),
			"only the vetted target is told to campaign at once", "TimeoutNow is sent to "+e.describeValue(a)+", not to the recorded (membership-checked) transfer target: a replica that is not a full voting member can be told to start an election that bypasses the leader lease")
	}
	if typF != nil && toF != nil && tn != nil {
		rp := e.pkgTypes("internal/raft")
		for _, fn := range e.ScopeFuncs() {
			if fnPkg(fn) != rp || !e.IsLive(fn) {
				continue
			}
			forEachInstr(fn, func(in ssa.Instruction) {
				st, ok := in.(*ssa.Store)
				if !ok {
					return
				}
				f, base, ok := fieldOfAddr(st.Addr)
				if !ok || f != typF || !constV(tn)(st.Val) {
					return
				}
				forEachInstr(fn, func(in2 ssa.Instruction) {
					st2, ok := in2.(*ssa.Store)
					if !ok {
						return
					}
					f2, base2, ok := fieldOfAddr(st2.Addr)
					if !ok || f2 != toF || base2 != base {
						return
					}
					if p, isP := stripConv(st2.Val).(*ssa.Parameter); isP {
						// sender helper: check what its callers pass
						for pi, pp := range fn.Params {
							if pp != p {
								continue
							}
							for _, cs := range e.CallerSites(fn) {
								if e.IsLive(cs.Parent()) && pi < len(cs.Common().Args) {
									checkTarget(cs.Common().Args[pi], cs.(ssa.Instruction), cs.Parent())
								}
							}
						}
						return
					}
					checkTarget(st2.Val, in2, fn)
				})
			})
		}
	}
	r.floor("GD-transfer-target-sites", m, 2)
}

// ruleJobRegistered (C11, C08): a snapshot job handed to a worker is entered
// in the in-progress table of its own kind (the tables the exclusion
// predicates read), on every path of workerPool.start.
func ruleJobRegistered(e *Engine, r *Report) {
	start := r.need("(*dragonboat.workerPool).start")
	if start == nil {
		return
	}
	type kind struct {
		flag, table string
	}
	kinds := []kind{{"Recover", "recovering"}, {"Save", "saving"}, {"Stream", "streaming"}}
	writes := func(fn *ssa.Function, fld *types.Var) bool {
		hit := false
		e.forEachInstrRegion(fn, 1, func(in ssa.Instruction) {
			if mu, ok := in.(*ssa.MapUpdate); ok && fieldV(fld)(mu.Map) {
				hit = true
			}
		})
		return hit
	}
	var all []func(ssa.Instruction) bool
	n := 0
	for _, k := range kinds {
		fl := r.needField("internal/rsm", "Task", k.flag)
		tb := r.needField("dragonboat", "workerPool", k.table)
		if fl == nil || tb == nil {
			continue
		}
		isReg := func(in ssa.Instruction) bool {
			if mu, ok := in.(*ssa.MapUpdate); ok && fieldV(tb)(mu.Map) {
				return true
			}
			c, ok := in.(*ssa.Call)
			if !ok {
				return false
			}
			sc := c.Call.StaticCallee()
			return sc != nil && fnPkg(sc) == fnPkg(start) && writes(sc, tb)
		}
		all = append(all, isReg)
		forEachInstr(start, func(in ssa.Instruction) {
			if !isReg(in) {
				return
			}
			n++
			r.guard("TBL-job-registered", "job entered into workerPool."+k.table+" in "+fname(start), in,
				reqBool("the job is a "+k.flag+" job", fieldV(fl), true))
		})
	}
	anyReg := func(in ssa.Instruction) bool {
		for _, f := range all {
			if f(in) {
				return true
			}
		}
		return false
	}
	res := e.findPath(start, nil, isReturn, anyReg, nil)
	r.check(!res.Found, "TBL-job-registered", "workerPool.start registers the job on every path", e.pos(start.Pos()),
		"no job runs without being entered in an in-progress table", "a snapshot job can be started without being entered in saving/recovering/streaming: the exclusion predicates do not see it and a conflicting job of the same shard is scheduled concurrently", res.Trace(e)...)
	r.floor("TBL-job-registered", n, 3)
}

// ---------------------------------------------------------------------------
// Round 7, second half.

// ruleSetRangeRebases (C19, C09): LogReader.SetRange always re-bases its
// length to the range it is told about; it returns without touching the
// length only for an empty range or a range entirely below the first index
// (a shorter range inside the known one is a truncation and must shrink it).
func ruleSetRangeRebases(e *Engine, r *Report) {
	fn := r.need("(*internal/logdb.LogReader).SetRange")
	length := r.needField("internal/logdb", "LogReader", "length")
	first := r.need("(*internal/logdb.LogReader).firstIndex")
	if fn == nil || length == nil || first == nil || len(fn.Params) < 3 {
		return
	}
	lenP := func(v ssa.Value) bool { return stripConv(v) == ssa.Value(fn.Params[2]) }
	exempt := reqAny("empty range, or the range ends below the first index",
		reqCmp("", "==", lenP, intConstV(0)),
		reqCmp("", "<", anyV(), e.callV(first)))
	// the re-basing may live in a helper called with the lock held (SetRange = guard + lock + helper):
	// a call counts as the step when the helper itself re-bases on every path that is not exempt
	isParamV := func(v ssa.Value) bool { _, ok := stripConv(v).(*ssa.Parameter); return ok }
	exemptH := reqAny("empty range, or the range ends below the first index",
		reqCmp("", "==", isParamV, intConstV(0)),
		reqCmp("", "<", anyV(), e.callV(first)))
	step := func(in ssa.Instruction) bool {
		if isStoreToField(length)(in) {
			return true
		}
		c, ok := in.(*ssa.Call)
		if !ok {
			return false
		}
		g := c.Call.StaticCallee()
		if g == nil || len(g.Blocks) == 0 || fnPkg(g) != fnPkg(fn) || g == first {
			return false
		}
		writes := false
		forEachInstr(g, func(x ssa.Instruction) {
			if isStoreToField(length)(x) {
				writes = true
			}
		})
		return writes && !e.pathUnless(g, nil, isReturn, isStoreToField(length), exemptH).Found
	}
	res := e.pathUnless(fn, nil, isReturn, step, exempt)
	r.check(!res.Found, "MPT-setrange-rebases", "LogReader.SetRange re-bases its length for every range it is given", e.pos(fn.Pos()),
		"only an empty or obsolete range leaves the reader unchanged", "SetRange can return without adjusting the reader's length for a non-empty, non-obsolete range: after a persisted conflict truncation the reader keeps reporting the old, longer log (lastIndex/term answer for entries that no longer exist)", res.Trace(e)...)
}

// ruleCommitUpdateActs (C19, C02): every acknowledgement carried by an
// UpdateCommit is acted on: the in-memory log handles StableLogTo and
// StableSnapshotTo independently of each other (one record may carry both).
func ruleCommitUpdateActs(e *Engine, r *Report) {
	// the function that turns an UpdateCommit into acknowledgements of the in-memory log:
	// inMemory.commitUpdate, or - when that was inlined - entryLog.commitUpdate
	fn := r.helper("(*internal/raft.inMemory).commitUpdate")
	if fn == nil {
		fn = r.need("(*internal/raft.entryLog).commitUpdate")
	}
	if fn == nil {
		return
	}
	n := 0
	for _, c := range [][2]string{{"StableLogTo", "savedLogTo"}, {"StableSnapshotTo", "savedSnapshotTo"}} {
		fld := r.needField("raftpb", "UpdateCommit", c[0])
		act := r.need("(*internal/raft.inMemory)." + c[1])
		if fld == nil || act == nil {
			continue
		}
		n++
		isAct := e.throughHelpers(func(s ssa.CallInstruction) bool { return e.CallsTo(s, act) })
		res := e.pathUnless(fn, nil, isReturn, isAct, reqCmp(c[0]+" is zero", "==", fieldV(fld), intConstV(0)))
		r.check(!res.Found, "MPT-commitupdate-acts", fname(fn)+" acts on "+c[0], e.pos(fn.Pos()),
			"the acknowledgement is applied whenever the field is set", "an UpdateCommit with "+c[0]+" set can pass through "+fname(fn)+" without "+c[1]+": the in-memory log never learns that the entries/snapshot were persisted (entries are handed out for saving again, or never again)", res.Trace(e)...)
	}
	r.floor("MPT-commitupdate-acts", n, 2)
}

// ruleReadHashBound (C14): a reader that forwards what it read to a hash or
// another consumer forwards exactly the bytes it delivers: inside a
// Read([]byte) implementation of the snapshot file code the caller's buffer
// is handed whole only to the underlying reader; every other consumer gets a
// sub-slice bounded by a count.
func ruleReadHashBound(e *Engine, r *Report) {
	n := 0
	for _, fn := range e.ScopeFuncs() {
		p := fnPkg(fn)
		if p == nil || (p != e.pkgTypes("internal/rsm") && p != e.pkgTypes("internal/utils/dio")) || fn.Name() != "Read" || fn.Signature.Recv() == nil || len(fn.Params) != 2 || !e.IsLive(fn) {
			continue
		}
		buf := fn.Params[1]
		if sl, ok := buf.Type().Underlying().(*types.Slice); !ok || !isByte(sl.Elem()) {
			continue
		}
		n++
		bad := ""
		forEachCall(fn, func(s ssa.CallInstruction) {
			cc := s.Common()
			for _, a := range cc.Args {
				if stripConv(a) != ssa.Value(buf) {
					continue
				}
				// whole buffer: fine for a reader (Read / io.ReadFull / io.ReadAtLeast) and for copy's destination
				if cc.IsInvoke() && cc.Method.Name() == "Read" {
					continue
				}
				if sc := cc.StaticCallee(); sc != nil {
					if sc.Pkg != nil && sc.Pkg.Pkg.Path() == "io" && (sc.Name() == "ReadFull" || sc.Name() == "ReadAtLeast") {
						continue
					}
					if sc.Name() == "Read" {
						continue
					}
				}
				if b, ok := cc.Value.(*ssa.Builtin); ok && (b.Name() == "copy" && cc.Args[0] == a || b.Name() == "len" || b.Name() == "cap") {
					continue
				}
				bad = e.ipos(s)
			}
		})
		r.check(bad == "", "OWN-read-forward-bound", fname(fn)+" forwards only the bytes it read", e.pos(fn.Pos()),
			"the caller's buffer goes whole only to the underlying reader", "the whole caller buffer (not the part filled by this read) is handed to another consumer at "+bad+": on a short read the checksum/consumer sees bytes that are not part of the stream, and an intact file is reported corrupt (or a corrupt one accepted)")
	}
	r.floor("OWN-read-forward-bound", n, 4)
}

func isByte(t types.Type) bool {
	b, ok := t.Underlying().(*types.Basic)
	return ok && (b.Kind() == types.Byte || b.Kind() == types.Uint8)
}

// ruleFrameHeaderCover (C13): the transport frame header's own checksum
// covers the whole header (including the payload checksum field), on the
// sending and the receiving side.
func ruleFrameHeaderCover(e *Engine, r *Report) {
	size := r.needConst("internal/transport", "requestHeaderSize")
	if size == nil {
		return
	}
	n := 0
	isCRC := func(s ssa.CallInstruction) bool {
		sc := s.Common().StaticCallee()
		return sc != nil && sc.Pkg != nil && sc.Pkg.Pkg.Path() == "hash/crc32" && len(s.Common().Args) > 0
	}
	for _, name := range []string{"(*internal/transport.requestHeader).encode", "(*internal/transport.requestHeader).decode"} {
		fn := r.need(name)
		if fn == nil {
			continue
		}
		// the checksum call, in the function or in a helper it shares with its sibling
		e.forEachInstrRegion(fn, 1, func(in ssa.Instruction) {
			s, ok := in.(ssa.CallInstruction)
			if !ok || !isCRC(s) {
				return
			}
			n++
			arg := s.Common().Args[len(s.Common().Args)-1]
			sl, ok := stripConv(arg).(*ssa.Slice)
			full := false
			if ok && sl.Low == nil && sl.High != nil {
				if k, isK := stripConv(sl.High).(*ssa.Const); isK && k.Value != nil && k.Value.ExactString() == size.Val().ExactString() {
					full = true
				}
			}
			if ok && sl.Low == nil && sl.High == nil {
				full = true // the whole buffer, whose length is checked against the header size
			}
			r.check(full, "INTEG-frame-header-cover", "header checksum in "+fname(fn)+" is computed over the whole header", e.ipos(s),
				"buf[:requestHeaderSize]", "the frame header's checksum no longer covers the whole header: damage to the uncovered bytes (the payload checksum field) is not detected, and with TLS on (payload checksum not verified) a corrupted frame is delivered")
		})
	}
	r.floor("INTEG-frame-header-cover", n, 2)
	// encode: every header field is in place before the checksum is computed
	if enc := e.Func("(*internal/transport.requestHeader).encode"); enc != nil {
		var sum ssa.Instruction
		forEachCall(enc, func(s ssa.CallInstruction) {
			if isCRC(s) {
				sum = s.(ssa.Instruction)
				return
			}
			if sc := s.Common().StaticCallee(); sc != nil && fnPkg(sc) == fnPkg(enc) {
				forEachCall(sc, func(s2 ssa.CallInstruction) {
					if isCRC(s2) {
						sum = s.(ssa.Instruction)
					}
				})
			}
		})
		if sum != nil {
			late := ""
			res := e.findPath(enc, sum, func(in ssa.Instruction) bool {
				c, ok := in.(ssa.CallInstruction)
				if !ok || !c.Common().IsInvoke() {
					return false
				}
				m := c.Common().Method.Name()
				if m != "PutUint16" && m != "PutUint32" && m != "PutUint64" {
					return false
				}
				// the store of the checksum itself is the one allowed late write
				if len(c.Common().Args) == 2 && e.dependsOn(c.Common().Args[1], func(v ssa.Value) bool { return v == sum.(ssa.Value) }, 0) {
					return false
				}
				late = e.ipos(in)
				return true
			}, nil, nil)
			r.check(!res.Found, "INTEG-frame-header-cover", "requestHeader.encode writes every field before computing the header checksum", e.ipos(sum),
				"only the checksum itself is stored afterwards", "a header field is written after the header checksum was computed ("+late+"): the checksum does not cover it")
		}
	}
}

// ruleCodecRawByte (C13): in the hand-written codecs a byte of the output
// that is not a constant tag is produced by the varint encoder only; a
// length prefix is never written as a raw byte.
func ruleCodecRawByte(e *Engine, r *Report) {
	n := 0
	for _, rel := range []string{"raftpb", "client"} {
		pk := e.pkgTypes(rel)
		if pk == nil {
			continue
		}
		for _, fn := range e.ScopeFuncs() {
			if fnPkg(fn) != pk {
				continue
			}
			isVarint := false
			forEachInstr(fn, func(in ssa.Instruction) {
				if b, ok := in.(*ssa.BinOp); ok && b.Op == token.OR {
					if c, ok := b.Y.(*ssa.Const); ok && c.Value != nil && c.Value.ExactString() == "128" {
						isVarint = true
					}
				}
			})
			forEachInstr(fn, func(in ssa.Instruction) {
				st, ok := in.(*ssa.Store)
				if !ok {
					return
				}
				ia, ok := st.Addr.(*ssa.IndexAddr)
				if !ok {
					return
				}
				sl, ok := ia.X.Type().Underlying().(*types.Slice)
				if !ok || !isByte(sl.Elem()) {
					return
				}
				if _, isC := st.Val.(*ssa.Const); isC {
					return
				}
				n++
				r.check(isVarint, "TBL-codec-raw-byte", "non-constant byte stored in "+fname(fn), e.ipos(in),
					"inside the varint encoder", "a computed value is written into the encoded output as a single raw byte outside the varint encoder: a length or field value of 128 or more is truncated / mis-framed and the record does not decode")
			})
		}
	}
	r.floor("TBL-codec-raw-byte", n, 2)
}

// losslessToFormatter: v reaches an argument of a string formatter
// (fmt.Sprintf/Sprint, strconv.FormatUint/Itoa) through conversions,
// interface boxing, varargs packing and parameter passing only - never
// through arithmetic.
func (e *Engine) losslessToFormatter(v ssa.Value, depth int, seen map[ssa.Value]bool) bool {
	if depth > 6 || seen[v] {
		return false
	}
	seen[v] = true
	refs := v.Referrers()
	if refs == nil {
		return false
	}
	for _, ref := range *refs {
		switch x := ref.(type) {
		case *ssa.Convert:
			if e.losslessToFormatter(x, depth, seen) {
				return true
			}
		case *ssa.ChangeType:
			if e.losslessToFormatter(x, depth, seen) {
				return true
			}
		case *ssa.MakeInterface:
			if e.losslessToFormatter(x, depth, seen) {
				return true
			}
		case *ssa.Store:
			if x.Val != v {
				continue
			}
			if ia, ok := x.Addr.(*ssa.IndexAddr); ok {
				if e.losslessToFormatter(ia.X, depth, seen) {
					return true
				}
			}
		case *ssa.Slice:
			if e.losslessToFormatter(x, depth, seen) {
				return true
			}
		case ssa.CallInstruction:
			sc := x.Common().StaticCallee()
			if sc == nil {
				continue
			}
			if sc.Pkg != nil {
				pp := sc.Pkg.Pkg.Path()
				if (pp == "fmt" && (sc.Name() == "Sprintf" || sc.Name() == "Sprint")) || (pp == "strconv" && (sc.Name() == "FormatUint" || sc.Name() == "Itoa" || sc.Name() == "FormatInt")) {
					return true
				}
			}
			if len(sc.Blocks) == 0 {
				continue
			}
			for i, a := range x.Common().Args {
				if a == v && i < len(sc.Params) {
					if e.losslessToFormatter(sc.Params[i], depth+1, seen) {
						return true
					}
				}
			}
		}
	}
	return false
}

// ruleChunkKeyInjective (C15): the key under which the receiver tracks a
// snapshot stream identifies the stream: shard id, replica id and snapshot
// index each reach the formatted key unmodified.
func ruleChunkKeyInjective(e *Engine, r *Report) {
	fn := r.need("internal/transport.chunkKey")
	if fn == nil {
		return
	}
	n := 0
	for _, f := range []string{"ShardID", "ReplicaID", "Index"} {
		fld := r.needField("raftpb", "Chunk", f)
		if fld == nil {
			continue
		}
		ok := false
		forEachInstr(fn, func(in ssa.Instruction) {
			v, isV := in.(ssa.Value)
			if !isV || !fieldV(fld)(v) {
				return
			}
			if e.losslessToFormatter(v, 0, map[ssa.Value]bool{}) {
				ok = true
			}
		})
		n++
		r.check(ok, "DEP-chunk-key-injective", "chunkKey contains Chunk."+f+" unmodified", e.pos(fn.Pos()),
			"the field reaches the formatted key without arithmetic", "the stream tracking key no longer contains Chunk."+f+" as is (it is reduced/transformed or missing): two different snapshot streams can share a key, and the first chunk of one is taken as a restart of the other (its temp dir is deleted)")
	}
	r.floor("DEP-chunk-key-injective", n, 3)
}

// ruleChunkCountSource (C15): the number of chunks announced in every chunk
// (ChunkCount, on which IsLastChunk rests) is the number of chunks produced:
// it is the length of the chunk list, or it is computed by the same single
// function that decides how many chunks a file is split into.
func ruleChunkCountSource(e *Engine, r *Report) {
	gc := r.need("internal/transport.getChunks")
	cc := r.needField("raftpb", "Chunk", "ChunkCount")
	if gc == nil || cc == nil {
		return
	}
	// functions of the package that divide by the chunk size
	tp := e.pkgTypes("internal/transport")
	var dividers []*ssa.Function
	for _, fn := range e.ScopeFuncs() {
		if fnPkg(fn) != tp || !e.IsLive(outermostFn(fn)) {
			continue
		}
		hit := false
		forEachInstr(fn, func(in ssa.Instruction) {
			b, ok := in.(*ssa.BinOp)
			if !ok || b.Op != token.QUO {
				return
			}
			if e.dependsOn(b.Y, func(v ssa.Value) bool { g, ok := v.(*ssa.Global); return ok && g.Name() == "snapshotChunkSize" }, 0) {
				hit = true
			}
		})
		if hit {
			dividers = append(dividers, fn)
		}
	}
	r.check(len(dividers) == 1, "DEP-chunk-count-source", "the number of chunks per file is computed in one place", e.pos(gc.Pos()),
		"a single function divides by the chunk size", "the per-file chunk count is computed in "+itoa(len(dividers))+" places ("+strings.Join(names(dividers), ", ")+"): the announced ChunkCount and the chunks actually produced can disagree at boundary sizes, so no chunk is ever the last one (or the stream finalizes early)")
	n := 0
	e.forEachInstrRegion(gc, 1, func(in ssa.Instruction) {
		st, ok := in.(*ssa.Store)
		if !ok {
			return
		}
		if f, _, ok := fieldOfAddr(st.Addr); !ok || f != cc {
			return
		}
		n++
		isLen := func(v ssa.Value) bool {
			c, ok := v.(*ssa.Call)
			if !ok {
				return false
			}
			b, ok := c.Call.Value.(*ssa.Builtin)
			return ok && b.Name() == "len"
		}
		fromDivider := func(v ssa.Value) bool {
			c, ok := v.(*ssa.Call)
			if !ok {
				return false
			}
			for _, d := range dividers {
				if e.CallsTo(c, d) {
					return true
				}
			}
			return false
		}
		ok2 := e.dependsOn(st.Val, isLen, 1) || (len(dividers) == 1 && e.dependsOn(st.Val, fromDivider, 1))
		r.check(ok2, "DEP-chunk-count-source", "Chunk.ChunkCount set in "+fname(in.Parent()), e.ipos(in),
			"derived from the produced chunk list", "ChunkCount is not derived from the list of chunks produced ("+e.describeValue(st.Val)+")")
	})
	r.floor("DEP-chunk-count-source", n, 1)
}

// ruleSnapshotJobSlot (C17): a snapshot connection slot taken by createJob
// (bounded by the maximum number of snapshot connections) is given back or
// handed to the worker that gives it back on every path; a slot leaked on a
// refusal path is gone for the life of the process, and when all are gone no
// snapshot can ever be sent again.
func ruleSnapshotJobSlot(e *Engine, r *Report) {
	cj := r.need("(*internal/transport.Transport).createJob")
	jobs := r.needField("internal/transport", "Transport", "jobs")
	if cj == nil || jobs == nil {
		return
	}
	isDec := func(c ssa.CallInstruction) bool {
		cc := c.Common()
		sc := cc.StaticCallee()
		if sc == nil || sc.Pkg == nil || sc.Pkg.Pkg.Path() != "sync/atomic" || sc.Name() != "AddUint64" || len(cc.Args) != 2 {
			return false
		}
		if f, _, ok := fieldOfAddr(cc.Args[0]); !ok || f != jobs {
			return false
		}
		k, isK := cc.Args[1].(*ssa.Const)
		return !isK || k.Value == nil || k.Value.ExactString() != "1"
	}
	// a function (with the same-package functions and closures it calls) gives the slot back
	releasesSlot := func(fn *ssa.Function) bool {
		hit := false
		for _, g := range e.regionOf(fn, 2) {
			forEachCall(g, func(c ssa.CallInstruction) {
				if isDec(c) {
					hit = true
				}
			})
		}
		return hit
	}
	var closureReleases func(mc *ssa.MakeClosure, d int) bool
	closureReleases = func(mc *ssa.MakeClosure, d int) bool {
		body, ok := mc.Fn.(*ssa.Function)
		if !ok {
			return false
		}
		if releasesSlot(body) {
			return true
		}
		if d == 0 {
			return false
		}
		// closures the body reaches through its free variables (`shutdown := func() {...}`)
		for _, b := range mc.Bindings {
			if mc2, ok := b.(*ssa.MakeClosure); ok && closureReleases(mc2, d-1) {
				return true
			}
			if al, ok := b.(*ssa.Alloc); ok {
				for _, sv := range storesInto(al) {
					if mc2, ok := sv.(*ssa.MakeClosure); ok && closureReleases(mc2, d-1) {
						return true
					}
				}
			}
		}
		return false
	}
	isRelease := func(in ssa.Instruction) bool {
		c, ok := in.(ssa.CallInstruction)
		if !ok {
			return false
		}
		if isDec(c) {
			return true
		}
		// a same-package helper that releases on every path
		if sc := c.Common().StaticCallee(); sc != nil && fnPkg(sc) == fnPkg(cj) && sc != cj && len(sc.Blocks) > 0 {
			direct := false
			forEachCall(sc, func(c2 ssa.CallInstruction) {
				if isDec(c2) {
					direct = true
				}
			})
			if direct && !e.findPath(sc, nil, isReturn, func(x ssa.Instruction) bool { c3, ok := x.(ssa.CallInstruction); return ok && isDec(c3) }, nil).Found {
				return true
			}
		}
		// hand-off to a worker goroutine whose body releases the slot
		for _, a := range c.Common().Args {
			if mc, ok := a.(*ssa.MakeClosure); ok && closureReleases(mc, 2) {
				return true
			}
		}
		return false
	}
	n := 0
	var check func(site ssa.Instruction, jobV ssa.Value, depth int)
	check = func(site ssa.Instruction, jobV ssa.Value, depth int) {
		fn := site.Parent()
		n++
		isJob := func(v ssa.Value) bool {
			return v == jobV || e.dependsOn(v, func(x ssa.Value) bool { return x == jobV }, 0)
		}
		isNilJob := reqCmp("no job was created", "==", isJob, func(v ssa.Value) bool { return isNilConst(v) })
		// returns that pass the job on to the caller are hand-offs, checked in the callers
		handsOff := func(in ssa.Instruction) bool {
			ret, ok := in.(*ssa.Return)
			if !ok {
				return false
			}
			for i := range ret.Results {
				if isJob(retOperand(ret, i)) {
					return true
				}
			}
			return false
		}
		handed := false
		res := e.pathUnless(fn, site, func(in ssa.Instruction) bool {
			if !isReturn(in) {
				return false
			}
			if handsOff(in) {
				handed = true
				return false
			}
			return true
		}, isRelease, isNilJob)
		r.check(!res.Found, "PAIR-snapshot-job-slot", "slot taken by createJob in "+fname(fn)+" is released or handed to the sending worker", e.ipos(site),
			"every path after a successful createJob releases the slot or starts the worker that does", "a path after a successful createJob returns without releasing the connection slot and without starting the worker that releases it: each such refusal leaks one of the bounded snapshot connection slots, and once all are leaked no snapshot can be sent or streamed again (lagging replicas never catch up)", res.Trace(e)...)
		if handed && depth > 0 {
			for _, cs := range e.CallerSites(fn) {
				if !e.IsLive(cs.Parent()) {
					continue
				}
				var jv ssa.Value
				if v, ok := cs.(ssa.Value); ok {
					jv = v
					if refs := v.Referrers(); refs != nil {
						for _, ref := range *refs {
							if ex, ok := ref.(*ssa.Extract); ok {
								if _, isPtr := ex.Type().Underlying().(*types.Pointer); isPtr {
									jv = ex
								}
							}
						}
					}
				}
				if jv != nil {
					check(cs.(ssa.Instruction), jv, depth-1)
				}
			}
		}
	}
	for _, s := range e.CallerSites(cj) {
		if !e.IsLive(s.Parent()) {
			continue
		}
		if v, ok := s.(ssa.Value); ok {
			check(s.(ssa.Instruction), v, 2)
		}
	}
	r.floor("PAIR-snapshot-job-slot", n, 2)
}

// ruleJobUnregistered (C17, C11): when a snapshot worker completes, the
// shard's entry in the in-progress table it was found in is removed or
// counted down in the table itself (a count kept only in a local leaves the
// shard "in progress" for ever and no further snapshot job of the shard is
// scheduled).
func ruleJobUnregistered(e *Engine, r *Report) {
	fn := r.need("(*dragonboat.workerPool).completed")
	if fn == nil {
		return
	}
	n := 0
	for _, tn := range []string{"saving", "recovering", "streaming"} {
		tb := r.needField("dragonboat", "workerPool", tn)
		if tb == nil {
			continue
		}
		updates := func(in ssa.Instruction) bool {
			switch x := in.(type) {
			case *ssa.MapUpdate:
				return fieldV(tb)(x.Map)
			case *ssa.Call:
				if b, ok := x.Call.Value.(*ssa.Builtin); ok && b.Name() == "delete" && len(x.Call.Args) == 2 && fieldV(tb)(x.Call.Args[0]) {
					return true
				}
			}
			return false
		}
		// through helpers: a same-package callee that updates the table on every path
		helper := map[*ssa.Function]bool{}
		for _, g := range e.regionOf(fn, 2) {
			if g == fn {
				continue
			}
			has := false
			forEachInstr(g, func(in ssa.Instruction) {
				if updates(in) {
					has = true
				}
			})
			if has && !e.findPath(g, nil, isReturn, updates, nil).Found {
				helper[g] = true
			}
		}
		upd := func(in ssa.Instruction) bool {
			if updates(in) {
				return true
			}
			if c, ok := in.(*ssa.Call); ok {
				if sc := c.Call.StaticCallee(); sc != nil && helper[sc] {
					return true
				}
			}
			return false
		}
		forEachInstr(fn, func(in ssa.Instruction) {
			ifi, ok := in.(*ssa.If)
			if !ok {
				return
			}
			ex, ok := ifi.Cond.(*ssa.Extract)
			if !ok || ex.Index != 1 {
				return
			}
			lk, ok := ex.Tuple.(*ssa.Lookup)
			if !ok || !fieldV(tb)(lk.X) {
				return
			}
			n++
			first := ifi.Block().Succs[0]
			if len(first.Instrs) == 0 {
				return
			}
			res := e.findPath(fn, nil, isReturn, upd, func(p, s *ssa.BasicBlock) bool {
				// only paths through the found-edge
				if p == ifi.Block() {
					return s == first
				}
				return true
			})
			// the path must actually pass the found-edge: search from the first instruction of that block
			res = e.findPath(fn, first.Instrs[0], isReturn, upd, nil)
			if upd(first.Instrs[0]) {
				res.Found = false
			}
			r.check(!res.Found, "PAIR-job-unregistered", "workerPool.completed updates "+tn+" when the shard is found in it", e.ipos(in),
				"the table entry is removed or counted down", "a completed job found in workerPool."+tn+" can leave the table unchanged: the shard stays \"in progress\" for ever and no save / recover job of it is scheduled again", res.Trace(e)...)
		})
	}
	r.floor("PAIR-job-unregistered", n, 3)
}

// ruleTanInstallRemovesFirst (C20, C09): Tan's installSnapshot (the import
// path) wipes the node's previous records unconditionally before it writes
// the imported snapshot record (the index only moves its snapshot pointer
// forward, so an older imported snapshot would otherwise be ignored).
func ruleTanInstallRemovesFirst(e *Engine, r *Report) {
	fn := r.need("(*internal/tan.db).installSnapshot")
	rm := r.need("(*internal/tan.db).removeAllLocked")
	wr := r.need("(*internal/tan.db).doWriteLocked")
	if fn == nil || rm == nil || wr == nil {
		return
	}
	isRm := e.throughHelpers(func(s ssa.CallInstruction) bool { return e.CallsTo(s, rm) })
	n := 0
	for _, s := range e.SitesIn(fn, wr) {
		n++
		ok, w := e.alwaysPrecededBy(s.(ssa.Instruction), isRm, 0)
		r.check(ok, "MPT-tan-install-removes-first", "installSnapshot removes the node's records before writing the imported snapshot", e.ipos(s),
			"unconditional wipe, then the snapshot record", "the imported snapshot record can be written without first removing the node's previous records: a newer snapshot the replica already holds wins after restart and the import is silently ignored", w...)
	}
	r.floor("MPT-tan-install-removes-first", n, 1)
}

// ruleShardRouting (C20, C09): every operation of the sharded log store
// reaches the partition chosen by the partitioner (the one function the
// engine's workers also use); no method computes its own partition number.
func ruleShardRouting(e *Engine, r *Report) {
	shards := r.needField("internal/logdb", "ShardedDB", "shards")
	gp := r.needMethod("internal/server", "IPartitioner", "GetPartitionID")
	if shards == nil || gp == nil {
		return
	}
	n := 0
	lp := e.pkgTypes("internal/logdb")
	for _, fn := range e.ScopeFuncs() {
		if fnPkg(fn) != lp || !e.IsLive(outermostFn(fn)) {
			continue
		}
		forEachInstr(fn, func(in ssa.Instruction) {
			ia, ok := in.(*ssa.IndexAddr)
			if !ok || !fieldV(shards)(ia.X) {
				return
			}
			if c, isC := ia.Index.(*ssa.Const); isC && c.Value != nil && c.Value.ExactString() == "0" {
				return // name()/binaryFormat(): any shard will do
			}
			n++
			fromPartitioner := e.dependsOn(ia.Index, func(v ssa.Value) bool {
				return e.methodCallV(gp)(v)
			}, 2)
			// an index that is a range/loop variable over all shards, or handed in by a caller that got it from the partitioner
			loopVar := e.dependsOn(ia.Index, func(v ssa.Value) bool {
				if _, ok := v.(*ssa.Phi); ok {
					return true
				}
				if ex, ok := v.(*ssa.Extract); ok {
					_, isNext := ex.Tuple.(*ssa.Next)
					return isNext
				}
				return false
			}, 0)
			param := e.dependsOn(ia.Index, func(v ssa.Value) bool { _, ok := v.(*ssa.Parameter); return ok }, 0) && !e.dependsOn(ia.Index, func(v ssa.Value) bool {
				b, ok := v.(*ssa.BinOp)
				return ok && (b.Op == token.REM || b.Op == token.AND)
			}, 0)
			hasArith := e.dependsOn(ia.Index, func(v ssa.Value) bool {
				b, ok := v.(*ssa.BinOp)
				return ok && (b.Op == token.REM || b.Op == token.AND || b.Op == token.QUO)
			}, 0)
			r.check(fromPartitioner || ((loopVar || param) && !hasArith), "TBL-shard-routing", "partition selected in "+fname(fn)+" #"+itoa(n), e.ipos(in),
				"the partitioner's answer (or a sweep over all partitions)", "a sharded log store method picks its partition with its own arithmetic instead of the partitioner: when the engine and the log store are configured with different shard counts the record lands in a partition nobody reads for that raft shard (the call still succeeds)")
		})
	}
	r.floor("TBL-shard-routing", n, 2)
}

// ruleTempDirNamePattern (C16): the names given to temporary snapshot
// directories are names the restart-time orphan scan recognises. The format
// strings and the regular expressions are constants of the source; the rule
// formats representative index / replica id values with the former and
// matches the results against the latter (done by the checker on constants,
// no code of the repository is run).
func ruleTempDirNamePattern(e *Engine, r *Report) {
	gt := r.need("internal/server.getTempDirName")
	gd := r.need("internal/server.getDirName")
	if gt == nil || gd == nil {
		return
	}
	constFormat := func(fn *ssa.Function) (string, bool) {
		out, ok := "", false
		forEachCall(fn, func(s ssa.CallInstruction) {
			sc := s.Common().StaticCallee()
			if sc == nil || sc.Pkg == nil || sc.Pkg.Pkg.Path() != "fmt" || sc.Name() != "Sprintf" || len(s.Common().Args) == 0 {
				return
			}
			if c, isC := s.Common().Args[0].(*ssa.Const); isC && c.Value != nil {
				out, ok = constantString(c), true
			}
		})
		return out, ok
	}
	tf, ok1 := constFormat(gt)
	df, ok2 := constFormat(gd)
	// the patterns: regexp.MustCompile(<const>) stored into the package-level variables
	pats := map[string]string{}
	sp := e.pkgTypes("internal/server")
	for _, fn := range e.ScopeFuncs() {
		if fnPkg(fn) != sp || fn.Name() != "init" {
			continue
		}
		forEachInstr(fn, func(in ssa.Instruction) {
			st, ok := in.(*ssa.Store)
			if !ok {
				return
			}
			g, ok := st.Addr.(*ssa.Global)
			if !ok {
				return
			}
			c, ok := st.Val.(*ssa.Call)
			if !ok {
				return
			}
			sc := c.Call.StaticCallee()
			if sc == nil || sc.Pkg == nil || sc.Pkg.Pkg.Path() != "regexp" || len(c.Call.Args) == 0 {
				return
			}
			if k, isC := c.Call.Args[0].(*ssa.Const); isC && k.Value != nil {
				pats[g.Name()] = constantString(k)
			}
		})
	}
	gen, okg := pats["GenSnapshotDirNameRe"]
	rcv, okr := pats["RecvSnapshotDirNameRe"]
	if !ok1 || !ok2 || !okg || !okr {
		r.undecided("TBL-tempdir-name-pattern", "internal/server", "format strings or patterns of the temp snapshot dir names are no longer constants")
		return
	}
	// getTempDirName's format takes (dirName string, from uint64, suffix string)
	bad := ""
	samples := []uint64{0, 1, 9, 10, 11, 12, 15, 26, 255, 4095, 0xABCDEF0123456789, ^uint64(0)}
	for _, suf := range [][2]string{{"generating", gen}, {"receiving", rcv}} {
		re, err := regexp.Compile(suf[1])
		if err != nil {
			r.undecided("TBL-tempdir-name-pattern", suf[1], "pattern does not compile")
			return
		}
		for _, idx := range samples {
			for _, from := range samples {
				name := fmt.Sprintf(tf, fmt.Sprintf(df, idx), from, suf[0])
				if strings.Contains(name, "%!") {
					r.undecided("TBL-tempdir-name-pattern", tf, "format no longer takes (dir name, replica id, suffix)")
					return
				}
				if !re.MatchString(name) && bad == "" {
					bad = name + " does not match " + suf[1]
				}
			}
		}
	}
	r.check(bad == "", "TBL-tempdir-name-pattern", "temporary snapshot dir names match the orphan patterns", e.pos(gt.Pos()),
		"formats "+df+" / "+tf+" against the .generating and .receiving patterns, "+itoa(len(samples)*len(samples)*2)+" sample names", "a temporary snapshot directory can get a name the restart-time orphan scan does not recognise ("+bad+"): the directory of an interrupted save/receive is never removed")
}

func constantString(c *ssa.Const) string {
	s := c.Value.ExactString()
	if u, err := strconv.Unquote(s); err == nil {
		return u
	}
	return s
}

// ruleLogQueryAnswered (C12): a raft log query has no deadline, so the only
// way it gets its result is the LogQuery handler: every role whose API
// admits the request (all but the witness) has a LogQuery cell, and the
// handler produces a result record on every returning path.
func ruleLogQueryAnswered(e *Engine, r *Report) {
	tbl, err := e.RaftHandlerTable()
	if err != nil {
		r.undecided("TBL", "raft.handlers", err.Error())
		return
	}
	res := r.needField("internal/raft", "raft", "logQueryResult")
	n := 0
	for _, st := range []string{"follower", "candidate", "preVoteCandidate", "leader", "nonVoting"} {
		c := tbl.Get(st, "LogQuery")
		r.check(c != nil, "TBL-logquery-answered", st+" has a LogQuery cell", "-", "the query is served in this role",
			"role "+st+" accepts QueryRaftLog (the node API refuses it only on witnesses) but has no LogQuery handler: the message is ignored silently and, as log queries have no deadline, the request never gets a result while the shard runs (and blocks every later query)")
		n++
		if c == nil || c.Fn == nil || res == nil {
			continue
		}
		p := e.findPath(c.Fn, nil, isReturn, isStoreToField(res), nil)
		r.check(!p.Found, "TBL-logquery-answered", fname(c.Fn)+" ("+st+") records a result on every path", e.pos(c.Fn.Pos()),
			"raft.logQueryResult is set before the handler returns", "the LogQuery handler can return without recording a result", p.Trace(e)...)
	}
	r.floor("TBL-logquery-answered", n, 5)
}

// ruleChunkDataLoad (C15): on the sending side a chunk carries exactly the
// bytes of its slot of the file: the read offset is FileChunkId times the
// chunk size the splitter used, the data is returned only when the read
// delivered ChunkSize bytes, and every non-witness chunk is loaded before it
// is sent.
func ruleChunkDataLoad(e *Engine, r *Report) {
	ld := r.need("internal/transport.loadChunkData")
	sc := r.need("(*internal/transport.job).sendChunks")
	send := r.need("(*internal/transport.job).sendChunk")
	fid := r.needField("raftpb", "Chunk", "FileChunkId")
	csz := r.needField("raftpb", "Chunk", "ChunkSize")
	dataF := r.needField("raftpb", "Chunk", "Data")
	wit := r.needField("raftpb", "Chunk", "Witness")
	if ld == nil || sc == nil || send == nil || fid == nil || csz == nil || dataF == nil || wit == nil {
		return
	}
	isChunkSize := func(v ssa.Value) bool { g, ok := v.(*ssa.Global); return ok && g.Name() == "snapshotChunkSize" }
	n := 0
	forEachCall(ld, func(s ssa.CallInstruction) {
		c := s.Common()
		callee := c.StaticCallee()
		isReadAt := (c.IsInvoke() && c.Method.Name() == "ReadAt") || (callee != nil && (callee.Name() == "readAt" || callee.Name() == "ReadAt"))
		if !isReadAt || len(c.Args) < 2 {
			return
		}
		n++
		off := c.Args[len(c.Args)-1]
		okOff := e.dependsOn(off, fieldV(fid), 0) && e.dependsOn(off, isChunkSize, 0)
		r.check(okOff, "DEP-chunk-data-load", "read offset in loadChunkData is FileChunkId x chunk size", e.ipos(s),
			"the slot the splitter assigned to the chunk", "the chunk data is read from an offset that is not derived from the chunk's FileChunkId and the chunk size ("+e.describeValue(off)+"): the receiver reassembles a file with misplaced or repeated content")
	})
	r.floor("DEP-chunk-data-load", n, 1)
	// data returned only after a full read
	forEachInstr(ld, func(in ssa.Instruction) {
		ret, ok := in.(*ssa.Return)
		if !ok || len(ret.Results) < 2 || in.Block() == ld.Recover {
			return
		}
		if isNilConst(retOperand(ret, 0)) {
			return
		}
		r.guard("DEP-chunk-data-load", "loadChunkData returns data", in,
			reqCmp("bytes read == Chunk.ChunkSize", "==", anyV(), fieldV(csz)))
	})
	// every non-witness chunk is loaded before it is sent
	isLoad := func(in ssa.Instruction) bool {
		st, ok := in.(*ssa.Store)
		if !ok {
			return false
		}
		f, _, ok := fieldOfAddr(st.Addr)
		return ok && f == dataF && e.dependsOn(st.Val, e.callV(ld), 1)
	}
	for _, s := range e.SitesIn(sc, send) {
		res := e.pathUnless(sc, nil, func(in ssa.Instruction) bool { return in == s.(ssa.Instruction) }, isLoad, reqBool("witness chunk", fieldV(wit), true))
		r.check(!res.Found, "DEP-chunk-data-load", "sendChunks loads the data of every non-witness chunk before sending it", e.ipos(s),
			"Chunk.Data = loadChunkData(..) on every path to the send", "a non-witness chunk can be sent without its data having been loaded from the snapshot file", res.Trace(e)...)
	}
}

// ruleResultTruthfulAPI (C12, C01): what the synchronous API reports is what
// the request's terminal code says: each RequestResult predicate answers true
// only for its own code, and getRequestState returns a nil error (success)
// only for a Completed result and each error only for the code it names.
func ruleResultTruthfulAPI(e *Engine, r *Report) {
	code := r.needField("dragonboat", "RequestResult", "code")
	if code == nil {
		return
	}
	n := 0
	for _, c := range [][2]string{{"Completed", "requestCompleted"}, {"Timeout", "requestTimeout"}, {"Terminated", "requestTerminated"}, {"Rejected", "requestRejected"}, {"Dropped", "requestDropped"}, {"Aborted", "requestAborted"}} {
		fn := r.need("(*dragonboat.RequestResult)." + c[0])
		k := r.needConst("dragonboat", c[1])
		if fn == nil || k == nil {
			continue
		}
		n++
		r.returnsOnlyUnder("GD-result-truthful", "RequestResult."+c[0], fn, 0, true, nil,
			reqCmp("code == "+c[1], "==", fieldV(code), constV(k)))
	}
	r.floor("GD-result-truthful", n, 6)
	grs := r.need("dragonboat.getRequestState")
	if grs == nil {
		return
	}
	pred := func(name string) VM {
		f := e.Func("(*dragonboat.RequestResult)." + name)
		return e.callV(f)
	}
	isGlobal := func(name string) func(ssa.Value) bool {
		return func(v ssa.Value) bool {
			u, ok := stripConv(v).(*ssa.UnOp)
			if !ok {
				return false
			}
			g, ok := u.X.(*ssa.Global)
			return ok && g.Name() == name
		}
	}
	ctxErr := func(v ssa.Value) bool {
		c, ok := v.(*ssa.Call)
		return ok && c.Call.IsInvoke() && c.Call.Method.Name() == "Err"
	}
	forEachInstr(grs, func(in ssa.Instruction) {
		ret, ok := in.(*ssa.Return)
		if !ok || len(ret.Results) < 2 || in.Block() == grs.Recover {
			return
		}
		ev := retOperand(ret, 1)
		switch {
		case isNilConst(ev):
			r.guard("GD-result-truthful", "getRequestState returns success", in, reqBool("the result is Completed", pred("Completed"), true))
		default:
			for _, m := range [][2]string{{"ErrRejected", "Rejected"}, {"ErrShardClosed", "Terminated"}, {"ErrShardNotReady", "Dropped"}, {"ErrAborted", "Aborted"}} {
				if isGlobal(m[0])(ev) {
					r.guard("GD-result-truthful", "getRequestState returns "+m[0], in, reqBool("the result is "+m[1], pred(m[1]), true))
				}
			}
			if isGlobal("ErrTimeout")(ev) {
				r.guard("GD-result-truthful", "getRequestState returns ErrTimeout", in,
					reqAny("the result is Timeout, or the caller's context expired",
						reqBool("", pred("Timeout"), true),
						reqCmp("", "==", ctxErr, anyV())))
			}
		}
	})
}

// ruleBootstrapGate (C07, C20): a replica is started only with settings that
// agree with its bootstrap record: the record's Validate verdict gates
// bootstrapShard, a fresh record is saved before the shard is reported
// bootstrapped, and a joined / imported replica (record says Join) never
// comes back with an initial member list.
func ruleBootstrapGate(e *Engine, r *Report) {
	n := checkValidatorGates(e, r, "VAL-bootstrap", []string{"(*raftpb.Bootstrap).Validate"}, nil)
	r.floor("VAL-bootstrap", n, 1)
	bs := r.need("(*dragonboat.NodeHost).bootstrapShard")
	saveM := r.needMethod("raftio", "ILogDB", "SaveBootstrapInfo")
	getM := r.needMethod("raftio", "ILogDB", "GetBootstrapInfo")
	if bs == nil || saveM == nil || getM == nil {
		return
	}
	// on the no-record edge: every success return is preceded by SaveBootstrapInfo
	isSave := func(in ssa.Instruction) bool {
		c, ok := in.(ssa.CallInstruction)
		return ok && e.IsMethodCall(c, saveM)
	}
	isValidate := func(in ssa.Instruction) bool {
		c, ok := in.(*ssa.Call)
		v := e.Func("(*raftpb.Bootstrap).Validate")
		return ok && v != nil && e.CallsTo(c, v)
	}
	barrier := func(in ssa.Instruction) bool { return isSave(in) || isValidate(in) }
	// a return that forwards the results of a same-package helper (`return nh.saveBootstrapInfo(...)`) succeeds
	// exactly when the helper does: it is covered when every success return of the helper is behind the step
	var succeedsOnlyAfterStep func(fn *ssa.Function, depth int) PathResult
	succeedsOnlyAfterStep = func(fn *ssa.Function, depth int) PathResult {
		target := func(in ssa.Instruction) bool {
			if !e.isSuccessReturn(in) {
				return false
			}
			ret := in.(*ssa.Return)
			idx := errResultIndex(fn)
			if idx >= 0 && depth > 0 {
				if ex, ok := stripConv(retOperand(ret, idx)).(*ssa.Extract); ok {
					if c, ok := ex.Tuple.(*ssa.Call); ok {
						if g := c.Call.StaticCallee(); g != nil && len(g.Blocks) > 0 && fnPkg(g) == fnPkg(fn) {
							if !succeedsOnlyAfterStep(g, depth-1).Found {
								return false
							}
						}
					}
				}
			}
			return true
		}
		return e.findPath(fn, nil, target, barrier, nil)
	}
	res := succeedsOnlyAfterStep(bs, 2)
	r.check(!res.Found, "VAL-bootstrap", "bootstrapShard succeeds only after saving a fresh record or validating the stored one", e.pos(bs.Pos()),
		"no start without a bootstrap record that agrees with the request", "bootstrapShard can report success without having saved a bootstrap record or validated the stored one against the request: a replica can be restarted with a different initial membership / join flag than it was created with", res.Trace(e)...)
	// Validate itself: a recorded Join with a non-empty member list is refused
	if v := e.Func("(*raftpb.Bootstrap).Validate"); v != nil && len(v.Params) >= 2 {
		join := r.needField("raftpb", "Bootstrap", "Join")
		nodes := v.Params[1]
		r.returnsOnlyUnder("VAL-bootstrap", "Bootstrap.Validate accepts", v, 0, true, nil,
			reqAny("the record is not a join record, or no initial members were given",
				reqBool("", fieldV(join), false),
				reqCmp("", "<=", lenOfV(func(x ssa.Value) bool { return x == ssa.Value(nodes) }), intConstV(0))))
	}
}
