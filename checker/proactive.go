package main

// Rules written proactively from the anchor-gap survey (tools/anchor_gaps.py):
// mechanisms inside the anchored files that no rule looked at yet. Each is a
// structural necessary condition of the property it is registered under.

import (
	"go/token"
	"go/types"

	"golang.org/x/tools/go/ssa"
)

// stdCallV: the value is the result of a static call of pkgPath.name (a
// standard-library function such as bytes.Equal).
func stdCallV(pkgPath, name string) VM {
	return func(v ssa.Value) bool {
		c, ok := stripConv(v).(*ssa.Call)
		if !ok {
			return false
		}
		sc := c.Call.StaticCallee()
		return sc != nil && sc.Name() == name && sc.Pkg != nil && sc.Pkg.Pkg.Path() == pkgPath
	}
}

// ruleValidatorExact (C14): the bodies of the snapshot validators answer
// "valid" only on the strength of the comparison they exist for. The VAL
// rules decide that a verdict gates; this decides that the verdict itself is
// the checksum / magic / size comparison.
func ruleValidatorExact(e *Engine, r *Report) {
	eq := stdCallV("bytes", "Equal")
	eqDep := func(pred func(ssa.Value) bool) VM {
		return func(v ssa.Value) bool {
			c, ok := stripConv(v).(*ssa.Call)
			if !ok || !eq(v) {
				return false
			}
			for _, a := range c.Call.Args {
				if e.dependsOn(a, pred, 1) {
					return true
				}
			}
			return false
		}
	}
	isSum := func(v ssa.Value) bool {
		c, ok := v.(*ssa.Call)
		return ok && c.Call.IsInvoke() && c.Call.Method.Name() == "Sum"
	}
	n := 0
	if vb := r.need("internal/rsm.validateBlock"); vb != nil {
		n++
		r.returnsOnlyUnder("GD-validator-exact", "validateBlock answers valid", vb, 0, true, nil,
			reqBool("the stored block crc equals the computed one (bytes.Equal over hash.Sum)", eqDep(isSum), true))
	}
	if vh := r.need("internal/rsm.validateHeader"); vh != nil {
		n++
		zero := func(v ssa.Value) bool {
			g, ok := v.(*ssa.Global)
			return ok && g.Name() == "fourZeroBytes"
		}
		r.returnsOnlyUnder("GD-validator-exact", "validateHeader answers valid", vh, 0, true, nil,
			reqAny("the stored header crc equals the computed one, or the legacy all-zero crc",
				reqBool("", eqDep(isSum), true), reqBool("", eqDep(zero), true)))
	}
	if v1 := r.need("(*internal/rsm.v1validator).Validate"); v1 != nil {
		n++
		pc := r.needField("raftpb", "SnapshotHeader", "PayloadChecksum")
		r.returnsOnlyUnder("GD-validator-exact", "v1validator.Validate answers valid", v1, 0, true, nil,
			reqBool("the computed payload checksum equals SnapshotHeader.PayloadChecksum", func(v ssa.Value) bool {
				return eqDep(isSum)(v) && eqDep(fieldV(pc))(v)
			}, true))
	}
	if ms := r.need("(*internal/rsm.v2validator).validateMagicSize"); ms != nil {
		n++
		magic := func(v ssa.Value) bool {
			g, ok := v.(*ssa.Global)
			return ok && g.Name() == "writerMagicNumber"
		}
		total := r.needField("internal/rsm", "v2validator", "total")
		r.returnsOnlyUnder("GD-validator-exact", "v2validator.validateMagicSize answers valid", ms, 0, true, nil,
			reqBool("the tail carries the writer's magic number", eqDep(magic), true),
			reqCmp("the recorded size equals the bytes received", "==", anyV(), func(v ssa.Value) bool {
				return e.dependsOn(v, fieldV(total), 0)
			}))
	}
	if v2 := r.need("(*internal/rsm.v2validator).Validate"); v2 != nil {
		n++
		ms := e.Func("(*internal/rsm.v2validator).validateMagicSize")
		vb2 := e.Func("(*internal/rsm.v2validator).validateBlock")
		vb := e.Func("internal/rsm.validateBlock")
		r.returnsOnlyUnder("GD-validator-exact", "v2validator.Validate answers valid", v2, 0, true, nil,
			reqBool("validateMagicSize accepted the tail", e.callV(ms), true),
			reqAny("the last block validated, or nothing is left over",
				reqBool("", e.callV(vb2, vb), true),
				reqCmp("", "==", lenOfV(anyV()), intConstV(0))))
	}
	r.floor("GD-validator-exact", n, 5)
}

// ruleLastAppliedContiguous (C02, C11): the applied cursor published to the
// read path (StateMachine.lastApplied) moves only over a gap-free run of
// entries that continues the previous cursor: both assertions of
// setLastApplied fail-stop, and the cursor store is behind them.
func ruleLastAppliedContiguous(e *Engine, r *Report) {
	fn := r.need("(*internal/rsm.StateMachine).setLastApplied")
	entIdx := r.needField("raftpb", "Entry", "Index")
	if fn == nil || entIdx == nil {
		return
	}
	isLA := fieldNameV("lastApplied", "index")
	plus1 := func(inner VM) VM {
		return func(v ssa.Value) bool {
			b, ok := stripConv(v).(*ssa.BinOp)
			return ok && b.Op == token.ADD && ((inner(b.X) && intConstV(1)(b.Y)) || (inner(b.Y) && intConstV(1)(b.X)))
		}
	}
	n := 0
	forEachInstr(fn, func(in ssa.Instruction) {
		st, ok := in.(*ssa.Store)
		if !ok {
			return
		}
		f, base, ok := fieldOfAddr(st.Addr)
		if !ok || f.Name() != "index" {
			return
		}
		fa, ok := base.(*ssa.FieldAddr)
		if !ok {
			return
		}
		if s := derefStruct(fa.X.Type()); s == nil || s.Field(fa.Field).Name() != "lastApplied" {
			return
		}
		n++
		r.guard("GD-lastapplied-contiguous", "lastApplied.index stored in setLastApplied", in,
			reqCmp("lastApplied.index+1 == first entry's index", "==", plus1(isLA), fieldV(entIdx)))
	})
	r.floor("GD-lastapplied-contiguous", n, 1)
	// inside the batch: an If comparing e.Index with (running index)+1 whose unequal edge fail-stops
	found := false
	forEachInstr(fn, func(in ssa.Instruction) {
		ifi, ok := in.(*ssa.If)
		if !ok {
			return
		}
		b, ok := ifi.Cond.(*ssa.BinOp)
		if !ok || (b.Op != token.NEQ && b.Op != token.EQL) {
			return
		}
		isPhi := func(v ssa.Value) bool { _, ok := stripConv(v).(*ssa.Phi); return ok }
		if !((fieldV(entIdx)(b.X) && plus1(isPhi)(b.Y)) || (fieldV(entIdx)(b.Y) && plus1(isPhi)(b.X))) {
			return
		}
		bad := ifi.Block().Succs[0]
		if b.Op == token.EQL {
			bad = ifi.Block().Succs[1]
		}
		if e.blockFailStops(bad) {
			found = true
		}
	})
	r.check(found, "GD-lastapplied-contiguous", "setLastApplied fail-stops on an index gap inside the batch", e.pos(fn.Pos()),
		"every entry continues its predecessor", "setLastApplied no longer fail-stops when an entry of the batch does not continue its predecessor: the published applied index can run ahead of what was applied")
}

// ruleQueueAdmission (C12): the two input queues hand a request to the step
// worker only while open, answer "added" only for a request they stored, and
// swap buffers on every get (the returned slice is not written again until
// the next get).
func ruleQueueAdmission(e *Engine, r *Report) {
	n := 0
	for _, tn := range []string{"entryQueue", "readIndexQueue"} {
		add := r.need("(*dragonboat." + tn + ").add")
		get := r.need("(*dragonboat." + tn + ").get")
		stopped := r.needField("dragonboat", tn, "stopped")
		liw := r.needField("dragonboat", tn, "leftInWrite")
		idx := r.needField("dragonboat", tn, "idx")
		mu := r.needField("dragonboat", tn, "mu")
		if add == nil || get == nil || stopped == nil || liw == nil || idx == nil || mu == nil {
			continue
		}
		// the element store: a Store through an IndexAddr whose value is the parameter
		var elemStores []ssa.Instruction
		forEachInstr(add, func(in ssa.Instruction) {
			st, ok := in.(*ssa.Store)
			if !ok {
				return
			}
			if _, ok := st.Addr.(*ssa.IndexAddr); !ok {
				return
			}
			if e.dependsOn(st.Val, func(v ssa.Value) bool { _, isP := v.(*ssa.Parameter); return isP }, 0) {
				elemStores = append(elemStores, in)
			}
		})
		for i, s := range elemStores {
			n++
			r.guard("GD-queue-admission", tn+".add stores the request #"+itoa(i+1), s, reqBool("the queue is not stopped", fieldV(stopped), false))
			r.requireLock("GD-queue-admission", tn+".add stores the request #"+itoa(i+1)+" under the queue mutex", s, mu, 2, "the queue's buffers are swapped by the step worker under the same mutex")
		}
		isElem := func(in ssa.Instruction) bool {
			for _, s := range elemStores {
				if s == in {
					return true
				}
			}
			return false
		}
		// "added" is answered only after the store
		res := e.findPath(add, nil, func(in ssa.Instruction) bool {
			ret, ok := in.(*ssa.Return)
			if !ok || len(ret.Results) < 1 {
				return false
			}
			cb, isC := isConstBool(retOperand(ret, 0))
			return !isC || cb
		}, isElem, nil)
		r.check(!res.Found && len(elemStores) > 0, "GD-queue-admission", tn+".add answers added only for a stored request", e.pos(add.Pos()),
			"every accepting return follows the store", "the queue can answer \"added\" without having stored the request: the request is registered as pending but never reaches the raft core and only ends by timeout", res.Trace(e)...)
		// get flips the buffer and resets the write position on every path
		for _, fl := range []*types.Var{liw, idx} {
			res := e.pathUnless(get, nil, isReturn, isStoreToField(fl), reqCmp("nothing was queued", "==", fieldV(idx), intConstV(0)))
			r.check(!res.Found, "GD-queue-admission", tn+".get resets "+fl.Name()+" on every path that hands out requests", e.pos(get.Pos()),
				"the handed-out buffer is not written again until the next get", "a path through get() hands out the buffer without switching to the other one / rewinding the write position: later requests overwrite or duplicate entries the step worker is processing", res.Trace(e)...)
		}
	}
	r.floor("GD-queue-admission", n, 2)
}

// ruleSessionRegisterResult (C05, C12): the result of a session register /
// unregister entry tells the client the truth: the client id is returned only
// on the path that inserted / removed the session, the empty result only
// where nothing changed.
func ruleSessionRegisterResult(e *Engine, r *Report) {
	val := r.needField("statemachine", "Result", "Value")
	for _, c := range [][3]string{
		{"(*internal/rsm.SessionManager).RegisterClientID", "(*internal/rsm.lrusession).addSession", "inserted"},
		{"(*internal/rsm.SessionManager).UnregisterClientID", "(*internal/rsm.lrusession).delSession", "removed"},
	} {
		fn := r.need(c[0])
		step := r.need(c[1])
		if fn == nil || step == nil || val == nil || len(fn.Params) < 2 {
			continue
		}
		id := fn.Params[1]
		isStep := e.throughHelpers(func(s ssa.CallInstruction) bool { return e.CallsTo(s, step) })
		// returns whose Result.Value derives from the client id
		carriesID := func(in ssa.Instruction) bool {
			ret, ok := in.(*ssa.Return)
			if !ok || len(ret.Results) == 0 {
				return false
			}
			return e.dependsOn(retOperand(ret, 0), func(v ssa.Value) bool { return v == ssa.Value(id) }, 0)
		}
		res := e.findPath(fn, nil, carriesID, isStep, nil)
		any := e.findPath(fn, nil, carriesID, nil, nil)
		r.check(any.Found && !res.Found, "MPT-session-result", fname(fn)+" returns the client id only after the session was "+c[2], e.pos(fn.Pos()),
			"the success result follows the table change", "the success result (client id) can be returned without the session having been "+c[2]+": the client is told the operation took effect when it did not", res.Trace(e)...)
		// and the empty result only where the table did not change
		res2 := e.findPath(fn, nil, func(in ssa.Instruction) bool { return isReturn(in) && !carriesID(in) }, nil, nil)
		if res2.Found {
			// the empty-result return must not be reachable after the step
			for _, s := range e.SitesIn(fn, step) {
				after := e.findPath(fn, s.(ssa.Instruction), func(in ssa.Instruction) bool { return isReturn(in) && !carriesID(in) }, nil, nil)
				r.check(!after.Found, "MPT-session-result", fname(fn)+" returns the empty result only when nothing changed", e.ipos(s),
					"no empty result after the table change", "the session table is changed and the empty (failure) result is returned", after.Trace(e)...)
			}
		}
	}
}

// ruleQuiesceActivity (C17): any message other than a plain heartbeat, and
// every read / membership request taken from the input queues, counts as
// activity: record() leaves the idle clock alone only for a disabled
// quiesce state or a heartbeat type, and the two request handlers record
// before they hand the request to the raft core.
func ruleQuiesceActivity(e *Engine, r *Report) {
	rec := r.need("(*dragonboat.quiesceState).record")
	idle := r.needField("dragonboat", "quiesceState", "idleSince")
	enabled := r.needField("dragonboat", "quiesceState", "enabled")
	hb := r.needConst("raftpb", "Heartbeat")
	hbr := r.needConst("raftpb", "HeartbeatResp")
	if rec == nil || idle == nil || enabled == nil || hb == nil || hbr == nil || len(rec.Params) < 2 {
		return
	}
	mt := func(v ssa.Value) bool { return stripConv(v) == ssa.Value(rec.Params[1]) }
	exempt := reqAny("quiesce disabled or a heartbeat type",
		reqBool("", fieldV(enabled), false),
		reqCmp("", "==", mt, constV(hb)),
		reqCmp("", "==", mt, constV(hbr)))
	res := e.pathUnless(rec, nil, isReturn, isStoreToField(idle), exempt)
	r.check(!res.Found, "GD-quiesce-activity", "quiesceState.record ignores only heartbeats", e.pos(rec.Pos()),
		"every other message type restarts the idle clock (and leaves quiesce)", "a message type other than Heartbeat/HeartbeatResp can be recorded without restarting the idle clock: a quiesced shard does not wake up for it, or an active one falls asleep under load", res.Trace(e)...)
	// exit happens on the recording path whenever quiesced
	exit := r.need("(*dragonboat.quiesceState).exitQuiesce")
	quiesced := r.need("(*dragonboat.quiesceState).quiesced")
	if exit != nil && quiesced != nil {
		for _, st := range func() []ssa.Instruction {
			var out []ssa.Instruction
			forEachInstr(rec, func(in ssa.Instruction) {
				if isStoreToField(idle)(in) {
					out = append(out, in)
				}
			})
			return out
		}() {
			isExit := func(in ssa.Instruction) bool {
				c, ok := in.(*ssa.Call)
				return ok && e.CallsTo(c, exit)
			}
			res := e.pathUnless(rec, st, isReturn, isExit, reqBool("not quiesced", e.callV(quiesced), false))
			r.check(!res.Found, "GD-quiesce-activity", "recorded activity leaves quiesce", e.ipos(st),
				"exitQuiesce on every path on which the state is quiesced", "activity is recorded but a quiesced state is not left", res.Trace(e)...)
		}
	}
	// request handlers record before entering the raft core
	n := 0
	for _, c := range [][2]string{
		{"(*dragonboat.node).handleReadIndex", "(*internal/raft.Peer).ReadIndex"},
		{"(*dragonboat.node).handleConfigChange", "(*internal/raft.Peer).ProposeConfigChange"},
	} {
		fn := r.need(c[0])
		core := r.need(c[1])
		if fn == nil || core == nil {
			continue
		}
		isRec := e.throughHelpers(func(s ssa.CallInstruction) bool { return e.CallsTo(s, rec) })
		for _, s := range e.SitesIn(fn, core) {
			n++
			res := e.findPath(fn, nil, func(in ssa.Instruction) bool { return in == s.(ssa.Instruction) }, isRec, nil)
			r.check(!res.Found, "GD-quiesce-activity", fname(core)+" in "+fname(fn)+" is preceded by quiesceState.record", e.ipos(s),
				"a quiesced replica wakes up before it steps the request", "the request reaches the raft core of a possibly quiesced replica without being recorded as activity: the replica keeps its quiesced (election-free, heartbeat-free) clock and the request waits for a timeout", res.Trace(e)...)
		}
	}
	r.floor("GD-quiesce-activity", n, 2)
}
