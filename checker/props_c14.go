package main

import (
	"strings"

	"golang.org/x/tools/go/ssa"
)

func init() {
	register(&Property{
		ID:          "C14",
		Explanation: "Decides narrow structural clauses of snapshot file integrity: the result of every integrity validator (block CRC, header CRC, tail magic/size, V1/V2 stream validators, first-chunk header split) is examined at every call site and its failing edge reaches only rejection (fail-stop, false, error); both header writers (file writer and streaming chunk writer) write the CRC trailer that the reader verifies, computed over the encoded header; the reader verifies that trailer on every path that returns a header and validates the payload checksum on every path of Close; the file writer's Close performs flush -> header -> file sync -> close -> directory sync on every path and exposes payload size/checksum only after close; a streamed chunk's payload is a freshly allocated buffer, never the block writer's internal buffer. Byte identity for all write/read segmentations and detection of every bit flip are declined. Reader helpers report the byte count of the read they made; a short read treated as end-of-data is accounted for.",
		NotCovered:  "byte-identical round trip for all sizes and segmentations; that every single bit flip is detected (value-level)",
		Run:         runC14,
	})
}

func runC14(e *Engine, r *Report) {
	// borrowed mechanisms (session 6, round 8): the stream validator's final verdict gates finalize (C15); the import tool recomputes the payload checksum of the image it imports (C20)
	borrow(e, r, "C15", "GD-chunk-finalize")
	borrow(e, r, "C20", "TBL-import-validators")
	// ---- validators gate
	n := checkValidatorGates(e, r, "VAL-snapshot", []string{
		"internal/rsm.validateBlock", "internal/rsm.validateHeader",
		"(*internal/rsm.v2validator).validateMagicSize", "?(*internal/rsm.v2validator).validateBlock",
		"(*internal/rsm.v2validator).AddChunk", "(*internal/rsm.v2validator).Validate",
		"(*internal/rsm.v1validator).AddChunk", "(*internal/rsm.v1validator).Validate",
		"(*internal/rsm.SnapshotValidator).AddChunk", "(*internal/rsm.SnapshotValidator).Validate",
		"internal/rsm.getHeaderFromFirstChunk",
	}, nil)
	r.floor("VAL-snapshot", n, 9)
	// interface-level validator calls (IVValidator) inside SnapshotValidator
	for _, mn := range []string{"AddChunk", "Validate"} {
		m := e.Method("internal/rsm", "IVValidator", mn)
		for _, s := range e.AllMethodSites(m) {
			c, ok := s.(*ssa.Call)
			if !ok {
				continue
			}
			used := c.Referrers() != nil && len(*c.Referrers()) > 0
			r.check(used, "VAL-snapshot", "IVValidator."+mn+" result used in "+fname(s.Parent()), e.ipos(s), "the version-specific verdict is passed on", "the version-specific validator's verdict is dropped")
		}
	}
	// validateBlock compares the stored crc with the computed one
	if vb := r.need("internal/rsm.validateBlock"); vb != nil {
		okEq := false
		forEachInstr(vb, func(in ssa.Instruction) {
			if c, ok := in.(*ssa.Call); ok {
				if sc := c.Call.StaticCallee(); sc != nil && sc.Name() == "Equal" && sc.Pkg != nil && sc.Pkg.Pkg.Path() == "bytes" {
					okEq = true
				}
			}
		})
		r.check(okEq, "VAL-snapshot", "validateBlock compares the block's crc with the computed one", e.pos(vb.Pos()), "byte comparison", "validateBlock no longer compares the checksums")
	}
	// ---- header trailer CRC: both writers write it, the reader checks it
	crcFn := r.need("internal/rsm.newCRC32Hash")
	for _, wn := range []string{"(*internal/rsm.SnapshotWriter).saveHeader", "(*internal/rsm.ChunkWriter).getHeader"} {
		w := r.need(wn)
		if w == nil || crcFn == nil {
			continue
		}
		// a crc32 over the marshalled header is computed and its Sum flows into a write/copy placed after the header bytes
		hasCRC := len(e.SitesIn(w, crcFn)) > 0
		flows := false
		forEachCall(w, func(s ssa.CallInstruction) {
			// WriteAt(sum, off) or copy(dst[8+len:], sum)
			isSink := false
			if s.Common().IsInvoke() && s.Common().Method.Name() == "WriteAt" {
				isSink = true
			}
			if b, ok := s.Common().Value.(*ssa.Builtin); ok && b.Name() == "copy" {
				isSink = true
			}
			if !isSink {
				return
			}
			for _, a := range s.Common().Args {
				if e.dependsOn(a, func(v ssa.Value) bool {
					c, ok := v.(*ssa.Call)
					if !ok || !c.Call.IsInvoke() || c.Call.Method.Name() != "Sum" {
						return false
					}
					return e.dependsOn(c.Call.Value, e.callV(crcFn), 0)
				}, 0) {
					flows = true
				}
			}
		})
		r.check(hasCRC && flows, "INTEG-header-crc", wn+" writes the header crc the reader verifies", e.pos(w.Pos()),
			"the encoded header is followed by its crc32, which SnapshotReader.getHeader checks",
			"this header writer does not write the crc32 trailer the reader verifies (an all-zero trailer is accepted): a corrupted header is loaded silently")
	}
	if gh := r.need("(*internal/rsm.SnapshotReader).getHeader"); gh != nil {
		vh := e.Func("internal/rsm.validateHeader")
		res := e.findPath(gh, nil, func(in ssa.Instruction) bool { return e.isSuccessReturn(in) }, func(in ssa.Instruction) bool {
			c, ok := in.(*ssa.Call)
			return ok && vh != nil && e.CallsTo(c, vh)
		}, nil)
		r.check(!res.Found, "INTEG-header-crc", "SnapshotReader.getHeader validates the header on every successful path", e.pos(gh.Pos()), "no header is returned unchecked", "a header can be returned without validateHeader")
	}
	r.note("SnapshotHeader.HeaderChecksum (a second, in-record checksum written by the file writer) is not verified by any reader; the header is protected by the crc32 trailer instead, so the field is not treated as an integrity obligation")
	// ---- reader Close validates the payload on every path
	if cl := r.need("(*internal/rsm.SnapshotReader).Close"); cl != nil {
		vp := r.need("(*internal/rsm.SnapshotReader).validatePayload")
		if vp != nil {
			res := e.findPath(cl, nil, isReturn, func(in ssa.Instruction) bool {
				switch c := in.(type) {
				case *ssa.Call:
					return e.CallsTo(c, vp)
				case *ssa.Defer:
					return e.CallsTo(c, vp)
				}
				return false
			}, nil)
			r.check(!res.Found, "MPT-reader-close", "SnapshotReader.Close validates the payload on every path", e.pos(cl.Pos()),
				"the V1 payload checksum is checked whenever the reader is closed", "SnapshotReader.Close can return without validating the payload checksum: a corrupted V1 snapshot read with exact-length reads is accepted")
			// validatePayload compares Sum() with the header's payload checksum and fail-stops
			pc := e.Field("raftpb", "SnapshotHeader", "PayloadChecksum")
			okv := false
			forEachInstr(vp, func(in ssa.Instruction) {
				if c, ok := in.(*ssa.Call); ok {
					if sc := c.Call.StaticCallee(); sc != nil && sc.Name() == "Equal" {
						for _, a := range c.Call.Args {
							if fieldV(pc)(a) {
								okv = true
							}
						}
					}
				}
			})
			hasPanic := false
			forEachInstr(vp, func(in ssa.Instruction) {
				if _, ok := in.(*ssa.Panic); ok {
					hasPanic = true
				}
			})
			r.check(okv && hasPanic, "MPT-reader-close", "validatePayload compares the computed sum with PayloadChecksum and fail-stops", e.pos(vp.Pos()), "mismatch is fatal", "validatePayload no longer compares with the recorded payload checksum or no longer fail-stops")
		}
	}
	ruleSnapshotWriterClose(e, r)
	ruleChunkPayloadFresh(e, r)
	_ = strings.Contains
	// deferred close/sync errors reach the caller (generic.go)
	ruleDeferredErr(e, r, 1, "internal/rsm")
	ruleStreamValidatorLookahead(e, r)
	ruleExternalFileSize(e, r)
	// error discipline of the snapshot file writers/readers: a failed block or tail write must
	// not end in a successful Close (the file would be a well-formed shorter snapshot)
	est := e.CheckErrDiscipline(r, errScope{pkgs: map[string]bool{}, files: map[string]bool{
		"internal/rsm/rwv.go": true, "internal/rsm/snapshotio.go": true, "internal/rsm/chunkwriter.go": true, "internal/rsm/files.go": true,
	}}, c14Accept)
	r.floor("ERR-calls", est.Calls, 30)
	// io.Writer implementations on the snapshot path only read what they are given (generic.go)
	ruleWriterParam(e, r, 3, "internal/rsm", "internal/utils/dio", "internal/transport", "")
	// ---- the compression type recorded in a snapshot file's header is the
	// one the payload is really written with: a writer created with a
	// non-constant type is wrapped, in the same function, by the compressor
	// selected from the same value; a writer that is written to directly
	// (shrunk file) declares NoCompression. The reader picks its
	// decompressor from the header.
	if nsw := r.need("internal/rsm.NewSnapshotWriter"); nsw != nil {
		noComp := e.Const("raftpb", "NoCompression")
		newComp := e.Func("internal/utils/dio.NewCompressor")
		ctField := e.Field("internal/rsm", "SSMeta", "CompressionType")
		n := 0
		for _, s := range e.CallerSites(nsw) {
			if !e.IsLive(outermost(s.Parent())) {
				continue
			}
			n++
			args := s.Common().Args
			ct := args[1]
			key := "NewSnapshotWriter in " + fname(s.Parent())
			if noComp != nil && constV(noComp)(ct) {
				r.ok("CONST-header-compression", key+" (NoCompression, raw payload)", e.ipos(s), "the payload is written uncompressed and the header says so")
				continue
			}
			// same function wraps with the compressor chosen from the same source
			okw := false
			src := func(v ssa.Value) bool {
				return sameSizeExpr(stripConv(v), stripConv(ct)) || (ctField != nil && fieldV(ctField)(v) && fieldV(ctField)(ct))
			}
			for _, cs := range e.SitesIn(s.Parent(), newComp) {
				if e.dependsOn(cs.Common().Args[0], src, 1) {
					okw = true
				}
			}
			r.check(okw, "CONST-header-compression", key+" (header type == compressor type)", e.ipos(s),
				"the header's compression type and the compressor wrapped around the writer come from the same value",
				"the snapshot file header declares compression type "+e.describeValue(ct)+" but the payload is not written through the compressor selected by that value: a reader that honours the header cannot decode the file")
		}
		r.floor("CONST-header-compression", n, 2)
		// reader side: the decompressor is chosen from the header
		if ld := e.Func("(*dragonboat.snapshotter).Load"); ld != nil {
			hdrCT := e.Field("raftpb", "SnapshotHeader", "CompressionType")
			newDec := e.Func("internal/utils/dio.NewDecompressor")
			okd := false
			for _, cs := range e.SitesIn(ld, newDec) {
				if e.dependsOn(cs.Common().Args[0], func(v ssa.Value) bool { return fieldV(hdrCT)(v) }, 1) {
					okd = true
				}
			}
			r.check(okd, "CONST-header-compression", "snapshotter.Load picks the decompressor from the file header", e.pos(ld.Pos()), "reader honours the header", "snapshotter.Load no longer selects the decompressor from the header's compression type")
		}
	}
	ruleReaderBoundFromFile(e, r)
	ruleValidatorExact(e, r)
	ruleReadHashBound(e, r)
	ruleReadCountFromRead(e, r, 2, "internal/rsm", "internal/utils/dio")
	ruleShortReadAccounted(e, r, 2)
}

// accepted idioms of the snapshot file code, each confirmed by reading the site.
var c14Accept = map[string]string{}
