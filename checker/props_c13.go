package main

import (
	"go/types"
	"sort"
	"strings"

	"golang.org/x/tools/go/ssa"
)

func init() {
	register(&Property{
		ID:          "C13",
		Explanation: "Decides narrow structural clauses of codec agreement: for every persisted/wire type the sibling functions Size, MarshalTo (Marshal) and Unmarshal (and SizeUpperLimit where present) reference the same set of struct fields, and for every optional field the presence test used by Size and by MarshalTo is of the same kind (nil test vs length test) - a field or a presence condition handled by one sibling but not the other makes the advertised size or the round trip wrong for values with that field set; a SizeUpperLimit never uses the exact Size() of a nested value that itself has a SizeUpperLimit; every MarshalTo/MustMarshalTo call outside the codec package takes a buffer sized from the same value's Size/SizeUpperLimit (or a pooled buffer re-checked against it); the transport frame validators' results (header decode, header CRC, payload CRC, magic number) gate delivery. Round-trip equality and numeric size bounds over all values are declined. Every varint decode loop masks 7 bits, steps by 7 and ends below 0x80; presence of a nested value is decided by that value, and sizing counts it whenever the encoder writes it.",
		NotCovered:  "decode(encode(v)) == v and encoded length <= advertised size for all values (value-level; not applicable to static analysis); compression round trip",
		Run:         runC13,
	})
}

// fieldsUsed: the fields of the receiver's struct type that fn references
// (directly; helper methods of the same type are followed one level).
func fieldsUsed(e *Engine, fn *ssa.Function, st *types.Struct, depth int) map[string]bool {
	out := map[string]bool{}
	if fn == nil || len(fn.Blocks) == 0 {
		return out
	}
	forEachInstr(fn, func(in ssa.Instruction) {
		switch x := in.(type) {
		case *ssa.FieldAddr:
			if s := derefStruct(x.X.Type()); s != nil && types.Identical(s, st) {
				out[s.Field(x.Field).Name()] = true
			}
		case *ssa.Field:
			if s, ok := x.X.Type().Underlying().(*types.Struct); ok && types.Identical(s, st) {
				out[s.Field(x.Field).Name()] = true
			}
		case *ssa.Call:
			if depth > 0 {
				if sc := x.Call.StaticCallee(); sc != nil && sc.Signature.Recv() != nil && len(x.Call.Args) > 0 {
					if s := derefStruct(sc.Signature.Recv().Type()); s != nil && types.Identical(s, st) {
						if p, ok := x.Call.Args[0].(*ssa.Parameter); ok && p == fn.Params[0] {
							for k := range fieldsUsed(e, sc, st, depth-1) {
								out[k] = true
							}
						}
					}
				}
			}
		}
	})
	return out
}

// presenceKinds: for each slice/map/pointer field, how fn tests its presence:
// "nil" (field != nil), "len" (len(field) > 0 / != 0), or both.
func presenceKinds(fn *ssa.Function, st *types.Struct) map[string]string {
	out := map[string]string{}
	add := func(name, k string) {
		if cur, ok := out[name]; ok && cur != k && !strings.Contains(cur, k) {
			out[name] = cur + "+" + k
		} else if !ok {
			out[name] = k
		}
	}
	fieldName := func(v ssa.Value) string {
		f, base, ok := loadedField(v)
		if !ok {
			return ""
		}
		if s := derefStruct(base.Type()); s != nil && types.Identical(s, st) {
			return f.Name()
		}
		if fa, ok := base.(*ssa.FieldAddr); ok {
			_ = fa
		}
		return ""
	}
	forEachInstr(fn, func(in ssa.Instruction) {
		b, ok := in.(*ssa.BinOp)
		if !ok || cmpString(b.Op) == "" {
			return
		}
		// only conditions that feed a branch
		isCond := false
		if refs := b.Referrers(); refs != nil {
			for _, r := range *refs {
				if _, ok := r.(*ssa.If); ok {
					isCond = true
				}
			}
		}
		if !isCond {
			return
		}
		for _, pair := range [][2]ssa.Value{{b.X, b.Y}, {b.Y, b.X}} {
			if isNilConst(pair[1]) {
				if n := fieldName(pair[0]); n != "" {
					add(n, "nil")
				}
			}
			if c, ok := stripConv(pair[0]).(*ssa.Call); ok {
				if bi, ok := c.Call.Value.(*ssa.Builtin); ok && bi.Name() == "len" {
					if n := fieldName(c.Call.Args[0]); n != "" {
						add(n, "len")
					}
				}
			}
		}
	})
	return out
}

func runC13(e *Engine, r *Report) {
	nTypes := 0
	for _, pk := range []string{"raftpb", "client"} {
		p := e.pkgTypes(pk)
		if p == nil {
			r.undecided("ANCHOR", pk, "package not found")
			continue
		}
		names := p.Scope().Names()
		sort.Strings(names)
		for _, n := range names {
			tn, ok := p.Scope().Lookup(n).(*types.TypeName)
			if !ok {
				continue
			}
			nt, ok := tn.Type().(*types.Named)
			if !ok {
				continue
			}
			st, ok := nt.Underlying().(*types.Struct)
			if !ok {
				continue
			}
			get := func(m string) *ssa.Function {
				f := e.MethodFunc(pk, n, m)
				if f != nil && len(f.Blocks) == 0 {
					return nil
				}
				return f
			}
			mt, um, sz, sul := get("MarshalTo"), get("Unmarshal"), get("Size"), get("SizeUpperLimit")
			if mt == nil || um == nil {
				continue
			}
			nTypes++
			fm := fieldsUsed(e, mt, st, 1)
			fu := fieldsUsed(e, um, st, 1)
			cmp := func(a, b map[string]bool, an, bn string) {
				var missA, missB []string
				for k := range a {
					if !b[k] {
						missB = append(missB, k)
					}
				}
				for k := range b {
					if !a[k] {
						missA = append(missA, k)
					}
				}
				sort.Strings(missA)
				sort.Strings(missB)
				ok := len(missA) == 0 && len(missB) == 0
				detail := ""
				if len(missB) > 0 {
					detail += bn + " does not handle {" + strings.Join(missB, ",") + "} which " + an + " does; "
				}
				if len(missA) > 0 {
					detail += an + " does not handle {" + strings.Join(missA, ",") + "} which " + bn + " does"
				}
				r.check(ok, "TBL-codec-fields", pk+"."+n+": "+an+" and "+bn+" cover the same fields", e.pos(mt.Pos()),
					"sibling codec functions agree on the field set", detail)
			}
			cmp(fm, fu, "MarshalTo", "Unmarshal")
			fieldKind := func(name string) string {
				for i := 0; i < st.NumFields(); i++ {
					if st.Field(i).Name() == name {
						if b, ok := st.Field(i).Type().Underlying().(*types.Basic); ok {
							if b.Kind() == types.Bool {
								return "bool"
							}
							if b.Info()&types.IsNumeric != 0 {
								return "num"
							}
						}
						return "var"
					}
				}
				return "var"
			}
			if sz != nil {
				fs := fieldsUsed(e, sz, st, 1)
				// a bool is encoded in a fixed two bytes: Size adds the constant without reading the field
				fmNoBool := map[string]bool{}
				for k := range fm {
					if fieldKind(k) != "bool" || fs[k] {
						fmNoBool[k] = true
					}
				}
				cmp(fmNoBool, fs, "MarshalTo", "Size")
				// presence tests agree between Size and MarshalTo
				pm, ps := presenceKinds(mt, st), presenceKinds(sz, st)
				for f, k := range pm {
					if k2, ok := ps[f]; ok {
						r.check(k == k2, "TBL-codec-presence", pk+"."+n+"."+f+": Size and MarshalTo use the same presence test", e.pos(sz.Pos()),
							"an optional field is counted exactly when it is written", "Size tests "+f+" by '"+k2+"' but MarshalTo by '"+k+"': for a value where the two differ (e.g. empty non-nil slice) the encoding is longer than Size() says")
					}
				}
			}
			if sul != nil {
				fl := fieldsUsed(e, sul, st, 1)
				// the upper limit may ignore nothing that MarshalTo writes
				var miss []string
				for k := range fm {
					if fieldKind(k) != "var" {
						continue // fixed maximum width: covered by the constant part of the upper limit
					}
					if !fl[k] && !sulConstantCovered[pk+"."+n+"."+k] {
						miss = append(miss, k)
					}
				}
				sort.Strings(miss)
				r.check(len(miss) == 0, "TBL-codec-fields", pk+"."+n+": SizeUpperLimit accounts for every encoded field", e.pos(sul.Pos()),
					"every field MarshalTo writes is variable-size-accounted or covered by the constant part", "SizeUpperLimit ignores {"+strings.Join(miss, ",")+"} that MarshalTo writes")
				// nested values with their own SizeUpperLimit are not measured by Size()
				forEachCall(sul, func(s ssa.CallInstruction) {
					sc := s.Common().StaticCallee()
					if sc == nil || sc.Name() != "Size" || sc.Signature.Recv() == nil {
						return
					}
					rt := sc.Signature.Recv().Type()
					if pt, ok := rt.(*types.Pointer); ok {
						rt = pt.Elem()
					}
					nn, ok := rt.(*types.Named)
					if !ok || nn.Obj().Pkg() == nil {
						return
					}
					hasSUL := false
					for i := 0; i < nn.NumMethods(); i++ {
						if nn.Method(i).Name() == "SizeUpperLimit" {
							hasSUL = true
						}
					}
					r.check(!hasSUL, "TBL-codec-upperlimit", pk+"."+n+".SizeUpperLimit measures nested "+nn.Obj().Name()+" by its upper limit", e.ipos(s),
						"", "SizeUpperLimit of "+n+" uses the exact Size() of a nested "+nn.Obj().Name()+", which has its own SizeUpperLimit: framing overhead covered by the nested upper limit is lost and the encoding can exceed the advertised size")
				})
			}
		}
	}
	r.floor("TBL-codec-types", nTypes, 14)

	// ---- MarshalTo buffers are sized from the same value
	nb := 0
	raftpb := e.pkgTypes("raftpb")
	for _, fn := range e.ScopeFuncs() {
		if fnPkg(fn) == raftpb || !e.IsLive(fn) {
			continue
		}
		forEachCall(fn, func(s ssa.CallInstruction) {
			sc := s.Common().StaticCallee()
			if sc == nil {
				return
			}
			var val, buf ssa.Value
			switch {
			case sc.Name() == "MustMarshalTo" && fnPkg(sc) == raftpb && len(s.Common().Args) == 2:
				val, buf = s.Common().Args[0], s.Common().Args[1]
			case sc.Name() == "MarshalTo" && fnPkg(sc) == raftpb && sc.Signature.Recv() != nil && len(s.Common().Args) == 2:
				val, buf = s.Common().Args[0], s.Common().Args[1]
			default:
				return
			}
			nb++
			// buf derives from a make/GetValueBuffer/slice whose length depends on val.Size*/SizeUpperLimit, or
			// the function compares such a size with len(buf) before the call
			sizeOfVal := func(v ssa.Value) bool {
				c, ok := stripConv(v).(*ssa.Call)
				if !ok {
					return false
				}
				g := c.Call.StaticCallee()
				if g == nil || (g.Name() != "Size" && g.Name() != "SizeUpperLimit") || len(c.Call.Args) == 0 {
					return false
				}
				return sameRoot(c.Call.Args[0], val)
			}
			ok := e.dependsOn(buf, sizeOfVal, 0)
			if !ok {
				// checked on the path: a comparison involving size-of-val dominates the call
				for _, f := range FactsAt(s.(ssa.Instruction)) {
					if e.dependsOn(f.V, sizeOfVal, 0) {
						ok = true
					}
				}
				// or the buffer variable was (re)allocated under such a comparison earlier in the function
				forEachInstr(fn, func(in ssa.Instruction) {
					if b, isB := in.(*ssa.BinOp); isB && cmpString(b.Op) != "" && (e.dependsOn(b.X, sizeOfVal, 0) || e.dependsOn(b.Y, sizeOfVal, 0)) && dominatesInstr(in, s.(ssa.Instruction)) {
						ok = true
					}
				})
			}
			r.check(ok, "DEP-marshal-buffer", "buffer of "+sc.Name()+" in "+fname(fn)+" #"+itoa(nb), e.ipos(s),
				"the destination buffer is sized from (or checked against) the Size/SizeUpperLimit of the value being encoded",
				"the buffer passed to "+sc.Name()+" is not derived from or checked against the size of the same value: it can be overrun")
		})
	}
	r.floor("DEP-marshal-buffer", nb, 4)

	// ---- transport frame validation gates delivery
	checkValidatorGates(e, r, "VAL-frame", []string{
		"(*internal/transport.requestHeader).decode",
	}, nil)
	if rm := r.need("internal/transport.readMessage"); rm != nil {
		// the payload CRC comparison gates: a branch on a comparison involving a crc32 checksum result and the header's crc
		crcF := e.Field("internal/transport", "requestHeader", "crc")
		okc := false
		forEachInstr(rm, func(in ssa.Instruction) {
			b, ok := in.(*ssa.BinOp)
			if !ok || (b.Op.String() != "!=" && b.Op.String() != "==") {
				return
			}
			if fieldV(crcF)(b.X) || fieldV(crcF)(b.Y) {
				// its mismatch edge must not reach a success return
				for _, ifi := range ValueUsesAsCond(b) {
					bad := ifi.Block().Succs[0]
					if b.Op.String() == "==" {
						bad = ifi.Block().Succs[1]
					}
					if len(bad.Instrs) > 0 {
						res := e.findPath(rm, bad.Instrs[0], func(x ssa.Instruction) bool { return e.isSuccessReturn(x) }, nil, nil)
						if !res.Found && !e.isSuccessReturn(bad.Instrs[0]) {
							okc = true
						}
					}
				}
			}
		})
		r.check(okc, "VAL-frame", "payload CRC mismatch rejects the frame in readMessage", e.pos(rm.Pos()), "a corrupted payload is not delivered", "readMessage no longer rejects a frame whose payload CRC differs from the header's")
	}
	if rmn := r.need("internal/transport.readMagicNumber"); rmn != nil {
		for _, s := range e.CallerSites(rmn) {
			c, ok := s.(*ssa.Call)
			if !ok {
				continue
			}
			_, _, dropped := errValueOf(c)
			r.check(!dropped, "VAL-frame", "readMagicNumber result used in "+fname(s.Parent()), e.ipos(s), "magic number check gates", "the magic number check's result is dropped")
		}
	}
	// header decode checks its own CRC
	if dec := r.need("(*internal/transport.requestHeader).decode"); dec != nil {
		okc := false
		// decode itself or a helper it (and encode) share
		e.forEachInstrRegion(dec, 2, func(in ssa.Instruction) {
			if s, ok := in.(ssa.CallInstruction); ok {
				if sc := s.Common().StaticCallee(); sc != nil && sc.Pkg != nil && sc.Pkg.Pkg.Path() == "hash/crc32" {
					okc = true
				}
			}
		})
		r.check(okc, "VAL-frame", "requestHeader.decode verifies the header checksum", e.pos(dec.Pos()), "header bytes are covered by a crc32", "requestHeader.decode no longer computes the header crc32")
	}
	// ---- a frame is delivered (nil error) only when its payload crc32
	// equals the header's, or the connection is encrypted (TLS integrity):
	// no other condition may skip the comparison (e.g. "crc == 0 means none")
	if rm := r.need("internal/transport.readMessage"); rm != nil {
		crcF := e.Field("internal/transport", "requestHeader", "crc")
		var isCRC32 VM = func(v ssa.Value) bool {
			c, ok := stripConv(v).(*ssa.Call)
			if !ok {
				return false
			}
			sc := c.Call.StaticCallee()
			return sc != nil && sc.Pkg != nil && sc.Pkg.Pkg.Path() == "hash/crc32"
		}
		var encrypted VM = func(v ssa.Value) bool {
			p, ok := stripConv(v).(*ssa.Parameter)
			if !ok {
				return false
			}
			b, isB := p.Type().Underlying().(*types.Basic)
			return isB && b.Kind() == types.Bool
		}
		n := 0
		forEachInstr(rm, func(in ssa.Instruction) {
			if !e.isSuccessReturn(in) {
				return
			}
			n++
			r.guard("VAL-frame", "delivery (nil error) in readMessage", in,
				reqAny("payload crc32 == header crc, or the connection is encrypted",
					reqCmp("", "==", isCRC32, fieldV(crcF)),
					reqBool("", encrypted, true)))
		})
		r.floor("VAL-frame-delivery", n, 1)
	}
	ruleCodecLenPrefix(e, r, 20, "raftpb", "sovRaft")
	ruleCodecThresholds(e, r, 3, "raftpb", [][2]string{{"(*raftpb.Entry).Size", "(*raftpb.Entry).marshalTo"}, {"(*raftpb.Entry).SizeUpperLimit", "(*raftpb.Entry).marshalTo"}})
	ruleVarintLadder(e, r, "raftpb.sovRaft")
	ruleVarintDecodeLoops(e, r, 140, "raftpb", "client")
	ruleCodecNested(e, r, 1, "raftpb")
	rulePayloadDecodeTotal(e, r)
	ruleDecodeOwnsBytes(e, r, 10, c13AliasAccept, "raftpb")
	ruleFrameHeaderCover(e, r)
	ruleCodecRawByte(e, r)
}

// decoders that alias their input on purpose, each confirmed by reading.
var c13AliasAccept = map[string]string{}

// rulePayloadDecodeTotal: the entry payload decoder refuses only what the
// decompressor refuses. The encoder accepts every payload up to the block
// limit of the compression type, so any further refusal in the decoder (a
// size cap, a sanity bound) makes some encodable payload undecodable.
func rulePayloadDecodeTotal(e *Engine, r *Report) {
	fn := r.need("internal/rsm.getDecodedPayload")
	if fn == nil {
		return
	}
	fromDecompressor := func(v ssa.Value) bool {
		c, ok := v.(*ssa.Call)
		if !ok {
			return false
		}
		sc := c.Call.StaticCallee()
		if sc == nil || sc.Pkg == nil {
			return false
		}
		pp := sc.Pkg.Pkg.Path()
		return strings.HasSuffix(pp, "internal/utils/dio") || strings.Contains(pp, "snappy")
	}
	n := 0
	e.forEachInstrRegion(fn, 1, func(in ssa.Instruction) {
		ret, ok := in.(*ssa.Return)
		if !ok || errResultIndex(in.Parent()) < 0 {
			return
		}
		ev := retOperand(ret, errResultIndex(in.Parent()))
		if isNilConst(ev) {
			return
		}
		if in.Parent() != fn && fromDecompressor(ev) {
			return
		}
		n++
		r.check(e.dependsOn(ev, fromDecompressor, 1), "TBL-payload-total", "error return of "+fname(in.Parent())+" #"+itoa(n), e.ipos(in),
			"the decoder fails only when the decompressor fails", "the payload decoder refuses an input for a reason of its own: the encoder accepts payloads the decoder now rejects")
	})
	r.floor("TBL-payload-total", n, 1)
}

// fields of a type covered by the constant part of its SizeUpperLimit
// (fixed-width scalars), confirmed by reading.
var sulConstantCovered = map[string]bool{}

func sameRoot(a, b ssa.Value) bool {
	ra, rb := exprKey(a), exprKey(b)
	if ra != "" && ra == rb {
		return true
	}
	// &x vs x, or the same alloc
	strip := func(v ssa.Value) ssa.Value {
		for i := 0; i < 4; i++ {
			switch x := v.(type) {
			case *ssa.UnOp:
				v = x.X
			case *ssa.FieldAddr:
				return v
			case *ssa.MakeInterface:
				v = x.X
			default:
				return v
			}
		}
		return v
	}
	return strip(a) == strip(b)
}

// checkValidatorGates: VAL — the boolean/error result of each listed
// validator is examined at every call site, and from its failing edge no
// success exit of the caller is reachable.
func checkValidatorGates(e *Engine, r *Report, rule string, names []string, exempt map[string]string) int {
	n := 0
	for _, nm := range names {
		var f *ssa.Function
		if strings.HasPrefix(nm, "?") {
			f = r.helper(nm[1:]) // a forwarding wrapper: optional
		} else {
			f = r.need(nm)
		}
		if f == nil {
			continue
		}
		res := f.Signature.Results()
		if res.Len() == 0 {
			continue
		}
		last := res.At(res.Len() - 1).Type()
		isBool := false
		if b, ok := last.Underlying().(*types.Basic); ok && b.Kind() == types.Bool {
			isBool = true
		}
		for _, s := range e.CallerSites(f) {
			c, ok := s.(*ssa.Call)
			if !ok {
				n++
				r.bad(rule, "result of "+fname(f)+" in "+fname(s.Parent()), e.ipos(s), "the validator runs in a go/defer statement: its result is discarded")
				continue
			}
			n++
			fn := s.Parent()
			key := "result of " + fname(f) + " gates in " + fname(fn)
			if reason, ok := exempt[fname(fn)+"->"+fname(f)]; ok {
				r.add(Ob{Rule: rule, Construct: key, Pos: e.ipos(s), OK: true, Detail: "exception: " + reason})
				continue
			}
			var v ssa.Value = c
			if res.Len() > 1 {
				v = nil
				if refs := c.Referrers(); refs != nil {
					for _, ref := range *refs {
						if ex, ok := ref.(*ssa.Extract); ok && ex.Index == res.Len()-1 {
							v = ex
						}
					}
				}
			}
			if v == nil || v.Referrers() == nil || len(*v.Referrers()) == 0 {
				r.bad(rule, key, e.ipos(s), "the validator's result is dropped")
				continue
			}
			// every success exit reachable from the call lies behind an edge on which the
			// validator's verdict is positive (bool: result true; error: err == nil)
			succ := func(x ssa.Instruction) bool {
				ret, isRet := x.(*ssa.Return)
				if !isRet {
					return false
				}
				if len(ret.Results) == 0 {
					return true
				}
				lastv := retOperand(ret, len(ret.Results)-1)
				// a (bool, error) caller reports the verdict in its bool result
				if errResultIndex(fn) == len(ret.Results)-1 {
					for i := 0; i < len(ret.Results)-1; i++ {
						if bt, ok := ret.Results[i].Type().Underlying().(*types.Basic); ok && bt.Kind() == types.Bool && isBool {
							if cand := retOperand(ret, i); cand != v {
								if _, isC := isConstBool(cand); !isC {
									if _, isPhi := cand.(*ssa.Phi); !isPhi && !e.dependsOn(cand, func(x ssa.Value) bool { return x == v }, 1) {
										continue // a bool result that has nothing to do with the verdict
									}
								}
							}
							lastv = retOperand(ret, i)
							if lastv == v {
								return false // the verdict itself is passed on
							}
							if _, isC := isConstBool(lastv); !isC {
								if _, isPhi := lastv.(*ssa.Phi); !isPhi {
									return false // computed: passed on to the caller
								}
							}
							break
						}
					}
				}
				if cb, isC := isConstBool(lastv); isC {
					return cb
				}
				if ph, isPhi := lastv.(*ssa.Phi); isPhi {
					for _, ed := range ph.Edges {
						if ed == v {
							return false // `x || verdict` where verdict is this call's result: passed on
						}
					}
					for _, ed := range ph.Edges {
						if cb, isC := isConstBool(ed); isC && cb {
							return true // `x || verdict`: can report success without the verdict
						}
					}
				}
				if errResultIndex(fn) >= 0 {
					return e.isSuccessReturn(x)
				}
				return false // the verdict (or something computed from it) is passed on to the caller
			}
			positive := func(fs []Fact) bool {
				if isBool {
					return hasBoolFact(fs, func(x ssa.Value) bool { return x == v }, true)
				}
				for _, f := range fs {
					if b, ok := f.V.(*ssa.BinOp); ok && (isNilConst(b.X) || isNilConst(b.Y)) && (sameValue(b.X, v) || sameValue(b.Y, v)) {
						if (b.Op.String() == "==" && f.Pol) || (b.Op.String() == "!=" && !f.Pol) {
							return true
						}
					}
				}
				return false
			}
			res := e.findPath(fn, c, succ, nil, func(p, s2 *ssa.BasicBlock) bool {
				return !positive(expandFacts(edgeOnly(p, s2)))
			})
			used := true
			ok2 := !res.Found
			r.check(used && ok2, rule, key, e.ipos(s),
				"a failed validation leads only to rejection (fail-stop, false or an error)", "from the failing edge of the validator a success exit is reachable (or the result is never tested)")
		}
	}
	return n
}
