package main

import (
	"go/types"
	"strings"

	"golang.org/x/tools/go/ssa"
)

func init() {
	register(&Property{
		ID:          "C02",
		Explanation: "Decides structural necessary conditions of replica agreement: every writer of the commit index stores a value shown (by a dominating comparison) not to be below the current one, or is the bootstrap/launch path; the processed index is written only inside the range checks; the in-memory log is mutated (merge) only through entryLog.append behind the 'first index > committed' fail-stop; the leader commits by counting only when the entry's term equals its own term and passes r.term; a follower appends only on the matchTerm edge and commits min(lastNew, leaderCommit); every function on the apply path that advances the state machine passes the gap/term assertion (setApplied) on every normal exit; the raft core is entered from the engine only with the node's raft mutex held; the apply path contains no wall-clock, random or unordered-map-iteration dependence. Does not decide agreement over schedules. A freshly built progress record starts at match 0 at every constructor call site (own slot: own last index).",
		NotCovered:  "that these mechanisms compose to agreement (Raft's proof); identical user state needs a deterministic user state machine",
		Run:         runC02,
	})
}

func runC02(e *Engine, r *Report) {
	committed := r.needField("internal/raft", "entryLog", "committed")
	processed := r.needField("internal/raft", "entryLog", "processed")
	if committed == nil || processed == nil {
		return
	}
	launch := r.need("internal/raft.Launch")
	underLaunchOnly := func(fn *ssa.Function) bool {
		if launch == nil {
			return false
		}
		for c := range e.CallersClosure(fn, func(f *ssa.Function) bool { return f == launch }) {
			if p := fnPkg(c); p == nil || !scopePkg(p.Path()) || c == launch {
				continue
			}
			if len(e.DirectCallers(c)) == 0 && c != fn {
				return false
			}
			if c == fn && len(e.DirectCallers(c)) == 0 {
				return false
			}
		}
		return true
	}
	// ---- commit index never moves backwards
	n := 0
	for _, w := range e.FieldWrites(committed) {
		if w.Kind == "init" {
			continue
		}
		n++
		key := "entryLog.committed written in " + fname(w.Fn)
		if underLaunchOnly(w.Fn) {
			r.ok("WMW-committed", key+" (launch/bootstrap path)", e.ipos(w.Instr), "writer is reachable only below raft.Launch")
			continue
		}
		r.guard("WMW-committed", key, w.Instr,
			reqCmp("new value >= entryLog.committed", ">=", sameExprV(w.Val), fieldV(committed)))
	}
	r.floor("WMW-committed", n, 4)
	// commitTo additionally bounds by lastIndex
	if ct := r.need("(*internal/raft.entryLog).commitTo"); ct != nil {
		li := r.need("(*internal/raft.entryLog).lastIndex")
		for _, w := range e.FieldWrites(committed) {
			if w.Fn == ct && li != nil {
				r.guard("WMW-committed", "commitTo bounded by lastIndex()", w.Instr,
					reqCmp("index <= lastIndex()", "<=", sameExprV(w.Val), e.callV(li)))
			}
		}
	}
	// ---- processed
	n = 0
	for _, w := range e.FieldWrites(processed) {
		if w.Kind == "init" {
			continue
		}
		n++
		key := "entryLog.processed written in " + fname(w.Fn)
		// either under (v >= processed && v <= committed), or together with committed from a snapshot index
		sameBlockCommitted := false
		for _, in := range w.Instr.Block().Instrs {
			if st, ok := in.(*ssa.Store); ok {
				if f, _, ok := fieldOfAddr(st.Addr); ok && f == committed && sameExprV(w.Val)(st.Val) {
					sameBlockCommitted = true
				}
			}
		}
		if sameBlockCommitted {
			r.ok("WMW-processed", key+" (set with committed from a snapshot)", e.ipos(w.Instr), "processed is set together with committed to the same snapshot index")
			continue
		}
		r.guard("WMW-processed", key, w.Instr,
			reqCmp("new value >= processed", ">=", sameExprV(w.Val), fieldV(processed)),
			reqCmp("new value <= committed", "<=", sameExprV(w.Val), fieldV(committed)))
	}
	r.floor("WMW-processed", n, 2)

	// ---- the in-memory log is mutated only through append behind the committed fail-stop
	merge := r.need("(*internal/raft.inMemory).merge")
	appendFn := r.need("(*internal/raft.entryLog).append")
	entIndex := r.needField("raftpb", "Entry", "Index")
	if merge != nil && appendFn != nil && entIndex != nil {
		n = 0
		for _, s := range e.CallerSites(merge) {
			n++
			r.check(s.Parent() == appendFn, "WMC-merge", "inMemory.merge called in "+fname(s.Parent()), e.ipos(s),
				"the log is merged only by entryLog.append", "inMemory.merge has a caller other than entryLog.append: the committed-prefix guard is bypassed")
			r.guard("GD-merge", "inMemory.merge in "+fname(s.Parent()), s.(ssa.Instruction),
				reqCmp("entries[0].Index > committed", ">", fieldV(entIndex), fieldV(committed)))
		}
		r.floor("WMC-merge", n, 1)
	}
	// tryAppend: conflict index must be above committed before append
	if ta := r.need("(*internal/raft.entryLog).tryAppend"); ta != nil && appendFn != nil {
		gci := r.need("(*internal/raft.entryLog).getConflictIndex")
		for _, s := range e.SitesIn(ta, appendFn) {
			if gci != nil {
				r.guard("GD-merge", "append in tryAppend", s.(ssa.Instruction),
					reqCmp("conflictIndex > committed", ">", e.callV(gci), fieldV(committed)),
					reqCmp("conflictIndex != 0", "!=", e.callV(gci), intConstV(0)))
			}
		}
	}

	// ---- leader commits only entries of its own term
	commitTo := r.need("(*internal/raft.entryLog).commitTo")
	logTryCommit := r.need("(*internal/raft.entryLog).tryCommit")
	termFn := r.need("(*internal/raft.entryLog).term")
	raftTerm := r.needField("internal/raft", "raft", "term")
	if commitTo != nil && logTryCommit != nil && termFn != nil && raftTerm != nil {
		n = 0
		for _, s := range e.SitesIn(logTryCommit, commitTo) {
			n++
			var termParam VM = func(v ssa.Value) bool {
				p, ok := stripConv(v).(*ssa.Parameter)
				return ok && p.Name() == "term"
			}
			// lterm is a phi of (term(index) result, 0 on compaction); accept any value depending on term()
			lterm := func(v ssa.Value) bool { return e.dependsOn(v, e.callV(termFn), 0) }
			r.guard("GD-commit-term", "commitTo in entryLog.tryCommit", s.(ssa.Instruction),
				reqCmp("term(index) == leader term", "==", lterm, termParam))
		}
		r.floor("GD-commit-term", n, 1)
		for _, s := range e.CallerSites(logTryCommit) {
			args := s.Common().Args
			r.check(len(args) >= 3 && fieldV(raftTerm)(args[2]), "GD-commit-term", "entryLog.tryCommit(q, r.term) in "+fname(s.Parent()), e.ipos(s),
				"the leader passes its current term to the commit test", "the commit test is not fed raft.term")
		}
	}
	// ---- follower: append only when prev index/term match; commit min(lastNew, m.Commit)
	hrm := r.need(raftT + "handleReplicateMessage")
	matchTerm := r.need("(*internal/raft.entryLog).matchTerm")
	tryAppend := r.need("(*internal/raft.entryLog).tryAppend")
	if hrm != nil && matchTerm != nil && tryAppend != nil && commitTo != nil {
		for _, s := range e.SitesIn(hrm, tryAppend) {
			r.guard("GD-append-match", "tryAppend in handleReplicateMessage", s.(ssa.Instruction),
				reqBool("matchTerm(m.LogIndex, m.LogTerm) is true", e.callV(matchTerm), true))
			args := s.Common().Args
			li := e.Field("raftpb", "Message", "LogIndex")
			r.check(len(args) >= 2 && fieldV(li)(args[1]), "GD-append-match", "tryAppend(m.LogIndex, ..)", e.ipos(s), "append is anchored at the matched index", "append is not anchored at m.LogIndex")
		}
		for _, s := range e.SitesIn(hrm, commitTo) {
			r.guard("GD-append-match", "commitTo in handleReplicateMessage", s.(ssa.Instruction),
				reqBool("matchTerm(..) is true", e.callV(matchTerm), true))
			// argument is min(lastIdx, m.Commit)
			okMin := false
			if c, ok := s.Common().Args[1].(*ssa.Call); ok {
				if b, isB := c.Call.Value.(*ssa.Builtin); isB && b.Name() == "min" {
					okMin = true
				} else if sc := c.Call.StaticCallee(); sc != nil && sc.Name() == "min" {
					okMin = true
				}
			}
			r.check(okMin, "GD-append-match", "commitTo(min(lastNew, m.Commit))", e.ipos(s),
				"the follower never commits beyond the entries it just verified", "the follower commit is no longer bounded by the last verified entry")
		}
		// matchTerm compares the local term with the given term
		okm := false
		forEachInstr(matchTerm, func(in ssa.Instruction) {
			if ret, ok := in.(*ssa.Return); ok && len(ret.Results) > 0 {
				if hasCmpFact([]Fact{{retOperand(ret, 0), true}}, "==", e.callV(termFn), func(v ssa.Value) bool {
					p, ok := stripConv(v).(*ssa.Parameter)
					return ok && p.Name() == "term"
				}) {
					okm = true
				}
			}
		})
		r.check(okm, "GD-append-match", "matchTerm is term(index) == term", e.pos(matchTerm.Pos()), "match is an equality on the stored term", "matchTerm is no longer an equality between the stored and the given term")
	}

	// ---- apply path: every advancing step passes setApplied
	setApplied := r.need("(*internal/rsm.StateMachine).setApplied")
	if setApplied != nil {
		isSet := func(in ssa.Instruction) bool {
			switch c := in.(type) {
			case *ssa.Call:
				return e.CallsTo(c, setApplied)
			case *ssa.Defer:
				return e.CallsTo(c, setApplied)
			}
			return false
		}
		n = 0
		// directly, in a deferred call, in a locked closure or in a helper:
		// every normal return of the step has executed setApplied
		always := e.AlwaysReaches(func(c ssa.CallInstruction) bool { return e.CallsTo(c, setApplied) }, 3)
		for _, name := range []string{"update", "noop", "registerSession", "unregisterSession", "configChange"} {
			fn := r.need("(*internal/rsm.StateMachine)." + name)
			if fn == nil {
				continue
			}
			n++
			res := e.findPath(fn, nil, isReturn, isSet, nil)
			r.check(!res.Found || always[fn], "MPT-setapplied", name+" passes setApplied on every exit", e.pos(fn.Pos()),
				"the gap/term assertion and index advance happen on every path", "a path through "+name+" returns without advancing/asserting the applied index")
		}
		// handleBatch: one setApplied per input entry: both loop bodies call it
		if hb := r.need("(*internal/rsm.StateMachine).handleBatch"); hb != nil {
			n++
			cnt := len(e.SitesIn(hb, setApplied))
			r.check(cnt >= 2, "MPT-setapplied", "handleBatch advances per skipped and per applied entry", e.pos(hb.Pos()),
				"both the skipped and the applied branch advance the index", "handleBatch no longer advances the applied index in both branches")
		}
		r.floor("MPT-setapplied", n, 6)
		// setApplied is the gap assertion: fail-stops unless index == s.index+1 and term >= s.term
		idxF := e.Field("internal/rsm", "StateMachine", "index")
		termF := e.Field("internal/rsm", "StateMachine", "term")
		for _, w := range e.FieldWrites(idxF) {
			if w.Fn != setApplied {
				continue
			}
			r.guard("GD-setapplied", "StateMachine.index advanced in setApplied", w.Instr,
				reqCmp("index == s.index+1", "==", func(v ssa.Value) bool {
					b, ok := stripConv(v).(*ssa.BinOp)
					return ok && fieldV(idxF)(b.X) && intConstV(1)(b.Y)
				}, sameExprV(w.Val)),
				reqCmp("term >= s.term", "<=", fieldV(termF), anyV()))
		}
		// other writers of StateMachine.index: only snapshot apply
		for _, w := range e.FieldWrites(idxF) {
			if w.Kind == "init" || w.Fn == setApplied {
				continue
			}
			ssIndex := e.Field("raftpb", "Snapshot", "Index")
			r.check(fieldV(ssIndex)(w.Val), "WMW-applied-index", "StateMachine.index written in "+fname(w.Fn), e.ipos(w.Instr),
				"outside setApplied the applied index is only set from a recovered snapshot", "the applied index is written from something other than setApplied or a snapshot")
		}
	}

	// ---- raft core entered only under node.raftMu
	raftMu := r.needField("dragonboat", "node", "raftMu")
	peerT := e.Named("internal/raft", "Peer")
	if raftMu != nil && peerT != nil {
		n = 0
		root := e.pkgTypes("dragonboat")
		for _, fn := range e.ScopeFuncs() {
			if fnPkg(fn) != root {
				continue
			}
			forEachCall(fn, func(s ssa.CallInstruction) {
				sc := s.Common().StaticCallee()
				if sc == nil || sc.Signature.Recv() == nil {
					return
				}
				rt := sc.Signature.Recv().Type()
				if p, ok := rt.(*types.Pointer); ok {
					rt = p.Elem()
				}
				if nt, ok := rt.(*types.Named); !ok || nt.Obj() != peerT.Obj() {
					return
				}
				// construction-time calls in startRaft/replayLog run before the node is published
				n++
				if strings.Contains(fname(fn), "startRaft") || strings.Contains(fname(fn), "replayLog") {
					r.ok("LS-raftmu", "Peer."+sc.Name()+" in "+fname(fn)+" (before the node is published)", e.ipos(s), "single-threaded start-up")
					return
				}
				r.requireLock("LS-raftmu", "Peer."+sc.Name()+" called in "+fname(fn), s.(ssa.Instruction), raftMu, 2, "node.raftMu")
			})
		}
		r.floor("LS-raftmu", n, 15)
	}

	// ---- in-memory log never extended in place over shared memory; acknowledgements
	ruleInMemEntriesFresh(e, r)
	ruleReplicateAck(e, r)

	// ---- determinism of the apply path
	runDET(e, r)
	// loop-carried flags on the apply path accumulate (generic.go)
	ruleLoopAcc(e, r, 2, "internal/rsm")
	if tblM, err := e.RaftHandlerTable(); err == nil {
		ruleMatchAck(e, r, tblM)
	} else {
		r.undecided("TBL", "raft handler table", err.Error())
	}
	ruleRestoreRebase(e, r)
	ruleTermInMemFirst(e, r)
	ruleRaftPredicates(e, r, "upToDate", "matchTerm")
	borrow(e, r, "C03", "GD-vote-grant", "GD-campaign", "GD-campaign-pred", "GD-leader", "GD-tally", "WMW-term", "WMW-vote-reset")
	ruleResetProgress(e, r)
	ruleBootstrapSorted(e, r)
	ruleHeartbeatMatchArg(e, r)
	ruleRestoreFastForward(e, r)
	ruleLastAppliedContiguous(e, r)
	ruleCommitUpdateActs(e, r)
	// the apply cursor handed out by the raft core never rewinds (decided by C19's rule set)
	borrow(e, r, "C19", "DEP-processed-ack")
	borrow(e, r, "C03", "TBL-state-compare", "WMW-state", "WMW-vote", "WMW-vote-self", "WMW-vote-load")
	borrow(e, r, "C08", "OWN-members-copy", "TBL-ssmeta")
}

// runDET: no wall clock / randomness / unordered map iteration feeding state
// on the apply path and the hash/snapshot-meta getters.
func runDET(e *Engine, r *Report) {
	roots := []*ssa.Function{}
	for _, n := range []string{"(*internal/rsm.StateMachine).Handle", "(*internal/rsm.StateMachine).getSSMeta",
		"(*internal/rsm.StateMachine).GetMembershipHash", "(*internal/rsm.StateMachine).GetSessionHash", "(*internal/rsm.StateMachine).Recover"} {
		if f := r.need(n); f != nil {
			roots = append(roots, f)
		}
	}
	rsmPkg := e.pkgTypes("internal/rsm")
	userIface := map[string]bool{}
	stop := func(f *ssa.Function) bool {
		p := fnPkg(f)
		if p == nil {
			return true
		}
		// stay inside internal/rsm and raftpb helpers; the user state machine,
		// the node callbacks, logging and the snapshotter's I/O are out of scope
		if p != rsmPkg && p.Path() != modPath+"/raftpb" {
			return true
		}
		return false
	}
	_ = userIface
	reach := e.Reach(roots, stop)
	nf, nr := 0, 0
	for f := range reach {
		if stop(f) || len(f.Blocks) == 0 {
			continue
		}
		// adapters that wrap the user SM are the user's side
		if strings.Contains(fname(f), "internal/rsm.NativeSM") || strings.Contains(fname(f), "StateMachine).Open") {
			continue
		}
		nf++
		forEachInstr(f, func(in ssa.Instruction) {
			switch x := in.(type) {
			case ssa.CallInstruction:
				if sc := x.Common().StaticCallee(); sc != nil && sc.Pkg != nil {
					pp := sc.Pkg.Pkg.Path()
					if (pp == "time" && (sc.Name() == "Now" || sc.Name() == "Since")) || pp == "math/rand" || strings.HasSuffix(pp, "/random") || (pp == "os" && sc.Name() == "Getpid") {
						r.bad("DET", "nondeterministic call "+pp+"."+sc.Name()+" in "+fname(f), e.ipos(in), "the apply/snapshot-meta path depends on wall clock, randomness or process identity")
					}
				}
			case *ssa.Range:
				if _, isMap := x.X.Type().Underlying().(*types.Map); !isMap {
					return
				}
				nr++
				key := "map range in " + fname(f)
				if reason, ok := detOrderIndependent[fname(f)]; ok {
					if strings.Contains(reason, "sorted") {
						sorted := false
						forEachCall(f, func(c ssa.CallInstruction) {
							if sc := c.Common().StaticCallee(); sc != nil && sc.Pkg != nil && sc.Pkg.Pkg.Path() == "sort" {
								sorted = true
							}
						})
						if !sorted {
							r.bad("DET", key, e.ipos(in), "the collected map keys are no longer sorted before they are hashed")
							return
						}
					}
					r.add(Ob{Rule: "DET", Construct: key, Pos: e.ipos(in), OK: true, Detail: "order-independent loop (confirmed by reading): " + reason})
				} else if ok, why := e.orderIndependentRange(x); ok {
					r.add(Ob{Rule: "DET", Construct: key, Pos: e.ipos(in), OK: true, Detail: "order-independent loop (structural: pure search / per-key map update / sorted afterwards)"})
				} else {
					r.bad("DET", key, e.ipos(in), "iteration over a map on the replicated-state path is neither structurally order-independent ("+why+") nor on the list of loops confirmed by reading")
				}
			}
		})
	}
	r.floor("DET-functions", nf, 30)
	r.floor("DET-mapranges", nr, 5)
}

// loops over maps on the apply path, each confirmed order-independent.
var detOrderIndependent = map[string]string{
	"internal/rsm.deepCopyMembership":                "copies key/value pairs into fresh maps",
	"(*internal/rsm.membership).isAddExistingMember": "three existential tests (any address equal)",
	"(*internal/rsm.membership).getHash":             "keys are collected and sorted before hashing",
	"(*internal/rsm.StateMachine).logMembership":     "debug logging only",
	"(*internal/rsm.membership).isEmpty":             "length test",
	"internal/rsm.addressEqual":                      "pure comparison",
	"(*internal/rsm.lrusession).getHash":             "hash over OrderedDo output",
	"(*internal/rsm.Session).save":                   "JSON marshalling sorts map keys",
	"(*internal/rsm.Session).clearTo":                "deletes every key below a bound; result is order independent",
	"(*raftpb.Membership).Size":                      "sum of sizes",
	"(*raftpb.Membership).SizeUpperLimit":            "sum of sizes",
	"(*raftpb.Membership).MarshalTo":                 "encoding of a value handed to storage, not part of compared state; decoded into a map again",
	"(*raftpb.Membership).Marshal":                   "as MarshalTo",
	"raftpb.(*Membership).MarshalTo":                 "as MarshalTo",
}
