package main

import (
	"go/types"

	"golang.org/x/tools/go/ssa"
)

func init() {
	register(&Property{
		ID:          "C19",
		Explanation: "Decides structural clauses of the raft core's log view: the fields of the in-memory log (entries, markerIndex, savedTo, appliedTo*, snapshot, shrunk) are written only by methods of the in-memory log itself; on the truncating branches of merge (entries re-assigned from anything but an append to the existing slice) savedTo is lowered on every path (truncate => re-persist); savedTo advances only under the index-bound and term-match tests; entries are handed out for apply only up to committed (and the apply range starts after processed); every Update passes validateUpdate (apply <= commit and apply <= save) before it leaves the peer; the persisted-ack (commitUpdate) is fed from the Update that was saved. Equality with the logical log model is declined. The allocator trusted to return a fresh entry slice is checked to allocate; the log reader keeps nothing read from the store.",
		NotCovered:  "equality of every log query with a reference log model over arbitrary interleavings (value-level; not applicable to static analysis)",
		Run:         runC19,
	})
}

func runC19(e *Engine, r *Report) {
	imT := e.Named("internal/raft", "inMemory")
	if imT == nil {
		r.undecided("ANCHOR", "internal/raft.inMemory", "type not found")
		return
	}
	st := imT.Underlying().(*types.Struct)
	// ---- writers of inMemory fields are inMemory methods (or its constructor)
	n := 0
	for i := 0; i < st.NumFields(); i++ {
		fld := st.Field(i)
		for _, w := range e.FieldWrites(fld) {
			if w.Kind == "init" {
				continue
			}
			n++
			ok := false
			if recv := w.Fn.Signature.Recv(); recv != nil {
				t := recv.Type()
				if p, isP := t.(*types.Pointer); isP {
					t = p.Elem()
				}
				ok = types.Identical(t, imT)
			}
			r.check(ok, "WMW-inmem", "inMemory."+fld.Name()+" written in "+fname(w.Fn), e.ipos(w.Instr),
				"the in-memory log is mutated only by its own methods", "the in-memory log is mutated from outside its methods")
		}
	}
	r.floor("WMW-inmem", n, 15)

	entries := r.needField("internal/raft", "inMemory", "entries")
	savedTo := r.needField("internal/raft", "inMemory", "savedTo")
	marker := r.needField("internal/raft", "inMemory", "markerIndex")
	merge := r.need("(*internal/raft.inMemory).merge")
	if entries == nil || savedTo == nil || marker == nil || merge == nil {
		return
	}
	// ---- merge: a truncating assignment of entries is paired with a savedTo store
	isSavedStore := func(in ssa.Instruction) bool {
		s, ok := in.(*ssa.Store)
		if !ok {
			return false
		}
		f, _, ok := fieldOfAddr(s.Addr)
		return ok && f == savedTo
	}
	n = 0
	for _, w := range e.FieldWrites(entries) {
		if w.Fn != merge || w.Kind != "store" {
			continue
		}
		// pure extension: append(im.entries, ...)
		if isAppendTo(w.Val, fieldV(entries)) {
			// extension of the current slice: if an earlier truncating store exists on the path it carries the obligation
			continue
		}
		n++
		// from this truncating store, every path to return passes a savedTo store
		res := e.findPath(merge, w.Instr, isReturn, isSavedStore, nil)
		r.check(!res.Found, "MPT-truncate-resave", "truncating store of inMemory.entries #"+itoa(n)+" in merge lowers savedTo", e.ipos(w.Instr),
			"after the log is truncated/replaced savedTo is lowered on every path, so the re-appended entries are persisted again",
			"a truncating path through merge keeps savedTo: re-appended entries would be considered saved")
	}
	r.floor("MPT-truncate-resave", n, 2)
	// the lowered value never exceeds firstNewIndex-1
	for _, w := range e.FieldWrites(savedTo) {
		if w.Fn != merge {
			continue
		}
		dep := e.dependsOn(w.Val, func(v ssa.Value) bool {
			b, ok := v.(*ssa.BinOp)
			return ok && b.Op.String() == "-" && intConstV(1)(b.Y)
		}, 0)
		r.check(dep, "MPT-truncate-resave", "savedTo in merge bounded by firstNewIndex-1 at "+e.ipos(w.Instr), e.ipos(w.Instr),
			"savedTo is lowered to at most firstNewIndex-1", "savedTo in merge no longer depends on firstNewIndex-1")
	}
	ruleInMemEntriesFresh(e, r)
	// ---- savedLogTo advances only under bound and term tests
	if slt := r.need("(*internal/raft.inMemory).savedLogTo"); slt != nil {
		entTerm := e.Field("raftpb", "Entry", "Term")
		entIndex := e.Field("raftpb", "Entry", "Index")
		for _, w := range e.FieldWrites(savedTo) {
			if w.Fn != slt {
				continue
			}
			var pIndex VM = func(v ssa.Value) bool { p, ok := stripConv(v).(*ssa.Parameter); return ok && p.Name() == "index" }
			var pTerm VM = func(v ssa.Value) bool { p, ok := stripConv(v).(*ssa.Parameter); return ok && p.Name() == "term" }
			r.guard("GD-savedto", "savedTo advanced in savedLogTo", w.Instr,
				reqCmp("index >= markerIndex", ">=", pIndex, fieldV(marker)),
				reqCmp("index <= last in-memory index", "<=", pIndex, fieldV(entIndex)),
				reqCmp("term == term of the in-memory entry", "==", pTerm, fieldV(entTerm)))
			r.check(func() bool { p, ok := stripConv(w.Val).(*ssa.Parameter); return ok && p.Name() == "index" }(), "GD-savedto", "savedTo := index", e.ipos(w.Instr), "stores the acknowledged index", "stores something other than the acknowledged index")
		}
	}
	// ---- entriesToSave starts at savedTo+1
	if ets := r.need("(*internal/raft.inMemory).entriesToSave"); ets != nil {
		dep := e.returnDependsOn(ets, isFieldLoad(savedTo), 0)
		r.check(dep, "DEP-tosave", "entriesToSave depends on savedTo", e.pos(ets.Pos()), "entries to persist start after savedTo", "entriesToSave no longer depends on savedTo")
	}
	// ---- apply range bounded by committed, starting after processed
	committed := e.Field("internal/raft", "entryLog", "committed")
	processed := e.Field("internal/raft", "entryLog", "processed")
	if lim := r.need("(*internal/raft.entryLog).toApplyIndexLimit"); lim != nil && committed != nil {
		ok := false
		forEachInstr(lim, func(in ssa.Instruction) {
			if ret, isR := in.(*ssa.Return); isR {
				if b, isB := ret.Results[0].(*ssa.BinOp); isB && b.Op.String() == "+" && fieldV(committed)(b.X) && intConstV(1)(b.Y) {
					ok = true
				}
			}
		})
		r.check(ok, "DEP-toapply", "toApplyIndexLimit = committed+1", e.pos(lim.Pos()), "the apply range ends at the commit index", "the apply range is no longer bounded by committed+1")
	}
	if fna := r.need("(*internal/raft.entryLog).firstNotAppliedIndex"); fna != nil && processed != nil {
		r.check(e.returnDependsOn(fna, isFieldLoad(processed), 0), "DEP-toapply", "firstNotAppliedIndex depends on processed", e.pos(fna.Pos()), "apply range starts after processed", "apply range start no longer depends on processed")
	}
	// ---- every Update leaves the peer validated
	getUpdate := r.need("(*internal/raft.Peer).GetUpdate")
	validate := r.need("internal/raft.validateUpdate")
	if getUpdate != nil && validate != nil {
		res := e.findPath(getUpdate, nil, func(in ssa.Instruction) bool { return e.isSuccessReturn(in) }, func(in ssa.Instruction) bool {
			c, ok := in.(*ssa.Call)
			return ok && e.CallsTo(c, validate)
		}, nil)
		r.check(!res.Found, "MPT-validate-update", "Peer.GetUpdate passes validateUpdate", e.pos(getUpdate.Pos()),
			"every Update returned without error was validated (apply<=commit, apply<=save)", "an Update can leave the peer without validateUpdate")
		// validateUpdate really fail-stops on both conditions
		cnt := 0
		forEachCall(validate, func(c ssa.CallInstruction) {
			if cc, ok := c.(*ssa.Call); ok && e.NoReturnCall(cc) {
				cnt++
			}
		})
		r.check(cnt >= 2, "MPT-validate-update", "validateUpdate has both fail-stop checks", e.pos(validate.Pos()), "apply<=commit and apply<=save both fail-stop", "validateUpdate lost one of its fail-stop checks")
		// pb.Update literal constructed in one place: getUpdate
		gu := e.Func("(*internal/raft.Peer).getUpdate")
		callers := e.CallerSites(gu)
		for _, s := range callers {
			r.check(s.Parent() == getUpdate, "MPT-validate-update", "Peer.getUpdate called in "+fname(s.Parent()), e.ipos(s), "raw updates are produced only inside GetUpdate", "raw (unvalidated) updates are produced outside GetUpdate")
		}
	}
	// ---- the persistence ack derives from the saved Update
	if guc := r.need("internal/raft.getUpdateCommit"); guc != nil {
		uSave := e.Field("raftpb", "Update", "EntriesToSave")
		stableTo := e.Field("raftpb", "UpdateCommit", "StableLogTo")
		stableTerm := e.Field("raftpb", "UpdateCommit", "StableLogTerm")
		for _, f := range []*types.Var{stableTo, stableTerm} {
			okd := false
			for _, w := range e.FieldWrites(f) {
				if w.Fn == guc && e.dependsOn(w.Val, func(v ssa.Value) bool { return fieldV(uSave)(v) }, 0) {
					okd = true
				}
			}
			// stores into a local struct are 'init' kind; scan directly
			forEachInstr(guc, func(in ssa.Instruction) {
				if s, ok := in.(*ssa.Store); ok {
					if ff, _, ok := fieldOfAddr(s.Addr); ok && ff == f && e.dependsOn(s.Val, func(v ssa.Value) bool { return fieldV(uSave)(v) }, 0) {
						okd = true
					}
				}
			})
			r.check(okd, "DEP-stable-ack", "UpdateCommit."+f.Name()+" derives from Update.EntriesToSave", e.pos(guc.Pos()),
				"the saved-to acknowledgement is the last entry of what was handed out for persistence", "the saved-to acknowledgement no longer derives from EntriesToSave")
		}
		// ---- the returned-for-apply ack covers the committed entries of the
		// same Update: some store of Processed derives from CommittedEntries,
		// and every store that may come after it on a path still does
		// (field-sensitively: through the previous value of Processed), so a
		// later branch cannot replace it by something that forgets them.
		uCommitted := e.Field("raftpb", "Update", "CommittedEntries")
		processedF := e.Field("raftpb", "UpdateCommit", "Processed")
		if uCommitted == nil || processedF == nil {
			r.undecided("ANCHOR", "raftpb.Update.CommittedEntries/UpdateCommit.Processed", "anchored field no longer resolves")
		} else {
			var stores []*ssa.Store
			forEachInstr(guc, func(in ssa.Instruction) {
				if s, ok := in.(*ssa.Store); ok {
					if ff, _, ok := fieldOfAddr(s.Addr); ok && ff == processedF {
						stores = append(stores, s)
					}
				}
			})
			derives := func(s *ssa.Store) bool {
				return e.dependsOn(s.Val, func(v ssa.Value) bool { return fieldV(uCommitted)(v) }, 0)
			}
			var first []*ssa.Store
			for _, s := range stores {
				if derives(s) {
					first = append(first, s)
				}
			}
			r.check(len(first) > 0, "DEP-processed-ack", "UpdateCommit.Processed derives from Update.CommittedEntries", e.pos(guc.Pos()),
				"the processed acknowledgement is the last entry handed out for apply", "the processed acknowledgement no longer derives from CommittedEntries")
			for i, s := range stores {
				if derives(s) {
					continue
				}
				// s forgets the committed entries: it must not be reachable after a deriving store
				after := false
				for _, f := range first {
					if f.Block() == s.Block() && instrIndex(f) < instrIndex(s) {
						after = true
					} else if f.Block() != s.Block() && blockReaches(f.Block(), s.Block()) {
						after = true
					}
				}
				r.check(!after, "DEP-processed-ack", "store #"+itoa(i+1)+" of UpdateCommit.Processed keeps the committed entries' index", e.ipos(s),
					"no later store overrides the committed-entries acknowledgement", "Processed is overwritten by a value that ignores the CommittedEntries of the same Update: entries already handed out for apply would be handed out again")
			}
		}
	}
	ruleRestoreRebase(e, r)
	ruleLogReaderRebase(e, r)
	ruleLogReaderNoCache(e, r)
	ruleTermInMemFirst(e, r)
	ruleAppliedPair(e, r)
	ruleAppendSetsRange(e, r)
	ruleUpdateCarriesEntriesToSave(e, r)
	ruleFirstIndexSnapshotFirst(e, r)
	ruleSetRangeRebases(e, r)
	ruleCommitUpdateActs(e, r)
}

// blockReaches: is b reachable from a (a != b) in the CFG?
func blockReaches(a, b *ssa.BasicBlock) bool {
	seen := map[*ssa.BasicBlock]bool{}
	st := []*ssa.BasicBlock{a}
	for len(st) > 0 {
		x := st[len(st)-1]
		st = st[:len(st)-1]
		for _, s := range x.Succs {
			if s == b {
				return true
			}
			if !seen[s] {
				seen[s] = true
				st = append(st, s)
			}
		}
	}
	return false
}

// isAppendTo: v is append(x, ...) where x matches base (possibly via slice ops).
func isAppendTo(v ssa.Value, base VM) bool {
	c, ok := v.(*ssa.Call)
	if !ok {
		return false
	}
	b, ok := c.Call.Value.(*ssa.Builtin)
	if !ok || b.Name() != "append" || len(c.Call.Args) == 0 {
		return false
	}
	return base(c.Call.Args[0])
}
