package main

import (
	"encoding/json"
	"fmt"
	"go/token"
	"go/types"
	"os"
	"sort"
	"strings"

	"golang.org/x/tools/go/ssa"
)

// dumpFunc prints the SSA of every function whose key contains name, with
// the guard facts of each block (debug aid for rule development).
func dumpFunc(e *Engine, name string) {
	for _, f := range e.ModFuncs {
		if !strings.Contains(fname(f), name) {
			continue
		}
		fmt.Printf("=== %s (%s)\n", fname(f), e.pos(f.Pos()))
		for _, b := range f.Blocks {
			fmt.Printf(" block %d (%s) preds=%d facts=%v\n", b.Index, b.Comment, len(b.Preds), e.describeFacts(expandFacts(blockFacts(b))))
			for _, in := range b.Instrs {
				s := in.String()
				if v, ok := in.(ssa.Value); ok {
					s = v.Name() + " = " + s
				}
				extra := ""
				if c, ok := in.(ssa.CallInstruction); ok {
					var cs []string
					for _, g := range e.Callees(c) {
						cs = append(cs, fname(g))
					}
					extra = "   -> " + strings.Join(cs, ", ")
				}
				fmt.Printf("   %-70s %s%s\n", s, e.ipos(in), extra)
			}
		}
	}
	_ = os.Stdout
}

// dumpPath prints one call-graph path from function a to function b.
func dumpPath(e *Engine, a, b string, stopName string) {
	fa, fb := e.Func(a), e.Func(b)
	if fa == nil || fb == nil {
		fmt.Println("function not found", fa == nil, fb == nil)
		return
	}
	stop := e.Func(stopName)
	prev := map[*ssa.Function]*ssa.Function{fa: nil}
	q := []*ssa.Function{fa}
	for len(q) > 0 {
		f := q[0]
		q = q[1:]
		if f == fb {
			var p []string
			for x := f; x != nil; x = prev[x] {
				p = append([]string{fname(x)}, p...)
			}
			fmt.Println(strings.Join(p, "\n  -> "))
			return
		}
		if f == stop {
			continue
		}
		if n := e.CG.Nodes[f]; n != nil {
			for _, ed := range n.Out {
				if _, ok := prev[ed.Callee.Func]; !ok {
					prev[ed.Callee.Func] = f
					q = append(q, ed.Callee.Func)
				}
			}
		}
	}
	fmt.Println("no path")
}

func runSurvey(e *Engine, what string) {
	switch what {
	case "anchors":
		// run every property once so that all anchors are requested, then dump
		for _, id := range sortedProps() {
			r := &Report{Prop: id, e: e, cfg: "survey"}
			runProperty(registry[id], e, r)
		}
		var names []string
		for n := range e.requested {
			names = append(names, n)
		}
		sort.Strings(names)
		if os.Getenv("ANCHOR_FIELDS") != "" {
			b, _ := json.MarshalIndent(e.fieldReq, "", " ")
			_, _ = os.Stdout.Write(b)
			return
		}
		e.dumpAnchors(names)
	case "softpairs":
		for _, sp := range e.softPairs() {
			fmt.Printf("%s | %s | %s | %s\n", sp.Callee, sp.Sentinel, sp.Fn, sp.Pos)
		}
	case "usub":
		// unsigned `x - const` not dominated by a guard on x (cross-reference only)
		for _, fn := range e.ScopeFuncs() {
			p := fnPkg(fn)
			if p == nil || !inModule(p) {
				continue
			}
			forEachInstr(fn, func(in ssa.Instruction) {
				b, ok := in.(*ssa.BinOp)
				if !ok || b.Op != token.SUB {
					return
				}
				bt, ok := b.Type().Underlying().(*types.Basic)
				if !ok || bt.Info()&types.IsUnsigned == 0 {
					return
				}
				k, ok := b.Y.(*ssa.Const)
				if !ok || k.Value == nil {
					return
				}
				x := b.X
				same := func(v ssa.Value) bool { return v == x || sameExprV(x)(v) }
				g1, _ := e.guardedOnAllPaths(in, reqCmp("", ">=", same, func(v ssa.Value) bool { _, isC := v.(*ssa.Const); return isC }))
				g2, _ := e.guardedOnAllPaths(in, reqCmp("", ">", same, anyV()))
				g3, _ := e.guardedOnAllPaths(in, reqCmp("", "!=", same, intConstV(0)))
				if !g1 && !g2 && !g3 {
					fmt.Printf("%s: %s: %s - %s unguarded\n", e.ipos(in), fname(fn), e.describeValue(x), k.Value.ExactString())
				}
			})
		}
	case "err":
		// error discipline over the whole module (cross-reference only)
		r := &Report{Prop: "survey", e: e, cfg: "survey"}
		all := errScope{pkgs: map[string]bool{}, files: map[string]bool{}}
		for _, f := range e.ScopeFuncs() {
			if p := fnPkg(f); p != nil && inModule(p) {
				all.pkgs[strings.TrimPrefix(strings.TrimPrefix(p.Path(), modPath), "/")] = true
			}
		}
		st := e.CheckErrDiscipline(r, all, map[string]string{})
		for _, o := range r.Obs {
			if !o.OK {
				fmt.Printf("%s %s %s: %s\n", o.Rule, o.Pos, o.Construct, o.Detail)
			}
		}
		fmt.Printf("funcs=%d calls=%d edges=%d\n", st.Funcs, st.Calls, st.ErrEdges)
	case "dupargs":
		for _, f := range e.ScopeFuncs() {
			if !e.IsLive(outermostFn(f)) {
				continue
			}
			forEachCall(f, func(c ssa.CallInstruction) {
				args := c.Common().Args
				sig := c.Common().Signature()
				off := 0
				if !c.Common().IsInvoke() && sig.Recv() != nil {
					off = 1
				}
				for i := off; i < len(args); i++ {
					for j := i + 1; j < len(args); j++ {
						if _, isC := args[i].(*ssa.Const); isC {
							continue
						}
						if args[i] == args[j] || (exprKey(args[i]) != "" && exprKey(args[i]) == exprKey(args[j])) {
							fmt.Printf("%s %s args %d,%d of %s\n", e.ipos(c), fname(f), i-off, j-off, calleeLabel(e, c))
						}
					}
				}
			})
		}
	case "acc":
		for _, f := range e.ScopeFuncs() {
			for _, lf := range loopFlags(f) {
				fmt.Printf("%-6v init=%-5v %s %s\n", lf.Sticky, lf.Init, fname(f), e.ipos(lf.Phi))
			}
		}
	}
}

func sortedProps() []string {
	var ids []string
	for id := range registry {
		ids = append(ids, id)
	}
	sort.Strings(ids)
	return ids
}
