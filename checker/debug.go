package main

import (
	"fmt"
	"os"
	"strings"

	"golang.org/x/tools/go/ssa"
)

// dumpFunc prints the SSA of every function whose key contains name, with
// the guard facts of each block (debug aid for rule development).
func dumpFunc(e *Engine, name string) {
	for _, f := range e.ModFuncs {
		if !strings.Contains(fname(f), name) {
			continue
		}
		fmt.Printf("=== %s (%s)\n", fname(f), e.pos(f.Pos()))
		for _, b := range f.Blocks {
			fmt.Printf(" block %d (%s) preds=%d facts=%v\n", b.Index, b.Comment, len(b.Preds), e.describeFacts(expandFacts(blockFacts(b))))
			for _, in := range b.Instrs {
				s := in.String()
				if v, ok := in.(ssa.Value); ok {
					s = v.Name() + " = " + s
				}
				extra := ""
				if c, ok := in.(ssa.CallInstruction); ok {
					var cs []string
					for _, g := range e.Callees(c) {
						cs = append(cs, fname(g))
					}
					extra = "   -> " + strings.Join(cs, ", ")
				}
				fmt.Printf("   %-70s %s%s\n", s, e.ipos(in), extra)
			}
		}
	}
	_ = os.Stdout
}
