package main

import (
	"strings"

	"golang.org/x/tools/go/ssa"
)

func init() {
	register(&Property{
		ID:          "C17",
		Explanation: "Liveness itself is not decidable statically. Decides narrow structural necessary conditions of progress: every role has a LocalTick cell and every voter role an Election cell; the leader's tick produces the heartbeat broadcast, the quorum check (when enabled) and the pending-snapshot-ack check on every path, and aborts an overdue leadership transfer; the non-leader tick advances the election clock on every path and raises the Election message when the timeout fires; each paused replication state has an exit driven by a periodic trigger (wait <- every heartbeat response; snapshot <- snapshot status / delayed ack from the leader tick); a replica that learns of a lower-term leader message replies with NoOP whenever check-quorum OR pre-vote is on (so a deposed or stuck replica's higher term reaches the leader); every received message is recorded as activity before it is handed to the raft core (quiesce exit); node.tick advances the clock of every pending-request table on every path (also while quiesced) and the tables' expiry is reachable from the step path, so requests without a quorum end in Timeout rather than hanging. The leader re-evaluates the commit index on every path of removeNode.",
		NotCovered:  "that these triggers suffice to elect a leader / catch up within bounded time under a fair schedule (liveness)",
		Run:         runC17,
	})
}

func runC17(e *Engine, r *Report) {
	// borrowed mechanism (round 9): read confirmations of witnesses count (C06/C18): a read whose quorum needs the witness otherwise never completes
	borrow(e, r, "C06", "GD-confirm-voters")
	// borrowed mechanisms (session 6, round 8): the check-quorum round counts the same members the quorum is made of (C18): a leader that cannot see its witnesses deposes itself although a majority is connected
	borrow(e, r, "C18", "DEP-checkquorum")
	tbl, err := e.RaftHandlerTable()
	if err != nil {
		r.undecided("TBL", "raft.handlers", err.Error())
		return
	}
	msgType := r.needField("raftpb", "Message", "Type")
	if msgType == nil {
		return
	}
	isCall := func(f *ssa.Function) func(ssa.Instruction) bool {
		return func(in ssa.Instruction) bool {
			c, ok := in.(*ssa.Call)
			return ok && f != nil && e.CallsTo(c, f)
		}
	}
	// ---- tick / election cells
	for _, st := range []string{"follower", "candidate", "preVoteCandidate", "leader", "nonVoting", "witness"} {
		r.check(tbl.Get(st, "LocalTick") != nil, "TBL-progress-cells", st+" has a LocalTick cell", "-", "the role's clock advances", "role "+st+" no longer handles LocalTick: its timers never fire")
	}
	for _, st := range []string{"follower", "candidate", "preVoteCandidate", "leader"} {
		r.check(tbl.Get(st, "Election") != nil, "TBL-progress-cells", st+" has an Election cell", "-", "election timeouts are acted on", "role "+st+" no longer handles Election")
	}
	for _, c := range [][2]string{{"leader", "LeaderHeartbeat"}, {"leader", "CheckQuorum"}, {"leader", "HeartbeatResp"}, {"leader", "ReplicateResp"}, {"leader", "SnapshotStatus"}, {"leader", "Unreachable"},
		{"follower", "TimeoutNow"}, {"follower", "Replicate"}, {"follower", "Heartbeat"}, {"follower", "InstallSnapshot"}, {"candidate", "RequestVoteResp"}, {"preVoteCandidate", "RequestPreVoteResp"},
		{"nonVoting", "Replicate"}, {"nonVoting", "InstallSnapshot"}, {"witness", "Replicate"}, {"witness", "InstallSnapshot"}} {
		r.check(tbl.Get(c[0], c[1]) != nil, "TBL-progress-cells", c[0]+" handles "+c[1], "-", "present", "the "+c[0]+"/"+c[1]+" handler is gone: replication/election cannot progress through it")
	}
	// ---- leader tick
	storesType := func(fn *ssa.Function, cname string) []ssa.Instruction {
		return e.msgTypeSites(fn, msgType, e.Const("raftpb", cname))
	}
	if lt := r.need(raftT + "leaderTick"); lt != nil {
		tfh := r.need(raftT + "timeForHeartbeat")
		tfq := r.need(raftT + "timeForCheckQuorum")
		cpa := r.need(raftT + "checkPendingSnapshotAck")
		cq := e.Field("internal/raft", "raft", "checkQuorum")
		hb := storesType(lt, "LeaderHeartbeat")
		r.check(len(hb) > 0, "MPT-leader-tick", "leader tick raises LeaderHeartbeat", e.pos(lt.Pos()), "present", "the leader tick no longer raises the heartbeat broadcast")
		// must-act: whenever timeForHeartbeat() is true the message is built
		if tfh != nil && len(hb) > 0 {
			forEachInstr(lt, func(in ssa.Instruction) {
				ifi, ok := in.(*ssa.If)
				if !ok || !e.callV(tfh)(ifi.Cond) {
					return
				}
				ts := in.Block().Succs[0]
				res := e.findPath(lt, ts.Instrs[0], func(x ssa.Instruction) bool { return e.isSuccessReturn(x) }, func(x ssa.Instruction) bool { return x == hb[0] }, nil)
				r.check(!res.Found || ts.Instrs[0] == hb[0], "MPT-leader-tick", "heartbeat is broadcast whenever the heartbeat timer fires", e.ipos(in), "unconditional on the timer edge", "the heartbeat broadcast can be skipped although the heartbeat timer fired")
			})
		}
		qc := storesType(lt, "CheckQuorum")
		if tfq != nil && cq != nil {
			okq := len(qc) > 0
			if okq {
				g1, _ := e.guardedOnAllPaths(qc[0], reqBool("", e.callV(tfq), true))
				okq = g1
				// must-act: timer fired and checkQuorum on => message
				forEachInstr(lt, func(in ssa.Instruction) {
					ifi, ok := in.(*ssa.If)
					if !ok || !fieldV(cq)(ifi.Cond) {
						return
					}
					ts := in.Block().Succs[0]
					res := e.findPath(lt, ts.Instrs[0], func(x ssa.Instruction) bool { return e.isSuccessReturn(x) }, func(x ssa.Instruction) bool { return x == qc[0] }, nil)
					if res.Found && ts.Instrs[0] != qc[0] {
						okq = false
					}
				})
			}
			r.check(okq, "MPT-leader-tick", "quorum check is raised whenever its timer fires and check-quorum is on", e.pos(lt.Pos()), "a leader that lost its quorum steps down", "the leader tick no longer (always) raises CheckQuorum when due")
		}
		if cpa != nil {
			res := e.findPath(lt, nil, func(x ssa.Instruction) bool {
				ret, ok := x.(*ssa.Return)
				if !ok || !e.isSuccessReturn(x) {
					return false
				}
				return !e.callV(cpa)(retOperand(ret, 0)) // `return r.checkPendingSnapshotAck()` is the check itself
			}, isCall(cpa), nil)
			tail := false
			r.check(!res.Found || tail, "MPT-leader-tick", "pending snapshot acks are checked on every leader tick", e.pos(lt.Pos()), "a remote in snapshot state is released by the delayed ack", "the leader tick can finish without checking pending snapshot acks: a remote can stay paused in the snapshot state")
		}
		alt := e.Func(raftT + "abortLeaderTransfer")
		ttalt := e.Func(raftT + "timeToAbortLeaderTransfer")
		if alt != nil && ttalt != nil {
			ok := false
			for _, s := range e.SitesIn(lt, alt) {
				if e.dependsOnGuard(s.(ssa.Instruction), e.callV(ttalt)) {
					ok = true
				}
			}
			r.check(ok, "MPT-leader-tick", "an overdue leadership transfer is aborted from the tick", e.pos(lt.Pos()), "proposals are not dropped forever", "the leader tick no longer aborts an overdue leadership transfer")
		}
	}
	if nlt := r.need(raftT + "nonLeaderTick"); nlt != nil {
		et := e.Field("internal/raft", "raft", "electionTick")
		inc := false
		for _, w := range e.FieldWrites(et) {
			if w.Fn == nlt && w.Instr.Block() == nlt.Blocks[0] || (w.Fn == nlt && func() bool {
				res := e.findPath(nlt, nil, isReturn, func(x ssa.Instruction) bool { return x == w.Instr }, nil)
				return !res.Found
			}()) {
				if b, ok := stripConv(w.Val).(*ssa.BinOp); ok && b.Op.String() == "+" && intConstV(1)(b.Y) {
					inc = true
				}
			}
		}
		r.check(inc, "MPT-election-tick", "the non-leader tick advances the election clock on every path", e.pos(nlt.Pos()), "the election timeout eventually fires", "a path through nonLeaderTick does not advance electionTick")
		el := storesType(nlt, "Election")
		tfe := e.Func(raftT + "timeForElection")
		r.check(len(el) > 0 && tfe != nil && e.dependsOnGuard(el[0], e.callV(tfe)), "MPT-election-tick", "the Election message is raised when the election timer fires", e.pos(nlt.Pos()), "present", "nonLeaderTick no longer raises Election on timeout")
	}
	if tk := r.need(raftT + "tick"); tk != nil {
		lt, nlt := e.Func(raftT+"leaderTick"), e.Func(raftT+"nonLeaderTick")
		res := e.findPath(tk, nil, func(x ssa.Instruction) bool { return e.isSuccessReturn(x) }, func(x ssa.Instruction) bool { return isCall(lt)(x) || isCall(nlt)(x) }, nil)
		tail := false
		forEachInstr(tk, func(in ssa.Instruction) {
			if ret, ok := in.(*ssa.Return); ok && (e.callV(lt)(retOperand(ret, 0)) || e.callV(nlt)(retOperand(ret, 0))) {
				tail = true
			}
		})
		r.check(!res.Found || tail, "MPT-election-tick", "raft.tick always runs the leader or the non-leader tick", e.pos(tk.Pos()), "every tick drives a timer", "raft.tick can return without running a role tick")
	}
	// ---- paused replication states have periodic exits
	waitToRetry := r.need("(*internal/raft.remote).waitToRetry")
	if c := tbl.Get("leader", "HeartbeatResp"); c != nil && waitToRetry != nil {
		res := e.findPath(c.Fn, nil, isReturn, isCall(waitToRetry), nil)
		r.check(!res.Found, "MPT-unpause", "every heartbeat response moves the remote out of the wait state", e.pos(c.Fn.Pos()),
			"a remote paused after a probe is retried at the next heartbeat round trip", "a heartbeat response can be handled without leaving the wait state: a lagging follower may never be probed again")
		sr := e.Func(raftT + "sendReplicateMessage")
		r.check(sr != nil && len(e.SitesIn(c.Fn, sr)) > 0, "MPT-unpause", "a lagging remote is sent entries on heartbeat response", e.pos(c.Fn.Pos()), "present", "the heartbeat response handler no longer resumes replication to a lagging remote")
	}
	if c := tbl.Get("leader", "SnapshotStatus"); c != nil {
		bw := e.Func("(*internal/raft.remote).becomeWait")
		r.check(bw != nil && len(e.SitesIn(c.Fn, bw)) > 0, "MPT-unpause", "snapshot status moves the remote out of the snapshot state", e.pos(c.Fn.Pos()), "present", "SnapshotStatus no longer releases a remote from the snapshot state")
	}
	if isPaused := r.need("(*internal/raft.remote).isPaused"); isPaused != nil {
		// paused exactly for wait and snapshot
		stT := e.Named("internal/raft", "remoteStateType")
		stateF := e.Field("internal/raft", "remote", "state")
		paused := map[string]bool{}
		if stT != nil && stateF != nil {
			paused = e.enumCasesReturning(isPaused, stT, e.pkgTypes("internal/raft"), fieldV(stateF), 0, true)
		}
		r.check(keysOf(paused) == "remoteSnapshot,remoteWait", "MPT-unpause", "paused states are exactly wait and snapshot", e.pos(isPaused.Pos()), "both have periodic exits (above)", "the set of paused remote states changed to {"+keysOf(paused)+"}: a new paused state needs an exit trigger")
	}
	// ---- NoOP reply for lower-term leader messages
	if omt := r.need(raftT + "onMessageTermNotMatched"); omt != nil {
		noop := storesType(omt, "NoOP")
		cq := e.Field("internal/raft", "raft", "checkQuorum")
		pv := e.Field("internal/raft", "raft", "preVote")
		isLeaderMsg := e.Func("internal/raft.isLeaderMessage")
		ok := len(noop) > 0 && cq != nil && pv != nil && isLeaderMsg != nil
		if ok {
			// must-act: from the true edge of checkQuorum OR the true edge of preVote (after isLeaderMessage true) the NoOP is built
			for _, fld := range []interface{ Name() string }{cq, pv} {
				found := false
				forEachInstr(omt, func(in ssa.Instruction) {
					ifi, isIf := in.(*ssa.If)
					if !isIf {
						return
					}
					f, _, isF := loadedField(ifi.Cond)
					if !isF || f.Name() != fld.Name() {
						return
					}
					if g, _ := e.guardedOnAllPaths(in, reqBool("", e.callV(isLeaderMsg), true)); !g {
						return
					}
					found = true
					ts := in.Block().Succs[0]
					res := e.findPath(omt, ts.Instrs[0], isReturn, func(x ssa.Instruction) bool { return x == noop[0] }, nil)
					if res.Found && ts.Instrs[0] != noop[0] {
						ok = false
					}
				})
				if !found {
					ok = false
				}
			}
		}
		r.check(ok, "GD-noop-reply", "a lower-term leader message gets the NoOP reply whenever check-quorum or pre-vote is on", e.pos(omt.Pos()),
			"a replica stuck at a higher term makes the leader learn that term", "the NoOP reply to a lower-term leader no longer covers both the check-quorum and the pre-vote configuration: a replica with a higher term can stay cut off forever")
	}
	// ---- received messages count as activity before they reach the raft core
	if hrm := r.need("(*dragonboat.node).handleReceivedMessages"); hrm != nil {
		rec := r.need("(*dragonboat.node).recordMessage")
		ph := e.Func("(*internal/raft.Peer).Handle")
		if rec != nil && ph != nil {
			for _, s := range e.SitesIn(hrm, ph) {
				o, _ := e.alwaysPrecededBy(s.(ssa.Instruction), isCall(rec), 0)
				r.check(o, "MPT-quiesce-exit", "recordMessage precedes Peer.Handle in "+fname(hrm), e.ipos(s), "any received message wakes a quiesced replica", "a message can reach the raft core without being recorded as activity: a quiesced shard may not wake up")
			}
		}
	}
	// ---- deadlines keep advancing and expire (shared with C12)
	c17Tables(e, r)
	ruleMatchAck(e, r, tbl)
	ruleSnapshotStatusReported(e, r)
	ruleRaftPredicates(e, r, "time", "dropRequestVote")
	ruleCampaignPredicateUpper(e, r)
	ruleDelayedRepack(e, r)
	ruleResetProgress(e, r)
	ruleRemoveRecommits(e, r)
	ruleConfigChangeClearsPending(e, r)
	ruleSendQueueWorkerCleanup(e, r)
	rulePoisonBlocking(e, r)
	ruleHintVoting(e, r)
	ruleQuiesceActivity(e, r)
	ruleSnapshotJobSlot(e, r)
	ruleJobUnregistered(e, r)
}

// c17Tables: node.tick advances every table clock on every path; gc reachable.
func c17Tables(e *Engine, r *Report) {
	nodeTick := r.need("(*dragonboat.node).tick")
	handleEvents := r.need("(*dragonboat.node).handleEvents")
	if nodeTick == nil || handleEvents == nil {
		return
	}
	reach := e.Reach([]*ssa.Function{handleEvents}, nil)
	n := 0
	for _, tn := range []string{"pendingSnapshot", "pendingProposals", "pendingReadIndexes", "pendingConfigChange"} {
		fld := e.Field("dragonboat", "node", tn)
		if fld == nil {
			r.undecided("ANCHOR", "dragonboat.node."+tn, "field not found")
			continue
		}
		var site ssa.Instruction
		forEachCall(nodeTick, func(s ssa.CallInstruction) {
			sc := s.Common().StaticCallee()
			if sc == nil || sc.Name() != "tick" || len(s.Common().Args) == 0 {
				return
			}
			a := s.Common().Args[0]
			for i := 0; i < 4; i++ {
				f, base, ok := fieldOfAddr(a)
				if !ok {
					break
				}
				if f == fld {
					site = s.(ssa.Instruction)
					break
				}
				a = base
			}
		})
		n++
		ok := site != nil
		if ok {
			x := site
			res := e.findPath(nodeTick, nil, func(in ssa.Instruction) bool { return e.isSuccessReturn(in) }, func(in ssa.Instruction) bool { return in == x }, nil)
			ok = !res.Found
		}
		r.check(ok, "TBL-tick", "node.tick advances the clock of "+tn+" on every path", e.pos(nodeTick.Pos()),
			"deadlines keep advancing (also while quiesced)", "a path through node.tick does not advance the clock of "+tn+": its requests would never time out")
		tname := strings.TrimSuffix(strings.TrimSuffix(tn, "es"), "s")
		_ = tname
	}
	r.floor("TBL-tick", n, 4)
	for _, g := range []string{"(*dragonboat.pendingProposal).gc", "(*dragonboat.pendingConfigChange).gc", "(*dragonboat.pendingSnapshot).gc", "(*dragonboat.pendingReadIndex).gc"} {
		f := r.need(g)
		r.check(f != nil && reach[f], "TBL-gc", g+" reachable from the step path", e.pos(handleEvents.Pos()), "expired requests are timed out periodically", g+" is no longer reachable from node.handleEvents")
	}
}
