package main

import (
	"strings"

	"golang.org/x/tools/go/ssa"
)

func init() {
	register(&Property{
		ID:          "C15",
		Explanation: "Decides structural necessary conditions of chunk reassembly on the receiver: a non-first chunk is accepted (stream position advanced) only for a tracked stream, only when its id equals the next expected id, only from the sender that started the stream; chunks are handled only with matching deployment id and binary version and under the per-stream lock; nothing is written for a removed replica; every main-file chunk passes the incremental validator and the stream is finalized only after the validator's final check (validation is the constant true in non-test code); the InstallSnapshot notification and the confirmation happen only after a successful finalize; dropping a tracked stream (timeout, close, restart by a new first chunk, invalid stream) removes its temporary directory; a chunk-supplied file path reaches the file system only through PathBase. Does not decide byte-exact reassembly over perturbation sequences; the sender-side chunk size arithmetic is declined. Record-source table for chunk / notification / job fields; per-stream locks are never deleted or replaced; the chunk writer is closed only after Stream succeeded; a refused publish is never success.",
		NotCovered:  "exact bytes of reassembled files over loss/duplication/reordering sequences; sender-side chunk size arithmetic (value-level)",
		Run:         runC15,
	})
}

func runC15(e *Engine, r *Report) {
	const cT = "(*internal/transport.Chunk)."
	record := r.need(cT + "record")
	addLocked := r.need(cT + "addLocked")
	add := r.need(cT + "Add")
	save := r.need(cT + "save")
	finalize := r.need(cT + "finalize")
	rmTemp := r.need(cT + "removeTempDir")
	reset := r.need(cT + "reset")
	nodeRemoved := r.need(cT + "nodeRemoved")
	if record == nil || addLocked == nil || add == nil || save == nil || finalize == nil || rmTemp == nil || reset == nil || nodeRemoved == nil {
		return
	}
	nextF := r.needField("internal/transport", "tracked", "next")
	firstF := r.needField("internal/transport", "tracked", "first")
	chunkID := r.needField("raftpb", "Chunk", "ChunkId")
	fromF := r.needField("raftpb", "Chunk", "From")
	didF := r.needField("raftpb", "Chunk", "DeploymentId")
	binVerF := r.needField("raftpb", "Chunk", "BinVer")
	cDid := r.needField("internal/transport", "Chunk", "did")
	validateF := r.needField("internal/transport", "Chunk", "validate")
	trackedF := r.needField("internal/transport", "Chunk", "tracked")
	if nextF == nil || firstF == nil || chunkID == nil || fromF == nil || didF == nil || binVerF == nil || cDid == nil || validateF == nil || trackedF == nil {
		return
	}
	exact := func(name, op string, l, rr VM) Req {
		return Req{Name: name, Has: func(fs []Fact) bool { return hasCmpFactExact(fs, op, l, rr) }}
	}
	// ---- acceptance of a non-first chunk
	n := 0
	for _, w := range e.FieldWrites(nextF) {
		if w.Fn != record || w.Kind != "store" {
			continue
		}
		n++
		r.guard("GD-chunk-accept", "stream position advanced in "+fname(record), w.Instr,
			exact("chunk id == next expected id", "==", fieldV(nextF), fieldV(chunkID)),
			exact("sender == sender of the first chunk", "==", fieldV(fromF), fieldV(fromF)),
			Req{Name: "stream is tracked (td != nil)", Has: func(fs []Fact) bool {
				for _, f := range fs {
					if b, ok := f.V.(*ssa.BinOp); ok && isNilConst(b.Y) && strings.HasSuffix(b.X.Type().String(), "transport.tracked") {
						if (b.Op.String() == "==" && !f.Pol) || (b.Op.String() == "!=" && f.Pol) {
							return true
						}
					}
				}
				return false
			}})
		// the new position is chunk id + 1
		okv := false
		if b, ok := stripConv(w.Val).(*ssa.BinOp); ok && b.Op.String() == "+" && fieldV(chunkID)(b.X) && intConstV(1)(b.Y) {
			okv = true
		}
		r.check(okv, "GD-chunk-accept", "next expected id = accepted id + 1", e.ipos(w.Instr), "position advances by one", "the stream position is not advanced to the accepted id + 1")
	}
	r.floor("GD-chunk-accept", n, 1)
	// rejected chunks store nothing: every nil return of record for id != 0 precedes any store... covered by the guard above
	// first chunk: a new tracked record starts at next = 1 with the chunk as `first`
	// ---- Add: deployment id and binary version
	binC := e.Const("raftio", "TransportBinVersion")
	for _, s := range e.SitesIn(add, addLocked) {
		r.guard("GD-chunk-accept", "addLocked reached in "+fname(add), s.(ssa.Instruction),
			exact("chunk.DeploymentId == receiver's deployment id", "==", fieldV(didF), fieldV(cDid)),
			exact("chunk.BinVer == TransportBinVersion", "==", fieldV(binVerF), constV(binC)))
		// under the per-stream lock
		lockFn := e.Func("(*internal/transport.ssLock).lock")
		o, _ := e.alwaysPrecededBy(s.(ssa.Instruction), func(in ssa.Instruction) bool { c, ok := in.(*ssa.Call); return ok && e.CallsTo(c, lockFn) }, 0)
		r.check(o, "LS-chunk-lock", "addLocked runs under the per-stream lock", e.ipos(s), "one chunk of a stream is processed at a time", "chunks of one stream can be processed concurrently")
	}
	for _, s := range e.CallerSites(addLocked) {
		r.check(s.Parent() == add, "LS-chunk-lock", "addLocked called in "+fname(s.Parent()), e.ipos(s), "only through Add", "addLocked is called without going through Add's checks")
	}
	// ---- addLocked: save only for tracked, not-removed, validated chunks
	validatorAdd := e.Func("(*internal/rsm.SnapshotValidator).AddChunk")
	validatorVal := e.Func("(*internal/rsm.SnapshotValidator).Validate")
	shouldValidate := e.Func(cT + "shouldValidate")
	for _, s := range e.SitesIn(addLocked, save) {
		reqs := []Req{
			reqBool("replica not marked removed", func(v ssa.Value) bool {
				ex, ok := v.(*ssa.Extract)
				return ok && ex.Index == 0 && e.callV(nodeRemoved)(ex)
			}, false),
			Req{Name: "chunk was accepted by record() (td != nil)", Has: func(fs []Fact) bool {
				for _, f := range fs {
					if b, ok := f.V.(*ssa.BinOp); ok && isNilConst(b.Y) && e.callV(record)(b.X) {
						if (b.Op.String() == "==" && !f.Pol) || (b.Op.String() == "!=" && f.Pol) {
							return true
						}
					}
				}
				return false
			}},
		}
		if validatorAdd != nil && shouldValidate != nil {
			reqs = append(reqs, reqAny("incremental validation passed (or the chunk is not subject to it)",
				reqBool("", e.callV(validatorAdd), true), reqBool("", e.callV(shouldValidate), false)))
		}
		r.guard("GD-chunk-save", "chunk saved in "+fname(addLocked), s.(ssa.Instruction), reqs...)
	}
	if shouldValidate != nil {
		hfi := e.Field("raftpb", "Chunk", "HasFileInfo")
		okS := e.returnDependsOn(shouldValidate, isFieldLoad(validateF), 0) && e.returnDependsOn(shouldValidate, isFieldLoad(hfi), 0)
		r.check(okS, "GD-chunk-save", "shouldValidate depends on the validate switch and HasFileInfo only", e.pos(shouldValidate.Pos()), "every main-file chunk after the first is validated", "shouldValidate no longer depends on c.validate and HasFileInfo")
	}
	// validate is constant true in the program
	okConst := true
	nw := 0
	for _, w := range e.FieldWrites(validateF) {
		nw++
		if cb, isC := isConstBool(w.Val); !isC || !cb {
			okConst = false
		}
	}
	r.check(okConst && nw >= 1, "CONST-validate", "Chunk.validate is only ever set to true", "-", "validation cannot be switched off outside tests", "Chunk.validate can be false in the non-test program: corrupted streams would be finalized")
	// ---- finalize only after the final validation; notification only after finalize
	if validatorVal != nil {
		for _, s := range e.CallerSites(finalize) {
			if !e.IsLive(outermostFn(s.Parent())) {
				continue
			}
			r.guard("GD-chunk-finalize", "finalize in "+fname(s.Parent()), s.(ssa.Instruction),
				reqAny("validator.Validate() is true (validate is constant true)", reqBool("", e.callV(validatorVal), true), reqBool("", fieldV(validateF), false)),
				reqBool("last chunk", func(v ssa.Value) bool {
					c, ok := v.(*ssa.Call)
					return ok && c.Call.StaticCallee() != nil && c.Call.StaticCallee().Name() == "IsLastChunk"
				}, true))
		}
	}
	onReceive := e.Field("internal/transport", "Chunk", "onReceive")
	confirm := e.Field("internal/transport", "Chunk", "confirm")
	n = 0
	// wherever the callbacks are invoked in the package: only after a
	// successful finalize (in the same function or in every caller)
	lastChunkFns := map[*ssa.Function]bool{}
	for _, s := range e.CallerSites(finalize) {
		lastChunkFns[s.Parent()] = true
	}
	for _, fn := range e.ScopeFuncs() {
		if fnPkg(fn) != e.pkgTypes("internal/transport") || !e.IsLive(outermostFn(fn)) {
			continue
		}
		forEachCall(fn, func(s ssa.CallInstruction) {
			if !fieldV(onReceive)(s.Common().Value) && !fieldV(confirm)(s.Common().Value) {
				return
			}
			n++
			r.check(e.afterSuccessOf(s.(ssa.Instruction), finalize, 2), "MPT-notify-after-finalize", "snapshot notification #"+itoa(n)+" in "+fname(fn)+" after a successful finalize", e.ipos(s),
				"InstallSnapshot is delivered only for a finalized snapshot directory", "the snapshot notification can be delivered without a successful finalize")
		})
	}
	r.floor("MPT-notify-after-finalize", n, 2)
	// ---- dropping a stream removes its temp dir
	n = 0
	for _, s := range e.CallerSites(reset) {
		fn := s.Parent()
		if lastChunkFns[fn] {
			continue // the directory was renamed by finalize or removed on the failing branches (checked below)
		}
		n++
		o, _ := e.alwaysPrecededBy(s.(ssa.Instruction), func(in ssa.Instruction) bool { c, ok := in.(*ssa.Call); return ok && e.CallsTo(c, rmTemp) }, 0)
		r.check(o, "PAIR-chunk-tempdir", "tracked stream dropped in "+fname(fn)+" after removing its temp dir", e.ipos(s),
			"an abandoned stream leaves no temporary directory", "a tracked stream can be dropped without removing its temporary directory")
	}
	r.floor("PAIR-chunk-tempdir", n, 2)
	// addLocked: every `return false` after the chunk was tracked and saved/validated on the last chunk removes the temp dir
	for lcf := range lastChunkFns {
		lcf := lcf
		forEachInstr(lcf, func(in ssa.Instruction) {
			ret, ok := in.(*ssa.Return)
			if !ok {
				return
			}
			if cb, isC := isConstBool(retOperand(ret, 0)); !isC || cb {
				return
			}
			// only for the invalid-stream / failed-finalize exits (after Validate or finalize)
			after := false
			if validatorVal != nil {
				for _, s := range e.SitesIn(lcf, validatorVal) {
					if dominatesInstr(s.(ssa.Instruction), in) {
						after = true
					}
				}
			}
			if !after {
				return
			}
			o, _ := e.alwaysPrecededBy(in, func(x ssa.Instruction) bool { c, ok := x.(*ssa.Call); return ok && e.CallsTo(c, rmTemp) }, 0)
			r.check(o, "PAIR-chunk-tempdir", "rejecting exit after the last chunk removes the temp dir", e.ipos(in), "an invalid or out-of-date stream is cleaned up", "a stream rejected at its last chunk leaves its temporary directory")
		})
	}
	// restart by a new first chunk: the old temp dir is removed before the record is replaced
	for _, w := range e.FieldWrites(trackedF) {
		if w.Fn != record || w.Kind != "mapupdate" {
			continue
		}
		// every path on which the old record exists passes removeTempDir: from the `td != nil` true edge
		okp := false
		forEachInstr(record, func(in ssa.Instruction) {
			ifi, ok := in.(*ssa.If)
			if !ok {
				return
			}
			b, ok := ifi.Cond.(*ssa.BinOp)
			if !ok || !isNilConst(b.Y) || !strings.HasSuffix(b.X.Type().String(), "transport.tracked") || b.Op.String() != "!=" {
				return
			}
			ts := in.Block().Succs[0]
			if len(ts.Instrs) == 0 {
				return
			}
			// ... of the directory of the *tracked* (old) stream: the temp dir name
			// contains the sender, so the incoming chunk names a different one
			// when another sender takes the key over
			firstF := e.Field("internal/transport", "tracked", "first")
			rmOld := func(x ssa.Instruction) bool {
				c, ok := x.(*ssa.Call)
				if !ok || !e.CallsTo(c, rmTemp) {
					return false
				}
				args := c.Call.Args
				return firstF == nil || (len(args) > 0 && e.dependsOn(args[len(args)-1], func(v ssa.Value) bool { return fieldV(firstF)(v) }, 0))
			}
			res := e.findPath(record, ts.Instrs[0], func(x ssa.Instruction) bool { return x == w.Instr }, rmOld, nil)
			if rmOld(ts.Instrs[0]) {
				res.Found = false
			}
			if dominatesInstr(in, w.Instr) && !res.Found {
				okp = true
			}
		})
		r.check(okp, "PAIR-chunk-tempdir", "a restarted stream removes the previous attempt's temp dir", e.ipos(w.Instr), "old chunks do not mix with the new stream", "a new first chunk replaces the tracked record without removing the previous temp dir")
	}
	// gc drops only streams older than the timeout
	if gc := r.need(cT + "gc"); gc != nil {
		timeoutF := e.Field("internal/transport", "Chunk", "timeout")
		for _, an := range gc.AnonFuncs {
			for _, s := range e.SitesIn(an, reset) {
				r.guard("GD-chunk-gc", "gc drops a stream in "+fname(an), s.(ssa.Instruction),
					reqCmp("idle ticks >= timeout", ">=", anyV(), func(v ssa.Value) bool {
						return fieldV(timeoutF)(v) || e.dependsOn(v, func(x ssa.Value) bool { return fieldV(timeoutF)(x) }, 0)
					}))
			}
		}
	}
	// ---- TAINT: chunk-supplied paths reach the file system only through PathBase
	fpFields := map[string]bool{}
	nLoads := 0
	reach := e.Reach([]*ssa.Function{addLocked}, func(f *ssa.Function) bool {
		p := fnPkg(f)
		return p == nil || p != e.pkgTypes("internal/transport")
	})
	for fn := range reach {
		if fnPkg(fn) != e.pkgTypes("internal/transport") {
			continue
		}
		forEachInstr(fn, func(in ssa.Instruction) {
			v, ok := in.(ssa.Value)
			if !ok {
				return
			}
			f, _, ok := loadedField(v)
			if !ok || f.Name() != "Filepath" || f.Pkg() == nil || !strings.HasSuffix(f.Pkg().Path(), "raftpb") {
				return
			}
			fpFields[f.Name()] = true
			nLoads++
			refs := v.Referrers()
			okAll := refs != nil && len(*refs) > 0
			if refs != nil {
				for _, ref := range *refs {
					c, isC := ref.(ssa.CallInstruction)
					if !isC || !c.Common().IsInvoke() || c.Common().Method.Name() != "PathBase" {
						okAll = false
					}
				}
			}
			r.check(okAll, "TAINT-chunk-path", "chunk-supplied Filepath used in "+fname(fn)+" #"+itoa(nLoads), e.ipos(in),
				"the sender-supplied path is reduced to its base name before it is joined with the snapshot directory",
				"a sender-supplied file path is used without PathBase: a chunk could name a file outside the snapshot directory")
		})
	}
	r.floor("TAINT-chunk-path", nLoads, 2)
	ruleChunkFileSync(e, r)
	// ---- a chunk the incremental validator rejects ends the stream: the
	// stream position was already advanced by record(), so unless tracking is
	// dropped the remaining chunks are accepted and the final Validate() -
	// which does not re-check the consumed block - lets the incomplete file
	// be finalized. From the rejecting edge every path to return drops the
	// tracked stream.
	if al := r.need("(*internal/transport.Chunk).addLocked"); al != nil {
		addChunk := e.Func("(*internal/rsm.SnapshotValidator).AddChunk")
		reset := e.Func("(*internal/transport.Chunk).reset")
		resetL := e.Func("(*internal/transport.Chunk).resetLocked")
		isDrop := e.throughHelpers(func(c ssa.CallInstruction) bool {
			return (reset != nil && e.CallsTo(c, reset)) || (resetL != nil && e.CallsTo(c, resetL))
		})
		n := 0
		for _, b := range al.Blocks {
			if len(b.Instrs) == 0 {
				continue
			}
			ifi, ok := b.Instrs[len(b.Instrs)-1].(*ssa.If)
			if !ok {
				continue
			}
			// the rejecting edge of `validator.AddChunk(..)`
			var rej *ssa.BasicBlock
			for _, f := range expandFacts([]Fact{{ifi.Cond, true}}) {
				if c, isC := f.V.(*ssa.Call); isC && methodNamed(c, "AddChunk") && !f.Pol {
					rej = b.Succs[0]
				}
			}
			for _, f := range expandFacts([]Fact{{ifi.Cond, false}}) {
				if c, isC := f.V.(*ssa.Call); isC && methodNamed(c, "AddChunk") && !f.Pol {
					rej = b.Succs[1]
				}
			}
			if rej == nil || len(rej.Instrs) == 0 {
				continue
			}
			n++
			found := false
			if !isDrop(rej.Instrs[0]) {
				if isReturn(rej.Instrs[0]) {
					found = true
				} else {
					found = e.findPath(al, rej.Instrs[0], isReturn, isDrop, nil).Found
				}
			}
			r.check(!found, "MPT-chunk-reject-drops", "a chunk rejected by the incremental validator drops the tracked stream in addLocked", e.ipos(ifi),
				"the corrupt stream is no longer tracked: its remaining chunks are ignored and it cannot be finalized",
				"after the incremental validator rejected a chunk the stream stays tracked with its position already advanced: the following chunks are accepted and the incomplete file can be finalized")
		}
		_ = addChunk
		r.floor("MPT-chunk-reject-drops", n, 1)
	}
	ruleChunkPayloadFresh(e, r)
	ruleChunkDescribesSnapshot(e, r)
	ruleChunkRecordSources(e, r)
	ruleChunkLocksStable(e, r)
	ruleStreamCloseOnSuccess(e, r)
	// chunks travel in frames whose payload checksum gates delivery (decided by C13's rule set)
	borrow(e, r, "C13", "VAL-frame")
	borrow(e, r, "C16", "ERR-refusal")
	borrow(e, r, "C10", "ERR-soft-pairs")
	ruleChunkKeyInjective(e, r)
	ruleChunkCountSource(e, r)
	ruleChunkDataLoad(e, r)
}

// methodNamed: the call is a (static or interface) call of a method/function named name.
func methodNamed(c *ssa.Call, name string) bool {
	if c.Call.IsInvoke() {
		return c.Call.Method.Name() == name
	}
	if sc := c.Call.StaticCallee(); sc != nil {
		return sc.Name() == name
	}
	return false
}
