package main

import (
	"golang.org/x/tools/go/ssa"
)

func init() {
	register(&Property{
		ID:          "C18",
		Explanation: "Decides structural necessary conditions of role separation: the raft handler table has no election/vote-response cell for non-voting members and witnesses and no propose/read/log-query cell for witnesses; candidacy and leadership transitions are reachable only from cells of voter roles; the voting-member count, quorum, the match array used for commit and the check-quorum count are built from remotes+witnesses and never read nonVotings; entries sent to a witness come from the metadata-stripping function (which keeps payloads only for config changes) and a witness's InstallSnapshot goes through the witness-snapshot constructor; every request-accepting entry of the node refuses a witness; a witness never saves a state-machine snapshot. Does not decide behaviour of mixed-role clusters over schedules.",
		NotCovered:  "timing of promotion/removal versus in-flight messages; that a removed leader steps down within bounded time",
		Run:         runC18,
	})
}

func runC18(e *Engine, r *Report) {
	// borrowed mechanism (round 9): no campaign while a membership change is committed but not applied (C03): the campaign would run on the stale member set
	borrow(e, r, "C03", "GD-campaign-pred")
	// borrowed mechanisms (session 6, round 8): votes of non-members are dropped (C03); a replica changes kind only by promotion (C07)
	borrow(e, r, "C03", "TBL-response-types")
	borrow(e, r, "C07", "TBL-cc-predicate")
	tbl, err := e.RaftHandlerTable()
	if err != nil {
		r.undecided("TBL", "raft.handlers", err.Error())
		return
	}
	r.floor("TBL-cells", len(tbl.Cells), 60)
	for _, st := range []string{"follower", "candidate", "preVoteCandidate", "leader", "nonVoting", "witness"} {
		r.check(tbl.States[st], "TBL-states", "role "+st+" has handler cells", "-", "role present in the table", "role has no cells: table extraction lost it")
	}
	// ---- absent cells
	absent := map[string][]string{
		"nonVoting": {"Election", "RequestVoteResp", "RequestPreVoteResp", "TimeoutNow"},
		"witness":   {"Election", "RequestVoteResp", "RequestPreVoteResp", "TimeoutNow", "Propose", "ReadIndex", "ReadIndexResp", "LogQuery", "LeaderTransfer"},
	}
	for _, role := range []string{"nonVoting", "witness"} {
		for _, ty := range absent[role] {
			c := tbl.Get(role, ty)
			pos := "-"
			if c != nil {
				pos = e.pos(c.Pos)
			}
			r.check(c == nil, "TBL-absent", "no handler for "+role+"/"+ty, pos,
				"cell is empty: the role ignores this message type",
				"a handler is registered for a message type this role must never act on")
		}
	}
	// ---- candidacy / leadership only from voter roles
	voter := map[string]bool{"follower": true, "candidate": true, "preVoteCandidate": true, "leader": true}
	n := 0
	for _, name := range []string{"becomeLeader", "becomeCandidate", "becomePreVoteCandidate", "campaign", "preVoteCampaign"} {
		fn := r.need(raftT + name)
		if fn == nil {
			continue
		}
		for _, c := range e.CellsReaching(tbl, fn) {
			n++
			r.check(voter[c.State], "WMC-voter-roles", name+" reachable from cell "+c.State+"/"+c.Type, e.pos(c.Pos),
				"transition is driven by a voter role's cell", "a non-voter role's handler can reach "+name)
		}
		// the transition itself fail-stops for non-voter roles
		if name == "becomeCandidate" || name == "becomePreVoteCandidate" {
			for _, pn := range []string{"isNonVoting", "isWitness"} {
				pred := r.need(raftT + pn)
				if pred == nil {
					continue
				}
				stateF := e.Field("internal/raft", "raft", "state")
				for _, w := range e.FieldWrites(stateF) {
					if w.Fn == fn {
						r.guard("GD-voter-roles", name+" role store", w.Instr, reqBool(pn+"() is false", e.callV(pred), false))
					}
				}
			}
		}
	}
	r.floor("WMC-voter-roles", n, 8)

	// ---- quorum arithmetic ignores non-voting members
	remotes := r.needField("internal/raft", "raft", "remotes")
	nonVotings := r.needField("internal/raft", "raft", "nonVotings")
	witnesses := r.needField("internal/raft", "raft", "witnesses")
	matched := r.needField("internal/raft", "raft", "matched")
	if remotes == nil || nonVotings == nil || witnesses == nil || matched == nil {
		return
	}
	readsNV := func(fn *ssa.Function) bool { return len(FieldReads(fn, nonVotings)) > 0 }
	for _, name := range []string{"numVotingMembers", "quorum", "isSingleNodeQuorum", "votingMembers", "leaderHasQuorum", "tryCommit", "resetMatchValueArray", "sortMatchValues"} {
		fn := r.need(raftT + name)
		if fn == nil {
			continue
		}
		r.check(!readsNV(fn), "DEP-no-nonvoting", name+" does not read raft.nonVotings", e.pos(fn.Pos()),
			"quorum arithmetic is independent of non-voting members", name+" reads raft.nonVotings: non-voting members would count towards a quorum")
	}
	if nv := r.need(raftT + "numVotingMembers"); nv != nil {
		dr := e.returnDependsOn(nv, func(v ssa.Value) bool { return lenOfV(fieldV(remotes))(v) }, 0)
		dw := e.returnDependsOn(nv, func(v ssa.Value) bool { return lenOfV(fieldV(witnesses))(v) }, 0)
		r.check(dr && dw, "DEP-voting-count", "numVotingMembers = len(remotes)+len(witnesses)", e.pos(nv.Pos()),
			"the voting-member count includes regular members and witnesses", "the voting-member count no longer includes both remotes and witnesses")
	}
	if vm := r.need(raftT + "votingMembers"); vm != nil {
		// the result map is filled from ranges over remotes and witnesses
		src := map[string]bool{}
		forEachInstr(vm, func(in ssa.Instruction) {
			if rg, ok := in.(*ssa.Range); ok {
				if fieldV(remotes)(rg.X) {
					src["remotes"] = true
				}
				if fieldV(witnesses)(rg.X) {
					src["witnesses"] = true
				}
				if fieldV(nonVotings)(rg.X) {
					src["nonVotings"] = true
				}
			}
		})
		r.check(src["remotes"] && src["witnesses"] && !src["nonVotings"], "DEP-voting-count", "votingMembers ranges remotes and witnesses only", e.pos(vm.Pos()),
			"voting members are exactly remotes ∪ witnesses", "votingMembers no longer ranges exactly remotes and witnesses")
	}
	if tc := r.need(raftT + "tryCommit"); tc != nil {
		// every element store into raft.matched (wherever the filling loop
		// lives) takes remote.match of a member ranged from remotes or witnesses
		matchF := e.Field("internal/raft", "remote", "match")
		cnt := 0
		for _, w := range e.FieldWrites(matched) {
			if w.Kind != "elemstore" || !fieldV(matchF)(w.Val) {
				continue // sorting swaps elements of the array among themselves
			}
			cnt++
			okv := e.dependsOn(w.Val, func(v ssa.Value) bool {
				rg, ok := v.(*ssa.Range)
				return ok && (fieldV(remotes)(rg.X) || fieldV(witnesses)(rg.X))
			}, 0) && !e.dependsOn(w.Val, func(v ssa.Value) bool {
				rg, ok := v.(*ssa.Range)
				return ok && fieldV(nonVotings)(rg.X)
			}, 0)
			r.check(okv, "DEP-match-array", "matched[] filled from remotes/witnesses in "+fname(w.Fn)+" #"+itoa(cnt), e.ipos(w.Instr),
				"commit quorum counts match values of voting members only", "a match value that does not come from remotes/witnesses enters the commit computation")
		}
		r.floor("DEP-match-array", cnt, 2)
		// the index handed to entryLog.tryCommit derives from
		// matched[numVotingMembers() - quorum()] (directly or through a helper)
		nv, q := e.Func(raftT+"numVotingMembers"), e.Func(raftT+"quorum")
		logTryCommit := r.need("(*internal/raft.entryLog).tryCommit")
		isCandidate := func(v ssa.Value) bool {
			ld, ok := v.(*ssa.UnOp)
			if !ok {
				return false
			}
			ia, ok := ld.X.(*ssa.IndexAddr)
			if !ok || !fieldV(matched)(ia.X) {
				return false
			}
			b, ok := stripConv(ia.Index).(*ssa.BinOp)
			return ok && b.Op.String() == "-" && e.callV(nv)(b.X) && e.callV(q)(b.Y)
		}
		nc := 0
		if logTryCommit != nil {
			for _, s := range e.CallerSites(logTryCommit) {
				if fnPkg(s.Parent()) != e.pkgTypes("internal/raft") || !e.IsLive(outermostFn(s.Parent())) {
					continue
				}
				args := s.Common().Args
				if len(args) < 2 {
					continue
				}
				nc++
				r.check(e.dependsOn(args[1], isCandidate, 2), "DEP-match-array", "commit candidate in "+fname(s.Parent())+" is matched[numVotingMembers()-quorum()]", e.ipos(s),
					"the commit candidate is the quorum-th largest match", "the commit candidate is no longer matched[numVotingMembers()-quorum()]")
			}
		}
		r.floor("DEP-match-array-candidate", nc, 1)
	}
	if lq := r.need(raftT + "leaderHasQuorum"); lq != nil {
		vm, q := e.Func(raftT+"votingMembers"), e.Func(raftT+"quorum")
		okr := false
		forEachInstr(lq, func(in ssa.Instruction) {
			if rg, ok := in.(*ssa.Range); ok && e.callV(vm)(rg.X) {
				okr = true
			}
		})
		okc := false
		forEachInstr(lq, func(in ssa.Instruction) {
			if ret, ok := in.(*ssa.Return); ok {
				if hasCmpFact([]Fact{{retOperand(ret, 0), true}}, ">=", anyV(), e.callV(q)) {
					okc = true
				}
			}
		})
		r.check(okr && okc, "DEP-checkquorum", "leaderHasQuorum counts votingMembers() against quorum()", e.pos(lq.Pos()),
			"check-quorum counts active voting members and compares with quorum()", "check-quorum no longer ranges votingMembers() or compares with quorum()")
	}

	// ---- witness payload stripping
	strip := r.need("internal/raft.makeMetadataEntries")
	wsnap := r.helper("internal/raft.makeWitnessSnapshot")
	msgEntries := r.needField("raftpb", "Message", "Entries")
	msgSnapshot := r.needField("raftpb", "Message", "Snapshot")
	msgType := r.needField("raftpb", "Message", "Type")
	replicateC := r.needConst("raftpb", "Replicate")
	if strip != nil && msgEntries != nil && msgSnapshot != nil && msgType != nil && replicateC != nil {
		witnessOK := func(pol bool) func(fs []Fact) bool {
			return func(fs []Fact) bool {
				return e.holds(reqBool("witness lookup", func(v ssa.Value) bool {
					ex, ok := v.(*ssa.Extract)
					if !ok || ex.Index != 1 {
						return false
					}
					lk, ok := ex.Tuple.(*ssa.Lookup)
					return ok && fieldV(witnesses)(lk.X)
				}, pol), fs, 2)
			}
		}
		// functions that build a Replicate message with entries
		n = 0
		for _, fn := range e.ScopeFuncs() {
			if p := fnPkg(fn); p == nil || p != e.pkgTypes("internal/raft") {
				continue
			}
			buildsReplicate := false
			var entStores []*ssa.Store
			forEachInstr(fn, func(in ssa.Instruction) {
				st, ok := in.(*ssa.Store)
				if !ok {
					return
				}
				f, _, ok := fieldOfAddr(st.Addr)
				if !ok {
					return
				}
				if f == msgType && constV(replicateC)(st.Val) {
					buildsReplicate = true
				}
				if f == msgEntries {
					entStores = append(entStores, st)
				}
			})
			if !buildsReplicate {
				continue
			}
			for _, st := range entStores {
				n++
				key := "Replicate.Entries built in " + fname(fn)
				ok := phiSelectsUnder(e, st.Val, e.callV(strip), witnessOK)
				r.check(ok, "GD-witness-entries", key, e.ipos(st),
					"for a witness target the entries come from the metadata-stripping function; full entries only when the witness lookup is false",
					"a Replicate message can carry unstripped entries to a witness")
			}
		}
		r.floor("GD-witness-entries", n, 1)
		// the stripping function keeps a full entry only for config changes
		entType := e.Field("raftpb", "Entry", "Type")
		ccConst := e.Const("raftpb", "ConfigChangeEntry")
		cnt := 0
		forEachInstr(strip, func(in ssa.Instruction) {
			// whole-entry copies: store of a loaded pb.Entry value into the result slice backing array
			st, ok := in.(*ssa.Store)
			if !ok {
				return
			}
			if _, isIdx := st.Addr.(*ssa.IndexAddr); !isIdx {
				return
			}
			ld, ok := st.Val.(*ssa.UnOp)
			if !ok {
				return
			}
			if n, ok := ld.Type().(interface {
				Obj() interface{ Name() string }
			}); ok {
				_ = n
			}
			if ld.Type().String() != "github.com/lni/dragonboat/v4/raftpb.Entry" {
				return
			}
			if _, fresh := ld.X.(*ssa.Alloc); fresh {
				// a freshly built literal (metadata entry) or the range copy; distinguish: the range copy's alloc is stored from an IndexAddr load
				al := ld.X.(*ssa.Alloc)
				full := false
				for _, ref := range *al.Referrers() {
					if s2, ok := ref.(*ssa.Store); ok && s2.Addr == al {
						if _, isLoad := s2.Val.(*ssa.UnOp); isLoad {
							full = true
						}
					}
				}
				if !full {
					// literal: must not set Cmd
					for _, ref := range *al.Referrers() {
						if fa, ok := ref.(*ssa.FieldAddr); ok {
							stt := derefStruct(fa.X.Type())
							if stt != nil && stt.Field(fa.Field).Name() == "Cmd" {
								r.bad("GD-witness-strip", "metadata entry literal sets Cmd in "+fname(strip), e.ipos(fa), "the metadata entry built for a witness carries a payload")
							}
						}
					}
					return
				}
			}
			cnt++
			r.guard("GD-witness-strip", "full entry kept in "+fname(strip), in,
				reqCmp("entry type == ConfigChangeEntry", "==", fieldV(entType), constV(ccConst)))
		})
		r.floor("GD-witness-strip", cnt, 1)
		// witness snapshot
		n = 0
		for _, w := range e.FieldWrites(msgSnapshot) {
			if fnPkg(w.Fn) != e.pkgTypes("internal/raft") || w.Kind == "init" {
				continue
			}
			// only the InstallSnapshot constructor (the function that stores Type=InstallSnapshot)
			isC := e.Const("raftpb", "InstallSnapshot")
			builds := false
			forEachInstr(w.Fn, func(in ssa.Instruction) {
				if st, ok := in.(*ssa.Store); ok {
					if f, _, ok := fieldOfAddr(st.Addr); ok && f == msgType && constV(isC)(st.Val) {
						builds = true
					}
				}
			})
			if !builds {
				continue
			}
			n++
			ok := false
			if wsnap != nil {
				ok = phiSelectsUnder(e, w.Val, e.callV(wsnap), witnessOK)
			} else {
				// role-level form (the stripping helper was inlined): on the
				// witness edge the snapshot copy is marked Witness and loses its files
				ssWitness := e.Field("raftpb", "Snapshot", "Witness")
				forEachInstr(w.Fn, func(in ssa.Instruction) {
					if st, isS := in.(*ssa.Store); isS {
						if f, _, isF := fieldOfAddr(st.Addr); isF && f == ssWitness {
							if cb, isC := isConstBool(st.Val); isC && cb && witnessOK(true)(FactsAt(in)) {
								ok = true
							}
						}
					}
				})
			}
			r.check(ok, "GD-witness-snapshot", "InstallSnapshot.Snapshot built in "+fname(w.Fn), e.ipos(w.Instr),
				"a witness receives the stripped witness snapshot", "a witness can be sent a full snapshot record")
		}
		r.floor("GD-witness-snapshot", n, 1)
	}

	// ---- node API refuses witnesses
	isW := r.need("(*dragonboat.node).isWitness")
	if isW != nil {
		accept := []string{
			"(*dragonboat.pendingProposal).propose", "(*dragonboat.pendingReadIndex).read",
			"(*dragonboat.pendingLeaderTransfer).request", "(*dragonboat.pendingSnapshot).request",
			"(*dragonboat.pendingRaftLogQuery).add", "(*dragonboat.pendingConfigChange).request",
		}
		n = 0
		for _, a := range accept {
			fn := r.need(a)
			if fn == nil {
				continue
			}
			for _, s := range e.CallerSites(fn) {
				if pk := fnPkg(s.Parent()); pk == nil || !scopePkg(pk.Path()) {
					continue
				}
				n++
				r.guard("GD-witness-api", a+" called in "+fname(s.Parent()), s.(ssa.Instruction),
					reqBool("node.isWitness() is false", e.callV(isW), false))
			}
		}
		r.floor("GD-witness-api", n, 7)
		cfgW := e.Field("config", "Config", "IsWitness")
		r.check(cfgW != nil && e.returnDependsOn(isW, isFieldLoad(cfgW), 0), "GD-witness-api", "node.isWitness reads Config.IsWitness", e.pos(isW.Pos()),
			"the witness test reads the replica's configuration", "node.isWitness no longer reads Config.IsWitness")
	}
	// ---- a witness never saves a state machine snapshot (rsm.StateMachine.Save fail-stops)
	save := r.need("(*internal/rsm.StateMachine).Save")
	smW := r.needField("internal/rsm", "StateMachine", "isWitness")
	if save != nil && smW != nil {
		// every path from entry to a normal return passes a branch on isWitness being false
		okw := true
		forEachInstr(save, func(in ssa.Instruction) {
			if _, ok := in.(*ssa.Return); ok {
				if g, _ := e.guardedOnAllPaths(in, reqBool("", fieldV(smW), false)); !g {
					okw = false
				}
			}
		})
		r.check(okw, "GD-witness-save", "StateMachine.Save fail-stops on a witness", e.pos(save.Pos()),
			"snapshot save returns only when the replica is not a witness", "snapshot save can complete on a witness")
	}
	// ---- a removed replica stops campaigning: the election timer is gated by selfRemoved()
	ruleElectionMessageGuard(e, r)
	ruleHintVoting(e, r)
	ruleSingleNodeQuorum(e, r)
	ruleSelfRemoved(e, r)
	borrow(e, r, "C08", "MPT-restore-replaces")
	borrow(e, r, "C03", "GD-tally")
	ruleTallyDistinct(e, r)
	ruleRestoreRegistersAll(e, r)
	ruleRemovedLeaderStepsDown(e, r)
	ruleConfirmFromAllVoters(e, r)
	ruleHeartbeatRespProducer(e, r)
	ruleTransferTarget(e, r)
	borrow(e, r, "C20", "TBL-import-validators")
	borrow(e, r, "C03", "GD-campaign")
	// read-confirmation quorums count distinct voting members: the confirmation bookkeeping of the read index (C06)
	borrow(e, r, "C06", "GD-confirm")
}

func itoa(i int) string {
	const d = "0123456789"
	if i < 10 {
		return d[i : i+1]
	}
	return itoa(i/10) + d[i%10:i%10+1]
}

// phiSelectsUnder: v is a phi (or direct value) such that every edge that is
// NOT a `want` value enters the phi only under sel(false), i.e. the
// alternative to the sanitised value is taken only when the selector lookup
// failed; and at least one edge is a `want` value entered under sel(true).
func phiSelectsUnder(e *Engine, v ssa.Value, want VM, sel func(pol bool) func([]Fact) bool) bool {
	if want(v) {
		return true
	}
	// look through a local variable slot: every path from a store of a
	// non-sanitised value to the use either passes a store of the sanitised
	// value or an edge on which the selector is false.
	if ld, ok := v.(*ssa.UnOp); ok {
		if al, ok := ld.X.(*ssa.Alloc); ok {
			var wantStores, otherStores []*ssa.Store
			for _, ref := range *al.Referrers() {
				if st, ok := ref.(*ssa.Store); ok && st.Addr == al {
					if want(st.Val) {
						wantStores = append(wantStores, st)
					} else {
						otherStores = append(otherStores, st)
					}
				}
			}
			if len(wantStores) == 0 {
				return false
			}
			isWant := func(in ssa.Instruction) bool {
				for _, w := range wantStores {
					if in == ssa.Instruction(w) {
						return true
					}
				}
				return false
			}
			for _, o := range otherStores {
				res := e.findPath(al.Parent(), o, func(in ssa.Instruction) bool { return in == ssa.Instruction(ld) }, isWant,
					func(p, s2 *ssa.BasicBlock) bool {
						return !sel(false)(expandFacts(edgeOnly(p, s2)))
					})
				if res.Found {
					return false
				}
			}
			return true
		}
	}
	ph, ok := v.(*ssa.Phi)
	if !ok {
		return false
	}
	sawWant := false
	for i, ed := range ph.Edges {
		pred := ph.Block().Preds[i]
		fs := expandFacts(edgeFacts(pred, ph.Block()))
		if want(ed) {
			sawWant = true
			continue
		}
		if !sel(false)(fs) {
			return false
		}
	}
	return sawWant
}
