package main

import (
	"go/types"
	"strings"

	"golang.org/x/tools/go/ssa"
)

func init() {
	register(&Property{
		ID:          "C08",
		Explanation: "Decides structural necessary conditions of 'snapshot + log suffix = full replay': log compaction is requested only after the snapshot was committed (published and recorded) and registered with the log reader, and the compaction index never exceeds snapshot index minus the overhead; entries are removed from the log store only through the compact-log request; on snapshot recovery of an on-disk state machine the state machine is synced before the received image is shrunk; snapshot metadata (index, term, membership, sessions, on-disk index) is captured under the state-machine lock and every field of the Snapshot record is filled from that metadata; applying a recovered snapshot restores index AND term of both the applied and the last-applied cursors and the membership; sessions and membership are part of every snapshot and restored before user data (shared with C05); the last-applied cursor is published only after the entries were applied; a leader that cannot send log entries because they were compacted falls back to InstallSnapshot. Does not decide state equality of twin replicas. The on-disk cursors move only from Open, behind the apply-path assertions (to the upper index of the run), or from a snapshot that was loaded.",
		NotCovered:  "equality of user state between a snapshot-recovered replica and a full-replay twin; on-disk index arithmetic",
		Run:         runC08,
	})
}

func runC08(e *Engine, r *Report) {
	// borrowed mechanisms (session 6, round 8): a snapshot the log was compacted behind is durable: header written before the file is fsynced (C14/C16)
	borrow(e, r, "C14", "MPT-writer-close")
	isCall := func(f *ssa.Function) func(ssa.Instruction) bool {
		return func(in ssa.Instruction) bool {
			c, ok := in.(*ssa.Call)
			return ok && f != nil && e.CallsTo(c, f)
		}
	}
	// ---- compaction only after commit + log reader registration
	compactLog := r.helper("(*dragonboat.node).compactLog")
	if compactLog == nil {
		// inlined: the role "request compaction" is the store of the compaction target
		compactLog = r.need("(*dragonboat.snapshotState).setCompactLogTo")
	}
	commit := r.need("(*dragonboat.snapshotter).Commit")
	createSS := r.need("(*internal/logdb.LogReader).CreateSnapshot")
	doSave := r.need("(*dragonboat.node).doSave")
	recoverFn := r.need("(*dragonboat.node).recover")
	smRecover := r.need("(*internal/rsm.StateMachine).Recover")
	if compactLog != nil && commit != nil && createSS != nil && doSave != nil && recoverFn != nil && smRecover != nil {
		n := 0
		isEmpty := e.PkgFunc("raftpb", "IsEmptySnapshot")
		for _, s := range e.CallerSites(compactLog) {
			n++
			fn := s.Parent()
			key := "compactLog called in " + fname(fn)
			// role-based, not caller-name based: wherever compaction is
			// requested, it comes after a successful publish+record of the
			// snapshot (save path) or after a successfully recovered non-empty
			// snapshot (recover path), possibly established in a caller.
			si := s.(ssa.Instruction)
			savePath := e.afterSuccessOf(si, commit, 2) && e.afterSuccessOf(si, createSS, 2)
			recPath := false
			if e.afterSuccessOf(si, smRecover, 2) {
				g, _ := e.guardedOnAllPaths(si, reqBool("", e.callV(isEmpty), false))
				recPath = g
			}
			r.check(savePath || recPath, "MPT-compact-after-commit", key, e.ipos(s),
				"the log is compacted only after the snapshot is published, recorded and known to the log reader (or after a recovered, non-empty snapshot)",
				"log compaction can be requested before/without the snapshot it relies on being committed, recorded in the log store and registered with the log reader (an exported snapshot is never recorded)")
		}
		r.floor("MPT-compact-after-commit", n, 2)
	}
	// compaction index <= snapshot index - overhead (never beyond the snapshot)
	if gci := r.need("(*dragonboat.node).getCompactionIndex"); gci != nil {
		okAll := true
		cnt := 0
		forEachInstr(gci, func(in ssa.Instruction) {
			ret, ok := in.(*ssa.Return)
			if !ok || len(ret.Results) < 2 {
				return
			}
			if cb, isC := isConstBool(retOperand(ret, 1)); !isC || !cb {
				return
			}
			cnt++
			v := retOperand(ret, 0)
			var idx VM = func(x ssa.Value) bool { p, ok := stripConv(x).(*ssa.Parameter); return ok && p.Name() == "index" }
			// either index - overhead under index > overhead, or CompactionIndex under index >= CompactionIndex+1
			if b, ok := stripConv(v).(*ssa.BinOp); ok && b.Op.String() == "-" && idx(b.X) {
				g, _ := e.guardedOnAllPaths(in, reqCmp("", ">", idx, sameExprV(b.Y)))
				if !g {
					okAll = false
				}
			} else {
				plusOne := func(x ssa.Value) bool {
					b, ok := stripConv(x).(*ssa.BinOp)
					return ok && b.Op.String() == "+" && sameExprV(v)(b.X) && intConstV(1)(b.Y)
				}
				g, _ := e.guardedOnAllPaths(in, reqAny("", reqCmp("", ">", idx, sameExprV(v)), reqCmp("", ">=", idx, plusOne)))
				if !g {
					okAll = false
				}
			}
		})
		r.check(okAll && cnt >= 1, "GD-compaction-index", "getCompactionIndex returns an index below the snapshot index", e.pos(gci.Pos()),
			"every compaction index is strictly below the snapshot index (guarded subtraction)", "a compaction index is returned without the guard that keeps it below the snapshot index")
	}
	// RemoveEntriesTo only from removeLog under hasCompactLogTo
	rmM := e.Method("raftio", "ILogDB", "RemoveEntriesTo")
	removeLog := r.need("(*dragonboat.node).removeLog")
	hasCT := r.need("(*dragonboat.snapshotState).hasCompactLogTo")
	if rmM != nil && removeLog != nil && hasCT != nil {
		root := e.pkgTypes("dragonboat")
		n := 0
		for _, s := range e.AllMethodSites(rmM) {
			if fnPkg(s.Parent()) != root || !e.IsLive(s.Parent()) {
				continue
			}
			n++
			okRole := e.onlyCalledFrom(s.Parent(), map[string]bool{fname(removeLog): true}, map[string]bool{}, 2)
			r.check(okRole, "WMC-remove-entries", "ILogDB.RemoveEntriesTo called in "+fname(s.Parent()), e.ipos(s), "entries are removed only by removeLog (or a helper only it calls)", "log entries are removed from the store outside removeLog")
			r.guard("WMC-remove-entries", "RemoveEntriesTo in "+fname(s.Parent()), s.(ssa.Instruction), reqBool("hasCompactLogTo() is true", e.callV(hasCT), true))
			// argument is the requested compact-to index
			getCT := e.Func("(*dragonboat.snapshotState).getCompactLogTo")
			args := s.Common().Args
			okArg := getCT != nil && e.callV(getCT)(args[len(args)-1])
			if !okArg && getCT != nil {
				// through a helper: the helper's parameter, bound at each call site to the compact-to index
				if p, isP := stripConv(args[len(args)-1]).(*ssa.Parameter); isP && p.Parent() == s.Parent() {
					okArg = true
					for pi, q := range s.Parent().Params {
						if q != p {
							continue
						}
						for _, cs := range e.CallerSites(s.Parent()) {
							if pi >= len(cs.Common().Args) || !e.dependsOn(cs.Common().Args[pi], e.callV(getCT), 0) {
								okArg = false
							}
						}
					}
				}
			}
			r.check(okArg, "WMC-remove-entries", "RemoveEntriesTo(compactTo) in "+fname(s.Parent()), e.ipos(s), "removes up to the requested index", "RemoveEntriesTo is not given the compact-log-to index")
		}
		r.floor("WMC-remove-entries", n, 1)
		// setCompactLogTo only via compactLog
		if sct := e.Func("(*dragonboat.snapshotState).setCompactLogTo"); sct != nil && compactLog != nil {
			for _, s := range e.CallerSites(sct) {
				r.check(s.Parent() == compactLog || compactLog == sct, "WMC-remove-entries", "setCompactLogTo called in "+fname(s.Parent()), e.ipos(s), "compaction is requested only through compactLog", "a compaction request is created outside compactLog")
			}
		}
	}
	// ---- recover: sync before shrink (on-disk SM)
	if recoverFn != nil {
		shrink := r.need("(*dragonboat.snapshotter).Shrink")
		smSync := r.need("(*internal/rsm.StateMachine).Sync")
		if shrink != nil && smSync != nil {
			for _, s := range e.SitesIn(recoverFn, shrink) {
				o, _ := e.alwaysPrecededBy(s.(ssa.Instruction), isCall(smSync), 0)
				r.check(o && notFromErrEdge(e, recoverFn, smSync, s), "MPT-sync-before-shrink", "Shrink in node.recover after a successful Sync", e.ipos(s),
					"the received image is dropped only after the on-disk state machine made its content durable",
					"the received snapshot can be shrunk before the on-disk state machine was synced: a crash in between loses the only durable copy")
			}
		}
	}
	// ---- snapshot meta captured under the SM lock
	smMu := e.Field("internal/rsm", "StateMachine", "mu")
	if gm := r.need("(*internal/rsm.StateMachine).getSSMeta"); gm != nil && smMu != nil {
		for _, s := range e.CallerSites(gm) {
			r.requireLock("LS-ssmeta", "getSSMeta called in "+fname(s.Parent()), s.(ssa.Instruction), smMu, 1, "StateMachine.mu")
		}
		// every field of SSMeta that describes state is filled
		metaT := e.Named("internal/rsm", "SSMeta")
		if metaT != nil {
			filled := map[string]bool{}
			forEachInstr(gm, func(in ssa.Instruction) {
				if st, ok := in.(*ssa.Store); ok {
					if f, base, ok := fieldOfAddr(st.Addr); ok {
						if al := rootAlloc(base); al != nil && types.Identical(derefNamed(al.Type()), metaT) {
							filled[f.Name()] = true
						}
					}
				}
			})
			for _, want := range []string{"Index", "Term", "OnDiskIndex", "Membership", "Session", "Type", "CompressionType", "Request", "From"} {
				r.check(filled[want], "TBL-ssmeta", "getSSMeta fills SSMeta."+want, e.pos(gm.Pos()), "captured", "snapshot metadata no longer captures "+want)
			}
			// Index/Term come from the applied cursor
			idxF, termF := e.Field("internal/rsm", "StateMachine", "index"), e.Field("internal/rsm", "StateMachine", "term")
			forEachInstr(gm, func(in ssa.Instruction) {
				if st, ok := in.(*ssa.Store); ok {
					if f, _, ok := fieldOfAddr(st.Addr); ok {
						if f.Name() == "Index" {
							r.check(fieldV(idxF)(st.Val), "TBL-ssmeta", "SSMeta.Index = applied index", e.ipos(in), "snapshot index is the applied index", "SSMeta.Index is not the applied index")
						}
						if f.Name() == "Term" {
							r.check(fieldV(termF)(st.Val), "TBL-ssmeta", "SSMeta.Term = applied term", e.ipos(in), "snapshot term is the applied term", "SSMeta.Term is not the applied term")
						}
						if f.Name() == "Membership" && strings.HasSuffix(f.Pkg().Path(), "internal/rsm") {
							// the captured membership is a private deep copy, never the live maps
							getM := e.Func("(*internal/rsm.membership).get")
							dc := e.Func("internal/rsm.deepCopyMembership")
							okc := (getM != nil && e.callV(getM)(st.Val)) || (dc != nil && e.callV(dc)(st.Val))
							r.check(okc, "OWN-members-copy", "SSMeta.Membership captured in getSSMeta is a deep copy", e.ipos(in),
								"later config changes cannot leak into the snapshot's membership", "the snapshot metadata shares the live membership maps: a config change applied after the snapshot index changes the membership of the older snapshot record")
						}
					}
				}
			})
		}
	}
	// the Snapshot record produced by the snapshotter copies index/term/membership/on-disk index from the meta
	if sv := r.need("(*dragonboat.snapshotter).Save"); sv != nil {
		want := map[string]string{"Index": "Index", "Term": "Term", "Membership": "Membership", "OnDiskIndex": "OnDiskIndex", "Type": "Type"}
		got := map[string]bool{}
		forEachInstr(sv, func(in ssa.Instruction) {
			if st, ok := in.(*ssa.Store); ok {
				if f, _, ok := fieldOfAddr(st.Addr); ok {
					if src, w := want[f.Name()]; w && strings.HasSuffix(f.Pkg().Path(), "raftpb") {
						if lf, _, ok := loadedField(st.Val); ok && lf.Name() == src {
							got[f.Name()] = true
						}
					}
				}
			}
		})
		for k := range want {
			r.check(got[k], "TBL-ssmeta", "Snapshot."+k+" copied from the captured metadata", e.pos(sv.Pos()), "copied", "the snapshot record's "+k+" no longer comes from the captured metadata")
		}
	}
	// ---- applying a recovered snapshot restores all cursors and the membership
	if ap := r.need("(*internal/rsm.StateMachine).apply"); ap != nil {
		ssIndex, ssTerm := e.Field("raftpb", "Snapshot", "Index"), e.Field("raftpb", "Snapshot", "Term")
		check := func(typ, fld string, src *types.Var) {
			ok := false
			want := e.Field("internal/rsm", typ, fld)
			forEachInstr(ap, func(in ssa.Instruction) {
				if st, isS := in.(*ssa.Store); isS {
					if f, _, isF := fieldOfAddr(st.Addr); isF && f == want && want != nil && fieldV(src)(st.Val) {
						ok = true
					}
				}
			})
			r.check(ok, "TBL-recover-cursors", typ+"."+fld+" restored from the snapshot", e.pos(ap.Pos()), "restored", "recovering from a snapshot no longer restores "+typ+"."+fld+" (later snapshots/assertions use a stale value)")
		}
		check("StateMachine", "index", ssIndex)
		check("StateMachine", "term", ssTerm)
		// lastApplied.{index,term}
		n := 0
		forEachInstr(ap, func(in ssa.Instruction) {
			if st, isS := in.(*ssa.Store); isS {
				if fa, isFA := st.Addr.(*ssa.FieldAddr); isFA {
					if _, base, ok := fieldOfAddr(fa); ok {
						if f2, _, ok2 := fieldOfAddr(base); ok2 && f2.Name() == "lastApplied" && (fieldV(ssIndex)(st.Val) || fieldV(ssTerm)(st.Val)) {
							n++
						}
					}
				}
			}
		})
		r.check(n >= 2, "TBL-recover-cursors", "lastApplied index and term restored from the snapshot", e.pos(ap.Pos()), "restored", "recovering from a snapshot no longer restores both lastApplied.index and lastApplied.term")
		set := e.Func("(*internal/rsm.membership).set")
		r.check(set != nil && len(e.SitesIn(ap, set)) > 0, "TBL-recover-cursors", "membership restored from the snapshot", e.pos(ap.Pos()), "restored", "recovering from a snapshot no longer restores the membership")
		// recover = doRecover then apply
		if rc := e.Func("(*internal/rsm.StateMachine).recover"); rc != nil {
			dr := e.Func("(*internal/rsm.StateMachine).doRecover")
			for _, s := range e.SitesIn(rc, ap) {
				o, _ := e.alwaysPrecededBy(s.(ssa.Instruction), isCall(dr), 0)
				r.check(o && notFromErrEdge(e, rc, dr, s), "TBL-recover-cursors", "cursors updated only after the snapshot was loaded", e.ipos(s), "apply follows a successful doRecover", "the cursors can be moved to the snapshot index without loading the snapshot")
			}
		}
	}
	// ---- last-applied published only after the entries were applied
	ruleLastAppliedAfterApply(e, r)
	// ---- compacted log on the leader: snapshot fallback
	if srm := r.need(raftT + "sendReplicateMessage"); srm != nil {
		mk := r.need(raftT + "makeReplicateMessage")
		mis := r.need(raftT + "makeInstallSnapshotMessage")
		if mk != nil && mis != nil {
			// from the error edge of makeReplicateMessage, InstallSnapshot is built unless the remote is inactive
			okf := false
			for _, s := range e.SitesIn(srm, mis) {
				if g := e.dependsOnGuard(s.(ssa.Instruction), e.callV(mk)); g {
					okf = true
				}
			}
			r.check(okf, "GD-snapshot-fallback", "sendReplicateMessage falls back to InstallSnapshot when entries are unavailable", e.pos(srm.Pos()),
				"a follower whose entries were compacted is sent a snapshot", "the leader no longer falls back to InstallSnapshot when the needed entries were compacted")
			bs := e.Func("(*internal/raft.remote).becomeSnapshot")
			r.check(bs != nil && len(e.SitesIn(srm, bs)) > 0, "GD-snapshot-fallback", "the remote enters the snapshot state", e.pos(srm.Pos()), "present", "the remote no longer enters the snapshot state when a snapshot is sent")
		}
	}
	// ---- the membership captured in a snapshot is a copy as of its index
	ruleMembershipCopy(e, r)
	// ---- shared with C05: sessions first in writer and reader
	if ld := r.need("(*dragonboat.snapshotter).Load"); ld != nil {
		ls := e.Method("internal/rsm", "ILoadable", "LoadSessions")
		rc := e.Method("internal/rsm", "IRecoverable", "Recover")
		okOrder := true
		lss, rcs := e.MethodSitesIn(ld, ls), e.MethodSitesIn(ld, rc)
		if len(lss) == 0 || len(rcs) == 0 {
			okOrder = false
		}
		for _, rs := range rcs {
			dom := false
			for _, l := range lss {
				if dominatesInstr(l.(ssa.Instruction), rs.(ssa.Instruction)) {
					dom = true
				}
			}
			if !dom {
				okOrder = false
			}
		}
		r.check(okOrder, "MPT-session-snapshot", "snapshotter.Load restores sessions before the user payload", e.pos(ld.Pos()), "reader order matches writer order", "sessions are no longer restored before the user payload")
	}
	// ---- a snapshot's session table replaces the live one
	if ld := r.need("(*internal/rsm.lrusession).load"); ld != nil {
		add := e.Func("(*internal/rsm.lrusession).addSessionLocked")
		ruleRestoreReplaces(e, r, "MPT-restore-replaces", ld, r.needField("internal/rsm", "lrusession", "sessions"), func(in ssa.Instruction) bool {
			c, ok := in.(*ssa.Call)
			return ok && add != nil && e.CallsTo(c, add)
		})
	}
	// ---- the raft core's member tables are re-created from the snapshot
	if rr := r.need("(*internal/raft.raft).restoreRemotes"); rr != nil {
		for _, p := range [][2]string{{"remotes", "setRemote"}, {"nonVotings", "setNonVoting"}, {"witnesses", "setWitness"}} {
			set := e.Func("(*internal/raft.raft)." + p[1])
			ruleRestoreReplaces(e, r, "MPT-restore-replaces", rr, r.needField("internal/raft", "raft", p[0]), func(in ssa.Instruction) bool {
				c, ok := in.(*ssa.Call)
				return ok && set != nil && e.CallsTo(c, set)
			})
		}
	}
	ruleSnapshotStatusReported(e, r)
	ruleShrunkPredicate(e, r)
	ruleSyncUnconditional(e, r)
	ruleReadyToStream(e, r)
	ruleOpenSetsOnDiskIndex(e, r)
	ruleOnDiskCursors(e, r)
	ruleSnapshotJobExclusion(e, r)
	ruleApplyIndexAtomic(e, r)
	ruleJobRegistered(e, r)
	ruleSessionBytesWritten(e, r)
	// a snapshot labelled N holds exactly the entries up to N: the applied index moves in the
	// same critical section as the user update (C02: setApplied on every exit; C11: lock held at the user call)
	borrow(e, r, "C02", "MPT-setapplied")
	borrow(e, r, "C11", "LS-usersm")
	borrow(e, r, "C15", "DEP-chunk-describes-snapshot", "MPT-chunk-file-sync")
	ruleRestoreRegistersAll(e, r)
}

func derefNamed(t types.Type) types.Type {
	if p, ok := t.(*types.Pointer); ok {
		return p.Elem()
	}
	return t
}

// notFromErrEdge: site s is not reachable from the error edge of a call to
// prev in fn (i.e. s runs only when prev succeeded, or returned a soft error
// that is tested by a sentinel predicate before s).
// afterSuccessOf: every path to site passes a call of target and site is not
// reachable from that call's error edge; when the paths inside site's
// function do not all pass it, the same is required of every caller.
func (e *Engine) afterSuccessOf(site ssa.Instruction, target *ssa.Function, depth int) bool {
	fn := site.Parent()
	isT := func(in ssa.Instruction) bool {
		c, ok := in.(*ssa.Call)
		return ok && e.CallsTo(c, target)
	}
	res := e.findPath(fn, nil, func(in ssa.Instruction) bool { return in == site }, isT, nil)
	if !res.Found {
		cs, ok := site.(ssa.CallInstruction)
		if !ok {
			return true
		}
		return notFromErrEdge(e, fn, target, cs)
	}
	if depth == 0 {
		return false
	}
	callers := e.CallerSites(fn)
	if len(callers) == 0 {
		return false
	}
	for _, cs := range callers {
		if _, isGo := cs.(*ssa.Go); isGo {
			return false
		}
		if !e.afterSuccessOf(cs.(ssa.Instruction), target, depth-1) {
			return false
		}
	}
	return true
}

func notFromErrEdge(e *Engine, fn *ssa.Function, prev *ssa.Function, s ssa.CallInstruction) bool {
	ok := true
	for _, ps := range e.SitesIn(fn, prev) {
		pc, isC := ps.(*ssa.Call)
		if !isC {
			continue
		}
		vals, hasErr, dropped := errValueOf(pc)
		if !hasErr {
			continue
		}
		if dropped {
			return false
		}
		for _, v := range vals {
			aliases := errAliases(v)
			for a := range aliases {
				refs := a.Referrers()
				if refs == nil {
					continue
				}
				for _, ref := range *refs {
					bo, isB := ref.(*ssa.BinOp)
					if !isB || !(isNilConst(bo.X) || isNilConst(bo.Y)) {
						continue
					}
					for _, cf := range ValueUsesAsCond(bo) {
						errSucc := cf.Block().Succs[0]
						if bo.Op.String() == "==" {
							errSucc = cf.Block().Succs[1]
						}
						if len(errSucc.Instrs) == 0 {
							continue
						}
						if errSucc.Instrs[0] == s.(ssa.Instruction) {
							ok = false
							continue
						}
						res := e.findPath(fn, errSucc.Instrs[0], func(in ssa.Instruction) bool { return in == s.(ssa.Instruction) }, nil, nil)
						if res.Found {
							ok = false
						}
					}
				}
			}
		}
	}
	return ok
}
