package main

// generic.go: module-wide structural rules that do not depend on a single
// anchored function: loop-carried boolean accumulators, deferred error
// assignments, sync-before-rename.

import (
	"fmt"
	"go/types"
	"strings"

	"golang.org/x/tools/go/ssa"
)

// LoopFlag is a boolean variable carried around a loop: a phi in a loop
// header with a constant initial value.
type LoopFlag struct {
	Fn     *ssa.Function
	Phi    *ssa.Phi
	Init   bool        // constant entering the loop
	Back   []ssa.Value // values arriving on back edges
	Sticky bool        // once it left Init it never returns to it (exists/forall accumulator)
}

// loopFlags finds the loop-carried boolean flags of fn.
func loopFlags(fn *ssa.Function) []LoopFlag {
	var out []LoopFlag
	for _, b := range fn.Blocks {
		for _, in := range b.Instrs {
			phi, ok := in.(*ssa.Phi)
			if !ok {
				break
			}
			bt, isB := phi.Type().Underlying().(*types.Basic)
			if !isB || bt.Kind() != types.Bool {
				continue
			}
			var back []ssa.Value
			initSet, initVal, okInit := false, false, true
			for i, p := range b.Preds {
				if b.Dominates(p) { // back edge
					back = append(back, phi.Edges[i])
					continue
				}
				cb, isC := isConstBool(phi.Edges[i])
				if !isC {
					okInit = false
					continue
				}
				if initSet && cb != initVal {
					okInit = false
				}
				initSet, initVal = true, cb
			}
			if len(back) == 0 || !initSet || !okInit {
				continue
			}
			lf := LoopFlag{Fn: fn, Phi: phi, Init: initVal, Back: back, Sticky: true}
			for _, v := range back {
				if !stickyStep(v, phi, initVal) {
					lf.Sticky = false
				}
			}
			out = append(out, lf)
		}
	}
	return out
}

// stickyStep: the value v carried back into the loop can equal the initial
// constant only if the flag still had it: "v == init  =>  phi == init".
// For an exists-flag (init false: `if c { f = true }`, `f = f || c`) a false
// v implies a false phi; for a forall-flag (init true: `f = f && c`,
// `if !c { f = false }`) a true v implies a true phi.
func stickyStep(v ssa.Value, phi *ssa.Phi, init bool) bool {
	if v == ssa.Value(phi) {
		return true
	}
	if cb, ok := isConstBool(v); ok {
		return cb != init
	}
	is := func(x ssa.Value) bool { return x == ssa.Value(phi) }
	if hasBoolFact(ValueFacts(v, init), is, init) {
		return true
	}
	// a merge of several assignments: every incoming value is itself sticky
	if p, ok := v.(*ssa.Phi); ok && p != phi {
		for _, ed := range p.Edges {
			if !stickyStepD(ed, phi, init, 0, map[ssa.Value]bool{v: true}) {
				return false
			}
		}
		return true
	}
	return false
}

func stickyStepD(v ssa.Value, phi *ssa.Phi, init bool, d int, seen map[ssa.Value]bool) bool {
	if d > 6 || seen[v] {
		return seen[v]
	}
	seen[v] = true
	if v == ssa.Value(phi) {
		return true
	}
	if cb, ok := isConstBool(v); ok {
		return cb != init
	}
	is := func(x ssa.Value) bool { return x == ssa.Value(phi) }
	if hasBoolFact(ValueFacts(v, init), is, init) {
		return true
	}
	if p, ok := v.(*ssa.Phi); ok {
		for _, ed := range p.Edges {
			if !stickyStepD(ed, phi, init, d+1, seen) {
				return false
			}
		}
		return true
	}
	return false
}

// ---------------------------------------------------------------------------
// LOOP-ACC

// ruleLoopAcc: every loop-carried boolean flag with a constant initial value
// in the given module-relative packages is a sticky accumulator (an
// exists-/forall-quantifier over the iterations): once an iteration flipped
// it, a later iteration cannot flip it back. A flag that only reflects the
// last iteration forgets what an earlier element required (an fsync, a
// commit, the session-managed path).
func ruleLoopAcc(e *Engine, r *Report, minInst int, pkgs ...string) {
	n := 0
	for _, fn := range e.ScopeFuncs() {
		p := fnPkg(fn)
		if p == nil {
			continue
		}
		in := false
		for _, rel := range pkgs {
			if e.pkgTypes(rel) == p {
				in = true
			}
		}
		if !in || !e.IsLive(fn) {
			continue
		}
		flags := loopFlags(fn)
		for i, lf := range flags {
			n++
			kind := "exists"
			if lf.Init {
				kind = "for-all"
			}
			r.check(lf.Sticky, "LOOP-ACC", kind+" flag #"+itoa(i+1)+" of "+fname(fn)+" accumulates over the loop", e.ipos(lf.Phi),
				"the flag keeps what an earlier iteration established",
				"a loop-carried flag (initially "+boolStr(lf.Init)+") is overwritten by each iteration instead of accumulated: what an earlier element required (sync/commit/session path) is decided by the last element only")
		}
	}
	r.floor("LOOP-ACC", n, minInst)
}

func boolStr(b bool) string {
	if b {
		return "true"
	}
	return "false"
}

// ---------------------------------------------------------------------------
// ERR-DEFER

// outermost returns the declared function a closure is (transitively) nested in.
func outermost(fn *ssa.Function) *ssa.Function {
	for fn.Parent() != nil {
		fn = fn.Parent()
	}
	return fn
}

// ruleDeferredErr: the repo's idiom `defer func() { err = firstError(err,
// f.Close()) }()` reports the deferred operation's error only when `err` is
// a named result of the enclosing function. For every deferred closure in
// the given packages that stores an error into a captured variable, that
// variable must be a named result of the function that defers it (or be
// read by another deferred closure of the same function).
func ruleDeferredErr(e *Engine, r *Report, minInst int, pkgs ...string) {
	n := 0
	for _, fn := range e.ScopeFuncs() {
		p := fnPkg(fn)
		if p == nil {
			continue
		}
		in := false
		for _, rel := range pkgs {
			if e.pkgTypes(rel) == p {
				in = true
			}
		}
		if !in || !e.IsLive(outermost(fn)) {
			continue
		}
		for _, b := range fn.Blocks {
			for _, ins := range b.Instrs {
				d, ok := ins.(*ssa.Defer)
				if !ok {
					continue
				}
				mc, ok := d.Call.Value.(*ssa.MakeClosure)
				if !ok {
					continue
				}
				cl := mc.Fn.(*ssa.Function)
				for fi, fv := range cl.FreeVars {
					pt, ok := fv.Type().(*types.Pointer)
					if !ok || !isErrorType(pt.Elem()) {
						continue
					}
					stores := false
					if refs := fv.Referrers(); refs != nil {
						for _, ref := range *refs {
							if s, ok := ref.(*ssa.Store); ok && s.Addr == ssa.Value(fv) {
								stores = true
							}
						}
					}
					if !stores {
						continue
					}
					n++
					bind := mc.Bindings[fi]
					named := false
					res := fn.Signature.Results()
					for i := 0; i < res.Len(); i++ {
						if res.At(i).Name() != "" && res.At(i).Name() != "_" && res.At(i).Pos() == bind.Pos() && isErrorType(res.At(i).Type()) {
							named = true
						}
					}
					// a closure nested in a closure captures the outer free variable: follow to its binding
					if fvOuter, ok := bind.(*ssa.FreeVar); ok {
						_ = fvOuter
						named = true // decided where the outer closure is created
					}
					readElsewhere := false
					if !named {
						if al, ok := bind.(*ssa.Alloc); ok && al.Referrers() != nil {
							for _, ref := range *al.Referrers() {
								if mc2, ok := ref.(*ssa.MakeClosure); ok && mc2 != mc {
									// another closure captures it: deferred earlier (runs later) and reads it?
									for _, use := range *mc2.Referrers() {
										if _, isD := use.(*ssa.Defer); isD && dominatesInstr(use, d) {
											readElsewhere = true
										}
									}
								}
							}
						}
					}
					r.check(named || readElsewhere, "ERR-DEFER", "deferred error assignment to "+fv.Name()+" in "+fname(cl), e.ipos(d),
						"the deferred operation's error reaches the caller through the named result",
						"a deferred closure assigns an error to `"+fv.Name()+"`, which is not a named result of "+fname(fn)+": the error of the deferred operation (sync/close/rename) is computed after the return value and is lost, the caller sees success")
				}
			}
		}
	}
	r.floor("ERR-DEFER", n, minInst)
}

// ---------------------------------------------------------------------------
// PAIR-sync-before-rename

func isIfaceInvoke(c ssa.CallInstruction, method string, needs ...string) bool {
	cc := c.Common()
	if !cc.IsInvoke() || cc.Method.Name() != method {
		return false
	}
	it, ok := cc.Value.Type().Underlying().(*types.Interface)
	if !ok {
		return false
	}
	for _, want := range needs {
		found := false
		for i := 0; i < it.NumMethods(); i++ {
			if it.Method(i).Name() == want {
				found = true
			}
		}
		if !found {
			return false
		}
	}
	return true
}

// ruleSyncBeforeRename: a function that creates a file through a vfs-like
// file system and publishes it by renaming it over the final name must
// fsync the file before the rename on every path (otherwise a crash after
// the rename can expose an empty/partial file under the final name).
func ruleSyncBeforeRename(e *Engine, r *Report, minInst int, pkgs ...string) {
	n := 0
	for _, fn := range e.ScopeFuncs() {
		p := fnPkg(fn)
		if p == nil {
			continue
		}
		in := false
		for _, rel := range pkgs {
			if e.pkgTypes(rel) == p {
				in = true
			}
		}
		if !in || !e.IsLive(outermost(fn)) {
			continue
		}
		forEachCall(fn, func(s ssa.CallInstruction) {
			if !isIfaceInvoke(s, "Rename", "Create", "Rename") {
				return
			}
			// does the declared function (or one of its closures) create a file?
			root := outermost(fn)
			var creates []ssa.CallInstruction
			var walk func(f *ssa.Function)
			walk = func(f *ssa.Function) {
				forEachCall(f, func(c ssa.CallInstruction) {
					if isIfaceInvoke(c, "Create", "Create", "Rename") {
						creates = append(creates, c)
					}
				})
				for _, a := range f.AnonFuncs {
					walk(a)
				}
			}
			walk(root)
			if len(creates) == 0 {
				return
			}
			n++
			isSync := e.throughHelpers(func(c ssa.CallInstruction) bool { return isIfaceInvoke(c, "Sync", "Sync", "Close", "Write") })
			var from ssa.Instruction
			for _, c := range creates {
				if c.Parent() == fn {
					from = c.(ssa.Instruction)
				}
			}
			res := e.findPath(fn, from, func(in ssa.Instruction) bool { return in == s.(ssa.Instruction) }, isSync, nil)
			r.check(!res.Found, "PAIR-sync-before-rename", "Rename in "+fname(fn)+" publishes a file created in "+fname(root), e.ipos(s),
				"the file is fsynced before it is renamed over the final name",
				"a freshly written file can be renamed over the final name without being fsynced first: after a crash the final name may refer to an empty or partial file")
		})
	}
	r.floor("PAIR-sync-before-rename", n, minInst)
}

// ---------------------------------------------------------------------------
// OWN-writer-param: io.Writer implementations neither modify nor retain p

type roState struct {
	e    *Engine
	seen map[string]bool
	why  string
}

// readOnlyUse: every use of slice value v (a Write parameter or a re-slice
// of it) inside its function only reads it. Passing it on is followed into
// module callees (depth-bounded); standard-library callees are trusted to
// honour the io.Writer/hash contracts.
func (st *roState) readOnlyUse(v ssa.Value, depth int) bool {
	refs := v.Referrers()
	if refs == nil {
		return true
	}
	for _, ref := range *refs {
		switch x := ref.(type) {
		case *ssa.DebugRef:
		case *ssa.Slice:
			if x.X == v && !st.readOnlyUse(x, depth) {
				return false
			}
		case *ssa.IndexAddr:
			if x.X != v {
				continue
			}
			if rs := x.Referrers(); rs != nil {
				for _, u := range *rs {
					if s, ok := u.(*ssa.Store); ok && s.Addr == ssa.Value(x) {
						st.why = "an element of the written slice is overwritten at " + st.e.ipos(s)
						return false
					}
				}
			}
		case *ssa.Phi:
			key := "phi:" + x.Name() + "@" + fname(x.Parent())
			if st.seen[key] {
				continue
			}
			st.seen[key] = true
			if !st.readOnlyUse(x, depth) {
				return false
			}
		case *ssa.Convert, *ssa.ChangeType, *ssa.MakeInterface:
			// string(p) copies; other conversions alias
			if cv, ok := x.(*ssa.Convert); ok {
				if b, isB := cv.Type().Underlying().(*types.Basic); isB && b.Info()&types.IsString != 0 {
					continue
				}
			}
			if !st.readOnlyUse(x.(ssa.Value), depth) {
				return false
			}
		case *ssa.Store:
			if x.Val != v {
				continue
			}
			if al := rootAlloc(x.Addr); al != nil && !al.Heap {
				// spilled to a stack variable: follow its loads
				if rs := al.Referrers(); rs != nil {
					for _, u := range *rs {
						if ld, ok := u.(*ssa.UnOp); ok && ld.X == ssa.Value(al) {
							key := "ld:" + ld.Name() + "@" + fname(ld.Parent())
							if st.seen[key] {
								continue
							}
							st.seen[key] = true
							if !st.readOnlyUse(ld, depth) {
								return false
							}
						}
					}
				}
				continue
			}
			st.why = "the written slice is retained (stored) at " + st.e.ipos(x)
			return false
		case *ssa.MapUpdate, *ssa.Send:
			st.why = "the written slice is retained at " + st.e.ipos(x.(ssa.Instruction))
			return false
		case *ssa.MakeClosure:
			for i, b := range x.Bindings {
				if b == v {
					fv := x.Fn.(*ssa.Function).FreeVars[i]
					if !st.readOnlyUse(fv, depth) {
						return false
					}
				}
			}
		case ssa.CallInstruction:
			cc := x.Common()
			if b, ok := cc.Value.(*ssa.Builtin); ok {
				switch b.Name() {
				case "len", "cap", "print", "println":
				case "copy":
					if len(cc.Args) == 2 && cc.Args[0] == v {
						st.why = "the written slice is the destination of copy at " + st.e.ipos(x)
						return false
					}
				case "append":
					if len(cc.Args) > 0 && cc.Args[0] == v {
						st.why = "the written slice is the destination of append at " + st.e.ipos(x) + ": append writes into its spare capacity, i.e. into the caller's buffer beyond the slice"
						return false
					}
				default:
					st.why = "the written slice is passed to builtin " + b.Name() + " at " + st.e.ipos(x)
					return false
				}
				continue
			}
			callees := st.e.Callees(x)
			for ai, a := range cc.Args {
				if a != v {
					continue
				}
				for _, g := range callees {
					if p := fnPkg(g); p == nil || !inModule(p) {
						continue // trusted: stdlib / third-party honour the contract
					}
					pi := ai
					if cc.IsInvoke() {
						pi = ai + 1 // receiver is Params[0]
					}
					if len(g.FreeVars) > 0 && !cc.IsInvoke() && g.Signature.Recv() == nil {
						// closure call: Params do not include free variables
					}
					if pi >= len(g.Params) {
						continue
					}
					key := fmt.Sprintf("%s#%d", fname(g), pi)
					if st.seen[key] {
						continue
					}
					st.seen[key] = true
					if depth == 0 {
						st.why = "the written slice is passed on beyond the analysed depth at " + st.e.ipos(x)
						return false
					}
					if !st.readOnlyUse(g.Params[pi], depth-1) {
						if st.why != "" && !strings.Contains(st.why, "via ") {
							st.why += " (via " + fname(g) + ")"
						}
						return false
					}
				}
			}
		case *ssa.Return:
			// returning an alias of p to the caller: the caller already owns p
		case *ssa.BinOp, *ssa.UnOp, *ssa.Extract, *ssa.Field, *ssa.Lookup, *ssa.Range, *ssa.TypeAssert, *ssa.If:
		default:
			_ = x
		}
	}
	return true
}

// ruleWriterParam: every Write([]byte) (int, error) method in the given
// packages treats its argument as read-only and does not retain it
// (io.Writer: "Write must not modify the slice data, even temporarily.
// Implementations must not retain p"). A snapshot stream is written through
// chains of such writers; one that appends to / keeps the caller's buffer
// silently changes bytes of a later write.
func ruleWriterParam(e *Engine, r *Report, minInst int, pkgs ...string) {
	n := 0
	for _, fn := range e.ScopeFuncs() {
		p := fnPkg(fn)
		if p == nil || fn.Name() != "Write" || fn.Signature.Recv() == nil {
			continue
		}
		in := false
		for _, rel := range pkgs {
			if e.pkgTypes(rel) == p {
				in = true
			}
		}
		if !in || !e.IsLive(fn) {
			continue
		}
		sig := fn.Signature
		if sig.Params().Len() != 1 || sig.Results().Len() != 2 {
			continue
		}
		sl, ok := sig.Params().At(0).Type().Underlying().(*types.Slice)
		if !ok {
			continue
		}
		if b, ok := sl.Elem().Underlying().(*types.Basic); !ok || b.Kind() != types.Byte {
			continue
		}
		if len(fn.Params) < 2 {
			continue
		}
		n++
		st := &roState{e: e, seen: map[string]bool{}}
		ok = st.readOnlyUse(fn.Params[1], 6)
		r.check(ok, "OWN-writer-param", fname(fn)+" neither modifies nor retains its argument", e.pos(fn.Pos()),
			"the written slice is only read (copied, hashed, passed to writers that only read it)",
			"an io.Writer implementation modifies or keeps the caller's buffer: "+st.why)
	}
	r.floor("OWN-writer-param", n, minInst)
}

// ---------------------------------------------------------------------------
// TBL-codec-lenprefix: in the size functions of the hand-written/generated
// protobuf codecs a varint length prefix measures exactly the bytes that
// follow it: whenever sov(uint64(X)) with X an `int` (a length or a nested
// size, not a field value) is a summand, X itself is a summand of the same
// sum. A prefix computed from a different quantity than the payload makes
// Size() disagree with what MarshalTo writes.

// flattenSum collects every node of a tree of int additions: inner sums
// (a named intermediate such as mapEntrySize is one) and leaves.
func flattenSum(v ssa.Value, out *[]ssa.Value, d int) {
	*out = append(*out, v)
	if b, ok := v.(*ssa.BinOp); ok && b.Op.String() == "+" && d < 32 {
		flattenSum(b.X, out, d+1)
		flattenSum(b.Y, out, d+1)
	}
}

// sameSizeExpr: two SSA values denote the same length: the same value, two
// len() calls of the same value, or structurally equal field/call paths.
func sameSizeExpr(a, b ssa.Value) bool {
	if a == b {
		return true
	}
	ca, okA := a.(*ssa.Call)
	cb, okB := b.(*ssa.Call)
	if okA && okB {
		ba, isA := ca.Call.Value.(*ssa.Builtin)
		bb, isB := cb.Call.Value.(*ssa.Builtin)
		if isA && isB && ba.Name() == "len" && bb.Name() == "len" && len(ca.Call.Args) == 1 && len(cb.Call.Args) == 1 {
			return ca.Call.Args[0] == cb.Call.Args[0] || (exprKey(ca.Call.Args[0]) != "" && exprKey(ca.Call.Args[0]) == exprKey(cb.Call.Args[0]))
		}
	}
	ka := exprKey(a)
	return ka != "" && ka == exprKey(b)
}

func ruleCodecLenPrefix(e *Engine, r *Report, minInst int, pkg string, sovName string) {
	p := e.pkgTypes(pkg)
	if p == nil {
		r.undecided("ANCHOR", pkg, "package not found")
		return
	}
	n := 0
	for _, fn := range e.ScopeFuncs() {
		if fnPkg(fn) != p || fn.Name() == sovName {
			continue // every function of the codec package that sizes something (Size*, helpers)
		}
		// roots of sums: + expressions that are not themselves operands of a +
		forEachInstr(fn, func(in ssa.Instruction) {
			b, ok := in.(*ssa.BinOp)
			if !ok || b.Op.String() != "+" {
				return
			}
			if refs := b.Referrers(); refs != nil {
				for _, ref := range *refs {
					if pb, isB := ref.(*ssa.BinOp); isB && pb.Op.String() == "+" {
						return // inner node
					}
				}
			}
			var terms []ssa.Value
			flattenSum(b, &terms, 0)
			// each length prefix needs its own payload occurrence: group the
			// prefixes by what they measure and count the occurrences of that
			// quantity among the nodes of the sum
			type grp struct {
				x     ssa.Value
				calls []*ssa.Call
			}
			var groups []*grp
			for _, t := range terms {
				c, ok := t.(*ssa.Call)
				if !ok {
					continue
				}
				sc := c.Call.StaticCallee()
				if sc == nil || sc.Name() != sovName || len(c.Call.Args) != 1 {
					continue
				}
				cv, ok := c.Call.Args[0].(*ssa.Convert)
				if !ok {
					continue
				}
				bt, isB := cv.X.Type().(*types.Basic)
				if !isB || bt.Kind() != types.Int {
					continue // a field value, not a length
				}
				var g *grp
				for _, x := range groups {
					if sameSizeExpr(x.x, cv.X) {
						g = x
					}
				}
				if g == nil {
					g = &grp{x: cv.X}
					groups = append(groups, g)
				}
				g.calls = append(g.calls, c)
			}
			for _, g := range groups {
				occ := 0
				for _, u := range terms {
					if sameSizeExpr(u, g.x) {
						occ++
					}
				}
				n++
				r.check(occ >= len(g.calls), "TBL-codec-lenprefix", fname(fn)+": length prefix #"+itoa(n)+" measures its payload", e.ipos(g.calls[0]),
					"every prefixed length is a summand of the same sum",
					itoa(len(g.calls))+" length prefix(es) are computed from "+e.describeValue(g.x)+", which is added "+itoa(occ)+" time(s) as a payload in the same sum: a prefix measures something other than the bytes that follow it, so Size() and the encoder disagree when the two differ in varint width")
			}
		})
	}
	r.floor("TBL-codec-lenprefix", n, minInst)
}

// ---------------------------------------------------------------------------
// order-independent map iteration

// rangeLoopBlocks: the blocks of the loop driven by `rg` (header, body), i.e.
// those from which the block holding the Next of rg is reachable again.
func rangeLoopBlocks(rg *ssa.Range) (header *ssa.BasicBlock, body map[*ssa.BasicBlock]bool) {
	fn := rg.Parent()
	for _, b := range fn.Blocks {
		for _, in := range b.Instrs {
			if nx, ok := in.(*ssa.Next); ok && nx.Iter == ssa.Value(rg) {
				header = b
			}
		}
	}
	if header == nil {
		return nil, nil
	}
	body = map[*ssa.BasicBlock]bool{}
	// blocks reachable from header's loop-successor that can reach header
	canReach := map[*ssa.BasicBlock]bool{header: true}
	changed := true
	for changed {
		changed = false
		for _, b := range fn.Blocks {
			if canReach[b] {
				continue
			}
			for _, s := range b.Succs {
				if canReach[s] {
					canReach[b] = true
					changed = true
				}
			}
		}
	}
	var walk func(b *ssa.BasicBlock)
	walk = func(b *ssa.BasicBlock) {
		if body[b] || b == header {
			return
		}
		body[b] = true
		for _, s := range b.Succs {
			if header.Dominates(s) {
				walk(s)
			}
		}
	}
	for _, s := range header.Succs {
		if canReach[s] && header.Dominates(s) && s != header {
			walk(s)
		}
	}
	return header, body
}

// pureFunc: a module function without stores to non-local memory, map
// updates, sends or impure calls (depth-bounded); used to accept loops whose
// bodies only evaluate predicates.
func (e *Engine) pureFunc(fn *ssa.Function, depth int, seen map[*ssa.Function]bool) bool {
	if fn == nil || len(fn.Blocks) == 0 {
		return false
	}
	if seen[fn] {
		return true
	}
	seen[fn] = true
	pure := true
	forEachInstr(fn, func(in ssa.Instruction) {
		if !pure {
			return
		}
		if !e.pureInstr(in, depth, seen) {
			pure = false
		}
	})
	return pure
}

func (e *Engine) pureInstr(in ssa.Instruction, depth int, seen map[*ssa.Function]bool) bool {
	switch x := in.(type) {
	case *ssa.Store:
		al := rootAlloc(x.Addr)
		return al != nil && !al.Heap
	case *ssa.MapUpdate, *ssa.Send, *ssa.Go, *ssa.Defer, *ssa.Select:
		return false
	case *ssa.Call:
		if b, ok := x.Call.Value.(*ssa.Builtin); ok {
			switch b.Name() {
			case "len", "cap", "min", "max":
				return true
			}
			return false
		}
		if e.NoReturnCall(x) {
			return true // fail-stop
		}
		sc := x.Call.StaticCallee()
		if sc == nil {
			return false
		}
		if p := fnPkg(sc); p != nil && !inModule(p) {
			switch p.Path() {
			case "strings", "bytes", "math", "unicode", "unicode/utf8", "strconv", "sort", "errors", "fmt":
				return sc.Name() != "Sort" && sc.Name() != "Slice" && !strings.HasPrefix(sc.Name(), "Print") && !strings.HasPrefix(sc.Name(), "Fprint")
			}
			// the project logger: diagnostics only
			if strings.HasSuffix(p.Path(), "/logger") || strings.Contains(p.Path(), "goutils/logutil") {
				return true
			}
			return false
		}
		if strings.Contains(fname(sc), "logger") || strings.Contains(fname(sc), "plog") {
			return true
		}
		if depth == 0 {
			return false
		}
		return e.pureFunc(sc, depth-1, seen)
	}
	return true
}

// orderIndependentRange: the observable effect of iterating map `rg` does
// not depend on the iteration order: the loop body only evaluates pure
// expressions and (a) returns constants / leaves the loop (a search: any /
// all), (b) sets sticky boolean flags or counters by commutative updates,
// (c) inserts into / deletes from another map under the iteration's own key,
// (d) fail-stops or logs. Appending to a slice is accepted when a sort call
// follows the loop in the same function.
func (e *Engine) orderIndependentRange(rg *ssa.Range) (bool, string) {
	header, body := rangeLoopBlocks(rg)
	if header == nil {
		return false, "loop not recognised"
	}
	fn := rg.Parent()
	appended := false
	why := ""
	for b := range body {
		for _, in := range b.Instrs {
			switch x := in.(type) {
			case *ssa.Return:
				for _, rv := range x.Results {
					if _, isC := rv.(*ssa.Const); !isC {
						// returning data selected by the iteration: order dependent only if more than one element can match; accept error/nil constants only
						why = "returns a value computed from an element at " + e.ipos(in)
						return false, why
					}
				}
			case *ssa.Store:
				al := rootAlloc(x.Addr)
				if al == nil || al.Heap {
					// field or element store: allowed when it writes a constant (sticky flag)
					if _, isC := x.Val.(*ssa.Const); !isC {
						return false, "stores a non-constant into shared memory at " + e.ipos(in)
					}
				}
			case *ssa.MapUpdate:
				if stripConv(x.Map) == stripConv(rg.X) {
					return false, "updates the map being ranged at " + e.ipos(in)
				}
				// key must come from the iteration (distinct keys commute)
				if !e.dependsOn(x.Key, func(v ssa.Value) bool { nx, ok := v.(*ssa.Next); return ok && nx.Iter == ssa.Value(rg) }, 0) {
					return false, "map update under a key that is not the iteration key at " + e.ipos(in)
				}
			case *ssa.Call:
				if b, ok := x.Call.Value.(*ssa.Builtin); ok {
					switch b.Name() {
					case "append":
						appended = true
						continue
					case "delete", "len", "cap", "min", "max":
						continue
					}
					return false, "builtin " + b.Name() + " at " + e.ipos(in)
				}
				if !e.pureInstr(in, 2, map[*ssa.Function]bool{}) {
					return false, "call with possible side effects at " + e.ipos(in)
				}
			case *ssa.Send, *ssa.Go, *ssa.Defer, *ssa.Select:
				return false, "concurrency/defer inside the loop at " + e.ipos(in)
			}
		}
	}
	// values carried out of the loop through phis in the header: only sticky flags / commutative sums
	for _, in := range header.Instrs {
		phi, ok := in.(*ssa.Phi)
		if !ok {
			break
		}
		if _, isBool := phi.Type().Underlying().(*types.Basic); isBool {
			bt := phi.Type().Underlying().(*types.Basic)
			if bt.Kind() == types.Bool {
				for _, lf := range loopFlags(fn) {
					if lf.Phi == phi && !lf.Sticky {
						return false, "a non-sticky flag is carried around the loop"
					}
				}
				continue
			}
			if bt.Info()&types.IsNumeric != 0 {
				continue // counters / sums: commutative updates assumed only for += style; checked below
			}
		}
		if _, isSlice := phi.Type().Underlying().(*types.Slice); isSlice {
			appended = true
			continue
		}
		return false, "a value of type " + phi.Type().String() + " is carried around the loop"
	}
	if appended {
		sorted := false
		forEachCall(fn, func(c ssa.CallInstruction) {
			if sc := c.Common().StaticCallee(); sc != nil && sc.Pkg != nil && sc.Pkg.Pkg.Path() == "sort" {
				sorted = true
			}
		})
		if !sorted {
			return false, "elements are appended in iteration order and not sorted afterwards"
		}
	}
	return true, ""
}

// ---------------------------------------------------------------------------
// PAIR-created-file-sync: a function that creates a file through a vfs-like
// file system and writes to it itself makes the content durable: the
// function (or one of its deferred closures) fsyncs the file handle. A
// directory sync or a Close alone leaves the content in the page cache.
func ruleCreatedFileSync(e *Engine, r *Report, minInst int, pkgs ...string) {
	n := 0
	for _, fn := range e.ScopeFuncs() {
		p := fnPkg(fn)
		if p == nil || fn.Parent() != nil {
			continue
		}
		in := false
		for _, rel := range pkgs {
			if e.pkgTypes(rel) == p {
				in = true
			}
		}
		if !in || !e.IsLive(fn) {
			continue
		}
		var create ssa.CallInstruction
		writes, syncs := false, false
		e.forEachInstrRegion(fn, 0, func(x ssa.Instruction) {
			c, ok := x.(ssa.CallInstruction)
			if !ok {
				return
			}
			if isIfaceInvoke(c, "Create", "Create", "Rename") && c.Parent() == fn {
				create = c
			}
			if isIfaceInvoke(c, "Write", "Sync", "Close", "Write") || isIfaceInvoke(c, "WriteAt", "Sync", "Close", "Write") {
				writes = true
			}
			// the created handle handed to a copier / writer wrapper (io.Copy(out, in), bufio.NewWriter(out), ...)
			if create != nil && !c.Common().IsInvoke() {
				for _, a := range c.Common().Args {
					if e.dependsOn(a, func(v ssa.Value) bool { return v == create.(ssa.Value) }, 0) {
						if sc := c.Common().StaticCallee(); sc != nil && sc.Pkg != nil && sc.Pkg.Pkg.Path() == "io" && strings.HasPrefix(sc.Name(), "Copy") {
							writes = true
						}
					}
				}
			}
			if isIfaceInvoke(c, "Sync", "Sync", "Close", "Write") {
				syncs = true
			}
		})
		if create != nil && !syncs {
			// the fsync moved into a same-package helper that is handed the created file
			e.forEachInstrRegion(fn, 1, func(x ssa.Instruction) {
				if c, ok := x.(ssa.CallInstruction); ok && c.Parent() != fn && isIfaceInvoke(c, "Sync", "Sync", "Close", "Write") {
					if _, isParam := stripChangeInterface(c.Common().Value).(*ssa.Parameter); isParam {
						syncs = true
					}
				}
			})
		}
		if create == nil || !writes {
			continue
		}
		// the created handle may be wrapped (writer around the file): writes through wrappers count via the region check below
		n++
		r.check(syncs, "PAIR-created-file-sync", fname(fn)+" fsyncs the file it creates and writes", e.ipos(create),
			"the written content is durable when the function reports success",
			"a file is created and written but never fsynced by the function: after a power loss the file exists with empty or partial content")
	}
	r.floor("PAIR-created-file-sync", n, minInst)
}

// ---------------------------------------------------------------------------
// TBL-codec-threshold: hand-optimised codecs switch between a varint and a
// fixed-width form at a threshold constant; the sizing function and the
// encoder of the same type must switch at the same thresholds per field.
func ruleCodecThresholds(e *Engine, r *Report, minInst int, pkg string, pairs [][2]string) {
	n := 0
	collect := func(fn *ssa.Function) map[string]string {
		out := map[string]string{}
		forEachInstr(fn, func(in ssa.Instruction) {
			b, ok := in.(*ssa.BinOp)
			if !ok || cmpString(b.Op) == "" {
				return
			}
			var c *ssa.Const
			var other ssa.Value
			if k, ok := b.Y.(*ssa.Const); ok {
				c, other = k, b.X
			} else if k, ok := b.X.(*ssa.Const); ok {
				c, other = k, b.Y
			}
			if c == nil || c.Value == nil {
				return
			}
			// only large thresholds (>= 2^32): small constants are varint continuation tests
			if v, ok := constantUint64(c); !ok || v < 1<<32 {
				return
			}
			fld := ""
			e.dependsOn(other, func(v ssa.Value) bool {
				if f, _, ok := loadedField(v); ok && fld == "" {
					fld = f.Name()
				}
				return false
			}, 0)
			if fld != "" {
				if prev, ok := out[fld]; ok && prev != c.Value.ExactString() {
					out[fld] = prev + "," + c.Value.ExactString()
				} else {
					out[fld] = c.Value.ExactString()
				}
			}
		})
		// fields handed to a same-package helper that does the switch on its parameter
		forEachCall(fn, func(c ssa.CallInstruction) {
			g := c.Common().StaticCallee()
			if g == nil || fnPkg(g) != fnPkg(fn) || g == fn || len(g.Blocks) == 0 {
				return
			}
			for ai, a := range c.Common().Args {
				f, _, ok := loadedField(stripConv(a))
				if !ok || ai >= len(g.Params) {
					continue
				}
				p := g.Params[ai]
				forEachInstr(g, func(in ssa.Instruction) {
					b, ok := in.(*ssa.BinOp)
					if !ok || cmpString(b.Op) == "" {
						return
					}
					var k *ssa.Const
					var other ssa.Value
					if kk, ok := b.Y.(*ssa.Const); ok {
						k, other = kk, b.X
					} else if kk, ok := b.X.(*ssa.Const); ok {
						k, other = kk, b.Y
					}
					if k == nil {
						return
					}
					if v, ok := constantUint64(k); !ok || v < 1<<32 {
						return
					}
					if e.dependsOn(other, func(v ssa.Value) bool { return v == ssa.Value(p) }, 0) {
						if _, exists := out[f.Name()]; !exists {
							out[f.Name()] = k.Value.ExactString()
						}
					}
				})
			}
		})
		return out
	}
	for _, pr := range pairs {
		a, b := e.Func(pr[0]), e.Func(pr[1])
		if a == nil || b == nil {
			r.undecided("ANCHOR", pr[0]+"/"+pr[1], "codec sibling no longer resolves")
			continue
		}
		ta, tb := collect(a), collect(b)
		for fld, va := range ta {
			n++
			vb, ok := tb[fld]
			r.check(ok && va == vb, "TBL-codec-threshold", short(pr[0])+" and "+short(pr[1])+" switch encodings of "+fld+" at the same threshold", e.pos(a.Pos()),
				"size and encoder agree on where the fixed-width form starts",
				"the sizing function switches the encoding of "+fld+" at "+va+" but the encoder at "+vb+": Size() disagrees with the bytes written for values between the two")
		}
	}
	r.floor("TBL-codec-threshold", n, minInst)
}

func constantUint64(c *ssa.Const) (uint64, bool) {
	if c.Value == nil {
		return 0, false
	}
	s := c.Value.ExactString()
	var v uint64
	for _, ch := range s {
		if ch < '0' || ch > '9' {
			return 0, false
		}
		v = v*10 + uint64(ch-'0')
	}
	return v, true
}

// ruleVarintLadder: the varint sizing helper decides the encoded width from
// 7-bit groups: whatever its form (shift loop or comparison ladder), every
// constant it compares the value with is a boundary of a 7-bit group (2^(7k),
// or 2^(7k)-1), and every shift is by 7.
func ruleVarintLadder(e *Engine, r *Report, fnKey string) {
	fn := r.need(fnKey)
	if fn == nil {
		return
	}
	ok := true
	var bad ssa.Instruction
	n := 0
	forEachInstr(fn, func(in ssa.Instruction) {
		b, isB := in.(*ssa.BinOp)
		if !isB {
			return
		}
		var c *ssa.Const
		if k, isC := b.Y.(*ssa.Const); isC {
			c = k
		} else if k, isC := b.X.(*ssa.Const); isC {
			c = k
		}
		if c == nil {
			return
		}
		v, isU := constantUint64(c)
		if !isU {
			return
		}
		switch {
		case b.Op.String() == ">>" || b.Op.String() == "<<":
			n++
			if v != 7 {
				ok, bad = false, in
			}
		case cmpString(b.Op) != "":
			if bt, isBasic := b.X.Type().Underlying().(*types.Basic); !isBasic || bt.Info()&types.IsInteger == 0 {
				return
			}
			n++
			if v == 0 {
				return
			}
			good := false
			for k := uint(1); k <= 9; k++ {
				if v == 1<<(7*k) || v == 1<<(7*k)-1 {
					good = true
				}
			}
			if !good {
				ok, bad = false, in
			}
		}
	})
	pos := e.pos(fn.Pos())
	if bad != nil {
		pos = e.ipos(bad)
	}
	r.check(ok && n > 0, "TBL-codec-varint", short(fnKey)+" sizes varints by 7-bit groups", pos,
		"width boundaries are multiples of 7 bits", "the varint sizing helper compares with / shifts by a constant that is not a 7-bit group boundary: values in the affected band are sized one byte short of what the encoder writes")
}

// ruleDecodeOwnsBytes (OWN-decode-copy): a decoder of a persisted/wire type
// never stores a re-slice of its input buffer into the decoded value: input
// buffers are reused by the transport and the log stores, and the decoded
// value outlives them. accept lists functions confirmed by reading to alias
// on purpose (callers own the buffer for the value's lifetime).
func ruleDecodeOwnsBytes(e *Engine, r *Report, minInst int, accept map[string]string, pkgs ...string) {
	n := 0
	for _, fn := range e.ScopeFuncs() {
		p := fnPkg(fn)
		if p == nil || len(fn.Blocks) == 0 {
			continue
		}
		in := false
		for _, rel := range pkgs {
			if e.pkgTypes(rel) == p {
				in = true
			}
		}
		if !in || !strings.Contains(strings.ToLower(fn.Name()), "unmarshal") {
			continue
		}
		var buf *ssa.Parameter
		for _, q := range fn.Params {
			if s, ok := q.Type().Underlying().(*types.Slice); ok {
				if b, ok := s.Elem().Underlying().(*types.Basic); ok && b.Kind() == types.Byte {
					buf = q
				}
			}
		}
		if buf == nil {
			continue
		}
		n++
		var bad ssa.Instruction
		forEachInstr(fn, func(x ssa.Instruction) {
			st, ok := x.(*ssa.Store)
			if !ok {
				return
			}
			if _, isF := st.Addr.(*ssa.FieldAddr); !isF {
				return
			}
			sl, ok := st.Val.(*ssa.Slice)
			if !ok {
				return
			}
			if stripConv(sl.X) == ssa.Value(buf) {
				bad = x
			}
		})
		key := fname(fn) + " copies decoded byte fields"
		if bad != nil {
			if reason, ok := accept[fname(fn)]; ok {
				r.add(Ob{Rule: "OWN-decode-copy", Construct: key, Pos: e.ipos(bad), OK: true, Detail: "accepted (confirmed by reading): " + reason})
				continue
			}
			r.bad("OWN-decode-copy", key, e.ipos(bad), "a decoded field is a re-slice of the input buffer: the transport and the log stores reuse that buffer, the decoded value changes under its holder")
			continue
		}
		r.ok("OWN-decode-copy", key, e.pos(fn.Pos()), "no field of the decoded value aliases the input buffer")
	}
	r.floor("OWN-decode-copy", n, minInst)
}
