package main

// generic.go: module-wide structural rules that do not depend on a single
// anchored function: loop-carried boolean accumulators, deferred error
// assignments, sync-before-rename.

import (
	"go/types"

	"golang.org/x/tools/go/ssa"
)

// LoopFlag is a boolean variable carried around a loop: a phi in a loop
// header with a constant initial value.
type LoopFlag struct {
	Fn     *ssa.Function
	Phi    *ssa.Phi
	Init   bool        // constant entering the loop
	Back   []ssa.Value // values arriving on back edges
	Sticky bool        // once it left Init it never returns to it (exists/forall accumulator)
}

// loopFlags finds the loop-carried boolean flags of fn.
func loopFlags(fn *ssa.Function) []LoopFlag {
	var out []LoopFlag
	for _, b := range fn.Blocks {
		for _, in := range b.Instrs {
			phi, ok := in.(*ssa.Phi)
			if !ok {
				break
			}
			bt, isB := phi.Type().Underlying().(*types.Basic)
			if !isB || bt.Kind() != types.Bool {
				continue
			}
			var back []ssa.Value
			initSet, initVal, okInit := false, false, true
			for i, p := range b.Preds {
				if b.Dominates(p) { // back edge
					back = append(back, phi.Edges[i])
					continue
				}
				cb, isC := isConstBool(phi.Edges[i])
				if !isC {
					okInit = false
					continue
				}
				if initSet && cb != initVal {
					okInit = false
				}
				initSet, initVal = true, cb
			}
			if len(back) == 0 || !initSet || !okInit {
				continue
			}
			lf := LoopFlag{Fn: fn, Phi: phi, Init: initVal, Back: back, Sticky: true}
			for _, v := range back {
				if !stickyStep(v, phi, initVal) {
					lf.Sticky = false
				}
			}
			out = append(out, lf)
		}
	}
	return out
}

// stickyStep: the value v carried back into the loop can equal the initial
// constant only if the flag still had it: "v == init  =>  phi == init".
// For an exists-flag (init false: `if c { f = true }`, `f = f || c`) a false
// v implies a false phi; for a forall-flag (init true: `f = f && c`,
// `if !c { f = false }`) a true v implies a true phi.
func stickyStep(v ssa.Value, phi *ssa.Phi, init bool) bool {
	if v == ssa.Value(phi) {
		return true
	}
	if cb, ok := isConstBool(v); ok {
		return cb != init
	}
	is := func(x ssa.Value) bool { return x == ssa.Value(phi) }
	if hasBoolFact(ValueFacts(v, init), is, init) {
		return true
	}
	// a merge of several assignments: every incoming value is itself sticky
	if p, ok := v.(*ssa.Phi); ok && p != phi {
		for _, ed := range p.Edges {
			if !stickyStepD(ed, phi, init, 0, map[ssa.Value]bool{v: true}) {
				return false
			}
		}
		return true
	}
	return false
}

func stickyStepD(v ssa.Value, phi *ssa.Phi, init bool, d int, seen map[ssa.Value]bool) bool {
	if d > 6 || seen[v] {
		return seen[v]
	}
	seen[v] = true
	if v == ssa.Value(phi) {
		return true
	}
	if cb, ok := isConstBool(v); ok {
		return cb != init
	}
	is := func(x ssa.Value) bool { return x == ssa.Value(phi) }
	if hasBoolFact(ValueFacts(v, init), is, init) {
		return true
	}
	if p, ok := v.(*ssa.Phi); ok {
		for _, ed := range p.Edges {
			if !stickyStepD(ed, phi, init, d+1, seen) {
				return false
			}
		}
		return true
	}
	return false
}

// ---------------------------------------------------------------------------
// LOOP-ACC

// ruleLoopAcc: every loop-carried boolean flag with a constant initial value
// in the given module-relative packages is a sticky accumulator (an
// exists-/forall-quantifier over the iterations): once an iteration flipped
// it, a later iteration cannot flip it back. A flag that only reflects the
// last iteration forgets what an earlier element required (an fsync, a
// commit, the session-managed path).
func ruleLoopAcc(e *Engine, r *Report, minInst int, pkgs ...string) {
	n := 0
	for _, fn := range e.ScopeFuncs() {
		p := fnPkg(fn)
		if p == nil {
			continue
		}
		in := false
		for _, rel := range pkgs {
			if e.pkgTypes(rel) == p {
				in = true
			}
		}
		if !in || !e.IsLive(fn) {
			continue
		}
		flags := loopFlags(fn)
		for i, lf := range flags {
			n++
			kind := "exists"
			if lf.Init {
				kind = "for-all"
			}
			r.check(lf.Sticky, "LOOP-ACC", kind+" flag #"+itoa(i+1)+" of "+fname(fn)+" accumulates over the loop", e.ipos(lf.Phi),
				"the flag keeps what an earlier iteration established",
				"a loop-carried flag (initially "+boolStr(lf.Init)+") is overwritten by each iteration instead of accumulated: what an earlier element required (sync/commit/session path) is decided by the last element only")
		}
	}
	r.floor("LOOP-ACC", n, minInst)
}

func boolStr(b bool) string {
	if b {
		return "true"
	}
	return "false"
}

// ---------------------------------------------------------------------------
// ERR-DEFER

// outermost returns the declared function a closure is (transitively) nested in.
func outermost(fn *ssa.Function) *ssa.Function {
	for fn.Parent() != nil {
		fn = fn.Parent()
	}
	return fn
}

// ruleDeferredErr: the repo's idiom `defer func() { err = firstError(err,
// f.Close()) }()` reports the deferred operation's error only when `err` is
// a named result of the enclosing function. For every deferred closure in
// the given packages that stores an error into a captured variable, that
// variable must be a named result of the function that defers it (or be
// read by another deferred closure of the same function).
func ruleDeferredErr(e *Engine, r *Report, minInst int, pkgs ...string) {
	n := 0
	for _, fn := range e.ScopeFuncs() {
		p := fnPkg(fn)
		if p == nil {
			continue
		}
		in := false
		for _, rel := range pkgs {
			if e.pkgTypes(rel) == p {
				in = true
			}
		}
		if !in || !e.IsLive(outermost(fn)) {
			continue
		}
		for _, b := range fn.Blocks {
			for _, ins := range b.Instrs {
				d, ok := ins.(*ssa.Defer)
				if !ok {
					continue
				}
				mc, ok := d.Call.Value.(*ssa.MakeClosure)
				if !ok {
					continue
				}
				cl := mc.Fn.(*ssa.Function)
				for fi, fv := range cl.FreeVars {
					pt, ok := fv.Type().(*types.Pointer)
					if !ok || !isErrorType(pt.Elem()) {
						continue
					}
					stores := false
					if refs := fv.Referrers(); refs != nil {
						for _, ref := range *refs {
							if s, ok := ref.(*ssa.Store); ok && s.Addr == ssa.Value(fv) {
								stores = true
							}
						}
					}
					if !stores {
						continue
					}
					n++
					bind := mc.Bindings[fi]
					named := false
					res := fn.Signature.Results()
					for i := 0; i < res.Len(); i++ {
						if res.At(i).Name() != "" && res.At(i).Name() != "_" && res.At(i).Pos() == bind.Pos() && isErrorType(res.At(i).Type()) {
							named = true
						}
					}
					// a closure nested in a closure captures the outer free variable: follow to its binding
					if fvOuter, ok := bind.(*ssa.FreeVar); ok {
						_ = fvOuter
						named = true // decided where the outer closure is created
					}
					readElsewhere := false
					if !named {
						if al, ok := bind.(*ssa.Alloc); ok && al.Referrers() != nil {
							for _, ref := range *al.Referrers() {
								if mc2, ok := ref.(*ssa.MakeClosure); ok && mc2 != mc {
									// another closure captures it: deferred earlier (runs later) and reads it?
									for _, use := range *mc2.Referrers() {
										if _, isD := use.(*ssa.Defer); isD && dominatesInstr(use, d) {
											readElsewhere = true
										}
									}
								}
							}
						}
					}
					r.check(named || readElsewhere, "ERR-DEFER", "deferred error assignment to "+fv.Name()+" in "+fname(cl), e.ipos(d),
						"the deferred operation's error reaches the caller through the named result",
						"a deferred closure assigns an error to `"+fv.Name()+"`, which is not a named result of "+fname(fn)+": the error of the deferred operation (sync/close/rename) is computed after the return value and is lost, the caller sees success")
				}
			}
		}
	}
	r.floor("ERR-DEFER", n, minInst)
}

// ---------------------------------------------------------------------------
// PAIR-sync-before-rename

func isIfaceInvoke(c ssa.CallInstruction, method string, needs ...string) bool {
	cc := c.Common()
	if !cc.IsInvoke() || cc.Method.Name() != method {
		return false
	}
	it, ok := cc.Value.Type().Underlying().(*types.Interface)
	if !ok {
		return false
	}
	for _, want := range needs {
		found := false
		for i := 0; i < it.NumMethods(); i++ {
			if it.Method(i).Name() == want {
				found = true
			}
		}
		if !found {
			return false
		}
	}
	return true
}

// ruleSyncBeforeRename: a function that creates a file through a vfs-like
// file system and publishes it by renaming it over the final name must
// fsync the file before the rename on every path (otherwise a crash after
// the rename can expose an empty/partial file under the final name).
func ruleSyncBeforeRename(e *Engine, r *Report, minInst int, pkgs ...string) {
	n := 0
	for _, fn := range e.ScopeFuncs() {
		p := fnPkg(fn)
		if p == nil {
			continue
		}
		in := false
		for _, rel := range pkgs {
			if e.pkgTypes(rel) == p {
				in = true
			}
		}
		if !in || !e.IsLive(outermost(fn)) {
			continue
		}
		forEachCall(fn, func(s ssa.CallInstruction) {
			if !isIfaceInvoke(s, "Rename", "Create", "Rename") {
				return
			}
			// does the declared function (or one of its closures) create a file?
			root := outermost(fn)
			var creates []ssa.CallInstruction
			var walk func(f *ssa.Function)
			walk = func(f *ssa.Function) {
				forEachCall(f, func(c ssa.CallInstruction) {
					if isIfaceInvoke(c, "Create", "Create", "Rename") {
						creates = append(creates, c)
					}
				})
				for _, a := range f.AnonFuncs {
					walk(a)
				}
			}
			walk(root)
			if len(creates) == 0 {
				return
			}
			n++
			isSync := func(in ssa.Instruction) bool {
				c, ok := in.(ssa.CallInstruction)
				return ok && isIfaceInvoke(c, "Sync", "Sync", "Close", "Write")
			}
			var from ssa.Instruction
			for _, c := range creates {
				if c.Parent() == fn {
					from = c.(ssa.Instruction)
				}
			}
			res := e.findPath(fn, from, func(in ssa.Instruction) bool { return in == s.(ssa.Instruction) }, isSync, nil)
			r.check(!res.Found, "PAIR-sync-before-rename", "Rename in "+fname(fn)+" publishes a file created in "+fname(root), e.ipos(s),
				"the file is fsynced before it is renamed over the final name",
				"a freshly written file can be renamed over the final name without being fsynced first: after a crash the final name may refer to an empty or partial file")
		})
	}
	r.floor("PAIR-sync-before-rename", n, minInst)
}
