package main

func init() {
	register(&Property{
		ID:          "C10",
		Explanation: "Decides the structural clause 'no storage-layer error is dropped, turned into nil, or turned into not-found' (ERR E1/E2/E3 over every error-returning call of the log-store packages), 'one committed write batch per save, no side writes' and 'Tan record-reader validation results gate replay'. Does not decide crash atomicity per crash point.",
		NotCovered:  "torn-write behaviour of pebble/Tan at each crash point; that a committed batch is atomic in pebble (trusted)",
		Run:         runC10,
	})
}

var c10Scope = errScope{
	pkgs: map[string]bool{
		"internal/logdb": true, "internal/logdb/kv": true, "internal/logdb/kv/pebble": true,
		"internal/tan": true,
	},
	files: map[string]bool{},
}

// accepted idioms, each confirmed by reading the site.
var c10Accept = map[string]string{
	"E3:internal/tan.newWriter->io.Seeker.Seek": "lseek(fd, 0, SEEK_CUR) on an open regular file performs no I/O and cannot fail with a storage error (code inherited from pebble's record.NewLogWriter); the fallback offset 0 is only taken for non-seekable writers",
}

func runC10(e *Engine, r *Report) {
	st := e.CheckErrDiscipline(r, c10Scope, c10Accept)
	r.floor("ERR-calls", st.Calls, 1)
	r.floor("ERR-edges", st.ErrEdges, 1)
}
