package main

import "golang.org/x/tools/go/ssa"

func init() {
	register(&Property{
		ID:          "C10",
		Explanation: "Decides the structural clause 'no storage-layer error is dropped, turned into nil, or turned into not-found' (ERR E1/E2/E3 over every error-returning call of the log-store packages), 'one committed write batch per save, no side writes' and 'Tan record-reader validation results gate replay'. Does not decide crash atomicity per crash point. The (operation, sentinel) pairs that may be read as a soft condition are a frozen table; an error examined on some paths only counts as dropped; the Tan durability point fsyncs on every successful path.",
		NotCovered:  "torn-write behaviour of pebble/Tan at each crash point; that a committed batch is atomic in pebble (trusted)",
		Run:         runC10,
	})
}

var c10Scope = errScope{
	pkgs: map[string]bool{
		"internal/logdb": true, "internal/logdb/kv": true, "internal/logdb/kv/pebble": true,
		"internal/tan": true,
	},
	files: map[string]bool{},
}

// accepted idioms, each confirmed by reading the site.
var c10Accept = map[string]string{
	"E3:internal/tan.newWriter->io.Seeker.Seek": "lseek(fd, 0, SEEK_CUR) on an open regular file performs no I/O and cannot fail with a storage error (code inherited from pebble's record.NewLogWriter); the fallback offset 0 is only taken for non-seekable writers",
}

func runC10(e *Engine, r *Report) {
	st := e.CheckErrDiscipline(r, c10Scope, c10Accept)
	r.floor("ERR-calls", st.Calls, 1)
	r.floor("ERR-edges", st.ErrEdges, 1)
	// sticky error fields of the Tan record writer
	ns := e.CheckStickyErrors(r, "internal/tan")
	r.floor("ERR-S", ns, 5)
	// write -> fsync pairing and manifest/CURRENT durability in Tan
	runTanSync(e, r)
	runTanDirSync(e, r)
	// one committed write batch per save in the pebble-backed store
	runSingleBatch(e, r)
	// generic storage-path rules (generic.go)
	ruleLoopAcc(e, r, 2, "internal/tan", "internal/logdb")
	ruleDeferredErr(e, r, 8, "internal/tan", "internal/logdb", "internal/logdb/kv", "internal/logdb/kv/pebble", "internal/fileutil")
	ruleSyncBeforeRename(e, r, 4, "internal/tan")
	ruleTanFileInUse(e, r)
	ruleDurableMkdir(e, r)
	ruleTanManifestSync(e, r)
	ruleCreatedFileSync(e, r, 1, "internal/tan", "internal/fileutil")
	ruleTanNewLogOrder(e, r)
	ruleSoftErrorPairs(e, r)
	ruleTanSwitchOrder(e, r)
	ruleRawMkdir(e, r)
	ruleTanSyncSameDB(e, r)
}

// runTanDirSync: after the CURRENT pointer is switched (rename inside
// setCurrentFile) and after a manifest/log file is created, the directory is
// fsynced before success is reported.
func runTanDirSync(e *Engine, r *Report) {
	scf := r.need("internal/tan.setCurrentFile")
	if scf == nil {
		return
	}
	isDirSync := func(in ssa.Instruction) bool {
		c, ok := in.(*ssa.Call)
		return ok && c.Call.IsInvoke() && c.Call.Method.Name() == "Sync"
	}
	n := 0
	for _, s := range e.CallerSites(scf) {
		c, ok := s.(*ssa.Call)
		if !ok {
			continue
		}
		n++
		fn := s.Parent()
		res := e.findPath(fn, c, func(in ssa.Instruction) bool { return e.isSuccessReturn(in) }, isDirSync, nil)
		okp := !res.Found
		if !okp && fn.Parent() != nil {
			// inside an immediately invoked closure: the parent must sync after the closure returns... not accepted:
			okp = false
		}
		r.check(okp, "PAIR-tan-dirsync", "setCurrentFile in "+fname(fn)+" is followed by a directory sync", e.ipos(s),
			"switching CURRENT to a new manifest is made durable before success", "CURRENT can be switched to a new manifest without a following directory fsync: after a crash the old manifest (which does not list newer log files) is used")
	}
	r.floor("PAIR-tan-dirsync", n, 2)
	// setCurrentFile itself: write temp, sync it, rename
	okOrder := false
	for _, f := range append([]*ssa.Function{scf}, scf.AnonFuncs...) {
		var syncI, renameI ssa.Instruction
		forEachCall(f, func(s ssa.CallInstruction) {
			if !s.Common().IsInvoke() {
				return
			}
			switch s.Common().Method.Name() {
			case "Sync":
				if syncI == nil {
					syncI = s.(ssa.Instruction)
				}
			case "Rename":
				renameI = s.(ssa.Instruction)
			}
		})
		if syncI != nil && renameI != nil {
			sI := syncI
			okOrder, _ = e.alwaysPrecededBy(renameI, func(in ssa.Instruction) bool { return in == sI }, 0)
		}
	}
	r.check(okOrder, "PAIR-tan-dirsync", "setCurrentFile syncs the temp file before renaming it to CURRENT", e.pos(scf.Pos()),
		"CURRENT never points to unsynced content", "setCurrentFile can rename the temp file to CURRENT before its content is synced")
}

// runSingleBatch: each save function of the pebble-backed db commits at most
// one write batch and has no side writes (SaveValue/DeleteValue have no live caller).
func runSingleBatch(e *Engine, r *Report) {
	commitM := r.needMethod("internal/logdb/kv", "IKVStore", "CommitWriteBatch")
	if commitM == nil {
		return
	}
	logdbPkg := e.pkgTypes("internal/logdb")
	n := 0
	for _, fn := range e.ScopeFuncs() {
		if fnPkg(fn) != logdbPkg || !e.IsLive(fn) {
			continue
		}
		sites := e.MethodSitesIn(fn, commitM)
		if len(sites) == 0 {
			continue
		}
		n++
		// no path from one commit to another commit in the same call
		twice := false
		for _, s := range sites {
			if c, ok := s.(*ssa.Call); ok {
				res := e.findPath(fn, c, func(in ssa.Instruction) bool {
					cc, ok := in.(ssa.CallInstruction)
					return ok && e.IsMethodCall(cc, commitM)
				}, nil, nil)
				if res.Found {
					twice = true
				}
			}
		}
		r.check(!twice, "MPT-single-batch", fname(fn)+" commits one write batch", e.pos(fn.Pos()),
			"a save is one atomic batch", "a save can commit two write batches: a crash between them leaves it half visible")
	}
	r.floor("MPT-single-batch", n, 4)
	for _, mn := range []string{"SaveValue", "DeleteValue"} {
		m := e.Method("internal/logdb/kv", "IKVStore", mn)
		live := 0
		for _, s := range e.AllMethodSites(m) {
			if e.IsLive(s.Parent()) {
				live++
				r.bad("MPT-single-batch", "IKVStore."+mn+" called in "+fname(s.Parent()), e.ipos(s), "a key is written outside the save's write batch")
			}
		}
		if live == 0 {
			r.add(Ob{Rule: "MPT-single-batch", Construct: "no live caller of IKVStore." + mn, Pos: "-", OK: true, Detail: "no side writes (positive control: CommitWriteBatch sites found by the same query)", Trivial: true})
		}
	}
}
