package main

import (
	"go/types"
	"strings"

	"golang.org/x/tools/go/ssa"
)

func init() {
	register(&Property{
		ID:          "C20",
		Explanation: "Decides structural necessary conditions of ImportSnapshot: every call that can modify existing data (creating the node host dir, opening the log store, cleaning/creating the snapshot dir, creating the temp dir, copying, finalizing, importing into the log store) happens only after all validations accepted (import settings: replica listed at its own address; complete image: checksum equal; member list: no address/kind change, no removed id re-added); the validators still consult what they are defined over (all four membership maps; the payload checksum; the configured raft address); the rewritten snapshot record marks every unlisted previous member of every kind as removed, keeps earlier removals, takes the given list as the voting members and is marked Imported with index-derived order id; the log-store import writes bootstrap, state (term and commit from the snapshot), snapshot and max-index records in one committed batch (Pebble) or bootstrap->install->sync (Tan). Does not decide restart behaviour or state equality. The processed snapshot record is written only by the function that builds it.",
		NotCovered:  "that the restarted replicas elect a leader and hold exactly the exported state (end-to-end behaviour)",
		Run:         runC20,
	})
}

func runC20(e *Engine, r *Report) {
	imp := r.need("tools.ImportSnapshot")
	if imp == nil {
		return
	}
	isCall := func(f *ssa.Function) func(ssa.Instruction) bool {
		return func(in ssa.Instruction) bool {
			c, ok := in.(*ssa.Call)
			return ok && f != nil && e.CallsTo(c, f)
		}
	}
	validators := []struct{ fn, what string }{
		{"tools.checkImportSettings", "import settings (replica listed at its own address)"},
		{"tools.isCompleteSnapshotImage", "complete snapshot image (checksum)"},
		{"tools.checkMembers", "member list (no address/kind change, no removed id)"},
	}
	mutators := []string{
		"(*internal/server.Env).CreateNodeHostDir", "tools.getLogDB", "tools.cleanupSnapshotDir", "(*internal/server.Env).CreateSnapshotDir",
		"(*internal/server.SSEnv).CreateTempDir", "tools.copySnapshot", "(*internal/server.SSEnv).FinalizeSnapshot",
	}
	var mutSites []ssa.CallInstruction
	toolsPkg := fnPkg(imp)
	// a mutation site in ImportSnapshot: a direct call of a mutator, or a call
	// of a same-package helper that contains one
	sitesOf := func(match func(c ssa.CallInstruction) bool) []ssa.CallInstruction {
		var out []ssa.CallInstruction
		forEachCall(imp, func(c ssa.CallInstruction) {
			if match(c) {
				out = append(out, c)
				return
			}
			if g := c.Common().StaticCallee(); g != nil && fnPkg(g) == toolsPkg && g != imp {
				found := false
				e.forEachInstrRegion(g, 1, func(in ssa.Instruction) {
					if cc, ok := in.(ssa.CallInstruction); ok && match(cc) {
						found = true
					}
				})
				if found {
					out = append(out, c)
				}
			}
		})
		return out
	}
	seenSite := map[ssa.CallInstruction]bool{}
	for _, m := range mutators {
		f := r.need(m)
		if f == nil {
			continue
		}
		ss := sitesOf(func(c ssa.CallInstruction) bool { return e.CallsTo(c, f) })
		r.check(len(ss) > 0, "MPT-validate-first", m+" reached from ImportSnapshot", e.pos(imp.Pos()), "present", "ImportSnapshot no longer reaches "+m+" (anchor lost)")
		for _, x := range ss {
			if !seenSite[x] {
				seenSite[x] = true
				mutSites = append(mutSites, x)
			}
		}
	}
	// the log-store import (interface call)
	impM := e.Method("raftio", "ILogDB", "ImportSnapshot")
	for _, x := range sitesOf(func(c ssa.CallInstruction) bool { return e.IsMethodCall(c, impM) }) {
		if !seenSite[x] {
			seenSite[x] = true
			mutSites = append(mutSites, x)
		}
	}
	r.floor("MPT-validate-first-mutators", len(mutSites), 5)
	ici := r.helper("tools.isCompleteSnapshotImage")
	var verdict Req
	if ici != nil {
		verdict = reqBool("the image check returned true", func(v ssa.Value) bool {
			ex, ok := v.(*ssa.Extract)
			return ok && ex.Index == 0 && e.callV(ici)(ex)
		}, true)
	}
	// validated(ms, vf): ms runs only after a successful vf (and, for the
	// image check, its positive verdict): directly in ImportSnapshot, or
	// through a helper whose every successful return lies behind them
	validated := func(ms ssa.CallInstruction, vf *ssa.Function, needVerdict bool) bool {
		in := ms.(ssa.Instruction)
		if o, _ := e.alwaysPrecededBy(in, isCall(vf), 0); o && notFromErrEdge(e, imp, vf, ms) {
			if !needVerdict {
				return true
			}
			if g, _ := e.guardedOnAllPaths(in, verdict); g {
				return true
			}
		}
		okHelper := false
		forEachCall(imp, func(c ssa.CallInstruction) {
			g := c.Common().StaticCallee()
			if g == nil || fnPkg(g) != toolsPkg || g == vf || len(e.SitesIn(g, vf)) == 0 {
				return
			}
			// every success return of g is behind a successful vf (+ verdict)
			good := true
			n := 0
			forEachInstr(g, func(x ssa.Instruction) {
				if !e.isSuccessReturn(x) {
					return
				}
				n++
				if o, _ := e.alwaysPrecededBy(x, isCall(vf), 0); !o {
					good = false
				}
				for _, vs := range e.SitesIn(g, vf) {
					if vc, ok := vs.(*ssa.Call); ok && e.reachableFromErrEdgeOf(g, vc, x) {
						good = false
					}
				}
				if needVerdict {
					if gd, _ := e.guardedOnAllPaths(x, verdict); !gd {
						good = false
					}
				}
			})
			if !good || n == 0 {
				return
			}
			if o, _ := e.alwaysPrecededBy(in, func(y ssa.Instruction) bool { return y == c.(ssa.Instruction) }, 0); o && notFromErrEdge(e, imp, g, ms) {
				okHelper = true
			}
		})
		return okHelper
	}
	for _, v := range validators {
		var vf *ssa.Function
		if v.fn == "tools.isCompleteSnapshotImage" {
			vf = ici // optional wrapper around the checksum comparison
			if vf == nil {
				// inlined: the validation is the payload checksum computation itself
				vf = r.need("internal/rsm.GetV2PayloadChecksum")
			}
		} else {
			vf = r.need(v.fn)
		}
		if vf == nil {
			continue
		}
		for _, ms := range mutSites {
			r.check(validated(ms, vf, false), "MPT-validate-first", calleeLabel(e, ms)+" only after "+v.what, e.ipos(ms),
				"existing data is touched only after the import request was validated",
				"ImportSnapshot can modify existing data before/without the validation: "+v.what)
		}
	}
	// the boolean result of the image check gates
	if ici != nil {
		for _, ms := range mutSites {
			r.check(validated(ms, ici, true), "MPT-validate-first", calleeLabel(e, ms)+" only when the image check returned true", e.ipos(ms), "an incomplete or altered export is refused before anything is modified", "data can be modified although the image check returned false")
		}
		// it compares the payload checksum with the recorded one
		ck := e.Field("raftpb", "Snapshot", "Checksum")
		gpc := e.Func("internal/rsm.GetV2PayloadChecksum")
		okc := false
		forEachInstr(ici, func(in ssa.Instruction) {
			if c, ok := in.(*ssa.Call); ok {
				if sc := c.Call.StaticCallee(); sc != nil && sc.Name() == "Equal" && len(c.Call.Args) == 2 {
					a, b := c.Call.Args[0], c.Call.Args[1]
					if (fieldV(ck)(a) && e.dependsOn(b, e.callV(gpc), 0)) || (fieldV(ck)(b) && e.dependsOn(a, e.callV(gpc), 0)) {
						okc = true
					}
				}
			}
		})
		r.check(okc, "TBL-import-validators", "isCompleteSnapshotImage compares the file's payload checksum with the recorded checksum", e.pos(ici.Pos()), "checksum equality", "the image check no longer compares the payload checksum with the recorded one")
	} else {
		// the image check was inlined into ImportSnapshot: the same obligations
		// on the raw comparison of the recorded checksum with the file's
		ck := e.Field("raftpb", "Snapshot", "Checksum")
		gpc := e.Func("internal/rsm.GetV2PayloadChecksum")
		var eq VM = func(v ssa.Value) bool {
			c, ok := v.(*ssa.Call)
			if !ok {
				return false
			}
			sc := c.Call.StaticCallee()
			if sc == nil || sc.Name() != "Equal" || len(c.Call.Args) != 2 {
				return false
			}
			a, b := c.Call.Args[0], c.Call.Args[1]
			return (fieldV(ck)(a) && e.dependsOn(b, e.callV(gpc), 0)) || (fieldV(ck)(b) && e.dependsOn(a, e.callV(gpc), 0))
		}
		for _, ms := range mutSites {
			r.guard("MPT-validate-first", calleeLabel(e, ms)+" only when the payload checksum equals the recorded one", ms.(ssa.Instruction),
				reqBool("recorded checksum == checksum of the file", eq, true))
		}
	}
	// validators consult what they are defined over
	if cm := e.Func("tools.checkMembers"); cm != nil {
		got := keysOf(mapsConsulted(e, cm))
		r.check(got == "Addresses,NonVotings,Removed,Witnesses", "TBL-import-validators", "checkMembers consults all four membership maps", e.pos(cm.Pos()),
			"address/kind change and removed-id checks cover every member kind", "checkMembers consults only {"+got+"}")
		// a listed id found in NonVotings, Witnesses or Removed is refused
		// whatever its address; one found in Addresses only with the same
		// address: from each lookup no path reaches the accepting return
		// (nil) except through the "not found" edge (or, for Addresses, the
		// "same address" edge).
		nl := 0
		forEachInstr(cm, func(in ssa.Instruction) {
			lk, ok := in.(*ssa.Lookup)
			if !ok || !lk.CommaOk {
				return
			}
			f, _, ok := loadedField(lk.X)
			if !ok {
				return
			}
			nl++
			var okV VM = func(v ssa.Value) bool {
				ex, isE := v.(*ssa.Extract)
				return isE && ex.Tuple == ssa.Value(lk) && ex.Index == 1
			}
			var valV VM = func(v ssa.Value) bool {
				ex, isE := v.(*ssa.Extract)
				return isE && ex.Tuple == ssa.Value(lk) && ex.Index == 0
			}
			exempt := reqBool("not found", okV, false)
			if f.Name() == "Addresses" {
				exempt = reqAny("not found, or same address", reqBool("", okV, false), reqCmp("", "==", valV, anyV()))
			}
			res := e.pathUnless(cm, lk, func(x ssa.Instruction) bool { return e.isSuccessReturn(x) }, func(x ssa.Instruction) bool {
				// the next evaluation of the same lookup starts a new obligation
				return x == ssa.Instruction(lk)
			}, exempt)
			var w []string
			for _, x := range res.Witness {
				w = append(w, e.ipos(x))
			}
			what := "a listed id that is a " + f.Name() + " member of the exported membership"
			r.check(!res.Found, "TBL-import-validators", "checkMembers refuses "+what+" (unless absent"+map[bool]string{true: " or unchanged", false: ""}[f.Name() == "Addresses"]+")", e.ipos(lk),
				"the member list cannot change the kind/address of an existing member or re-add a removed id",
				"checkMembers can accept "+what+": the import would turn it into a regular member / change its address / re-admit it", w...)
		})
		r.check(nl >= 4, "TBL-import-validators", "checkMembers looks every listed id up in the four maps", e.pos(cm.Pos()), "four lookups", "checkMembers performs fewer than four membership lookups")
	}
	if cs := e.Func("tools.checkImportSettings"); cs != nil {
		ra := e.Field("config", "NodeHostConfig", "RaftAddress")
		okA := false
		forEachInstr(cs, func(in ssa.Instruction) {
			if b, ok := in.(*ssa.BinOp); ok && (b.Op.String() == "!=" || b.Op.String() == "==") && (fieldV(ra)(b.X) || fieldV(ra)(b.Y)) {
				okA = true
			}
		})
		hasLookup := false
		forEachInstr(cs, func(in ssa.Instruction) {
			if lk, ok := in.(*ssa.Lookup); ok && lk.CommaOk {
				hasLookup = true
			}
		})
		// exact form: the settings are accepted only when the list maps *this*
		// replica id to *this* host's raft address
		var ridParam *ssa.Parameter
		for _, p := range cs.Params {
			if bt, ok := p.Type().Underlying().(*types.Basic); ok && bt.Kind() == types.Uint64 {
				ridParam = p
			}
		}
		if ridParam != nil {
			ownLookup := func(idx int) VM {
				return func(v ssa.Value) bool {
					ex, ok := v.(*ssa.Extract)
					if !ok || ex.Index != idx {
						return false
					}
					lk, ok := ex.Tuple.(*ssa.Lookup)
					return ok && stripConv(lk.Index) == ssa.Value(ridParam)
				}
			}
			ns := 0
			forEachInstr(cs, func(in ssa.Instruction) {
				if !e.isSuccessReturn(in) {
					return
				}
				ns++
				r.guard("TBL-import-validators", "checkImportSettings accepts", in,
					reqBool("the replica id is in the member list", ownLookup(1), true),
					reqCmp("the address listed for the replica id == the host's RaftAddress", "==", fieldV(ra), ownLookup(0)))
			})
			r.floor("TBL-import-settings", ns, 1)
		}
		r.check(okA && hasLookup, "TBL-import-validators", "checkImportSettings requires the replica in the list at the host's raft address", e.pos(cs.Pos()), "own id listed at own address", "checkImportSettings no longer checks the replica's presence and address")
	}
	// ---- the rewritten record
	if gp := r.need("tools.getProcessedSnapshotRecord"); gp != nil {
		removedFrom := map[string]bool{}
		// the maps a range instruction iterates: a membership field, or - when
		// the loop sits in a local closure called once per map - the fields
		// passed to that closure
		// the membership fields passed for a parameter of a local closure or of a
		// helper function at its call sites
		argFields := func(p *ssa.Parameter) []string {
			cl := p.Parent()
			idx := -1
			for i, q := range cl.Params {
				if q == p {
					idx = i
				}
			}
			var out []string
			visit := func(c ssa.CallInstruction) {
				callee := false
				for _, g := range e.Callees(c) {
					if g == cl {
						callee = true
					}
				}
				if !callee || idx < 0 || idx >= len(c.Common().Args) {
					return
				}
				if f, _, ok := loadedField(c.Common().Args[idx]); ok {
					out = append(out, f.Name())
				}
			}
			if cl.Parent() != nil {
				forEachCall(cl.Parent(), visit)
			} else {
				for _, cs := range e.CallerSites(cl) {
					visit(cs)
				}
			}
			return out
		}
		rangeFields := func(rg *ssa.Range) []string {
			if f, _, ok := loadedField(rg.X); ok {
				return []string{f.Name()}
			}
			if p, ok := rg.X.(*ssa.Parameter); ok {
				return argFields(p)
			}
			// an element of a local slice of maps (`for _, m := range []map..{a, b, c}`)
			var out []string
			e.dependsOn(rg.X, func(v ssa.Value) bool {
				if f, _, ok := loadedField(v); ok {
					if _, isMap := f.Type().Underlying().(*types.Map); isMap {
						out = append(out, f.Name())
					}
				}
				return false
			}, 0)
			return out
		}
		isRemovedMap := func(m ssa.Value) bool {
			if f, _, ok := loadedField(m); ok {
				return f.Name() == "Removed"
			}
			if p, ok := m.(*ssa.Parameter); ok {
				fs := argFields(p)
				for _, f := range fs {
					if f != "Removed" {
						return false
					}
				}
				return len(fs) > 0
			}
			return false
		}
		e.forEachInstrRegion(gp, 1, func(in ssa.Instruction) {
			if mu, ok := in.(*ssa.MapUpdate); ok && isRemovedMap(mu.Map) {
				// which range(s) does the key come from?
				e.dependsOn(mu.Key, func(v ssa.Value) bool {
					if rg, ok := v.(*ssa.Range); ok {
						for _, k := range rangeFields(rg) {
							removedFrom[k] = true
						}
					}
					return false
				}, 0)
			}
		})
		r.check(keysOf(removedFrom) == "Addresses,NonVotings,Removed,Witnesses", "TBL-import-record", "unlisted members of every kind (and earlier removals) end up in Removed", e.pos(gp.Pos()),
			"previous voters, non-voting members and witnesses not in the new list are recorded as removed", "Removed is filled only from {"+keysOf(removedFrom)+"}: an unlisted member of another kind is neither a member nor removed")
		// Imported: true, Addresses from the given members, ConfigChangeId from the index
		imported := e.Field("raftpb", "Snapshot", "Imported")
		okImp := false
		forEachInstr(gp, func(in ssa.Instruction) {
			if st, ok := in.(*ssa.Store); ok {
				if f, _, ok := fieldOfAddr(st.Addr); ok && f == imported {
					if cb, isC := isConstBool(st.Val); isC && cb {
						okImp = true
					}
				}
			}
		})
		r.check(okImp, "TBL-import-record", "the rewritten record is marked Imported", e.pos(gp.Pos()), "Imported: true", "the rewritten snapshot record is no longer marked Imported")
		okAddr := false
		forEachInstr(gp, func(in ssa.Instruction) {
			if mu, ok := in.(*ssa.MapUpdate); ok {
				if f, _, ok := loadedField(mu.Map); ok && f.Name() == "Addresses" {
					if e.dependsOn(mu.Key, func(v ssa.Value) bool {
						rg, ok := v.(*ssa.Range)
						if !ok {
							return false
						}
						x := rg.X
						if ld, isLd := x.(*ssa.UnOp); isLd {
							// a parameter captured by a closure lives in a cell
							if al := rootAlloc(ld.X); al != nil {
								for _, sv := range storesInto(al) {
									if p, ok := sv.(*ssa.Parameter); ok && p.Name() == "members" {
										return true
									}
								}
							}
						}
						p, ok := x.(*ssa.Parameter)
						return ok && p.Name() == "members"
					}, 0) {
						okAddr = true
					}
				}
			}
		})
		r.check(okAddr, "TBL-import-record", "voting members are exactly the given list", e.pos(gp.Pos()), "Addresses filled from the given members", "Membership.Addresses is no longer filled from the given member list")
		for _, fld := range []string{"Index", "Term", "Checksum", "FileSize", "Type", "ShardID", "Dummy"} {
			f := e.Field("raftpb", "Snapshot", fld)
			okf := false
			forEachInstr(gp, func(in ssa.Instruction) {
				if st, ok := in.(*ssa.Store); ok {
					if ff, _, ok := fieldOfAddr(st.Addr); ok && ff == f && fieldV(f)(st.Val) {
						okf = true
					}
				}
			})
			r.check(okf, "TBL-import-record", "Snapshot."+fld+" carried over from the exported record", e.pos(gp.Pos()), "copied", "the rewritten record no longer carries over "+fld)
		}
	}
	// ---- log-store import
	if di := r.need("(*internal/logdb.db).importSnapshot"); di != nil {
		want := []string{"(*internal/logdb.db).saveRemoveNodeData", "(*internal/logdb.db).saveBootstrap", "(*internal/logdb.db).saveStateAllocs", "(*internal/logdb.db).saveSnapshot", "(*internal/logdb.db).saveMaxIndex"}
		commitM := e.Method("internal/logdb/kv", "IKVStore", "CommitWriteBatch")
		commits := e.MethodSitesIn(di, commitM)
		r.check(len(commits) == 1, "MPT-import-batch", "db.importSnapshot commits exactly one batch", e.pos(di.Pos()), "one atomic batch", "the import no longer commits exactly one write batch")
		for _, w := range want {
			f := e.funcByBase(w)
			okw := f != nil && len(commits) == 1
			if okw {
				okw = false
				for _, s := range e.SitesIn(di, f) {
					if dominatesInstr(s.(ssa.Instruction), commits[0].(ssa.Instruction)) {
						okw = true
					}
				}
			}
			r.check(okw, "MPT-import-batch", strings.TrimPrefix(w, "(*internal/logdb.db).")+" goes into the batch before the commit", e.pos(di.Pos()), "part of the single batch", "the import batch no longer contains "+w)
		}
		// inside a write batch later operations win: the sweep that deletes the
		// replica's previous records (which can include a snapshot record at the
		// imported index) must come before every record the import writes
		if rm := e.funcByBase("(*internal/logdb.db).saveRemoveNodeData"); rm != nil {
			isRm := func(in ssa.Instruction) bool {
				c, ok := in.(*ssa.Call)
				return ok && e.CallsTo(c, rm)
			}
			for _, w := range want[1:] {
				f := e.funcByBase(w)
				if f == nil {
					continue
				}
				for _, ws := range e.SitesIn(di, f) {
					res := e.findPath(di, ws.(ssa.Instruction), isRm, nil, nil)
					r.check(!res.Found, "MPT-import-batch", strings.TrimPrefix(w, "(*internal/logdb.db).")+" is put into the batch after the delete sweep", e.ipos(ws),
						"nothing the import writes is deleted again by the same batch", "the import writes a record and then adds the sweep that deletes the replica's old records to the same batch: an existing record at the imported index makes the sweep delete what was just written")
				}
			}
		}
		// state: term and commit from the snapshot
		stTerm, stCommit := e.Field("raftpb", "State", "Term"), e.Field("raftpb", "State", "Commit")
		ssTerm, ssIndex := e.Field("raftpb", "Snapshot", "Term"), e.Field("raftpb", "Snapshot", "Index")
		okT, okC := false, false
		forEachInstr(di, func(in ssa.Instruction) {
			if st, ok := in.(*ssa.Store); ok {
				if f, _, ok := fieldOfAddr(st.Addr); ok {
					if f == stTerm && fieldV(ssTerm)(st.Val) {
						okT = true
					}
					if f == stCommit && fieldV(ssIndex)(st.Val) {
						okC = true
					}
				}
			}
		})
		r.check(okT && okC, "MPT-import-batch", "imported hard state carries the snapshot's term and index", e.pos(di.Pos()), "Term=ss.Term, Commit=ss.Index", "the imported hard state no longer takes term and commit from the snapshot")
	}
	if ti := r.need("(*internal/tan.LogDB).ImportSnapshot"); ti != nil {
		sb := e.Func("internal/tan.saveBootstrap")
		di := e.Func("(*internal/tan.db).importSnapshot")
		sy := e.Func("(*internal/tan.db).sync")
		okOrder := sb != nil && di != nil && sy != nil
		if okOrder {
			for _, s := range e.SitesIn(ti, di) {
				o, _ := e.alwaysPrecededBy(s.(ssa.Instruction), isCall(sb), 0)
				okOrder = okOrder && o && notFromErrEdge(e, ti, sb, s)
			}
			res := e.findPath(ti, nil, func(in ssa.Instruction) bool { return e.isSuccessReturn(in) }, isCall(sy), nil)
			okOrder = okOrder && !res.Found
		}
		r.check(okOrder, "MPT-import-batch", "tan import: bootstrap -> install -> sync", e.pos(ti.Pos()), "ordered and synced", "the Tan import no longer writes bootstrap, installs the snapshot and syncs on every success path")
	}
	ruleShrunkPredicate(e, r)
	ruleLogDBDirs(e, r)
	ruleImportedAlwaysRecovered(e, r)
	ruleTanRemoveAllFirst(e, r)
	ruleTanInstallRemovesFirst(e, r)
	ruleShardRouting(e, r)
	ruleBootstrapGate(e, r)
	ruleCreatedFileSync(e, r, 1, "tools")
	ruleImportRecordWriters(e, r)
	borrow(e, r, "C16", "ERR-refusal", "MPT-publish-before-record")
	borrow(e, r, "C08", "WMW-ondisk-cursors")
	borrow(e, r, "C10", "ERR-soft-pairs")
}
