package main

// cfg.go: per-function control-flow facts over the SSA CFG: guard facts with
// polarity (GD), must-pass-through path search (MPT/PAIR), non-returning
// calls, success exits.

import (
	"go/constant"
	"go/token"
	"go/types"
	"strings"

	"golang.org/x/tools/go/ssa"
)

// ---------------------------------------------------------------------------
// non-returning functions (fail-stop)

var noReturnNames = map[string]bool{
	"os.Exit":        true,
	"log.Fatal":      true,
	"log.Fatalf":     true,
	"log.Panic":      true,
	"log.Panicf":     true,
	"runtime.Goexit": true,
}

// NoReturnCall reports whether the call never returns normally: panic-like
// logger methods (ILogger.Panicf, documented to panic), or a module function
// all of whose paths end in panic / another non-returning call.
func (e *Engine) NoReturnCall(site ssa.CallInstruction) bool {
	c := site.Common()
	if c.IsInvoke() {
		if c.Method.Name() == "Panicf" && c.Method.Pkg() != nil && strings.HasSuffix(c.Method.Pkg().Path(), "/logger") {
			return true
		}
		return false
	}
	if b, ok := c.Value.(*ssa.Builtin); ok {
		return b.Name() == "panic"
	}
	sc := c.StaticCallee()
	if sc == nil {
		return false
	}
	return e.noReturnFunc(sc)
}

func (e *Engine) noReturnFunc(f *ssa.Function) bool {
	if f.Pkg != nil && noReturnNames[f.Pkg.Pkg.Name()+"."+f.Name()] {
		return true
	}
	if f.Name() == "Panicf" && f.Signature.Recv() != nil {
		if p := fnPkg(f); p != nil && strings.HasSuffix(p.Path(), "/logger") {
			return true
		}
	}
	switch e.noret[f] {
	case 1:
		return false
	case 2:
		return true
	}
	if len(f.Blocks) == 0 {
		e.noret[f] = 1
		return false
	}
	e.noret[f] = 1 // recursion: assume returns
	// a normal return reachable without passing a non-returning call?
	seen := map[*ssa.BasicBlock]bool{}
	var walk func(b *ssa.BasicBlock) bool
	walk = func(b *ssa.BasicBlock) bool {
		if seen[b] {
			return false
		}
		seen[b] = true
		for _, in := range b.Instrs {
			switch x := in.(type) {
			case *ssa.Return:
				return true
			case *ssa.Panic:
				return false
			case ssa.CallInstruction:
				if _, isGo := x.(*ssa.Go); isGo {
					continue
				}
				if _, isDefer := x.(*ssa.Defer); isDefer {
					continue
				}
				if e.NoReturnCall(x) {
					return false
				}
			}
		}
		for _, s := range b.Succs {
			if walk(s) {
				return true
			}
		}
		return false
	}
	if walk(f.Blocks[0]) {
		e.noret[f] = 1
		return false
	}
	e.noret[f] = 2
	return true
}

// ---------------------------------------------------------------------------
// facts

// Fact is "value V is Pol on this path".
type Fact struct {
	V   ssa.Value
	Pol bool
}

// blockFacts returns the branch facts that hold on entry to block b: for each
// strict dominator d ending in `if c`, if exactly one successor edge of d can
// lead to b without re-passing d (i.e. that successor has d as its only
// predecessor and dominates b), then (c, which edge).
func blockFacts(b *ssa.BasicBlock) []Fact {
	var out []Fact
	for d := b.Idom(); d != nil; d = d.Idom() {
		if len(d.Instrs) == 0 {
			continue
		}
		ifi, ok := d.Instrs[len(d.Instrs)-1].(*ssa.If)
		if !ok {
			continue
		}
		t, f := d.Succs[0], d.Succs[1]
		tdom := len(t.Preds) == 1 && t.Dominates(b)
		fdom := len(f.Preds) == 1 && f.Dominates(b)
		if tdom && !fdom {
			out = append(out, Fact{ifi.Cond, true})
		} else if fdom && !tdom {
			out = append(out, Fact{ifi.Cond, false})
		}
	}
	return out
}

// edgeFacts returns facts that hold when control flows pred -> succ.
func edgeFacts(pred, succ *ssa.BasicBlock) []Fact {
	out := blockFacts(pred)
	if len(pred.Instrs) > 0 {
		if ifi, ok := pred.Instrs[len(pred.Instrs)-1].(*ssa.If); ok && pred.Succs[0] != pred.Succs[1] {
			if pred.Succs[0] == succ {
				out = append(out, Fact{ifi.Cond, true})
			} else if pred.Succs[1] == succ {
				out = append(out, Fact{ifi.Cond, false})
			}
		}
	}
	return out
}

// edgeOnly returns just the branch fact of the edge pred -> succ.
func edgeOnly(pred, succ *ssa.BasicBlock) []Fact {
	if len(pred.Instrs) > 0 {
		if ifi, ok := pred.Instrs[len(pred.Instrs)-1].(*ssa.If); ok && pred.Succs[0] != pred.Succs[1] {
			if pred.Succs[0] == succ {
				return []Fact{{ifi.Cond, true}}
			} else if pred.Succs[1] == succ {
				return []Fact{{ifi.Cond, false}}
			}
		}
	}
	return nil
}

func isConstBool(v ssa.Value) (bool, bool) {
	c, ok := v.(*ssa.Const)
	if !ok || c.Value == nil || c.Value.Kind() != constant.Bool {
		return false, false
	}
	return constant.BoolVal(c.Value), true
}

// expand closes a fact set under !, &&/|| phis and comparisons with bool
// constants, returning atomic facts (including the originals).
func expandFacts(in []Fact) []Fact {
	var out []Fact
	seen := map[Fact]bool{}
	var add func(f Fact, depth int)
	add = func(f Fact, depth int) {
		if seen[f] || depth > 12 {
			return
		}
		seen[f] = true
		out = append(out, f)
		switch v := f.V.(type) {
		case *ssa.UnOp:
			if v.Op == token.NOT {
				add(Fact{v.X, !f.Pol}, depth+1)
			}
		case *ssa.BinOp:
			if v.Op == token.EQL || v.Op == token.NEQ {
				if cb, ok := isConstBool(v.Y); ok {
					add(Fact{v.X, (cb == (v.Op == token.EQL)) == f.Pol}, depth+1)
				} else if cb, ok := isConstBool(v.X); ok {
					add(Fact{v.Y, (cb == (v.Op == token.EQL)) == f.Pol}, depth+1)
				}
			}
		case *ssa.Phi:
			// short-circuit: value has polarity Pol only via edges that are
			// not the constant !Pol. If exactly one such edge exists, its
			// value and its path facts hold.
			if b, ok := v.Type().Underlying().(*types.Basic); !ok || b.Kind() != types.Bool {
				return
			}
			idx := -1
			n := 0
			for i, ev := range v.Edges {
				if cb, ok := isConstBool(ev); ok && cb != f.Pol {
					continue
				}
				n++
				idx = i
			}
			if n == 1 {
				add(Fact{v.Edges[idx], f.Pol}, depth+1)
				for _, ef := range edgeFacts(v.Block().Preds[idx], v.Block()) {
					add(ef, depth+1)
				}
			}
		}
	}
	for _, f := range in {
		add(f, 0)
	}
	return out
}

// FactsAt returns the expanded facts that hold whenever instr executes.
func FactsAt(in ssa.Instruction) []Fact {
	return expandFacts(blockFacts(in.Block()))
}

// ValueFacts: facts implied by "v has polarity pol".
func ValueFacts(v ssa.Value, pol bool) []Fact {
	return expandFacts([]Fact{{v, pol}})
}

// ---------------------------------------------------------------------------
// path search

type ipos struct {
	b *ssa.BasicBlock
	i int
}

// PathResult of a search.
type PathResult struct {
	Found   bool
	Target  ssa.Instruction
	Witness []ssa.Instruction // block leaders along the path
}

// findPath searches the CFG of one function from the instruction *after*
// `from` (or from entry if from is nil) for an instruction satisfying target
// without passing one that satisfies barrier. Edges can be pruned with
// edgeOK(pred, succ) (nil = all). Fail-stop instructions end a path.
func (e *Engine) findPath(fn *ssa.Function, from ssa.Instruction,
	target func(ssa.Instruction) bool, barrier func(ssa.Instruction) bool,
	edgeOK func(p, s *ssa.BasicBlock) bool) PathResult {
	if len(fn.Blocks) == 0 {
		return PathResult{}
	}
	type node struct {
		b    *ssa.BasicBlock
		i    int
		prev *node
	}
	start := &node{b: fn.Blocks[0], i: 0}
	if from != nil {
		b := from.Block()
		for i, x := range b.Instrs {
			if x == from {
				start = &node{b: b, i: i + 1}
			}
		}
	}
	seen := map[*ssa.BasicBlock]bool{}
	queue := []*node{start}
	for len(queue) > 0 {
		n := queue[0]
		queue = queue[1:]
		stopped := false
		for i := n.i; i < len(n.b.Instrs); i++ {
			in := n.b.Instrs[i]
			if barrier != nil && barrier(in) {
				stopped = true
				break
			}
			if target(in) {
				var w []ssa.Instruction
				for x := n; x != nil; x = x.prev {
					if len(x.b.Instrs) > 0 {
						idx := x.i
						if idx >= len(x.b.Instrs) {
							idx = len(x.b.Instrs) - 1
						}
						w = append([]ssa.Instruction{x.b.Instrs[idx]}, w...)
					}
				}
				return PathResult{Found: true, Target: in, Witness: w}
			}
			if _, ok := in.(*ssa.Panic); ok {
				stopped = true
				break
			}
			if c, ok := in.(*ssa.Call); ok && e.NoReturnCall(c) {
				stopped = true
				break
			}
		}
		if stopped {
			continue
		}
		for _, s := range n.b.Succs {
			if seen[s] {
				continue
			}
			if edgeOK != nil && !edgeOK(n.b, s) {
				continue
			}
			seen[s] = true
			queue = append(queue, &node{b: s, i: 0, prev: n})
		}
	}
	return PathResult{}
}

func isReturn(in ssa.Instruction) bool { _, ok := in.(*ssa.Return); return ok }

// errResultIndex returns the index of the last result of type error, or -1.
func errResultIndex(fn *ssa.Function) int {
	res := fn.Signature.Results()
	for i := res.Len() - 1; i >= 0; i-- {
		if isErrorType(res.At(i).Type()) {
			return i
		}
	}
	return -1
}

func isErrorType(t types.Type) bool {
	n, ok := t.(*types.Named)
	return ok && n.Obj().Pkg() == nil && n.Obj().Name() == "error"
}

// retOperand resolves the idx-th result of a return, looking through the
// spill slot go/ssa introduces in functions with defer (`*t0 = v; rundefers;
// t1 = *t0; return t1`): the value stored to the slot in the same block.
func retOperand(r *ssa.Return, idx int) ssa.Value {
	v := r.Results[idx]
	u, ok := v.(*ssa.UnOp)
	if !ok || u.Op != token.MUL {
		return v
	}
	a, ok := u.X.(*ssa.Alloc)
	if !ok {
		return v
	}
	b := r.Block()
	for i := len(b.Instrs) - 1; i >= 0; i-- {
		if st, ok := b.Instrs[i].(*ssa.Store); ok && st.Addr == a {
			return st.Val
		}
	}
	return v
}

func isNilConst(v ssa.Value) bool {
	c, ok := v.(*ssa.Const)
	return ok && c.Value == nil
}

// isSuccessReturn: a return that may report success: no error result, or the
// error operand is not provably non-nil. It is provably non-nil when the
// return is dominated by the fact (v != nil) for that operand, or the operand
// is a fresh error construction.
func (e *Engine) isSuccessReturn(in ssa.Instruction) bool {
	r, ok := in.(*ssa.Return)
	if !ok {
		return false
	}
	idx := errResultIndex(r.Parent())
	if idx < 0 || idx >= len(r.Results) {
		return true
	}
	v := retOperand(r, idx)
	if isNilConst(v) {
		return true
	}
	return !e.knownNonNil(v, r)
}

// knownNonNil: v is a non-nil error at instruction at.
func (e *Engine) knownNonNil(v ssa.Value, at ssa.Instruction) bool {
	v = stripChangeInterface(v)
	switch x := v.(type) {
	case *ssa.MakeInterface:
		return true
	case *ssa.Call:
		if sc := x.Call.StaticCallee(); sc != nil {
			n := ""
			if sc.Pkg != nil {
				n = sc.Pkg.Pkg.Path() + "." + sc.Name()
			}
			switch n {
			case "errors.New", "fmt.Errorf", "github.com/cockroachdb/errors.New", "github.com/cockroachdb/errors.Newf",
				"github.com/cockroachdb/errors.Errorf":
				return true
			}
			// nil-preserving wrappers of a known non-nil error
			if isErrWrapper(sc) && len(x.Call.Args) > 0 {
				return e.knownNonNil(x.Call.Args[0], at)
			}
		}
	case *ssa.UnOp:
		if x.Op == token.MUL {
			if g, ok := x.X.(*ssa.Global); ok && isErrorType(g.Type().(*types.Pointer).Elem()) {
				return true // sentinel error variable
			}
		}
	case *ssa.Phi:
		for _, ed := range x.Edges {
			if isNilConst(ed) {
				return false
			}
		}
	}
	for _, f := range FactsAt(at) {
		if b, ok := f.V.(*ssa.BinOp); ok {
			if (b.Op == token.NEQ && f.Pol) || (b.Op == token.EQL && !f.Pol) {
				if (sameValue(b.X, v) && isNilConst(b.Y)) || (sameValue(b.Y, v) && isNilConst(b.X)) {
					return true
				}
			}
		}
	}
	return false
}

func isErrWrapper(f *ssa.Function) bool {
	if f.Pkg == nil {
		return false
	}
	p := f.Pkg.Pkg.Path()
	if p == "github.com/cockroachdb/errors" || p == "github.com/pkg/errors" {
		switch f.Name() {
		case "WithStack", "Wrap", "Wrapf", "WithMessage", "WithMessagef", "WithStackDepth":
			return true
		}
	}
	return false
}

func stripChangeInterface(v ssa.Value) ssa.Value {
	for {
		switch x := v.(type) {
		case *ssa.ChangeInterface:
			v = x.X
		case *ssa.ChangeType:
			v = x.X
		default:
			return v
		}
	}
}

func sameValue(a, b ssa.Value) bool {
	return stripChangeInterface(a) == stripChangeInterface(b)
}

// ---------------------------------------------------------------------------
// post-dominance (for "S on every path from A to normal exit")

type postDom struct{}

// instrIndex returns the index of in within its block.
func instrIndex(in ssa.Instruction) int {
	for i, x := range in.Block().Instrs {
		if x == in {
			return i
		}
	}
	return -1
}

// dominatesInstr: a executes before b on every path to b (same function).
func dominatesInstr(a, b ssa.Instruction) bool {
	if a.Block() == b.Block() {
		return instrIndex(a) < instrIndex(b)
	}
	return a.Block().Dominates(b.Block())
}

// valueAlternatives: the ways a boolean value can have polarity pol. A
// short-circuit phi with several admissible edges (`a || b` being true, `a &&
// b` being false) yields one alternative per edge: the facts of the edge's
// path plus the alternatives of the edge's value. Every other value has the
// single alternative ValueFacts(v, pol). Bounded.
func valueAlternatives(v ssa.Value, pol bool, depth int) [][]Fact {
	phi, ok := v.(*ssa.Phi)
	if ok {
		if b, isB := phi.Type().Underlying().(*types.Basic); !isB || b.Kind() != types.Bool {
			ok = false
		}
	}
	if !ok || depth > 4 {
		return [][]Fact{ValueFacts(v, pol)}
	}
	var out [][]Fact
	for i, ev := range phi.Edges {
		if cb, isC := isConstBool(ev); isC && cb != pol {
			continue
		}
		path := expandFacts(edgeFacts(phi.Block().Preds[i], phi.Block()))
		if _, isC := isConstBool(ev); isC {
			out = append(out, path)
			continue
		}
		for _, alt := range valueAlternatives(ev, pol, depth+1) {
			out = append(out, append(append([]Fact{}, path...), alt...))
		}
		if len(out) > 32 {
			break
		}
	}
	if len(out) == 0 {
		return [][]Fact{ValueFacts(v, pol)}
	}
	return out
}

// Trace renders the witness path of a search result.
func (p PathResult) Trace(e *Engine) []string {
	var w []string
	for _, x := range p.Witness {
		w = append(w, e.ipos(x))
	}
	if p.Target != nil {
		w = append(w, "exit at "+e.ipos(p.Target))
	}
	return w
}
