package main

// err.go: ERR — error discipline of the storage layer.
//  E1 dropped:     an error result nobody looks at.
//  E2 nil-on-err:  from the `err != nil` edge a success return (nil error) is
//                  reachable without passing a sentinel test of that error.
//  E3 err->absent: same, in a function that has no error result and does not
//                  fail-stop: the failure is reported as "not found"/zero.

import (
	"fmt"
	"go/token"
	"go/types"
	"strings"

	"golang.org/x/tools/go/ssa"
)

type errScope struct {
	pkgs  map[string]bool // module-relative package paths
	files map[string]bool // module-relative file names for the root package
}

func (e *Engine) relFile(p token.Pos) string {
	if !p.IsValid() {
		return ""
	}
	f := e.Fset.Position(p).Filename
	return strings.TrimPrefix(f, e.Dir+"/")
}

func (e *Engine) inErrScope(fn *ssa.Function, sc errScope) bool {
	p := fnPkg(fn)
	if p == nil || !inModule(p) {
		return false
	}
	rel := strings.TrimPrefix(strings.TrimPrefix(p.Path(), modPath), "/")
	if sc.pkgs[rel] {
		return true
	}
	return sc.files[e.relFile(fn.Pos())]
}

// errValueOf returns the error-typed value produced by a call (the call
// itself or its Extract), or nil if the call has no error result. dropped is
// true when no instruction reads it.
func errValueOf(c *ssa.Call) (vals []ssa.Value, hasErr bool, dropped bool) {
	res := c.Call.Signature().Results()
	idx := -1
	for i := res.Len() - 1; i >= 0; i-- {
		if isErrorType(res.At(i).Type()) {
			idx = i
			break
		}
	}
	if idx < 0 {
		return nil, false, false
	}
	if res.Len() == 1 {
		refs := c.Referrers()
		if refs == nil || len(*refs) == 0 {
			return nil, true, true
		}
		return []ssa.Value{c}, true, false
	}
	found := false
	if refs := c.Referrers(); refs != nil {
		for _, r := range *refs {
			if ex, ok := r.(*ssa.Extract); ok && ex.Index == idx {
				found = true
				if er := ex.Referrers(); er != nil && len(*er) > 0 {
					vals = append(vals, ex)
				}
			}
		}
	}
	if !found || len(vals) == 0 {
		return nil, true, true
	}
	return vals, true, false
}

// ignoredErrCallee: callees whose error is not a storage outcome.
func ignoredErrCallee(f *ssa.Function) bool {
	p := fnPkg(f)
	if p == nil {
		return false
	}
	if f.Signature.Recv() != nil {
		rt := recvTypeName(f.Signature.Recv().Type())
		if rt == "bytes.Buffer" || rt == "strings.Builder" || rt == "hash.Hash" {
			return true // documented: err is always nil
		}
	}
	switch p.Path() {
	case "fmt", "strconv", "encoding/json", "encoding/binary", "time", "net", "regexp", "flag":
		return true
	}
	return false
}

// sentinelTest reports whether cond is a test that classifies error value v
// as a specific soft error: v == X, errors.Is(v, X), or pred(v) where pred is
// a func(error) bool. Returns the polarity of cond for which v IS the
// sentinel.
func (e *Engine) sentinelTest(cond ssa.Value, aliases map[ssa.Value]bool) (isTest bool, polWhenSentinel bool) {
	switch x := cond.(type) {
	case *ssa.UnOp:
		if x.Op == token.NOT {
			t, p := e.sentinelTest(x.X, aliases)
			return t, !p
		}
	case *ssa.BinOp:
		if x.Op == token.EQL || x.Op == token.NEQ {
			a, b := stripChangeInterface(x.X), stripChangeInterface(x.Y)
			if (aliases[a] && !isNilConst(b) && isErrorType(b.Type())) || (aliases[b] && !isNilConst(a) && isErrorType(a.Type())) {
				return true, x.Op == token.EQL
			}
		}
	case *ssa.Call:
		sig := x.Call.Signature()
		if sig.Results().Len() == 1 {
			if b, ok := sig.Results().At(0).Type().Underlying().(*types.Basic); ok && b.Kind() == types.Bool {
				for _, a := range x.Call.Args {
					if aliases[stripChangeInterface(a)] {
						return true, true
					}
				}
			}
		}
	}
	return false, false
}

// errAliases: v and everything it flows to by phi / interface change /
// nil-preserving wrappers.
func errAliases(v ssa.Value) map[ssa.Value]bool {
	out := map[ssa.Value]bool{}
	var add func(x ssa.Value, d int)
	add = func(x ssa.Value, d int) {
		if out[x] || d > 6 {
			return
		}
		out[x] = true
		refs := x.Referrers()
		if refs == nil {
			return
		}
		for _, r := range *refs {
			switch y := r.(type) {
			case *ssa.Phi:
				add(y, d+1)
			case *ssa.ChangeInterface:
				add(y, d+1)
			case *ssa.Call:
				if sc := y.Call.StaticCallee(); sc != nil && isErrWrapper(sc) && len(y.Call.Args) > 0 && y.Call.Args[0] == x {
					add(y, d+1)
				}
			}
		}
	}
	add(v, 0)
	return out
}

// ErrFinding is a site that violates E1/E2/E3.
type ErrFinding struct {
	Rule, Construct, Pos, Detail string
	Witness                      []string
}

// ErrStats counts what the rule examined.
type ErrStats struct {
	Funcs, Calls, ErrEdges int
}

func calleeLabel(e *Engine, c ssa.CallInstruction) string {
	if c.Common().IsInvoke() {
		return recvTypeName(c.Common().Value.Type()) + "." + c.Common().Method.Name()
	}
	if sc := c.Common().StaticCallee(); sc != nil {
		return fname(sc)
	}
	cs := e.Callees(c)
	if len(cs) > 0 {
		return fname(cs[0])
	}
	return "func-value"
}

func recvTypeName(t types.Type) string {
	if p, ok := t.(*types.Pointer); ok {
		t = p.Elem()
	}
	if n, ok := t.(*types.Named); ok {
		if n.Obj().Pkg() != nil {
			return short(n.Obj().Pkg().Path()) + "." + n.Obj().Name()
		}
		return n.Obj().Name()
	}
	return short(t.String())
}

// CheckErrDiscipline runs E1/E2/E3 over the scope. accept lists constructs
// confirmed by reading as legitimate (key -> reason).
func (e *Engine) CheckErrDiscipline(r *Report, sc errScope, accept map[string]string) ErrStats {
	var st ErrStats
	usedAccept := map[string]bool{}
	for _, fn := range e.ScopeFuncs() {
		if !e.inErrScope(fn, sc) || len(fn.Blocks) == 0 {
			continue
		}
		st.Funcs++
		hasErrRes := errResultIndex(fn) >= 0
		seenKey := map[string]int{}
		for _, b := range fn.Blocks {
			for _, in := range b.Instrs {
				var call *ssa.Call
				switch x := in.(type) {
				case *ssa.Call:
					call = x
				case *ssa.Defer, *ssa.Go:
					// deferred/spawned error results are discarded by the
					// language; handled by the deferred-close rule (E1d)
					ci := in.(ssa.CallInstruction)
					sig := ci.Common().Signature()
					if sig.Results().Len() > 0 && isErrorType(sig.Results().At(sig.Results().Len()-1).Type()) {
						lbl := calleeLabel(e, ci)
						key := fname(fn) + "->defer:" + lbl
						st.Calls++
						if reason, ok := accept[key]; ok {
							usedAccept[key] = true
							r.add(Ob{Rule: "ERR-E1", Construct: key, Pos: e.ipos(in), OK: true, Detail: "accepted idiom: " + reason})
						} else {
							r.bad("ERR-E1", key, e.ipos(in), "error result of a deferred/spawned call is discarded")
						}
					}
					continue
				default:
					continue
				}
				if _, isB := call.Call.Value.(*ssa.Builtin); isB {
					continue
				}
				vals, hasErr, dropped := errValueOf(call)
				if !hasErr {
					continue
				}
				skip := false
				if call.Call.IsInvoke() {
					if rt := recvTypeName(call.Call.Value.Type()); rt == "hash.Hash" || rt == "hash.Hash32" || rt == "hash.Hash64" {
						skip = true // documented: Write never returns an error
					}
				}
				for _, g := range e.Callees(call) {
					if ignoredErrCallee(g) {
						skip = true
					}
				}
				if skip {
					continue
				}
				st.Calls++
				lbl := calleeLabel(e, call)
				key := fname(fn) + "->" + lbl
				seenKey[key]++
				if seenKey[key] > 1 {
					key = fmt.Sprintf("%s#%d", key, seenKey[key])
				}
				if dropped {
					if reason, ok := accept["E1:"+key]; ok {
						usedAccept["E1:"+key] = true
						r.add(Ob{Rule: "ERR-E1", Construct: key, Pos: e.ipos(in), OK: true, Detail: "accepted idiom: " + reason})
					} else {
						r.bad("ERR-E1", key, e.ipos(in), "error result of "+lbl+" is dropped")
					}
					continue
				}
				ok1 := true
				// E1p: the error is looked at on some paths but not on others: a path from the call to a
				// return on which no instruction uses the error (or an alias) drops it there
				for _, v := range vals {
					aliases := errAliases(v)
					uses := map[ssa.Instruction]bool{}
					for a := range aliases {
						if refs := a.Referrers(); refs != nil {
							for _, ref := range *refs {
								if _, isDbg := ref.(*ssa.DebugRef); isDbg {
									continue
								}
								uses[ref] = true
							}
						}
					}
					if len(uses) == 0 {
						continue
					}
					res := e.findPath(fn, in, isReturn, func(x ssa.Instruction) bool { return uses[x] }, nil)
					if res.Found {
						if reason, ok := accept["E1p:"+key]; ok {
							usedAccept["E1p:"+key] = true
							r.add(Ob{Rule: "ERR-E1", Construct: key + " (some path)", Pos: e.ipos(in), OK: true, Detail: "accepted idiom: " + reason})
						} else {
							ok1 = false
							r.bad("ERR-E1", key+" (some path)", e.ipos(in), "the error of "+lbl+" is examined on some paths only: a path from the call to a return uses neither the error nor a value derived from it", res.Trace(e)...)
						}
					}
				}
				for _, v := range vals {
					aliases := errAliases(v)
					// every `alias != nil` branch
					for a := range aliases {
						refs := a.Referrers()
						if refs == nil {
							continue
						}
						for _, ref := range *refs {
							bo, ok := ref.(*ssa.BinOp)
							if !ok || (bo.Op != token.NEQ && bo.Op != token.EQL) {
								continue
							}
							if !(isNilConst(bo.X) || isNilConst(bo.Y)) {
								continue
							}
							for _, cf := range ValueUsesAsCond(bo) {
								errSucc := cf.Block().Succs[0]
								if bo.Op == token.EQL {
									errSucc = cf.Block().Succs[1]
								}
								st.ErrEdges++
								res := e.successFromErrEdge(fn, cf.Block(), errSucc, aliases, hasErrRes)
								if res.Found {
									rule := "ERR-E2"
									detail := "from the error edge of " + lbl + " a return with a nil error is reachable (failure reported as success)"
									if !hasErrRes {
										rule = "ERR-E3"
										detail = "from the error edge of " + lbl + " the function returns normally without an error result or fail-stop (failure reported as absent/zero)"
									}
									if reason, ok := accept[rule[4:]+":"+key]; ok {
										usedAccept[rule[4:]+":"+key] = true
										r.add(Ob{Rule: rule, Construct: key, Pos: e.ipos(cf), OK: true, Detail: "accepted idiom: " + reason})
									} else {
										ok1 = false
										r.bad(rule, key, e.ipos(cf), detail, "offending exit at "+e.ipos(res.Target))
									}
								}
							}
						}
					}
				}
				if ok1 {
					r.add(Ob{Rule: "ERR", Construct: key, Pos: e.ipos(in), OK: true, Detail: "error of " + lbl + " is propagated, handled by sentinel, or fail-stops"})
				}
			}
		}
	}
	for k, reason := range accept {
		if !usedAccept[k] {
			r.note("accepted-idiom entry no longer matches any site (harmless): " + k + " — " + reason)
		}
	}
	return st
}

// ValueUsesAsCond returns the If instructions whose condition is v (possibly
// through short-circuit phis where v is the deciding non-constant edge).
func ValueUsesAsCond(v ssa.Value) []*ssa.If {
	var out []*ssa.If
	refs := v.Referrers()
	if refs == nil {
		return nil
	}
	for _, r := range *refs {
		if i, ok := r.(*ssa.If); ok {
			out = append(out, i)
		}
	}
	return out
}

// successFromErrEdge: is a success exit reachable from the error edge
// (from -> succ) without taking the sentinel-true edge of a sentinel test on
// the same error and without reassigning... (path-insensitive otherwise).
func (e *Engine) successFromErrEdge(fn *ssa.Function, from, succ *ssa.BasicBlock, aliases map[ssa.Value]bool, hasErrRes bool) PathResult {
	return e.successFromErrEdgeMode(fn, from, succ, aliases, hasErrRes, false)
}

// strict: a sentinel test of the error is not an excuse (used for callees whose
// every error is a refusal, e.g. publishing a snapshot directory).
func (e *Engine) successFromErrEdgeMode(fn *ssa.Function, from, succ *ssa.BasicBlock, aliases map[ssa.Value]bool, hasErrRes bool, strict bool) PathResult {
	edgeOK := func(p, s *ssa.BasicBlock) bool {
		if len(p.Instrs) == 0 {
			return true
		}
		ifi, ok := p.Instrs[len(p.Instrs)-1].(*ssa.If)
		if !ok {
			return true
		}
		// sentinel test: do not follow the edge on which err IS the sentinel
		if t, pol := e.sentinelTest(ifi.Cond, aliases); t && !strict {
			if (pol && s == p.Succs[0]) || (!pol && s == p.Succs[1]) {
				return false
			}
		}
		// a later `err == nil` edge of the same value is infeasible here
		if bo, ok := ifi.Cond.(*ssa.BinOp); ok && (bo.Op == token.EQL || bo.Op == token.NEQ) {
			if (aliases[stripChangeInterface(bo.X)] && isNilConst(bo.Y)) || (aliases[stripChangeInterface(bo.Y)] && isNilConst(bo.X)) {
				nilSucc := p.Succs[0]
				if bo.Op == token.NEQ {
					nilSucc = p.Succs[1]
				}
				if s == nilSucc {
					return false
				}
			}
		}
		return true
	}
	target := func(in ssa.Instruction) bool {
		ret, ok := in.(*ssa.Return)
		if !ok {
			return false
		}
		if !hasErrRes {
			return true
		}
		idx := errResultIndex(fn)
		v := retOperand(ret, idx)
		if isNilConst(v) {
			return true
		}
		// a phi/any value that may be nil and is not the error: only the nil
		// constant and phis with a nil-constant edge not coming from ... are
		// flagged (conservative towards silence on `return err2`).
		if ph, ok := v.(*ssa.Phi); ok && !aliases[v] {
			allNil := true
			for _, ed := range ph.Edges {
				if !isNilConst(ed) {
					allNil = false
				}
			}
			return allNil
		}
		// the result of another fallible call, unrelated to the failed one and not
		// known to be non-nil at the return: `return firstError(nil, other())` on the
		// error edge reports success whenever the other call succeeds.
		if c, ok := v.(*ssa.Call); ok && !aliases[v] && isErrorType(c.Type()) {
			if isErrConstructor(e, c) {
				return false
			}
			if e.dependsOn(v, func(x ssa.Value) bool { return aliases[stripChangeInterface(x)] }, 0) {
				return false
			}
			if hasCmpFact(FactsAt(in), "!=", func(x ssa.Value) bool { return x == v }, isNilConst) {
				return false
			}
			return true
		}
		return false
	}
	// handled: passing the error (or an alias) to a non-returning call, or
	// panic(err), ends the path (findPath does that), nothing else does.
	start := succ
	if len(start.Instrs) == 0 {
		return PathResult{}
	}
	seen := map[*ssa.BasicBlock]bool{start: true}
	type node struct {
		b    *ssa.BasicBlock
		prev *node
	}
	queue := []*node{{b: start}}
	for len(queue) > 0 {
		n := queue[0]
		queue = queue[1:]
		stopped := false
		for _, in := range n.b.Instrs {
			if target(in) {
				return PathResult{Found: true, Target: in}
			}
			if _, ok := in.(*ssa.Panic); ok {
				stopped = true
				break
			}
			if c, ok := in.(*ssa.Call); ok && e.NoReturnCall(c) {
				stopped = true
				break
			}
			if _, ok := in.(*ssa.Return); ok {
				stopped = true
				break
			}
			// the error escapes to memory (captured variable, field, slice
			// element) or a channel: it is handed to someone else, which is
			// outside E2/E3 (the reader of that location is checked where it
			// tests the value).
			if st, ok := in.(*ssa.Store); ok && aliases[stripChangeInterface(st.Val)] && storedForLogging(st) {
				continue // only printed
			}
			if st, ok := in.(*ssa.Store); ok && aliases[stripChangeInterface(st.Val)] {
				if _, spill := st.Addr.(*ssa.Alloc); !spill || !isErrorType(st.Val.Type()) || st.Addr.(*ssa.Alloc).Heap {
					stopped = true
					break
				}
			}
			if sd, ok := in.(*ssa.Send); ok && aliases[stripChangeInterface(sd.X)] {
				stopped = true
				break
			}
		}
		if stopped {
			continue
		}
		for _, s := range n.b.Succs {
			if seen[s] || !edgeOK(n.b, s) {
				continue
			}
			seen[s] = true
			queue = append(queue, &node{b: s, prev: n})
		}
	}
	_ = from
	return PathResult{}
}

// CheckStickyErrors: ERR-S — "sticky" error fields (a struct field of type
// error that helper methods store an I/O result into instead of returning
// it). After every call of such a setter, the field must be read before it
// can be overwritten by the next setter call/store and before the enclosing
// function returns (unless the enclosing function is itself a void setter,
// in which case its callers carry the obligation).
func (e *Engine) CheckStickyErrors(r *Report, pkgRel string) int {
	pk := e.pkgTypes(pkgRel)
	if pk == nil {
		r.undecided("ANCHOR", pkgRel, "package not found")
		return 0
	}
	type setterInfo struct{ fld *types.Var }
	setters := map[*ssa.Function]*types.Var{}
	var fns []*ssa.Function
	for _, fn := range e.ScopeFuncs() {
		if fnPkg(fn) == pk && e.IsLive(fn) {
			fns = append(fns, fn)
		}
	}
	isErrFieldStore := func(in ssa.Instruction) (*types.Var, bool, bool) {
		st, ok := in.(*ssa.Store)
		if !ok {
			return nil, false, false
		}
		f, _, ok := fieldOfAddr(st.Addr)
		if !ok || !isErrorType(f.Type()) {
			return nil, false, false
		}
		fromCall := false
		v := st.Val
		if ex, ok := v.(*ssa.Extract); ok {
			v = ex.Tuple
		}
		if _, ok := v.(*ssa.Call); ok {
			fromCall = true
		}
		return f, true, fromCall
	}
	for _, fn := range fns {
		if errResultIndex(fn) >= 0 {
			continue
		}
		forEachInstr(fn, func(in ssa.Instruction) {
			if f, ok, fromCall := isErrFieldStore(in); ok && fromCall {
				setters[fn] = f
			}
		})
	}
	n := 0
	for _, fn := range fns {
		forEachCall(fn, func(s ssa.CallInstruction) {
			c, ok := s.(*ssa.Call)
			if !ok {
				return
			}
			sc := c.Call.StaticCallee()
			fld, isSetter := setters[sc]
			if sc == nil || !isSetter {
				return
			}
			n++
			reads := func(in ssa.Instruction) bool {
				v, ok := in.(ssa.Value)
				if !ok {
					return false
				}
				f, _, ok := loadedField(v)
				return ok && f == fld
			}
			target := func(in ssa.Instruction) bool {
				if f, ok, _ := isErrFieldStore(in); ok && f == fld {
					return true
				}
				if cc, ok := in.(*ssa.Call); ok {
					if g := cc.Call.StaticCallee(); g != nil {
						if _, is := setters[g]; is {
							return true
						}
					}
				}
				if _, isRet := in.(*ssa.Return); isRet {
					_, selfSetter := setters[fn]
					return !selfSetter
				}
				return false
			}
			res := e.findPath(fn, c, target, reads, nil)
			var w []string
			if res.Found {
				w = []string{"lost at " + e.ipos(res.Target)}
			}
			r.check(!res.Found, "ERR-S", "sticky "+fld.Name()+" after "+fname(sc)+" in "+fname(fn)+" #"+itoa(n), e.ipos(s),
				"the stored error is examined before it can be overwritten or the function returns",
				"after "+fname(sc)+" the sticky error field can be overwritten or the function can return without anyone reading it: a failed write is reported as success", w...)
		})
	}
	return n
}

// isErrConstructor: the call always returns a non-nil error (errors.New,
// fmt.Errorf, errors.Wrap* / WithStack of the errors packages), or has no
// fallible callee inside the module (a constructor-like helper).
func isErrConstructor(e *Engine, c *ssa.Call) bool {
	sc := c.Call.StaticCallee()
	if sc == nil || sc.Pkg == nil {
		return false
	}
	pp := sc.Pkg.Pkg.Path()
	if pp == "errors" || pp == "fmt" || strings.HasSuffix(pp, "cockroachdb/errors") || strings.HasSuffix(pp, "pkg/errors") {
		switch sc.Name() {
		case "New", "Errorf", "Newf":
			return true
		}
	}
	return false
}

// storedForLogging: the store puts the value into a varargs array whose only
// consumer is a logging call (Errorf/Warningf/Infof/Debugf): printing an
// error hands it to nobody.
func storedForLogging(st *ssa.Store) bool {
	ia, ok := st.Addr.(*ssa.IndexAddr)
	if !ok {
		return false
	}
	al, ok := ia.X.(*ssa.Alloc)
	if !ok || al.Comment != "varargs" || al.Referrers() == nil {
		return false
	}
	logged := false
	for _, ref := range *al.Referrers() {
		sl, ok := ref.(*ssa.Slice)
		if !ok {
			continue
		}
		if sl.Referrers() == nil {
			return false
		}
		for _, u := range *sl.Referrers() {
			c, ok := u.(*ssa.Call)
			if !ok {
				return false
			}
			name := ""
			if c.Call.IsInvoke() {
				name = c.Call.Method.Name()
			} else if sc := c.Call.StaticCallee(); sc != nil {
				name = sc.Name()
			}
			switch name {
			case "Errorf", "Warningf", "Infof", "Debugf":
				if c.Call.IsInvoke() || (c.Call.StaticCallee() != nil && c.Call.StaticCallee().Signature.Recv() != nil) {
					logged = true
					continue
				}
			}
			return false
		}
	}
	return logged
}
