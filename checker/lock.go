package main

// lock.go: LS — lockset analysis. Locks are abstract (the mutex *field*, or
// the embedded sync.Mutex of a type); mode W (exclusive) or R (shared).
// Intraprocedural forward must-analysis; interprocedurally a function is
// analysed under a *set* of calling contexts (one lockset per distinct caller
// chain), never their intersection, because this code base selects the locking
// regime by a type test.

import (
	"go/types"
	"sort"
	"strings"

	"golang.org/x/tools/go/ssa"
)

// LockMode: 0 none, 1 shared, 2 exclusive.
type LockSet map[*types.Var]int

func (l LockSet) clone() LockSet {
	o := LockSet{}
	for k, v := range l {
		o[k] = v
	}
	return o
}

func (l LockSet) key() string {
	var ks []string
	for k, v := range l {
		m := "R"
		if v == 2 {
			m = "W"
		}
		ks = append(ks, lockName(k)+":"+m)
	}
	sort.Strings(ks)
	return strings.Join(ks, ",")
}

func lockName(v *types.Var) string {
	if v == nil {
		return "?"
	}
	if v.Pkg() != nil {
		return short(v.Pkg().Path()) + "." + v.Name() + "@" + posKey(v)
	}
	return v.Name()
}

func posKey(v *types.Var) string { return "" }

func intersect(a, b LockSet) LockSet {
	o := LockSet{}
	for k, v := range a {
		if w, ok := b[k]; ok {
			if w < v {
				v = w
			}
			o[k] = v
		}
	}
	return o
}

func union(a, b LockSet) LockSet {
	o := a.clone()
	for k, v := range b {
		if o[k] < v {
			o[k] = v
		}
	}
	return o
}

// lockOp classifies a call as Lock/RLock/Unlock/RUnlock on a mutex field.
func lockOp(c ssa.CallInstruction) (fld *types.Var, op string) {
	sc := c.Common().StaticCallee()
	if sc == nil || sc.Pkg == nil || sc.Pkg.Pkg.Path() != "sync" || sc.Signature.Recv() == nil {
		return nil, ""
	}
	rt := recvTypeName(sc.Signature.Recv().Type())
	if rt != "sync.Mutex" && rt != "sync.RWMutex" {
		return nil, ""
	}
	switch sc.Name() {
	case "Lock", "RLock", "Unlock", "RUnlock":
	default:
		return nil, ""
	}
	if len(c.Common().Args) == 0 {
		return nil, ""
	}
	recv := c.Common().Args[0]
	// &x.mu  or &x.Mutex (embedded) or &x.a.mu
	if f, _, ok := fieldOfAddr(recv); ok {
		return f, sc.Name()
	}
	// loaded pointer to mutex: *(&x.mup)
	if f, _, ok := loadedField(recv); ok {
		return f, sc.Name()
	}
	return nil, ""
}

type lockFacts struct {
	in map[*ssa.BasicBlock]LockSet
	at map[ssa.Instruction]LockSet // lockset *before* the instruction
	fn *ssa.Function
}

// localLocks computes the must-held lockset before each instruction of fn,
// assuming an empty set at entry.
func (e *Engine) localLocks(fn *ssa.Function) *lockFacts {
	if lf, ok := e.lockCache[fn]; ok {
		return lf
	}
	lf := &lockFacts{in: map[*ssa.BasicBlock]LockSet{}, at: map[ssa.Instruction]LockSet{}, fn: fn}
	if e.lockCache == nil {
		e.lockCache = map[*ssa.Function]*lockFacts{}
	}
	e.lockCache[fn] = lf
	if len(fn.Blocks) == 0 {
		return lf
	}
	// optimistic initialisation: unknown = nil (top); entry = empty
	lf.in[fn.Blocks[0]] = LockSet{}
	work := []*ssa.BasicBlock{fn.Blocks[0]}
	out := map[*ssa.BasicBlock]LockSet{}
	transfer := func(b *ssa.BasicBlock, record bool) LockSet {
		cur := lf.in[b].clone()
		for _, in := range b.Instrs {
			if record {
				lf.at[in] = cur.clone()
			}
			c, ok := in.(*ssa.Call)
			if !ok {
				continue
			}
			f, op := lockOp(c)
			if f == nil {
				continue
			}
			switch op {
			case "Lock":
				cur[f] = 2
			case "RLock":
				if cur[f] < 1 {
					cur[f] = 1
				}
			case "Unlock", "RUnlock":
				delete(cur, f)
			}
		}
		return cur
	}
	iter := 0
	for len(work) > 0 && iter < 10000 {
		iter++
		b := work[0]
		work = work[1:]
		o := transfer(b, false)
		if prev, ok := out[b]; ok && prev.key() == o.key() {
			continue
		}
		out[b] = o
		for _, s := range b.Succs {
			var n LockSet
			first := true
			for _, p := range s.Preds {
				po, ok := out[p]
				if !ok {
					continue
				}
				if first {
					n = po.clone()
					first = false
				} else {
					n = intersect(n, po)
				}
			}
			if n == nil {
				n = LockSet{}
			}
			if old, ok := lf.in[s]; !ok || old.key() != n.key() {
				lf.in[s] = n
				work = append(work, s)
			} else if _, done := out[s]; !done {
				work = append(work, s)
			}
		}
	}
	for _, b := range fn.Blocks {
		if _, ok := lf.in[b]; !ok {
			lf.in[b] = LockSet{}
		}
		transfer(b, true)
	}
	return lf
}

// LockCtx is one calling context of a function: the locks held by its
// callers at the call chain that leads here.
type LockCtx struct {
	Held  LockSet
	Chain []string // call sites from the root
}

const maxCtx = 48

type ctxEntry struct {
	held LockSet
	// provenance (first discovery) for the witness chain
	from    *ssa.Function
	fromKey string
	site    string
	csite   ssa.CallInstruction
	isGo    bool
}

type ctxState struct {
	sets      map[*ssa.Function]map[string]*ctxEntry
	order     map[*ssa.Function][]string
	collapsed map[*ssa.Function]bool
}

// computeContexts: forward worklist fixpoint over the call graph. Roots get
// the empty lockset: public API entries, main/init, callees of `go`
// statements, and non-module functions nobody calls. A module function that
// nobody calls in the non-test program is dead and gets no context.
func (e *Engine) computeContexts() *ctxState {
	st := &ctxState{sets: map[*ssa.Function]map[string]*ctxEntry{}, order: map[*ssa.Function][]string{}, collapsed: map[*ssa.Function]bool{}}
	var work []*ssa.Function
	inWork := map[*ssa.Function]bool{}
	push := func(f *ssa.Function) {
		if !inWork[f] {
			inWork[f] = true
			work = append(work, f)
		}
	}
	add := func(g *ssa.Function, ce *ctxEntry) {
		m := st.sets[g]
		if m == nil {
			m = map[string]*ctxEntry{}
			st.sets[g] = m
		}
		if st.collapsed[g] {
			// single entry = intersection of everything seen
			cur := m[st.order[g][0]]
			ni := intersect(cur.held, ce.held)
			if ni.key() != cur.held.key() {
				delete(m, st.order[g][0])
				ne := &ctxEntry{held: ni, site: "(more than 48 contexts collapsed to their intersection)"}
				k := "collapsed:" + ni.key()
				m[k] = ne
				st.order[g] = []string{k}
				push(g)
			}
			return
		}
		k := ce.held.key()
		if _, ok := m[k]; ok {
			return
		}
		m[k] = ce
		st.order[g] = append(st.order[g], k)
		if len(m) > maxCtx {
			inter := ce.held.clone()
			for _, x := range m {
				inter = intersect(inter, x.held)
			}
			nk := "collapsed:" + inter.key()
			st.sets[g] = map[string]*ctxEntry{nk: {held: inter, site: "(more than 48 contexts collapsed to their intersection)"}}
			st.order[g] = []string{nk}
			st.collapsed[g] = true
		}
		push(g)
	}
	// deterministic order of functions
	var fns []*ssa.Function
	for f := range e.CG.Nodes {
		if f != nil {
			fns = append(fns, f)
		}
	}
	sort.Slice(fns, func(i, j int) bool { return fns[i].String() < fns[j].String() })
	for _, f := range fns {
		n := e.CG.Nodes[f]
		callers := 0
		for _, ed := range n.In {
			if ed.Site == nil {
				continue
			}
			if p := fnPkg(ed.Caller.Func); p != nil && inModule(p) && !scopePkg(p.Path()) {
				continue
			}
			callers++
		}
		p := fnPkg(f)
		mod := p != nil && inModule(p)
		root := false
		switch {
		case mod && !scopePkg(p.Path()):
			root = false // test helpers, examples: not the program
		case e.isPublicEntry(f):
			root = true
		case callers == 0 && (!mod || f.Name() == "main" || strings.HasPrefix(f.Name(), "init")):
			root = true
		}
		if root {
			add(f, &ctxEntry{held: LockSet{}, site: "entry " + fname(f)})
		}
	}
	for len(work) > 0 {
		f := work[0]
		work = work[1:]
		inWork[f] = false
		n := e.CG.Nodes[f]
		if n == nil {
			continue
		}
		p := fnPkg(f)
		mod := p != nil && inModule(p)
		var lf *lockFacts
		if mod && len(f.Blocks) > 0 {
			lf = e.localLocks(f)
		}
		keys := append([]string{}, st.order[f]...)
		for _, ed := range n.Out {
			if ed.Site == nil {
				continue
			}
			g := ed.Callee.Func
			if _, isGo := ed.Site.(*ssa.Go); isGo {
				add(g, &ctxEntry{held: LockSet{}, csite: ed.Site, isGo: true})
				continue
			}
			local := LockSet{}
			if lf != nil {
				if _, isDefer := ed.Site.(*ssa.Defer); !isDefer {
					if l, ok := lf.at[ed.Site.(ssa.Instruction)]; ok {
						local = l
					}
				}
			}
			for _, k := range keys {
				ce := st.sets[f][k]
				if ce == nil {
					continue
				}
				h := ce.held
				if len(local) > 0 {
					h = union(ce.held, local)
				}
				add(g, &ctxEntry{held: h, from: f, fromKey: k, csite: ed.Site})
			}
		}
	}
	return st
}

// Contexts returns the calling contexts of fn.
func (e *Engine) Contexts(fn *ssa.Function) []LockCtx {
	if e.ctx == nil {
		e.ctx = e.computeContexts()
	}
	var out []LockCtx
	for _, k := range e.ctx.order[fn] {
		ce := e.ctx.sets[fn][k]
		if ce == nil {
			continue
		}
		// rebuild the witness chain
		var chain []string
		cur := ce
		for i := 0; i < 40 && cur != nil; i++ {
			site := cur.site
			if cur.csite != nil {
				if cur.isGo {
					site = "go statement at " + e.ipos(cur.csite)
				} else {
					site = fname(cur.csite.Parent()) + " at " + e.ipos(cur.csite)
				}
			}
			chain = append([]string{site}, chain...)
			if cur.from == nil {
				break
			}
			cur = e.ctx.sets[cur.from][cur.fromKey]
		}
		out = append(out, LockCtx{Held: ce.held, Chain: chain})
	}
	return out
}

func (e *Engine) isPublicEntry(fn *ssa.Function) bool {
	if fn.Parent() != nil {
		return false
	}
	o := fn.Object()
	if o == nil || !o.Exported() {
		return false
	}
	p := fnPkg(fn)
	if p == nil || strings.Contains(p.Path(), "/internal/") {
		return false
	}
	if recv := fn.Signature.Recv(); recv != nil {
		t := recv.Type()
		if pt, ok := t.(*types.Pointer); ok {
			t = pt.Elem()
		}
		if nt, ok := t.(*types.Named); ok && !nt.Obj().Exported() {
			return false
		}
	}
	return true
}

// HeldAt returns, per calling context, the full lockset held just before the
// instruction executes.
func (e *Engine) HeldAt(in ssa.Instruction) []LockCtx {
	fn := in.Parent()
	local := LockSet{}
	if l, ok := e.localLocks(fn).at[in]; ok {
		local = l
	}
	ctxs := e.Contexts(fn)
	var out []LockCtx
	for _, c := range ctxs {
		out = append(out, LockCtx{Held: union(c.Held, local), Chain: append(append([]string{}, c.Chain...), fname(fn)+" at "+e.ipos(in))})
	}
	return out
}

// requireLock checks that lock fld is held in mode >= mode at in, in every
// calling context; exempt(ctx) can excuse a context.
func (r *Report) requireLock(rule, construct string, in ssa.Instruction, fld *types.Var, mode int, what string) bool {
	ok := true
	var wit []string
	for _, c := range r.e.HeldAt(in) {
		if c.Held[fld] < mode {
			ok = false
			wit = c.Chain
			break
		}
	}
	m := "exclusively"
	if mode == 1 {
		m = "at least shared"
	}
	r.check(ok, rule, construct, r.e.ipos(in), what+" is held "+m+" in every calling context",
		what+" is not held "+m+" on some call chain", wit...)
	return ok
}

// IsLive: the function has at least one calling context in the non-test
// program (reachable from a public entry, main/init or a goroutine root).
func (e *Engine) IsLive(fn *ssa.Function) bool {
	return len(e.Contexts(fn)) > 0
}
