package main

// selftest.go: thorough tier — apply each scratch-copy variant of
// /verif/mutants/<id>/ to a copy of /repo and require that the property's
// rules report the named construct (broken variants) or stay silent (benign
// variants). Filled in below.

func selfTest(verifDir, repo string, p *Property) (map[string]interface{}, *Report) {
	return runSelfTest(verifDir, repo, p)
}
