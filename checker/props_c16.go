package main

import (
	"strings"

	"golang.org/x/tools/go/ssa"
)

func init() {
	register(&Property{
		ID:          "C16",
		Explanation: "Decides structural clauses of snapshot-directory crash atomicity: the publish order of snapshotter.Commit (metadata file -> flag file -> existence check -> rename to the final directory -> parent-directory sync -> log-store record unless exported -> flag removal) holds on every path, each step only after the previous one succeeded; every rename / remove-all / mkdir in the snapshot environment, file utilities, shrink/replace and import code is followed by a directory sync before a success return, and the directory synced is the parent (root) directory, never the renamed/removed path itself; a received snapshot's flag file is removed only after SaveRaftState; the shrunk file is written and closed before it replaces the original; start-up cleanup (processOrphans) precedes node creation and removes a final directory only when it is not the recorded snapshot and a flag only when it is; storage errors in these paths propagate. Does not decide which layouts a crash can produce. A refused publish / record is never success (no sentinel excuse); the import tool publishes before it records; start-up cleanup keeps a flagged directory only when its index equals the recorded one.",
		NotCovered:  "enumeration of crash layouts; what the file system guarantees for rename/fsync (vfs and the kernel are trusted)",
		Run:         runC16,
	})
}

func runC16(e *Engine, r *Report) {
	// ---- Commit order
	commit := r.need("(*dragonboat.snapshotter).Commit")
	if commit != nil {
		steps := []struct{ fn, what string }{
			{"(*internal/server.SSEnv).SaveSSMetadata", "metadata file"},
			{"(*internal/server.SSEnv).FinalizeSnapshot", "finalize (flag, rename, dir sync)"},
			{"(*dragonboat.snapshotter).saveSnapshot", "log-store snapshot record"},
			{"(*internal/server.SSEnv).RemoveFlagFile", "flag removal"},
		}
		var sites [][]ssa.CallInstruction
		exportedFn := e.Func("(*internal/rsm.SSRequest).Exported")
		if exportedFn == nil {
			exportedFn = e.Func("(internal/rsm.SSRequest).Exported")
		}
		for si, st := range steps {
			f := r.need(st.fn)
			ss := e.SitesIn(commit, f)
			if f != nil {
				// the step may be wrapped in a small helper of the same package that
				// performs it on every path (for the log-store record: on every path
				// except the exported-snapshot one)
				isF := func(in ssa.Instruction) bool {
					c, ok := in.(*ssa.Call)
					return ok && e.CallsTo(c, f)
				}
				forEachCall(commit, func(c ssa.CallInstruction) {
					g := c.Common().StaticCallee()
					if g == nil || g == f || fnPkg(g) != fnPkg(commit) || len(e.SitesIn(g, f)) == 0 {
						return
					}
					var res PathResult
					if si == 2 && exportedFn != nil {
						res = e.pathUnless(g, nil, func(in ssa.Instruction) bool { return e.isSuccessReturn(in) }, isF, reqBool("exported", e.callV(exportedFn), true))
					} else {
						res = e.findPath(g, nil, func(in ssa.Instruction) bool { return e.isSuccessReturn(in) }, isF, nil)
					}
					if !res.Found {
						ss = append(ss, c)
					}
				})
			}
			sites = append(sites, ss)
		}
		for i := 1; i < len(steps); i++ {
			for _, s := range sites[i] {
				for j := 0; j < i; j++ {
					if len(sites[j]) == 0 {
						r.bad("MPT-commit-order", steps[j].what+" present in Commit", e.pos(commit.Pos()), "snapshotter.Commit no longer performs: "+steps[j].what)
						continue
					}
					prev := sites[j][0].(*ssa.Call)
					// reached only on the nil-error edge of the previous step
					exported := e.Func("(*internal/rsm.SSRequest).Exported")
					okOrder, _ := e.alwaysPrecededBy(s.(ssa.Instruction), func(in ssa.Instruction) bool { return in == ssa.Instruction(prev) }, 0)
					if !okOrder && j == 2 && exported != nil {
						// the log-store record may be skipped only for exported snapshots
						res := e.findPath(commit, nil, func(in ssa.Instruction) bool { return in == s.(ssa.Instruction) },
							func(in ssa.Instruction) bool { return in == ssa.Instruction(prev) },
							func(p, s2 *ssa.BasicBlock) bool {
								return !hasBoolFact(expandFacts(edgeOnly(p, s2)), e.callV(exported), true)
							})
						okOrder = !res.Found
					}
					okErr := true
					if vals, hasErr, dropped := errValueOf(prev); hasErr {
						okErr = !dropped
						for _, v := range vals {
							_ = v
						}
						// s must not be reachable from the error edge of prev
						for _, v := range vals {
							for a := range errAliases(v) {
								if refs := a.Referrers(); refs != nil {
									for _, ref := range *refs {
										if bo, ok := ref.(*ssa.BinOp); ok && (isNilConst(bo.X) || isNilConst(bo.Y)) {
											for _, cf := range ValueUsesAsCond(bo) {
												errSucc := cf.Block().Succs[0]
												if bo.Op.String() == "==" {
													errSucc = cf.Block().Succs[1]
												}
												if len(errSucc.Instrs) > 0 {
													res := e.findPath(commit, errSucc.Instrs[0], func(in ssa.Instruction) bool { return in == s.(ssa.Instruction) }, nil, nil)
													if res.Found || errSucc.Instrs[0] == s.(ssa.Instruction) {
														okErr = false
													}
												}
											}
										}
									}
								}
							}
						}
					}
					r.check(okOrder && okErr, "MPT-commit-order", steps[i].what+" only after successful "+steps[j].what, e.ipos(s),
						"publish steps happen in order, each after the previous one succeeded",
						"in snapshotter.Commit '"+steps[i].what+"' can run before/without a successful '"+steps[j].what+"'")
				}
			}
			r.check(len(sites[i]) > 0, "MPT-commit-order", steps[i].what+" present in Commit", e.pos(commit.Pos()), "step present", "snapshotter.Commit no longer performs: "+steps[i].what)
		}
	}
	// ---- FinalizeSnapshot order
	if fin := r.need("(*internal/server.SSEnv).FinalizeSnapshot"); fin != nil {
		cf := r.need("(*internal/server.SSEnv).createFlagFile")
		ex := r.need("(*internal/server.SSEnv).finalDirExists")
		rn := r.need("(*internal/server.SSEnv).renameToFinalDir")
		if cf != nil && ex != nil && rn != nil {
			for _, s := range e.SitesIn(fin, rn) {
				o1, _ := e.alwaysPrecededBy(s.(ssa.Instruction), func(in ssa.Instruction) bool { c, ok := in.(*ssa.Call); return ok && e.CallsTo(c, cf) }, 0)
				g, _ := e.guardedOnAllPaths(s.(ssa.Instruction), reqBool("", e.callV(ex), false))
				r.check(o1 && g, "MPT-finalize-order", "rename to the final directory after the flag file and only if the final directory does not exist", e.ipos(s),
					"flag file first (marks the directory as not yet recorded), never overwrite an existing final directory",
					"the rename to the final directory can happen without the flag file or over an existing final directory")
			}
		}
	}
	// ---- directory operations are followed by a sync of the parent directory
	syncDir := r.need("internal/fileutil.SyncDir")
	if syncDir != nil {
		scope := func(fn *ssa.Function) bool {
			p := fnPkg(fn)
			if p == nil {
				return false
			}
			rel := strings.TrimPrefix(strings.TrimPrefix(p.Path(), modPath), "/")
			switch rel {
			case "internal/server", "internal/fileutil", "internal/rsm", "tools":
				return true
			case "":
				return e.relFile(fn.Pos()) == "snapshotter.go"
			}
			return false
		}
		// a helper that on every normal return has synced a directory counts as the sync
		syncThrough := e.throughHelpers(func(c ssa.CallInstruction) bool { return e.CallsTo(c, syncDir) })
		isSync := func(in ssa.Instruction) bool {
			switch c := in.(type) {
			case *ssa.Call:
				return e.CallsTo(c, syncDir) || syncThrough(c)
			case *ssa.Defer:
				for _, g := range e.Callees(c) {
					if len(e.SitesIn(g, syncDir)) > 0 {
						return true
					}
				}
			}
			return false
		}
		n := 0
		for _, fn := range e.ScopeFuncs() {
			if !scope(fn) || !e.IsLive(fn) {
				continue
			}
			// a deferred closure that syncs covers every exit
			deferredSync := false
			forEachInstr(fn, func(in ssa.Instruction) {
				if d, ok := in.(*ssa.Defer); ok && isSync(d) {
					deferredSync = true
				}
			})
			forEachCall(fn, func(s ssa.CallInstruction) {
				c, ok := s.(*ssa.Call)
				if !ok || !s.Common().IsInvoke() {
					return
				}
				mn := s.Common().Method.Name()
				if mn != "Rename" && mn != "RemoveAll" && mn != "MkdirAll" {
					return
				}
				if !strings.HasSuffix(recvTypeName(s.Common().Value.Type()), "vfs.IFS") && !strings.HasSuffix(recvTypeName(s.Common().Value.Type()), "vfs.FS") {
					return
				}
				n++
				key := "IFS." + mn + " in " + fname(fn)
				if reason, ok := c16SyncExempt[fname(fn)+":"+mn]; ok {
					r.add(Ob{Rule: "PAIR-dirsync", Construct: key, Pos: e.ipos(s), OK: true, Detail: "exception (confirmed by reading): " + reason})
					r.exception(fname(fn) + ":" + mn + " — " + reason)
					return
				}
				okp := deferredSync
				var syncArgs []ssa.Value
				if !okp {
					res := e.findPath(fn, c, func(in ssa.Instruction) bool { return e.isSuccessReturn(in) }, isSync, nil)
					okp = !res.Found
				}
				if !okp {
					// the caller syncs: every call site of this function is followed by a sync
					callers := e.CallerSites(fn)
					okp = len(callers) > 0
					for _, cs := range callers {
						cc, isC := cs.(*ssa.Call)
						if !isC {
							okp = false
							continue
						}
						res := e.findPath(cs.Parent(), cc, func(in ssa.Instruction) bool { return e.isSuccessReturn(in) }, isSync, nil)
						if res.Found {
							okp = false
						}
					}
				}
				r.check(okp, "PAIR-dirsync", key+" is followed by a directory sync", e.ipos(s),
					"the directory entry change is made durable before success is reported",
					"a "+mn+" can be reported successful without a following directory sync: after a crash the change may be undone")
				// the synced directory is not the renamed/removed path itself
				forEachCall(fn, func(s2 ssa.CallInstruction) {
					if cc, ok := s2.(*ssa.Call); ok && e.CallsTo(cc, syncDir) && dominatesInstr(c, cc) {
						syncArgs = append(syncArgs, cc.Call.Args[0])
					}
				})
				args := s.Common().Args
				target := args[len(args)-1]
				if mn == "MkdirAll" {
					target = args[0]
				}
				if mn == "RemoveAll" {
					target = args[0]
				}
				for _, sa := range syncArgs {
					same := exprKey(sa) != "" && exprKey(sa) == exprKey(target)
					r.check(!same, "PAIR-dirsync", key+" syncs the parent, not the target itself", e.ipos(s),
						"the parent directory holds the changed entry", "the directory that is fsynced is the renamed/created/removed path itself, not its parent: the entry change is not durable")
				}
			})
		}
		r.floor("PAIR-dirsync", n, 8)
		// SyncDir really opens the directory and syncs it
		okS := false
		forEachCall(syncDir, func(s ssa.CallInstruction) {
			if s.Common().IsInvoke() && s.Common().Method.Name() == "Sync" {
				okS = true
			}
		})
		r.check(okS, "PAIR-dirsync", "fileutil.SyncDir calls File.Sync", e.pos(syncDir.Pos()), "directory fsync", "SyncDir no longer calls Sync on the directory handle")
	}
	// flag file creation: written, closed and its directory synced
	if cff := r.need("internal/fileutil.CreateFlagFile"); cff != nil && syncDir != nil {
		has := false
		for _, an := range cff.AnonFuncs {
			if len(e.SitesIn(an, syncDir)) > 0 {
				has = true
			}
		}
		r.check(has || len(e.SitesIn(cff, syncDir)) > 0, "PAIR-dirsync", "CreateFlagFile syncs the containing directory", e.pos(cff.Pos()), "flag file creation is durable", "CreateFlagFile no longer syncs the containing directory")
	}

	// ---- received snapshot: flag removed only after SaveRaftState
	saveM := e.Method("raftio", "ILogDB", "SaveRaftState")
	rm := r.helper("(*dragonboat.node).removeSnapshotFlagFile")
	if rm == nil {
		// the node-level wrapper was inlined: the sites are the callers of the snapshotter's own method
		rm = r.need("(*dragonboat.snapshotter).removeFlagFile")
	}
	if rm != nil && saveM != nil {
		n := 0
		for _, s := range e.CallerSites(rm) {
			if !e.IsLive(outermostFn(s.Parent())) {
				continue
			}
			n++
			ok, w := e.alwaysPrecededBy(s.(ssa.Instruction), func(in ssa.Instruction) bool {
				c, isC := in.(*ssa.Call)
				return isC && e.IsMethodCall(c, saveM)
			}, 3)
			r.check(ok, "MPT-flag-after-record", "received snapshot's flag removed in "+fname(s.Parent()), e.ipos(s),
				"the flag goes away only after the snapshot record is in the log store", "a received snapshot's flag file can be removed before the log store records the snapshot", w...)
		}
		r.floor("MPT-flag-after-record", n, 1)
	}
	// ---- shrink: new file complete before it replaces the original
	if sh := r.need("(*dragonboat.snapshotter).Shrink"); sh != nil {
		ss := r.need("internal/rsm.ShrinkSnapshot")
		rp := r.need("internal/rsm.ReplaceSnapshot")
		if ss != nil && rp != nil {
			for _, s := range e.SitesIn(sh, rp) {
				ok, _ := e.alwaysPrecededBy(s.(ssa.Instruction), func(in ssa.Instruction) bool { c, isC := in.(*ssa.Call); return isC && e.CallsTo(c, ss) }, 0)
				// and only on its nil-error edge
				g := true
				for _, ps := range e.SitesIn(sh, ss) {
					if pc, isC := ps.(*ssa.Call); isC {
						if vals, _, dropped := errValueOf(pc); dropped || len(vals) == 0 {
							g = false
						}
					}
				}
				r.check(ok && g, "MPT-shrink-order", "ReplaceSnapshot after a successful ShrinkSnapshot", e.ipos(s), "the shrunk file is complete (written, closed, synced) before the rename", "the original snapshot can be replaced before the shrunk file is complete")
			}
		}
	}
	// ---- start-up: processOrphans precedes node creation; its removal decisions
	po := r.need("(*dragonboat.snapshotter).processOrphans")
	nn := r.need("dragonboat.newNode")
	if po != nil && nn != nil {
		n := 0
		for _, s := range e.CallerSites(nn) {
			if !e.IsLive(s.Parent()) {
				continue
			}
			n++
			ok, _ := e.alwaysPrecededBy(s.(ssa.Instruction), func(in ssa.Instruction) bool { c, isC := in.(*ssa.Call); return isC && e.CallsTo(c, po) }, 0)
			r.check(ok, "MPT-orphans-first", "newNode in "+fname(s.Parent())+" after processOrphans", e.ipos(s),
				"temporary and orphaned snapshot directories are cleaned before the replica starts", "a replica can be created before the start-up cleanup of its snapshot directory")
		}
		r.floor("MPT-orphans-first", n, 1)
		ssIndex := e.Field("raftpb", "Snapshot", "Index")
		rmv := e.Func("(*dragonboat.snapshotter).remove")
		rff := e.Func("(*internal/server.SSEnv).RemoveFlagFile")
		isOrphan := e.Func("(*dragonboat.snapshotter).isOrphan")
		if rmv != nil && rff != nil && isOrphan != nil {
			for _, s := range e.SitesIn(po, rff) {
				// flag removed only when the orphan IS the recorded snapshot: not on the `noss` / index-mismatch edges
				g1, _ := e.guardedOnAllPaths(s.(ssa.Instruction), reqBool("", e.callV(isOrphan), true))
				g2 := e.dependsOnGuard(s.(ssa.Instruction), func(v ssa.Value) bool { return fieldV(ssIndex)(v) })
				// ... with the polarity: the flagged directory's index EQUALS the recorded snapshot's
				// (an older flagged directory - a late stream that raft never used - is removed, not kept)
				if g3, _ := e.guardedOnAllPaths(s.(ssa.Instruction), reqCmp("", "==", fieldV(ssIndex), fieldV(ssIndex))); !g3 {
					g2 = false
				}
				r.check(g1 && g2, "GD-orphans", "processOrphans keeps (un-flags) only the recorded snapshot", e.ipos(s),
					"an orphaned final directory is kept only when the log store records exactly that snapshot", "processOrphans can un-flag a directory that is not the recorded snapshot")
			}
			for _, s := range e.SitesIn(po, rmv) {
				g1, _ := e.guardedOnAllPaths(s.(ssa.Instruction), reqBool("", e.callV(isOrphan), true))
				r.check(g1, "GD-orphans", "processOrphans removes flagged directories only", e.ipos(s), "only orphan-flagged directories are removed through remove()", "remove() is reached for a directory that is not flagged as orphan")
			}
		}
	}
	// ---- error discipline in these paths
	st := e.CheckErrDiscipline(r, errScope{pkgs: map[string]bool{"internal/server": true, "internal/fileutil": true}, files: map[string]bool{"snapshotter.go": true}}, c16Accept)
	r.floor("ERR-calls", st.Calls, 40)
	// deferred close/sync errors reach the caller (generic.go)
	ruleDeferredErr(e, r, 2, "internal/server", "internal/fileutil", "internal/rsm", "")
	ruleChunkFileSync(e, r)
	ruleSnapshotWriterClose(e, r)
	ruleSyncUnconditional(e, r)
	ruleCreatedFileSync(e, r, 1, "internal/fileutil", "internal/server", "internal/transport", "internal/rsm", "", "tools")
	// shrinking the recorded snapshot is crash-safe only after the on-disk state machine synced (decided by C08's rule set)
	borrow(e, r, "C08", "MPT-sync-before-shrink")
	ruleRawMkdir(e, r)
	ruleRefusalNeverSuccess(e, r)
	rulePublishBeforeRecord(e, r)
	borrow(e, r, "C10", "ERR-soft-pairs")
	ruleSnapshotDeleteOlder(e, r)
	ruleTempDirNamePattern(e, r)
}

// dependsOnGuard: some branch condition on the way to `in` depends on a pred value.
func (e *Engine) dependsOnGuard(in ssa.Instruction, pred func(ssa.Value) bool) bool {
	for _, f := range blockFacts(in.Block()) {
		if e.dependsOn(f.V, pred, 0) {
			return true
		}
	}
	// a boolean local decided by such a comparison
	for _, f := range FactsAt(in) {
		if e.dependsOn(f.V, pred, 0) {
			return true
		}
	}
	return false
}

var c16SyncExempt = map[string]string{
	"internal/fileutil.TempDir:MkdirAll":  "scratch directory under the OS temp dir (test log db, witness snapshot staging); never part of a replica's snapshot tree, durability not required",
	"internal/fileutil.TempFile:MkdirAll": "as TempDir: creates the OS temp dir on non-default file systems only",
}

var c16Accept = map[string]string{
	"E3:(*internal/server.SSEnv).MustRemoveTempDir->(*internal/server.SSEnv).removeDir": "the error is ignored only after DirExist shows the directory is gone (and DirExist itself did not fail); otherwise it panics",
	"E3:internal/fileutil.HasFlagFile->internal/vfs.IFS.Stat":                           "presence probe: callers treat 'cannot stat' like 'absent'; in processOrphans both answers lead to a safe action (a directory that is not the recorded snapshot is removed either way, the recorded one is kept and re-examined at the next start)",
}
