package main

// report.go: obligations, known findings, evidence and violation files.

import (
	"bufio"
	"encoding/json"
	"fmt"
	"os"
	"path/filepath"
	"sort"
	"strings"
)

// Ob is one rule instance evaluated on the tree.
type Ob struct {
	Rule      string   `json:"rule"`      // e.g. "GD", "ERR-E2"
	Construct string   `json:"construct"` // stable key: function + callee/field, never a line
	Pos       string   `json:"pos"`       // file:line (informational)
	OK        bool     `json:"ok"`
	Kind      string   `json:"kind,omitempty"` // violation | undecided (only when !OK)
	Detail    string   `json:"detail"`
	Witness   []string `json:"witness,omitempty"`
	Trivial   bool     `json:"-"`
	Config    string   `json:"config,omitempty"`
	Known     bool     `json:"known_finding,omitempty"`
}

// Report accumulates the obligations of one property run.
type Report struct {
	Prop       string
	Obs        []Ob
	Floors     map[string][2]int // rule -> [found, floor]
	Exceptions []string
	Degraded   []string
	Notes      []string
	e          *Engine
	cfg        string
	only       string
	onlySet    map[string]bool // replay: evaluate just these rule/construct keys
}

func (r *Report) add(o Ob) {
	o.Config = r.cfg
	if r.only != "" && r.only != o.Rule+"/"+o.Construct {
		return
	}
	if r.onlySet != nil && !r.onlySet[o.Rule+"/"+o.Construct] {
		return
	}
	if !o.OK && o.Kind == "" {
		o.Kind = "violation"
	}
	r.Obs = append(r.Obs, o)
}

func (r *Report) ok(rule, construct, pos, detail string) {
	r.add(Ob{Rule: rule, Construct: construct, Pos: pos, OK: true, Detail: detail})
}

func (r *Report) bad(rule, construct, pos, detail string, witness ...string) {
	r.add(Ob{Rule: rule, Construct: construct, Pos: pos, OK: false, Kind: "violation", Detail: detail, Witness: witness})
}

func (r *Report) check(cond bool, rule, construct, pos, okDetail, badDetail string, witness ...string) bool {
	if cond {
		r.ok(rule, construct, pos, okDetail)
	} else {
		r.bad(rule, construct, pos, badDetail, witness...)
	}
	return cond
}

// undecided: an anchor was lost or an analysis bound exceeded. Fails closed.
func (r *Report) undecided(rule, construct, detail string) {
	r.add(Ob{Rule: rule, Construct: construct, Pos: "-", OK: false, Kind: "undecided", Detail: detail})
}

// floor records that rule found n instances and at least min were confirmed
// by hand on the pinned tree; fewer means anchors were lost.
func (r *Report) floor(rule string, n, min int) {
	if r.Floors == nil {
		r.Floors = map[string][2]int{}
	}
	r.Floors[rule] = [2]int{n, min}
	if n < min && r.only == "" && r.onlySet == nil {
		r.undecided(rule, "floor", fmt.Sprintf("rule matched %d instances, hand-confirmed floor is %d: an anchor no longer resolves", n, min))
	}
}

func (r *Report) exception(s string) { r.Exceptions = append(r.Exceptions, s) }
func (r *Report) note(s string)      { r.Notes = append(r.Notes, s) }

// ---------------------------------------------------------------------------

type knownFinding struct {
	Prop, Rule, Construct, What string
}

func loadKnown(path string) ([]knownFinding, []string) {
	var out []knownFinding
	var fixed []string
	f, err := os.Open(path)
	if err != nil {
		return nil, nil
	}
	defer f.Close()
	sc := bufio.NewScanner(f)
	for sc.Scan() {
		line := strings.TrimSpace(sc.Text())
		if line == "" || strings.HasPrefix(line, "#") {
			continue
		}
		if strings.HasPrefix(line, "fixed:") {
			fixed = append(fixed, line)
			continue
		}
		if !strings.HasPrefix(line, "known:") {
			continue
		}
		// known: property=C14 rule=INTEG construct=<key> :: what fails
		rest := strings.TrimSpace(strings.TrimPrefix(line, "known:"))
		what := ""
		if i := strings.Index(rest, "::"); i >= 0 {
			what = strings.TrimSpace(rest[i+2:])
			rest = strings.TrimSpace(rest[:i])
		}
		k := knownFinding{What: what}
		for _, f := range strings.Fields(rest) {
			switch {
			case strings.HasPrefix(f, "property="):
				k.Prop = strings.TrimPrefix(f, "property=")
			case strings.HasPrefix(f, "rule="):
				k.Rule = strings.TrimPrefix(f, "rule=")
			case strings.HasPrefix(f, "construct="):
				k.Construct = strings.TrimPrefix(f, "construct=")
			}
		}
		out = append(out, k)
	}
	return out, fixed
}

// ---------------------------------------------------------------------------

// EngStat is the size of one analysed configuration.
type EngStat struct {
	Cfg                string
	Pkgs, Funcs, Nodes int
}

type evidence struct {
	PropertyID  string                 `json:"property_id"`
	Tier        string                 `json:"tier"`
	Seed        int                    `json:"seed"`
	Level       string                 `json:"level"`
	Coverage    map[string]interface{} `json:"coverage"`
	Assumptions []string               `json:"assumptions"`
	WallS       float64                `json:"wall_s"`
	Violations  int                    `json:"violations"`
}

var trustedBase = []string{
	"go/types, go/ssa, go/packages and the VTA call graph of golang.org/x/tools v0.29.0",
	"the anchored state is not reached through reflect, unsafe pointer writes or go:linkname",
	"panic, ILogger.Panicf, panicNow and os.Exit do not return",
	"pebble, lni/vfs and the kernel implement Sync/fsync/rename as documented",
}

// finish compares with known findings, writes evidence and the violations
// file, prints the verdict lines and returns the exit code.
// partialRun: a -only/-replay run evaluates a subset of the obligations; it
// prints its verdict but leaves the evidence file of the full run alone.
var partialRun bool

func finish(verifDir string, prop *Property, tier string, seed int, reports []*Report, wall float64, engines []EngStat, selftest map[string]interface{}) int {
	known, _ := loadKnown(filepath.Join(verifDir, "known_findings.txt"))
	var all []Ob
	floors := map[string]interface{}{}
	var exceptions, degraded, notes []string
	for _, r := range reports {
		all = append(all, r.Obs...)
		for k, v := range r.Floors {
			floors[r.cfg+":"+k] = map[string]int{"found": v[0], "floor": v[1]}
		}
		exceptions = append(exceptions, r.Exceptions...)
		degraded = append(degraded, r.Degraded...)
		notes = append(notes, r.Notes...)
	}
	exceptions = uniq(exceptions)
	degraded = uniq(degraded)
	notes = uniq(notes)

	var viol []Ob
	knownMatched := []string{}
	printedKnown := map[string]bool{}
	discharged := 0
	distinct := map[string]bool{}
	for i := range all {
		o := &all[i]
		if !o.Trivial {
			distinct[o.Rule+"/"+o.Construct] = true
		}
		if o.OK {
			discharged++
			continue
		}
		matched := false
		if o.Kind == "violation" {
			for _, k := range known {
				if k.Prop == prop.ID && k.Rule == o.Rule && k.Construct == o.Construct {
					matched = true
					key := k.Rule + "/" + k.Construct
					if !printedKnown[key] {
						printedKnown[key] = true
						fmt.Printf("KNOWN-FINDING: property=%s %s [%s %s at %s]\n", prop.ID, k.What, o.Rule, o.Construct, o.Pos)
						knownMatched = append(knownMatched, key)
					}
				}
			}
		}
		if matched {
			o.Known = true
			continue
		}
		viol = append(viol, *o)
	}

	samples := []interface{}{}
	// show a spread of obligations: first of each rule, then fill up
	seenRule := map[string]int{}
	for _, o := range all {
		if seenRule[o.Rule] < 3 && len(samples) < 60 {
			seenRule[o.Rule]++
			samples = append(samples, o)
		}
	}
	cfgs := []string{}
	pkgs, funcs, nodes := 0, 0, 0
	for _, e := range engines {
		cfgs = append(cfgs, e.Cfg)
		if e.Pkgs > pkgs {
			pkgs = e.Pkgs
		}
		if e.Funcs > funcs {
			funcs = e.Funcs
		}
		if e.Nodes > nodes {
			nodes = e.Nodes
		}
	}
	perRule := map[string]int{}
	for _, o := range all {
		perRule[o.Rule]++
	}
	ev := evidence{
		PropertyID: prop.ID, Tier: tier, Seed: seed, Level: "other",
		Coverage: map[string]interface{}{
			"explanation":            prop.Explanation,
			"not_covered":            prop.NotCovered,
			"obligations":            len(all),
			"discharged":             discharged,
			"evaluations":            len(all),
			"distinct_nontrivial":    len(distinct),
			"rule":                   "one obligation per (rule, construct) per build configuration; constructs are functions/call sites/fields discovered from /repo's SSA on this run; non-trivial = at least one path, caller or site was examined",
			"samples":                samples,
			"per_rule":               perRule,
			"packages":               pkgs,
			"functions_analysed":     funcs,
			"callgraph_nodes":        nodes,
			"configs":                cfgs,
			"floors":                 floors,
			"degraded":               degraded,
			"exceptions":             exceptions,
			"notes":                  notes,
			"known_findings_matched": knownMatched,
			"checker_cmd":            fmt.Sprintf("/verif/bin/dbcheck -prop %s -tier %s", prop.ID, tier),
			"trusted_base":           trustedBase,
			"exhaustive":             false,
		},
		Assumptions: trustedBase,
		WallS:       wall,
		Violations:  len(viol),
	}
	if selftest != nil {
		ev.Coverage["selftest"] = selftest
	}
	evDir := filepath.Join(verifDir, "evidence")
	_ = os.MkdirAll(evDir, 0o755)
	if !partialRun {
		writeJSON(filepath.Join(evDir, prop.ID+".json"), ev)
	}
	if d := os.Getenv("DBCHECK_OBLIG_DIR"); d != "" {
		// development aid (tools/anchor_gaps.py): the full obligation list, not only the samples
		_ = os.MkdirAll(d, 0o755)
		writeJSON(filepath.Join(d, prop.ID+".oblig.json"), all)
	}

	fmt.Printf("property=%s tier=%s configs=%v obligations=%d discharged=%d known=%d violations=%d wall=%.1fs\n",
		prop.ID, tier, cfgs, len(all), discharged, len(knownMatched), len(viol), wall)
	rules := make([]string, 0, len(perRule))
	for k := range perRule {
		rules = append(rules, k)
	}
	sort.Strings(rules)
	for _, k := range rules {
		fmt.Printf("  rule %-28s instances=%d\n", k, perRule[k])
	}
	vpath := filepath.Join(evDir, prop.ID+".violations.json")
	if partialRun {
		vpath = filepath.Join(evDir, prop.ID+".replay.violations.json")
	}
	if len(viol) == 0 {
		_ = os.Remove(vpath)
		return 0
	}
	writeJSON(vpath, map[string]interface{}{"property_id": prop.ID, "violations": viol})
	for _, o := range viol {
		fmt.Printf("  %s %s %s at %s [%s]: %s\n", strings.ToUpper(o.Kind), o.Rule, o.Construct, o.Pos, o.Config, o.Detail)
		for _, w := range o.Witness {
			fmt.Printf("      via %s\n", w)
		}
	}
	fmt.Printf("VIOLATION property=%s replay=%s\n", prop.ID, vpath)
	return 1
}

func writeJSON(path string, v interface{}) {
	b, err := json.MarshalIndent(v, "", " ")
	if err != nil {
		fmt.Fprintln(os.Stderr, "marshal:", err)
		return
	}
	tmp := path + ".tmp"
	if err := os.WriteFile(tmp, append(b, '\n'), 0o644); err != nil {
		fmt.Fprintln(os.Stderr, "write:", err)
		return
	}
	_ = os.Rename(tmp, path)
}

func uniq(in []string) []string {
	sort.Strings(in)
	out := []string{}
	for i, s := range in {
		if i == 0 || s != in[i-1] {
			out = append(out, s)
		}
	}
	return out
}
