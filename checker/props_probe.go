package main

func init() {
	register(&Property{ID: "PROBE", Explanation: "probe", Run: func(e *Engine, r *Report) {
		r.ok("PROBE", "load", "-", "loaded")
	}})
}
