package main

// shared.go: rules that are a necessary condition of more than one property
// and are therefore evaluated by each of them.

import (
	"golang.org/x/tools/go/ssa"
)

// ruleHintVoting (C06, C18): a non-zero ReadIndex context hint is sent only to
// votingMembers(), so only voting members (and witnesses) can confirm a read.
func ruleHintVoting(e *Engine, r *Report) {
	n := 0
	votingMembers := r.need(raftT + "votingMembers")
	sendHB := r.need(raftT + "sendHeartbeatMessage")
	nonVotings := r.needField("internal/raft", "raft", "nonVotings")
	if votingMembers != nil && sendHB != nil && nonVotings != nil {
		n = 0
		for _, s := range e.CallerSites(sendHB) {
			args := s.Common().Args
			if len(args) < 3 {
				continue
			}
			n++
			// the hint argument is either the zero ctx, or the target ranges over votingMembers()
			hint := args[2]
			isZero := false
			if ld, ok := hint.(*ssa.UnOp); ok {
				if al, ok := ld.X.(*ssa.Alloc); ok {
					// a local zero-valued composite: no stores other than zero init
					isZero = true
					for _, ref := range *al.Referrers() {
						if _, ok := ref.(*ssa.Store); ok {
							isZero = false
						}
						if fa, ok := ref.(*ssa.FieldAddr); ok {
							for _, r2 := range *fa.Referrers() {
								if _, ok := r2.(*ssa.Store); ok {
									isZero = false
								}
							}
						}
					}
				}
			}
			if c, ok := hint.(*ssa.Const); ok && c.Value == nil {
				isZero = true
			}
			toVoting := e.dependsOn(args[1], e.callV(votingMembers), 0) && !e.dependsOn(args[1], func(v ssa.Value) bool { return fieldV(nonVotings)(v) }, 0)
			r.check(isZero || toVoting, "GD-hint-voting", "heartbeat hint in "+fname(s.Parent())+" #"+itoa(n), e.ipos(s),
				"a non-zero ReadIndex hint is sent only to votingMembers()", "a ReadIndex hint may be sent to a member that is not in votingMembers()")
		}
		r.floor("GD-hint-voting", n, 2)
	}

}

// ruleCampaignGuard (C03, C07): every call site that starts a (pre)vote
// campaign is guarded by "no committed-but-unapplied config change", or
// continues an election that was started under that guard.
func ruleCampaignGuard(e *Engine, r *Report, tbl *HandlerTable) {
	hasCC := r.need(raftT + "hasConfigChangeToApply")
	campaign := r.need(raftT + "campaign")
	pre := r.need(raftT + "preVoteCampaign")
	if hasCC != nil && campaign != nil && pre != nil {
		n := 0
		// every call site that starts a (pre)vote campaign, wherever it is:
		// guarded by "no committed-but-unapplied config change", or a
		// continuation of an election that was started under that guard
		// (inside preVoteCampaign itself, or in the pre-vote response cell).
		preRespFns := map[*ssa.Function]bool{}
		for _, c := range tbl.Cells {
			if c.Type == "RequestPreVoteResp" {
				preRespFns[c.Fn] = true
			}
		}
		for _, target := range []*ssa.Function{campaign, pre} {
			for _, s := range e.CallerSites(target) {
				n++
				key := fname(target) + " called in " + fname(s.Parent())
				if target == campaign && (s.Parent() == pre || preRespFns[s.Parent()]) {
					r.ok("GD-campaign", key+" (continuation of a guarded pre-vote)", e.ipos(s), "campaign continues an election that was started under the guard")
					continue
				}
				r.guard("GD-campaign", key, s.(ssa.Instruction),
					reqBool("hasConfigChangeToApply() is false", e.callV(hasCC), false))
			}
		}
		r.floor("GD-campaign", n, 4)
	}
}

// ruleElectionMessageGuard (C03, C07, C18): wherever the raft core builds a
// local Election message, it does so only for a voter that is still a member:
// selfRemoved(), isNonVoting() and isWitness() are all false on every path.
func ruleElectionMessageGuard(e *Engine, r *Report) {
	msgType := r.needField("raftpb", "Message", "Type")
	if msgType == nil {
		return
	}
	n := 0
	selfRemoved := r.need(raftT + "selfRemoved")
	if selfRemoved != nil {
		electionC := r.needConst("raftpb", "Election")
		n = 0
		raftPkg := e.pkgTypes("internal/raft")
		for _, fn := range e.ScopeFuncs() {
			if fnPkg(fn) != raftPkg || !e.IsLive(fn) {
				continue
			}
			forEachInstr(fn, func(in ssa.Instruction) {
				st, ok := in.(*ssa.Store)
				if !ok {
					return
				}
				f, _, ok := fieldOfAddr(st.Addr)
				if !ok || f != msgType || !constV(electionC)(st.Val) {
					return
				}
				n++
				reqs := []Req{reqBool("selfRemoved() is false", e.callV(selfRemoved), false)}
				for _, pn := range []string{"isNonVoting", "isWitness"} {
					if pred := r.need(raftT + pn); pred != nil {
						reqs = append(reqs, reqBool(pn+"() is false", e.callV(pred), false))
					}
				}
				r.guard("GD-removed-no-campaign", "Election message built in "+fname(fn), in, reqs...)
			})
		}
		r.floor("GD-removed-no-campaign", n, 1)
	}
}

// ruleInMemEntriesFresh (C02, C19): every assignment to inMemory.entries is
// one of the confirmed shapes: a tail extension append(im.entries, ...) taken
// only when the new entries start exactly at the end; a freshly allocated copy
// (newEntrySlice, possibly extended by append); a suffix re-slice of the
// current slice (trimming applied entries); or nil. Anything else - in
// particular append() onto a sub-slice obtained from getEntries - writes into
// memory that in-flight Replicate messages still share.
func ruleInMemEntriesFresh(e *Engine, r *Report) {
	entries := r.needField("internal/raft", "inMemory", "entries")
	marker := r.needField("internal/raft", "inMemory", "markerIndex")
	fresh := r.need("(*internal/raft.inMemory).newEntrySlice")
	if entries == nil || marker == nil || fresh == nil {
		return
	}
	var derivesFresh func(v ssa.Value, d int) bool
	derivesFresh = func(v ssa.Value, d int) bool {
		if d > 4 {
			return false
		}
		if e.callV(fresh)(v) {
			return true
		}
		if c, ok := v.(*ssa.Call); ok {
			if b, isB := c.Call.Value.(*ssa.Builtin); isB && b.Name() == "append" && len(c.Call.Args) > 0 {
				// append(x, ...) is fresh when x is: a fresh copy, or the field
				// just assigned a fresh copy in this block (im.entries = new; im.entries = append(im.entries, ..))
				x := c.Call.Args[0]
				if derivesFresh(x, d+1) {
					return true
				}
				if fieldV(entries)(x) {
					// find the preceding store to entries in the same block
					blk := c.Block()
					var last *ssa.Store
					for _, in := range blk.Instrs {
						if in == ssa.Instruction(c) {
							break
						}
						if st, ok := in.(*ssa.Store); ok {
							if f, _, ok := fieldOfAddr(st.Addr); ok && f == entries {
								last = st
							}
						}
					}
					if last != nil && derivesFresh(last.Val, d+1) {
						return true
					}
				}
			}
		}
		return false
	}
	n := 0
	for _, w := range e.FieldWrites(entries) {
		if w.Kind != "store" {
			continue
		}
		n++
		key := "inMemory.entries assigned in " + fname(w.Fn) + " #" + itoa(n)
		v := w.Val
		switch {
		case isNilConst(v):
			r.ok("OWN-inmem-entries", key+" (nil)", e.ipos(w.Instr), "cleared")
		case derivesFresh(v, 0):
			r.ok("OWN-inmem-entries", key+" (fresh copy)", e.ipos(w.Instr), "assigned from a freshly allocated copy")
		case isAppendTo(v, fieldV(entries)):
			// pure tail extension: only when firstNewIndex == markerIndex + len(entries)
			r.guard("OWN-inmem-entries", key+" (tail extension)", w.Instr,
				reqCmp("first new index == markerIndex+len(entries)", "==", anyV(), func(x ssa.Value) bool {
					b, ok := stripConv(x).(*ssa.BinOp)
					return ok && b.Op.String() == "+" && fieldV(marker)(b.X)
				}))
		default:
			if sl, ok := v.(*ssa.Slice); ok && fieldV(entries)(sl.X) && sl.High == nil {
				r.ok("OWN-inmem-entries", key+" (suffix re-slice)", e.ipos(w.Instr), "drops a prefix of the current slice; no element is written")
				continue
			}
			r.bad("OWN-inmem-entries", key, e.ipos(w.Instr),
				"inMemory.entries is assigned a value that is neither a fresh copy, a guarded tail extension, a suffix re-slice nor nil ("+e.describeValue(v)+"): appending in place can overwrite entries that queued Replicate messages still reference")
		}
	}
	r.floor("OWN-inmem-entries", n, 5)
}

// ruleReplicateAck (C02): the index a follower acknowledges in a
// ReplicateResp is either its commit index, the index it rejects, or - only
// after the prev-entry match and the append - the last index of the entries it
// was sent; and after a snapshot restore its last index.
func ruleReplicateAck(e *Engine, r *Report) {
	msgType := r.needField("raftpb", "Message", "Type")
	msgLogIndex := r.needField("raftpb", "Message", "LogIndex")
	msgEntries := r.needField("raftpb", "Message", "Entries")
	committed := r.needField("internal/raft", "entryLog", "committed")
	respC := r.needConst("raftpb", "ReplicateResp")
	matchTerm := r.need("(*internal/raft.entryLog).matchTerm")
	tryAppend := r.need("(*internal/raft.entryLog).tryAppend")
	lastIndex := r.need("(*internal/raft.entryLog).lastIndex")
	restore := r.need(raftT + "restore")
	if msgType == nil || msgLogIndex == nil || msgEntries == nil || committed == nil || respC == nil || matchTerm == nil || tryAppend == nil || lastIndex == nil || restore == nil {
		return
	}
	raftPkg := e.pkgTypes("internal/raft")
	n := 0
	for _, fn := range e.ScopeFuncs() {
		if fnPkg(fn) != raftPkg || !e.IsLive(fn) {
			continue
		}
		builds := false
		forEachInstr(fn, func(in ssa.Instruction) {
			if st, ok := in.(*ssa.Store); ok {
				if f, _, ok := fieldOfAddr(st.Addr); ok && f == msgType && constV(respC)(st.Val) {
					builds = true
				}
			}
		})
		if !builds {
			continue
		}
		forEachInstr(fn, func(in ssa.Instruction) {
			st, ok := in.(*ssa.Store)
			if !ok {
				return
			}
			f, base, ok := fieldOfAddr(st.Addr)
			if !ok || f != msgLogIndex {
				return
			}
			if _, isLocal := base.(*ssa.Alloc); !isLocal {
				return
			}
			n++
			key := "ReplicateResp.LogIndex set in " + fname(fn) + " #" + itoa(n)
			v := st.Val
			switch {
			case fieldV(committed)(v):
				r.ok("GD-ack", key+" (commit index)", e.ipos(in), "acknowledges the commit index")
			case e.dependsOn(v, func(x ssa.Value) bool { return lenOfV(fieldV(msgEntries))(x) }, 0):
				// acknowledges the entries of the message: only after match + append
				g := r.guard("GD-ack", key+" (last index of the message's entries)", in,
					reqBool("matchTerm(m.LogIndex, m.LogTerm) is true", e.callV(matchTerm), true))
				dom := false
				for _, s := range e.SitesIn(fn, tryAppend) {
					if dominatesInstr(s.(ssa.Instruction), in) {
						dom = true
					}
				}
				r.check(dom || !g, "GD-ack", key+" (after tryAppend)", e.ipos(in),
					"the entries are acknowledged only after they were appended", "entries are acknowledged without having been appended on this path")
			case e.callV(lastIndex)(v):
				r.guard("GD-ack", key+" (last index after snapshot restore)", in,
					reqBool("restore(snapshot) succeeded", e.callV(restore), true))
			case fieldV(msgLogIndex)(v):
				// echo of the rejected index: must be on the reject path
				r.guard("GD-ack", key+" (rejected index)", in, reqBool("matchTerm(..) is false", e.callV(matchTerm), false))
			default:
				r.bad("GD-ack", key, e.ipos(in), "unclassified acknowledged index "+e.describeValue(v)+": a follower may acknowledge entries it does not hold")
			}
		})
	}
	r.floor("GD-ack", n, 4)
}

// ruleAppliedArg (C06, C01): the index handed to the ReadIndex release
// (pendingReadIndex.applied) is an applied index: Update.LastApplied, or the
// index of the entry the state machine just applied (INode.ApplyUpdate).
func ruleAppliedArg(e *Engine, r *Report) {
	applied := r.need("(*dragonboat.pendingReadIndex).applied")
	lastApplied := r.needField("raftpb", "Update", "LastApplied")
	entIndex := r.needField("raftpb", "Entry", "Index")
	if applied == nil || lastApplied == nil || entIndex == nil {
		return
	}
	applyUpdate := e.Func("(*dragonboat.node).ApplyUpdate")
	getLA := r.need("(*internal/rsm.StateMachine).GetLastApplied")
	n := 0
	for _, s := range e.CallerSites(applied) {
		args := s.Common().Args
		if len(args) < 2 {
			continue
		}
		n++
		v := args[1]
		ok := fieldV(lastApplied)(v) || (fieldV(entIndex)(v) && s.Parent() == applyUpdate)
		if !ok && getLA != nil {
			// the state machine's own last-applied index, read directly or through a helper
			if c, isCall := stripConv(v).(*ssa.Call); isCall {
				for _, g := range e.Callees(c) {
					if g == getLA || e.returnDependsOn(g, e.callV(getLA), 0) || len(e.SitesIn(g, getLA)) > 0 {
						ok = true
					}
				}
			}
		}
		r.check(ok, "DEP-applied-arg", "pendingReadIndex.applied argument in "+fname(s.Parent()), e.ipos(s),
			"the release is driven by an applied index (Update.LastApplied or the just-applied entry)",
			"the ReadIndex release is driven by "+e.describeValue(v)+", which is not an applied index")
	}
	r.floor("DEP-applied-arg", n, 2)
}

// ruleMembershipCopy (C07, C08): the membership handed to snapshot metadata
// and readers is a deep copy, and the live membership is replaced only by a
// deep copy, so a later change never leaks into an earlier snapshot.
func ruleMembershipCopy(e *Engine, r *Report) {
	const mT = "(*internal/rsm.membership)."
	// the membership handed out is a deep copy; set() stores a deep copy
	dc := r.need("internal/rsm.deepCopyMembership")
	if dc != nil {
		if g := r.need(mT + "get"); g != nil {
			okc := true
			forEachInstr(g, func(in ssa.Instruction) {
				if ret, ok := in.(*ssa.Return); ok && !e.callV(dc)(retOperand(ret, 0)) {
					okc = false
				}
			})
			r.check(okc, "OWN-members-copy", "membership.get returns a deep copy", e.pos(g.Pos()),
				"snapshot metadata and readers never alias the live membership maps", "membership.get hands out the live maps: a later config change leaks into an earlier snapshot's membership")
		}
		members := e.Field("internal/rsm", "membership", "members")
		for _, w := range e.FieldWrites(members) {
			if w.Kind == "init" {
				continue
			}
			r.check(e.callV(dc)(w.Val), "OWN-members-copy", "membership.members assigned in "+fname(w.Fn), e.ipos(w.Instr),
				"the membership is replaced only by a deep copy", "the membership is replaced by a value that aliases its source")
		}
		// deepCopy covers all four maps and the order id
		covered := map[string]bool{}
		forEachInstr(dc, func(in ssa.Instruction) {
			if rg, ok := in.(*ssa.Range); ok {
				if f, _, ok := loadedField(rg.X); ok {
					covered[f.Name()] = true
				}
			}
		})
		r.check(keysOf(covered) == "Addresses,NonVotings,Removed,Witnesses", "OWN-members-copy", "deepCopyMembership copies all four maps", e.pos(dc.Pos()),
			"all member kinds are copied", "deepCopyMembership copies only {"+keysOf(covered)+"}")
	}

}

// ruleLastAppliedAfterApply (C01, C08): the applied cursor that releases
// reads and bounds snapshots is published only after the entries were applied.
func ruleLastAppliedAfterApply(e *Engine, r *Report) {
	if h := r.need("(*internal/rsm.StateMachine).handle"); h != nil {
		sla := r.need("(*internal/rsm.StateMachine).setLastApplied")
		he := e.Func("(*internal/rsm.StateMachine).handleEntry")
		hb := e.Func("(*internal/rsm.StateMachine).handleBatch")
		if sla != nil && he != nil && hb != nil {
			for _, s := range e.SitesIn(h, sla) {
				// no path from setLastApplied back to an apply call within the same task iteration:
				// every apply call site dominates... simpler: setLastApplied is not followed by handleEntry/handleBatch for the same entries
				c := s.(*ssa.Call)
				sameArgApplied := false
				for _, f := range []*ssa.Function{he, hb} {
					for _, as := range e.SitesIn(h, f) {
						if dominatesInstr(c, as.(ssa.Instruction)) {
							sameArgApplied = true
						}
					}
				}
				r.check(!sameArgApplied, "MPT-lastapplied-after-apply", "setLastApplied in handle comes after the entries were applied", e.ipos(s),
					"the applied cursor that releases reads and snapshots is published only after Update returned", "the last-applied cursor is published before the entries are applied: reads can be released against state that does not contain them yet")
			}
		}
	}
}

// ruleReadRelease (C01, C06): the reader is released (readyToRead set,
// Completed notified) only under 0 < batch index <= applied, and the batch
// index comes from a ReadyToRead record of the raft core.
func ruleReadRelease(e *Engine, r *Report) {
	n := 0
	rbIndex := r.needField("dragonboat", "readBatch", "index")
	readyToRead := r.needField("dragonboat", "RequestState", "readyToRead")
	readySet := r.need("(*dragonboat.ready).set")
	applied := r.need("(*dragonboat.pendingReadIndex).applied")
	if rbIndex != nil && readyToRead != nil && readySet != nil && applied != nil {
		n = 0
		for _, s := range e.CallerSites(readySet) {
			// receiver is &req.readyToRead
			recv := s.Common().Args
			if len(recv) == 0 {
				continue
			}
			f, _, ok := fieldOfAddr(recv[0])
			if !ok || f != readyToRead {
				continue
			}
			n++
			key := "readyToRead.set in " + fname(s.Parent())
			var appliedParam VM = func(v ssa.Value) bool {
				p, ok := stripConv(v).(*ssa.Parameter)
				return ok && p.Name() == "applied"
			}
			r.guard("GD-read-release", key, s.(ssa.Instruction),
				reqCmp("batch index <= applied", "<=", fieldV(rbIndex), appliedParam),
				reqCmp("batch index > 0", ">", fieldV(rbIndex), intConstV(0)))
		}
		r.floor("GD-read-release", n, 1)
		// rb.index is set only from ReadyToRead records
		rtrIndex := e.Field("raftpb", "ReadyToRead", "Index")
		for _, w := range e.FieldWrites(rbIndex) {
			if intConstV(0)(w.Val) {
				continue
			}
			r.check(fieldV(rtrIndex)(w.Val), "WMW-read-index", "readBatch.index written in "+fname(w.Fn), e.ipos(w.Instr),
				"the batch index comes from a ReadyToRead record produced by the raft core", "the batch index is set from something other than a ReadyToRead record")
		}
	}
}

// ruleCompletedNotRejected (C01, C12): in the proposal table's applied step
// the Completed code is selected only on the edge where the entry was not
// rejected by the state machine.
func ruleCompletedNotRejected(e *Engine, r *Report) {
	cc := r.needConst("dragonboat", "requestCompleted")
	if cc == nil {
		return
	}
	// in proposalShard.applied: Completed only when not rejected
	if ap := e.Func("(*dragonboat.proposalShard).applied"); ap != nil {
		forEachInstr(ap, func(in ssa.Instruction) {
			ph, ok := in.(*ssa.Phi)
			if !ok {
				return
			}
			for i, ed := range ph.Edges {
				if constV(cc)(ed) && ed.Type().String() == cc.Type().String() {
					fs := expandFacts(edgeFacts(ph.Block().Preds[i], ph.Block()))
					okr := hasBoolFact(fs, func(v ssa.Value) bool { p, ok := v.(*ssa.Parameter); return ok && p.Name() == "rejected" }, false)
					r.check(okr, "WMC-completed", "Completed in proposalShard.applied only when not rejected", e.ipos(in),
						"a rejected proposal is reported Rejected", "a rejected proposal can be reported Completed")
				}
			}
		})
	}
}
