package main

// shared.go: rules that are a necessary condition of more than one property
// and are therefore evaluated by each of them.

import (
	"go/token"
	"go/types"
	"golang.org/x/tools/go/ssa"
	"strings"
)

// ruleHintVoting (C06, C18): a non-zero ReadIndex context hint is sent only to
// votingMembers(), so only voting members (and witnesses) can confirm a read.
func ruleHintVoting(e *Engine, r *Report) {
	n := 0
	votingMembers := r.need(raftT + "votingMembers")
	sendHB := r.need(raftT + "sendHeartbeatMessage")
	nonVotings := r.needField("internal/raft", "raft", "nonVotings")
	if votingMembers != nil && sendHB != nil && nonVotings != nil {
		n = 0
		for _, s := range e.CallerSites(sendHB) {
			args := s.Common().Args
			if len(args) < 3 {
				continue
			}
			n++
			// the hint argument is either the zero ctx, or the target ranges over votingMembers()
			// (arguments identified by role, not position: the ctx-typed one and
			// the one that becomes Message.To)
			hintIdx, toIdx := 2, 1
			msgTo := e.Field("raftpb", "Message", "To")
			for pi, p := range sendHB.Params {
				if nt, ok := p.Type().(*types.Named); ok && nt.Obj().Name() == "SystemCtx" {
					hintIdx = pi
				}
			}
			forEachInstr(sendHB, func(in ssa.Instruction) {
				if st, ok := in.(*ssa.Store); ok {
					if f, _, ok := fieldOfAddr(st.Addr); ok && f == msgTo {
						for pi, p := range sendHB.Params {
							if stripConv(st.Val) == ssa.Value(p) {
								toIdx = pi
							}
						}
					}
				}
			})
			if hintIdx >= len(args) || toIdx >= len(args) {
				continue
			}
			hint := args[hintIdx]
			isZero := false
			if ld, ok := hint.(*ssa.UnOp); ok {
				if al, ok := ld.X.(*ssa.Alloc); ok {
					// a local zero-valued composite: no stores other than zero init
					isZero = true
					for _, ref := range *al.Referrers() {
						if _, ok := ref.(*ssa.Store); ok {
							isZero = false
						}
						if fa, ok := ref.(*ssa.FieldAddr); ok {
							for _, r2 := range *fa.Referrers() {
								if _, ok := r2.(*ssa.Store); ok {
									isZero = false
								}
							}
						}
					}
				}
			}
			if c, ok := hint.(*ssa.Const); ok && c.Value == nil {
				isZero = true
			}
			toVoting := e.dependsOn(args[toIdx], e.callV(votingMembers), 0) && !e.dependsOn(args[toIdx], func(v ssa.Value) bool { return fieldV(nonVotings)(v) }, 0)
			r.check(isZero || toVoting, "GD-hint-voting", "heartbeat hint in "+fname(s.Parent())+" #"+itoa(n), e.ipos(s),
				"a non-zero ReadIndex hint is sent only to votingMembers()", "a ReadIndex hint may be sent to a member that is not in votingMembers()")
		}
		r.floor("GD-hint-voting", n, 2)
	}

}

// ruleCampaignGuard (C03, C07): every call site that starts a (pre)vote
// campaign is guarded by "no committed-but-unapplied config change", or
// continues an election that was started under that guard.
func ruleCampaignGuard(e *Engine, r *Report, tbl *HandlerTable) {
	hasCC := r.need(raftT + "hasConfigChangeToApply")
	campaign := r.need(raftT + "campaign")
	pre := r.need(raftT + "preVoteCampaign")
	if hasCC != nil && campaign != nil && pre != nil {
		n := 0
		// every call site that starts a (pre)vote campaign, wherever it is:
		// guarded by "no committed-but-unapplied config change", or a
		// continuation of an election that was started under that guard
		// (inside preVoteCampaign itself, or in the pre-vote response cell).
		preRespFns := map[*ssa.Function]bool{}
		for _, c := range tbl.Cells {
			if c.Type == "RequestPreVoteResp" {
				preRespFns[c.Fn] = true
			}
		}
		for _, target := range []*ssa.Function{campaign, pre} {
			for _, s := range e.CallerSites(target) {
				n++
				key := fname(target) + " called in " + fname(s.Parent())
				// role closure: the site sits in preVoteCampaign / a pre-vote response
				// cell, or in a helper called only from there, or behind a boolean
				// parameter of a helper that is true only when called from there
				var continuation func(f *ssa.Function, d int) bool
				continuation = func(f *ssa.Function, d int) bool {
					if f == pre || preRespFns[f] {
						return true
					}
					if d == 0 {
						return false
					}
					cs := e.CallerSites(f)
					if len(cs) == 0 {
						return false
					}
					for _, c := range cs {
						if c.Common().StaticCallee() == nil || !continuation(c.Parent(), d-1) {
							return false
						}
					}
					return true
				}
				viaFlag := func() bool {
					f := s.Parent()
					for pi, p := range f.Params {
						bt, ok := p.Type().Underlying().(*types.Basic)
						if !ok || bt.Kind() != types.Bool {
							continue
						}
						if g, _ := e.guardedOnAllPaths(s.(ssa.Instruction), reqBool("", func(v ssa.Value) bool { return v == ssa.Value(p) }, true)); !g {
							continue
						}
						cs := e.CallerSites(f)
						okAll := len(cs) > 0
						for _, c := range cs {
							args := c.Common().Args
							if c.Common().StaticCallee() == nil || pi >= len(args) {
								okAll = false
								break
							}
							cb, isC := isConstBool(args[pi])
							if !isC || (cb && !continuation(c.Parent(), 1)) {
								okAll = false
								break
							}
						}
						if okAll {
							return true
						}
					}
					return false
				}
				if target == campaign && (continuation(s.Parent(), 2) || viaFlag()) {
					r.ok("GD-campaign", key+" (continuation of a guarded pre-vote)", e.ipos(s), "campaign continues an election that was started under the guard")
					continue
				}
				r.guard("GD-campaign", key, s.(ssa.Instruction),
					reqBool("hasConfigChangeToApply() is false", e.callV(hasCC), false))
			}
		}
		r.floor("GD-campaign", n, 4)
	}
}

// ruleElectionMessageGuard (C03, C07, C18): wherever the raft core builds a
// local Election message, it does so only for a voter that is still a member:
// selfRemoved(), isNonVoting() and isWitness() are all false on every path.
func ruleElectionMessageGuard(e *Engine, r *Report) {
	msgType := r.needField("raftpb", "Message", "Type")
	if msgType == nil {
		return
	}
	n := 0
	selfRemoved := r.need(raftT + "selfRemoved")
	if selfRemoved != nil {
		electionC := r.needConst("raftpb", "Election")
		n = 0
		raftPkg := e.pkgTypes("internal/raft")
		for _, fn := range e.ScopeFuncs() {
			if fnPkg(fn) != raftPkg || !e.IsLive(fn) {
				continue
			}
			for _, in := range e.msgTypeSites(fn, msgType, electionC) {
				n++
				reqs := []Req{reqBool("selfRemoved() is false", e.callV(selfRemoved), false)}
				for _, pn := range []string{"isNonVoting", "isWitness"} {
					if pred := r.need(raftT + pn); pred != nil {
						reqs = append(reqs, reqBool(pn+"() is false", e.callV(pred), false))
					}
				}
				r.guard("GD-removed-no-campaign", "Election message built in "+fname(fn), in, reqs...)
			}
		}
		r.floor("GD-removed-no-campaign", n, 1)
	}
}

// ruleInMemEntriesFresh (C02, C19): every assignment to inMemory.entries is
// one of the confirmed shapes: a tail extension append(im.entries, ...) taken
// only when the new entries start exactly at the end; a freshly allocated copy
// (newEntrySlice, possibly extended by append); a suffix re-slice of the
// current slice (trimming applied entries); or nil. Anything else - in
// particular append() onto a sub-slice obtained from getEntries - writes into
// memory that in-flight Replicate messages still share.
func ruleInMemEntriesFresh(e *Engine, r *Report) {
	entries := r.needField("internal/raft", "inMemory", "entries")
	marker := r.needField("internal/raft", "inMemory", "markerIndex")
	// the allocator is recognised by role, the name only sharpens the report: a function of the
	// package whose every returned slice is freshly allocated (make / append onto make)
	fresh := r.helper("(*internal/raft.inMemory).newEntrySlice")
	if entries == nil || marker == nil {
		return
	}
	allocates := func(g *ssa.Function) bool {
		if g == nil || len(g.Blocks) == 0 || g.Signature.Results().Len() != 1 {
			return false
		}
		if _, isSl := g.Signature.Results().At(0).Type().Underlying().(*types.Slice); !isSl {
			return false
		}
		okAll, n := true, 0
		forEachInstr(g, func(in ssa.Instruction) {
			if ret, ok := in.(*ssa.Return); ok && len(ret.Results) == 1 {
				n++
				if !isFreshSliceValue(retOperand(ret, 0), 0) {
					okAll = false
				}
			}
		})
		return okAll && n > 0
	}
	isAllocCall := func(v ssa.Value) bool {
		c, ok := v.(*ssa.Call)
		if !ok {
			return false
		}
		g := c.Call.StaticCallee()
		return g != nil && fnPkg(g) == e.pkgTypes("internal/raft") && allocates(g)
	}
	var derivesFresh func(v ssa.Value, d int) bool
	derivesFresh = func(v ssa.Value, d int) bool {
		if d > 4 {
			return false
		}
		if (fresh != nil && e.callV(fresh)(v) && allocates(fresh)) || isAllocCall(v) {
			return true
		}
		if c, ok := v.(*ssa.Call); ok {
			if b, isB := c.Call.Value.(*ssa.Builtin); isB && b.Name() == "append" && len(c.Call.Args) > 0 {
				// append(x, ...) is fresh when x is: a fresh copy, or the field
				// just assigned a fresh copy in this block (im.entries = new; im.entries = append(im.entries, ..))
				x := c.Call.Args[0]
				if derivesFresh(x, d+1) {
					return true
				}
				if fieldV(entries)(x) {
					// find the preceding store to entries in the same block
					blk := c.Block()
					var last *ssa.Store
					for _, in := range blk.Instrs {
						if in == ssa.Instruction(c) {
							break
						}
						if st, ok := in.(*ssa.Store); ok {
							if f, _, ok := fieldOfAddr(st.Addr); ok && f == entries {
								last = st
							}
						}
					}
					if last != nil && derivesFresh(last.Val, d+1) {
						return true
					}
				}
			}
		}
		return false
	}
	// the function the rule trusts to hand out a fresh copy does allocate: every
	// slice it returns is make()/append onto make(), never recycled memory that
	// earlier hand-outs (entries to save / to apply / Replicate messages) alias
	if fresh != nil {
		forEachInstr(fresh, func(in ssa.Instruction) {
			ret, ok := in.(*ssa.Return)
			if !ok || len(ret.Results) == 0 {
				return
			}
			r.check(isFreshSliceValue(retOperand(ret, 0), 0), "OWN-inmem-entries", "newEntrySlice returns freshly allocated memory", e.ipos(in),
				"make() or append onto make()", "newEntrySlice can return a slice that is not freshly allocated ("+e.describeValue(retOperand(ret, 0))+"): slices handed out earlier (entries to save, to apply, in Replicate messages) share that memory and are overwritten")
		})
	}
	n := 0
	for _, w := range e.FieldWrites(entries) {
		if w.Kind != "store" {
			continue
		}
		n++
		key := "inMemory.entries assigned in " + fname(w.Fn) + " #" + itoa(n)
		v := w.Val
		switch {
		case isNilConst(v):
			r.ok("OWN-inmem-entries", key+" (nil)", e.ipos(w.Instr), "cleared")
		case derivesFresh(v, 0):
			r.ok("OWN-inmem-entries", key+" (fresh copy)", e.ipos(w.Instr), "assigned from a freshly allocated copy")
		case isAppendTo(v, fieldV(entries)):
			// pure tail extension: only when firstNewIndex == markerIndex + len(entries)
			r.guard("OWN-inmem-entries", key+" (tail extension)", w.Instr,
				reqCmp("first new index == markerIndex+len(entries)", "==", anyV(), func(x ssa.Value) bool {
					b, ok := stripConv(x).(*ssa.BinOp)
					return ok && b.Op.String() == "+" && fieldV(marker)(b.X)
				}))
		default:
			if sl, ok := v.(*ssa.Slice); ok && fieldV(entries)(sl.X) && sl.High == nil {
				r.ok("OWN-inmem-entries", key+" (suffix re-slice)", e.ipos(w.Instr), "drops a prefix of the current slice; no element is written")
				continue
			}
			r.bad("OWN-inmem-entries", key, e.ipos(w.Instr),
				"inMemory.entries is assigned a value that is neither a fresh copy, a guarded tail extension, a suffix re-slice nor nil ("+e.describeValue(v)+"): appending in place can overwrite entries that queued Replicate messages still reference")
		}
	}
	r.floor("OWN-inmem-entries", n, 5)
}

// ruleReplicateAck (C02): the index a follower acknowledges in a
// ReplicateResp is either its commit index, the index it rejects, or - only
// after the prev-entry match and the append - the last index of the entries it
// was sent; and after a snapshot restore its last index.
func ruleReplicateAck(e *Engine, r *Report) {
	msgType := r.needField("raftpb", "Message", "Type")
	msgLogIndex := r.needField("raftpb", "Message", "LogIndex")
	msgEntries := r.needField("raftpb", "Message", "Entries")
	committed := r.needField("internal/raft", "entryLog", "committed")
	respC := r.needConst("raftpb", "ReplicateResp")
	matchTerm := r.need("(*internal/raft.entryLog).matchTerm")
	tryAppend := r.need("(*internal/raft.entryLog).tryAppend")
	lastIndex := r.need("(*internal/raft.entryLog).lastIndex")
	restore := r.need(raftT + "restore")
	if msgType == nil || msgLogIndex == nil || msgEntries == nil || committed == nil || respC == nil || matchTerm == nil || tryAppend == nil || lastIndex == nil || restore == nil {
		return
	}
	raftPkg := e.pkgTypes("internal/raft")
	n := 0
	for _, fn := range e.ScopeFuncs() {
		if fnPkg(fn) != raftPkg || !e.IsLive(fn) {
			continue
		}
		builds := false
		forEachInstr(fn, func(in ssa.Instruction) {
			if st, ok := in.(*ssa.Store); ok {
				if f, _, ok := fieldOfAddr(st.Addr); ok && f == msgType && constV(respC)(st.Val) {
					builds = true
				}
			}
		})
		if !builds {
			continue
		}
		forEachInstr(fn, func(in ssa.Instruction) {
			st, ok := in.(*ssa.Store)
			if !ok {
				return
			}
			f, base, ok := fieldOfAddr(st.Addr)
			if !ok || f != msgLogIndex {
				return
			}
			if _, isLocal := base.(*ssa.Alloc); !isLocal {
				return
			}
			n++
			key := "ReplicateResp.LogIndex set in " + fname(fn) + " #" + itoa(n)
			v := st.Val
			switch {
			case fieldV(committed)(v):
				r.ok("GD-ack", key+" (commit index)", e.ipos(in), "acknowledges the commit index")
			case e.dependsOn(v, func(x ssa.Value) bool { return lenOfV(fieldV(msgEntries))(x) }, 0):
				// acknowledges the entries of the message: only after match + append
				g := r.guard("GD-ack", key+" (last index of the message's entries)", in,
					reqBool("matchTerm(m.LogIndex, m.LogTerm) is true", e.callV(matchTerm), true))
				dom := false
				for _, s := range e.SitesIn(fn, tryAppend) {
					if dominatesInstr(s.(ssa.Instruction), in) {
						dom = true
					}
				}
				r.check(dom || !g, "GD-ack", key+" (after tryAppend)", e.ipos(in),
					"the entries are acknowledged only after they were appended", "entries are acknowledged without having been appended on this path")
			case e.callV(lastIndex)(v):
				r.guard("GD-ack", key+" (last index after snapshot restore)", in,
					reqBool("restore(snapshot) succeeded", e.callV(restore), true))
			case fieldV(msgLogIndex)(v):
				// echo of the rejected index: must be on the reject path
				r.guard("GD-ack", key+" (rejected index)", in, reqBool("matchTerm(..) is false", e.callV(matchTerm), false))
			default:
				r.bad("GD-ack", key, e.ipos(in), "unclassified acknowledged index "+e.describeValue(v)+": a follower may acknowledge entries it does not hold")
			}
		})
	}
	r.floor("GD-ack", n, 4)
}

// ruleAppliedArg (C06, C01): the index handed to the ReadIndex release
// (pendingReadIndex.applied) is an applied index: Update.LastApplied, or the
// index of the entry the state machine just applied (INode.ApplyUpdate).
func ruleAppliedArg(e *Engine, r *Report) {
	applied := r.need("(*dragonboat.pendingReadIndex).applied")
	lastApplied := r.needField("raftpb", "Update", "LastApplied")
	entIndex := r.needField("raftpb", "Entry", "Index")
	if applied == nil || lastApplied == nil || entIndex == nil {
		return
	}
	applyUpdate := e.Func("(*dragonboat.node).ApplyUpdate")
	getLA := r.need("(*internal/rsm.StateMachine).GetLastApplied")
	n := 0
	for _, s := range e.CallerSites(applied) {
		args := s.Common().Args
		if len(args) < 2 {
			continue
		}
		n++
		v := args[1]
		ok := fieldV(lastApplied)(v) || (fieldV(entIndex)(v) && s.Parent() == applyUpdate)
		if !ok && getLA != nil {
			// the state machine's own last-applied index, read directly or through a helper
			if c, isCall := stripConv(v).(*ssa.Call); isCall {
				for _, g := range e.Callees(c) {
					if g == getLA || e.returnDependsOn(g, e.callV(getLA), 0) || len(e.SitesIn(g, getLA)) > 0 {
						ok = true
					}
				}
			}
		}
		r.check(ok, "DEP-applied-arg", "pendingReadIndex.applied argument in "+fname(s.Parent()), e.ipos(s),
			"the release is driven by an applied index (Update.LastApplied or the just-applied entry)",
			"the ReadIndex release is driven by "+e.describeValue(v)+", which is not an applied index")
	}
	r.floor("DEP-applied-arg", n, 2)
}

// ruleMembershipCopy (C07, C08): the membership handed to snapshot metadata
// and readers is a deep copy, and the live membership is replaced only by a
// deep copy, so a later change never leaks into an earlier snapshot.
func ruleMembershipCopy(e *Engine, r *Report) {
	const mT = "(*internal/rsm.membership)."
	// the membership handed out is a deep copy; set() stores a deep copy
	dc := r.need("internal/rsm.deepCopyMembership")
	if dc != nil {
		if g := r.need(mT + "get"); g != nil {
			okc := true
			forEachInstr(g, func(in ssa.Instruction) {
				if ret, ok := in.(*ssa.Return); ok && !e.callV(dc)(retOperand(ret, 0)) {
					okc = false
				}
			})
			r.check(okc, "OWN-members-copy", "membership.get returns a deep copy", e.pos(g.Pos()),
				"snapshot metadata and readers never alias the live membership maps", "membership.get hands out the live maps: a later config change leaks into an earlier snapshot's membership")
		}
		members := e.Field("internal/rsm", "membership", "members")
		for _, w := range e.FieldWrites(members) {
			if w.Kind == "init" {
				continue
			}
			r.check(e.callV(dc)(w.Val), "OWN-members-copy", "membership.members assigned in "+fname(w.Fn), e.ipos(w.Instr),
				"the membership is replaced only by a deep copy", "the membership is replaced by a value that aliases its source")
		}
		// deepCopy covers all four maps and the order id
		covered := map[string]bool{}
		forEachInstr(dc, func(in ssa.Instruction) {
			if rg, ok := in.(*ssa.Range); ok {
				if f, _, ok := loadedField(rg.X); ok {
					covered[f.Name()] = true
				}
			}
		})
		r.check(keysOf(covered) == "Addresses,NonVotings,Removed,Witnesses", "OWN-members-copy", "deepCopyMembership copies all four maps", e.pos(dc.Pos()),
			"all member kinds are copied", "deepCopyMembership copies only {"+keysOf(covered)+"}")
	}

}

// ruleLastAppliedAfterApply (C01, C08): the applied cursor that releases
// reads and bounds snapshots is published only after the entries were applied.
func ruleLastAppliedAfterApply(e *Engine, r *Report) {
	if h := r.need("(*internal/rsm.StateMachine).handle"); h != nil {
		sla := r.need("(*internal/rsm.StateMachine).setLastApplied")
		he := e.Func("(*internal/rsm.StateMachine).handleEntry")
		hb := e.Func("(*internal/rsm.StateMachine).handleBatch")
		if sla != nil && he != nil && hb != nil {
			for _, s := range e.SitesIn(h, sla) {
				// no path from setLastApplied back to an apply call within the same task iteration:
				// every apply call site dominates... simpler: setLastApplied is not followed by handleEntry/handleBatch for the same entries
				c := s.(*ssa.Call)
				sameArgApplied := false
				for _, f := range []*ssa.Function{he, hb} {
					for _, as := range e.SitesIn(h, f) {
						if dominatesInstr(c, as.(ssa.Instruction)) {
							sameArgApplied = true
						}
					}
				}
				r.check(!sameArgApplied, "MPT-lastapplied-after-apply", "setLastApplied in handle comes after the entries were applied", e.ipos(s),
					"the applied cursor that releases reads and snapshots is published only after Update returned", "the last-applied cursor is published before the entries are applied: reads can be released against state that does not contain them yet")
			}
		}
	}
}

// ruleReadRelease (C01, C06): the reader is released (readyToRead set,
// Completed notified) only under 0 < batch index <= applied, and the batch
// index comes from a ReadyToRead record of the raft core.
func ruleReadRelease(e *Engine, r *Report) {
	n := 0
	rbIndex := r.needField("dragonboat", "readBatch", "index")
	readyToRead := r.needField("dragonboat", "RequestState", "readyToRead")
	readySet := r.need("(*dragonboat.ready).set")
	applied := r.need("(*dragonboat.pendingReadIndex).applied")
	if rbIndex != nil && readyToRead != nil && readySet != nil && applied != nil {
		n = 0
		for _, s := range e.CallerSites(readySet) {
			// receiver is &req.readyToRead
			recv := s.Common().Args
			if len(recv) == 0 {
				continue
			}
			f, _, ok := fieldOfAddr(recv[0])
			if !ok || f != readyToRead {
				continue
			}
			n++
			key := "readyToRead.set in " + fname(s.Parent())
			var appliedParam VM = func(v ssa.Value) bool {
				p, ok := stripConv(v).(*ssa.Parameter)
				return ok && p.Name() == "applied"
			}
			r.guard("GD-read-release", key, s.(ssa.Instruction),
				reqCmp("batch index <= applied", "<=", fieldV(rbIndex), appliedParam),
				reqCmp("batch index > 0", ">", fieldV(rbIndex), intConstV(0)))
		}
		r.floor("GD-read-release", n, 1)
		// rb.index is set only from ReadyToRead records
		rtrIndex := e.Field("raftpb", "ReadyToRead", "Index")
		for _, w := range e.FieldWrites(rbIndex) {
			if intConstV(0)(w.Val) {
				continue
			}
			r.check(fieldV(rtrIndex)(w.Val), "WMW-read-index", "readBatch.index written in "+fname(w.Fn), e.ipos(w.Instr),
				"the batch index comes from a ReadyToRead record produced by the raft core", "the batch index is set from something other than a ReadyToRead record")
		}
	}
}

// ruleCompletedNotRejected (C01, C12): in the proposal table's applied step
// the Completed code is selected only on the edge where the entry was not
// rejected by the state machine.
func ruleCompletedNotRejected(e *Engine, r *Report) {
	cc := r.needConst("dragonboat", "requestCompleted")
	if cc == nil {
		return
	}
	// in proposalShard.applied: Completed only when not rejected
	if ap := e.Func("(*dragonboat.proposalShard).applied"); ap != nil {
		forEachInstr(ap, func(in ssa.Instruction) {
			ph, ok := in.(*ssa.Phi)
			if !ok {
				return
			}
			for i, ed := range ph.Edges {
				if constV(cc)(ed) && ed.Type().String() == cc.Type().String() {
					fs := expandFacts(edgeFacts(ph.Block().Preds[i], ph.Block()))
					okr := hasBoolFact(fs, func(v ssa.Value) bool { p, ok := v.(*ssa.Parameter); return ok && p.Name() == "rejected" }, false)
					r.check(okr, "WMC-completed", "Completed in proposalShard.applied only when not rejected", e.ipos(in),
						"a rejected proposal is reported Rejected", "a rejected proposal can be reported Completed")
				}
			}
		})
	}
}

// ruleCampaignPredicate (C03, C07): "no committed config change is waiting to
// be applied" may be answered (false) only when committed <= applied, where
// applied is the index the state machine reported as applied (raft.applied),
// not the index handed to the apply queue. The test hook field has no
// non-test writer.
func ruleCampaignPredicate(e *Engine, r *Report) {
	hasCC := r.need(raftT + "hasConfigChangeToApply")
	committed := r.needField("internal/raft", "entryLog", "committed")
	applied := r.needField("internal/raft", "raft", "applied")
	if hasCC == nil || committed == nil || applied == nil {
		return
	}
	getApplied := e.Func(raftT + "getApplied")
	var appliedV VM = func(v ssa.Value) bool {
		if fieldV(applied)(v) {
			return true
		}
		if getApplied != nil && e.callV(getApplied)(v) {
			// the getter returns the field
			return e.returnDependsOn(getApplied, isFieldLoad(applied), 0)
		}
		return false
	}
	hook := e.Field("internal/raft", "raft", "hasNotAppliedConfigChange")
	hookWritten := false
	if hook != nil {
		for _, w := range e.FieldWrites(hook) {
			if w.Kind != "init" || !isNilConst(w.Val) {
				hookWritten = true
			}
		}
	}
	exempt := func(v ssa.Value) bool {
		// result of calling the (test-only, never assigned) hook field
		c, ok := stripConv(v).(*ssa.Call)
		if !ok || hook == nil || hookWritten {
			return false
		}
		return fieldV(hook)(c.Call.Value)
	}
	r.returnsOnlyUnder("GD-campaign-pred", fname(hasCC), hasCC, 0, false, exempt,
		reqCmp("committed <= applied (state machine applied index)", "<=", fieldV(committed), appliedV))
}

// ruleConfirmPrefix (C01, C06): see the comment in the body.
func ruleConfirmPrefix(e *Engine, r *Report) {
	confirm := r.need("(*internal/raft.readIndex).confirm")
	if confirm == nil {
		return
	}
	// what is released is the prefix of the queue that ends at the
	// confirmed request: a non-empty result is returned only where the
	// queue element equals the confirmed ctx (requests queued after it
	// have not been confirmed by any heartbeat round that started after
	// they were received)
	ctxOf := func(g *ssa.Function) *ssa.Parameter {
		for _, p := range g.Params {
			if nt, ok := p.Type().(*types.Named); ok && nt.Obj().Name() == "SystemCtx" {
				return p
			}
		}
		return nil
	}
	if ctxOf(confirm) == nil {
		r.undecided("GD-confirm-prefix", fname(confirm), "ctx parameter not found")
		return
	}
	isParamOf := func(g *ssa.Function) VM {
		ctxParam := ctxOf(g)
		return func(v ssa.Value) bool {
			v = stripConv(v)
			if v == ssa.Value(ctxParam) {
				return true
			}
			// a by-value struct parameter may be spilled to a local and re-loaded
			if ld, ok := v.(*ssa.UnOp); ok {
				if al := rootAlloc(ld.X); al != nil {
					for _, sv := range storesInto(al) {
						if sv == ssa.Value(ctxParam) {
							return true
						}
					}
				}
			}
			return false
		}
	}
	// the release step may live in a helper of confirm that takes the same ctx
	region := map[*ssa.Function]bool{}
	for _, g := range e.regionOf(confirm, 1) {
		if ctxOf(g) != nil && g.Signature.Results().Len() == confirm.Signature.Results().Len() {
			region[g] = true
		}
	}
	region[confirm] = true
	for g := range region {
		g := g
		forEachInstr(g, func(in ssa.Instruction) {
			ret, ok := in.(*ssa.Return)
			if !ok || isNilConst(retOperand(ret, 0)) {
				return
			}
			// delegated: the result of a helper of the region called with this function's ctx
			if c, ok := retOperand(ret, 0).(*ssa.Call); ok {
				if h := c.Call.StaticCallee(); h != nil && region[h] && h != g {
					for _, a := range c.Call.Args {
						if isParamOf(g)(a) {
							return
						}
					}
				}
			}
			r.guard("GD-confirm-prefix", "non-empty return of "+fname(g), in,
				reqCmp("the queue element reached == the confirmed ctx", "==", anyV(), isParamOf(g)))
		})
	}
}

// ruleReadBatchCopy (C01, C06, C12): the requests of a read batch are kept in
// the pending table until the batch is confirmed, possibly across many step
// cycles, while the slice handed to pendingReadIndex.add is a window into
// readIndexQueue's double buffer, which the queue overwrites two swaps later.
// Every value stored into readBatch.requests must therefore be a freshly
// allocated slice (make + copy / append to a fresh slice), never a
// parameter or a re-slice of one.
func ruleReadBatchCopy(e *Engine, r *Report) {
	reqsF := r.needField("", "readBatch", "requests")
	if reqsF == nil {
		return
	}
	n := 0
	for _, fn := range e.ScopeFuncs() {
		if !e.IsLive(fn) {
			continue
		}
		forEachInstr(fn, func(in ssa.Instruction) {
			st, ok := in.(*ssa.Store)
			if !ok {
				return
			}
			f, _, ok := fieldOfAddr(st.Addr)
			if !ok || f != reqsF {
				return
			}
			n++
			// appending to the batch's own slice keeps ownership (the slice was fresh when stored)
			own := false
			if c, ok := st.Val.(*ssa.Call); ok {
				if b, ok := c.Call.Value.(*ssa.Builtin); ok && b.Name() == "append" && len(c.Call.Args) > 0 && fieldV(reqsF)(c.Call.Args[0]) {
					own = true
				}
			}
			// ... but a batch is filled exactly once, when it is created: a store into a
			// batch value that was read back from the table extends a round that is
			// already in flight (its index was captured before the new requests arrived)
			if fa, ok := st.Addr.(*ssa.FieldAddr); ok {
				if al := rootAlloc(fa); al != nil {
					fromTable := false
					for _, sv := range storesInto(al) {
						if e.dependsOn(sv, func(v ssa.Value) bool {
							switch x := v.(type) {
							case *ssa.Lookup:
								f, _, ok := loadedField(x.X)
								return ok && f.Name() == "batches"
							case *ssa.Range:
								f, _, ok := loadedField(x.X)
								return ok && f.Name() == "batches"
							}
							return false
						}, 0) {
							fromTable = true
						}
					}
					r.check(!fromTable, "WMW-readbatch-once", "readBatch.requests stored in "+fname(fn)+" #"+itoa(n)+" into a newly created batch", e.ipos(in),
						"requests join a batch only when it is created under a fresh ctx", "requests are added to a batch that is already registered (and possibly already sent to the leader): they would be released with a read index captured before they were issued")
				}
			}
			r.check(own || isFreshSliceValue(st.Val, 0), "OWN-readbatch-copy", "readBatch.requests stored in "+fname(fn)+" #"+itoa(n), e.ipos(in),
				"the batch owns a fresh copy of the request slice",
				"readBatch.requests is assigned "+e.describeValue(st.Val)+", which is not a freshly allocated slice: the batch aliases the read-index queue's reused buffer and later reads overwrite its slots")
		})
	}
	r.floor("OWN-readbatch-copy", n, 1)
}

// isFreshSliceValue: v is a slice allocated in this function (make, a slice
// of a fresh array, nil, append onto a fresh slice / nil), i.e. it cannot
// alias memory owned by a caller.
func isFreshSliceValue(v ssa.Value, d int) bool {
	if d > 6 || v == nil {
		return false
	}
	switch x := v.(type) {
	case *ssa.MakeSlice:
		return true
	case *ssa.Const:
		return x.IsNil()
	case *ssa.Slice:
		if al, ok := x.X.(*ssa.Alloc); ok {
			_ = al
			return true // slice of a fresh array (make with constant size / composite literal)
		}
		return isFreshSliceValue(x.X, d+1)
	case *ssa.Call:
		if b, ok := x.Call.Value.(*ssa.Builtin); ok && b.Name() == "append" && len(x.Call.Args) > 0 {
			return isFreshSliceValue(x.Call.Args[0], d+1)
		}
		return false
	case *ssa.Phi:
		for _, ed := range x.Edges {
			if ed == v {
				continue
			}
			if !isFreshSliceValue(ed, d+1) {
				return false
			}
		}
		return true
	case *ssa.ChangeType:
		return isFreshSliceValue(x.X, d+1)
	}
	return false
}

// ruleRestoreReplaces: fn restores state from a snapshot: before anything is
// inserted into the table held in field fld (and before fn returns
// normally) the table is re-created, i.e. a fresh value is stored into fld
// on every path. Merging the snapshot into the live table keeps entries
// that the snapshot no longer has.
func ruleRestoreReplaces(e *Engine, r *Report, rule string, fn *ssa.Function, fld *types.Var, isInsert func(ssa.Instruction) bool) {
	if fn == nil || fld == nil {
		return
	}
	isFreshStore := func(in ssa.Instruction) bool {
		st, ok := in.(*ssa.Store)
		if !ok {
			return false
		}
		f, _, ok := fieldOfAddr(st.Addr)
		if !ok || f != fld {
			return false
		}
		// the stored value must not derive from the old table
		// (a load of the same field of the receiver; a field of another,
		// freshly built object is fine)
		return !e.dependsOn(st.Val, func(v ssa.Value) bool {
			ff, base, ok := loadedField(v)
			if !ok || ff != fld || len(fn.Params) == 0 {
				return false
			}
			if fa, isFA := base.(*ssa.FieldAddr); isFA {
				base = fa.X
			}
			return stripConv(base) == ssa.Value(fn.Params[0])
		}, 0)
	}
	target := func(in ssa.Instruction) bool {
		if isInsert != nil && isInsert(in) {
			return true
		}
		return e.isSuccessReturn(in) || (errResultIndex(fn) < 0 && isReturn(in))
	}
	res := e.findPath(fn, nil, target, isFreshStore, nil)
	var w []string
	for _, x := range res.Witness {
		w = append(w, e.ipos(x))
	}
	r.check(!res.Found, rule, fname(fn)+" re-creates "+fld.Name()+" before inserting/returning", e.pos(fn.Pos()),
		"the restored table replaces the live one on every path",
		"a path through "+fname(fn)+" inserts the snapshot's content into (or returns with) the previous "+fld.Name()+" table: entries the snapshot no longer contains survive the restore", w...)
}

// ruleMatchAck (C02, C17): the leader's record of what a follower holds
// (remote.match) advances only on that follower's own acknowledgement (the
// LogIndex of a ReplicateResp) or, for the leader itself, to its own last
// index. Progress reports that are not the follower's word (snapshot status,
// unreachable, heartbeat responses) must not move match: heartbeats carry
// commit = min(match, committed) and the follower commits to it unchecked.
func ruleMatchAck(e *Engine, r *Report, tbl *HandlerTable) {
	match := r.needField("internal/raft", "remote", "match")
	tryUpdate := r.need("(*internal/raft.remote).tryUpdate")
	logIndex := r.needField("raftpb", "Message", "LogIndex")
	lastIndex := r.need("(*internal/raft.entryLog).lastIndex")
	replicaID := r.needField("internal/raft", "raft", "replicaID")
	if match == nil || tryUpdate == nil || logIndex == nil || lastIndex == nil || replicaID == nil {
		return
	}
	remoteT := e.Named("internal/raft", "remote")
	n := 0
	// direct stores: inside methods of remote, or the leader's own slot
	// a fresh remote starts at match 0 - nothing is acknowledged yet - except the replica's own
	// slot, which starts at its own last index; a constructor that takes the initial match as a
	// parameter is checked at its call sites
	zero := func(v ssa.Value) bool {
		c, ok := stripConv(v).(*ssa.Const)
		return ok && (c.Value == nil || c.Value.ExactString() == "0")
	}
	ownSlot := func(at ssa.Instruction) bool {
		ok, _ := e.guardedOnAllPaths(at, reqCmp("", "==", anyV(), fieldV(replicaID)))
		return ok
	}
	var initOK func(v ssa.Value, at ssa.Instruction, d int) bool
	initOK = func(v ssa.Value, at ssa.Instruction, d int) bool {
		if zero(v) {
			return true
		}
		if d > 2 {
			return false
		}
		if ph, ok := stripConv(v).(*ssa.Phi); ok {
			for i, ed := range ph.Edges {
				if zero(ed) {
					continue
				}
				pred := ph.Block().Preds[i]
				if len(pred.Instrs) == 0 || !ownSlot(pred.Instrs[len(pred.Instrs)-1]) {
					return false
				}
				if !e.dependsOn(ed, e.callV(lastIndex), 0) {
					return false
				}
			}
			return true
		}
		if pr, ok := stripConv(v).(*ssa.Parameter); ok {
			fn := pr.Parent()
			idx := -1
			for i, q := range fn.Params {
				if q == pr {
					idx = i
				}
			}
			sites := e.CallerSites(fn)
			if idx < 0 || len(sites) == 0 {
				return false
			}
			for _, cs := range sites {
				if !e.IsLive(outermostFn(cs.Parent())) {
					continue
				}
				args := cs.Common().Args
				if idx >= len(args) || !initOK(args[idx], cs.(ssa.Instruction), d+1) {
					return false
				}
			}
			return true
		}
		return ownSlot(at) && e.dependsOn(v, e.callV(lastIndex), 0)
	}
	for _, w := range e.FieldWrites(match) {
		if w.Kind == "init" {
			n++
			r.check(initOK(w.Val, w.Instr, 0), "WMC-match-ack", "a new remote built in "+fname(w.Fn)+" starts with match 0 (own slot: own last index)", e.ipos(w.Instr),
				"initial match is 0 at every construction / call site, or the replica's own slot", "a progress record is created with a non-zero match for another replica (e.g. from its optimistic next cursor): the leader counts entries that replica never acknowledged towards the commit quorum")
			continue
		}
		n++
		key := "remote.match written in " + fname(w.Fn)
		if recv := w.Fn.Signature.Recv(); recv != nil {
			t := recv.Type()
			if p, ok := t.(*types.Pointer); ok {
				t = p.Elem()
			}
			if remoteT != nil && types.Identical(t, remoteT) {
				r.ok("WMC-match-ack", key+" (method of remote)", e.ipos(w.Instr), "progress bookkeeping inside remote; its callers are classified")
				continue
			}
		}
		own := e.callV(lastIndex)(w.Val)
		g, _ := e.guardedOnAllPaths(w.Instr, reqCmp("", "==", anyV(), fieldV(replicaID)))
		r.check(own && g, "WMC-match-ack", key+" (own slot := lastIndex)", e.ipos(w.Instr),
			"the leader records its own last index for itself", "remote.match is written outside remote's methods with something other than the leader's own last index for its own id")
	}
	for _, s := range e.CallerSites(tryUpdate) {
		n++
		fn := s.Parent()
		key := "tryUpdate called in " + fname(fn)
		args := s.Common().Args
		arg := args[len(args)-1]
		switch {
		case fieldV(logIndex)(arg):
			okc := true
			cells := e.CellsReaching(tbl, fn)
			for _, c := range cells {
				if c.Type != "ReplicateResp" {
					okc = false
				}
			}
			r.check(okc && len(cells) > 0, "WMC-match-ack", key+" (follower's acknowledged index)", e.ipos(s),
				"match advances on the follower's ReplicateResp", "match is advanced from a message's LogIndex outside the ReplicateResp handler")
		case e.callV(lastIndex)(arg):
			// receiver: r.remotes[r.replicaID]
			recv := args[0]
			okr := false
			if ld, ok := stripConv(recv).(*ssa.Lookup); ok && fieldV(replicaID)(ld.Index) {
				okr = true
			}
			if ex, ok := stripConv(recv).(*ssa.Extract); ok {
				if ld, ok := ex.Tuple.(*ssa.Lookup); ok && fieldV(replicaID)(ld.Index) {
					okr = true
				}
			}
			r.check(okr, "WMC-match-ack", key+" (own slot := lastIndex)", e.ipos(s),
				"the leader advances its own progress to its own last index", "match of another replica is advanced to the leader's last index without an acknowledgement")
		default:
			r.bad("WMC-match-ack", key, e.ipos(s), "remote.match is advanced to "+e.describeValue(arg)+", which is neither the follower's acknowledged index (ReplicateResp.LogIndex) nor the leader's own last index: the leader would count/commit entries the follower never confirmed")
		}
	}
	r.floor("WMC-match-ack", n, 4)
}

// ruleTanIndexState (C04, C09): see the call sites.
func ruleTanIndexState(e *Engine, r *Report) {
	ui := r.need("(*internal/tan.db).updateIndex")
	stateF := r.needField("internal/tan", "nodeIndex", "state")
	isEmptyState := e.PkgFunc("raftpb", "IsEmptyState")
	if ui == nil || stateF == nil || isEmptyState == nil {
		if isEmptyState == nil {
			r.undecided("ANCHOR", "raftpb.IsEmptyState", "anchored function no longer resolves")
		}
		return
	}
	isComp := e.Func("internal/tan.isCompactionUpdate")
	// from entry, a path to return that stores no state pointer, without
	// crossing an edge that establishes "state is empty" or "compaction update"
	exempt := reqAny("the update carries no state (or is a compaction marker)",
		reqBool("", e.callV(isEmptyState), true),
		reqBool("", func(v ssa.Value) bool { return isComp != nil && e.callV(isComp)(v) }, true))
	res := e.pathUnless(ui, nil, isReturn, isStoreToField(stateF), exempt)
	var w []string
	for _, x := range res.Witness {
		w = append(w, e.ipos(x))
	}
	r.check(!res.Found, "MPT-tan-index-state", "updateIndex points nodeIndex.state at every written state record", e.pos(ui.Pos()),
		"the latest hard-state record is always the one the index refers to",
		"a state record can be written without the index's state pointer being moved to it: after a restart an older term/vote is read back", w...)
	// and the stored entry is the one being written (depends on pos/logNum parameters)
	n := 0
	forEachInstr(ui, func(in ssa.Instruction) {
		if !isStoreToField(stateF)(in) {
			return
		}
		n++
		st := in.(*ssa.Store)
		dep := e.dependsOn(st.Val, func(v ssa.Value) bool {
			p, ok := v.(*ssa.Parameter)
			return ok && p.Parent() == ui && (p.Name() == "pos" || p.Name() == "logNum")
		}, 0)
		r.check(dep, "MPT-tan-index-state", "nodeIndex.state store #"+itoa(n)+" records the written position", e.ipos(in),
			"the pointer is the position just written", "the state pointer no longer derives from the position/file just written")
	})
	r.floor("MPT-tan-index-state", n, 1)
}

// ruleTanFileInUse (C09, C10): a Tan log file may be deleted for a node
// only if none of the node's three record kinds (entries, snapshot, state)
// lives in it: nodeIndex.fileInUse answers false only after it compared the
// file number with the snapshot's and the state's file.
func ruleTanFileInUse(e *Engine, r *Report) {
	fiu := r.need("(*internal/tan.nodeIndex).fileInUse")
	snapF := r.needField("internal/tan", "nodeIndex", "snapshot")
	stateF := r.needField("internal/tan", "nodeIndex", "state")
	fnF := r.needField("internal/tan", "indexEntry", "fileNum")
	if fiu == nil || snapF == nil || stateF == nil || fnF == nil {
		return
	}
	via := func(outer *types.Var) VM {
		return func(v ssa.Value) bool {
			f, base, ok := loadedField(stripConv(v))
			if !ok || f != fnF {
				return false
			}
			// base is the address/value of the outer field
			if fa, ok := base.(*ssa.FieldAddr); ok {
				st := derefStruct(fa.X.Type())
				return st != nil && st.Field(fa.Field) == outer
			}
			f2, _, ok2 := loadedField(base)
			return ok2 && f2 == outer
		}
	}
	var fnParam VM = func(v ssa.Value) bool { p, ok := stripConv(v).(*ssa.Parameter); return ok && p.Parent() == fiu }
	r.returnsOnlyUnder("GD-tan-file-in-use", fname(fiu), fiu, 0, false, nil,
		reqCmp("snapshot.fileNum != fn", "!=", via(snapF), fnParam),
		reqCmp("state.fileNum != fn", "!=", via(stateF), fnParam))
}

// ruleLastBatchCache (C09): the batched entry store merges the first batch
// of a save with the cached copy of the replica's last batch. The cache must
// therefore be replaced whenever the batch being written is the last batch
// of the save - with no further condition - or a later save merges with a
// stale batch and drops entries.
func ruleLastBatchCache(e *Engine, r *Report) {
	rb := r.need("(*internal/logdb.batchedEntries).recordBatch")
	setLast := r.need("(*internal/logdb.cache).setLastBatch")
	if rb == nil || setLast == nil {
		return
	}
	putM := e.Method("internal/logdb/kv", "IWriteBatch", "Put")
	var lastParam *ssa.Parameter
	for _, p := range rb.Params {
		if p.Name() == "lastBatchID" {
			lastParam = p
		}
	}
	if putM == nil || lastParam == nil {
		r.undecided("ANCHOR", "recordBatch(lastBatchID)/IWriteBatch.Put", "anchor not found")
		return
	}
	isPut := func(in ssa.Instruction) bool {
		c, ok := in.(ssa.CallInstruction)
		return ok && e.IsMethodCall(c, putM)
	}
	isSet := e.throughHelpers(func(c ssa.CallInstruction) bool { return e.CallsTo(c, setLast) })
	exempt := reqCmp("this is not the last batch of the save", "!=", func(v ssa.Value) bool { return stripConv(v) == ssa.Value(lastParam) }, anyV())
	res := e.pathUnless(rb, nil, isPut, isSet, exempt)
	var w []string
	for _, x := range res.Witness {
		w = append(w, e.ipos(x))
	}
	r.check(!res.Found, "PAIR-lastbatch", "recordBatch refreshes the last-batch cache whenever it writes the last batch", e.pos(rb.Pos()),
		"cache and store agree on the replica's last batch",
		"the last batch of a save can be written without replacing the cached last batch: the next save merges with a stale batch", w...)
}

// ruleSingleNodeQuorum (C03, C06, C18): the shortcut predicate that lets a
// replica elect itself / confirm a ReadIndex without asking anybody is true
// only when the quorum size (voters and witnesses) is 1.
func ruleSingleNodeQuorum(e *Engine, r *Report) {
	sq := r.need(raftT + "isSingleNodeQuorum")
	q := r.need(raftT + "quorum")
	if sq == nil || q == nil {
		return
	}
	r.returnsOnlyUnder("GD-single-quorum", fname(sq), sq, 0, true, nil,
		reqCmp("quorum() == 1", "==", e.callV(q), intConstV(1)))
}

// ruleChunkFileSync (C15, C16): every received snapshot file is fsynced
// when its last chunk has been written: in Chunk.save, from the edge on
// which the chunk is the last chunk of its file (or of the snapshot), every
// path to a successful return passes the file's sync.
func ruleChunkFileSync(e *Engine, r *Report) {
	save := r.need("(*internal/transport.Chunk).save")
	syncF := r.need("(*internal/transport.chunkFile).sync")
	if save == nil || syncF == nil {
		return
	}
	isSync := e.throughHelpers(func(c ssa.CallInstruction) bool { return e.CallsTo(c, syncF) })
	for _, name := range []string{"IsLastFileChunk", "IsLastChunk"} {
		m := e.Func("(*raftpb.Chunk)." + name)
		if m == nil {
			m = e.Func("(raftpb.Chunk)." + name)
		}
		if m == nil {
			r.undecided("ANCHOR", "raftpb.Chunk."+name, "anchored method no longer resolves")
			continue
		}
		n := 0
		for _, b := range save.Blocks {
			if len(b.Instrs) == 0 {
				continue
			}
			ifi, ok := b.Instrs[len(b.Instrs)-1].(*ssa.If)
			if !ok || !e.callV(m)(ifi.Cond) {
				continue
			}
			n++
			ts := b.Succs[0]
			// search from the first instruction of the true successor (findPath starts after `from`)
			res := e.findPath(save, ts.Instrs[0], func(in ssa.Instruction) bool { return e.isSuccessReturn(in) }, isSync, nil)
			if isSync(ts.Instrs[0]) {
				res.Found = false
			} else if e.isSuccessReturn(ts.Instrs[0]) {
				res.Found = true
			}
			r.check(!res.Found, "MPT-chunk-file-sync", "Chunk.save syncs the file when "+name+"() #"+itoa(n), e.ipos(ifi),
				"a completely received file is made durable before the chunk is acknowledged",
				"Chunk.save can return success for the last chunk of a file without fsyncing the file: after a power loss the recorded snapshot's file is empty or partial")
		}
		r.check(n > 0, "MPT-chunk-file-sync", "Chunk.save tests "+name+"() to decide the fsync", e.pos(save.Pos()),
			"the sync decision covers this case", "Chunk.save no longer tests "+name+"(): the corresponding file is acknowledged without being fsynced")
	}
}

// ruleSnapshotStatusReported (C17, C08): once a snapshot stream job was
// started, the raft node is told how it ended on every path (success or
// failure): the leader keeps the remote paused in the snapshot state until
// the status report arrives, heartbeat responses do not un-pause it.
func ruleSnapshotStatusReported(e *Engine, r *Report) {
	ps := r.need("(*internal/transport.Transport).processSnapshot")
	notify := r.need("(*internal/transport.Transport).sendSnapshotNotification")
	if ps == nil || notify == nil {
		return
	}
	isNotify := e.throughHelpers(func(c ssa.CallInstruction) bool { return e.CallsTo(c, notify) })
	n := 0
	fns := append([]*ssa.Function{ps}, ps.AnonFuncs...)
	hasNotify := false
	for _, fn := range fns {
		if len(e.SitesIn(fn, notify)) == 0 {
			continue
		}
		hasNotify = true
		n++
		res := e.findPath(fn, nil, isReturn, isNotify, nil)
		var w []string
		for _, x := range res.Witness {
			w = append(w, e.ipos(x))
		}
		r.check(!res.Found, "MPT-snapshot-status", "every exit of "+fname(fn)+" reports the snapshot status", e.pos(fn.Pos()),
			"the outcome of the stream job always reaches the raft node",
			"a path through the snapshot stream job ends without sendSnapshotNotification: the leader's remote stays paused in the snapshot state", w...)
		// a failure is reported as a failure: on the error edge of each fallible step the rejected flag is not the constant false
		for _, s := range e.SitesIn(fn, notify) {
			args := s.Common().Args
			rej := args[len(args)-1]
			if cb, isC := isConstBool(rej); isC && !cb {
				// constant "not rejected": must not be reachable with a pending error
				g := e.reachableFromErrEdgeWithin(fn, s)
				r.check(!g, "MPT-snapshot-status", "success report in "+fname(fn)+" is not reachable from an error edge", e.ipos(s),
					"success is reported only when no step failed", "sendSnapshotNotification(.., false) is reachable after a failed step")
			}
		}
	}
	r.check(hasNotify, "MPT-snapshot-status", "processSnapshot reports the status", e.pos(ps.Pos()), "status notifications exist", "processSnapshot no longer reports the snapshot status")
	r.floor("MPT-snapshot-status", n, 1)
}

// reachableFromErrEdgeWithin: is call site s reachable from the non-nil edge
// of an `err != nil` test in fn?
func (e *Engine) reachableFromErrEdgeWithin(fn *ssa.Function, s ssa.CallInstruction) bool {
	for _, b := range fn.Blocks {
		if len(b.Instrs) == 0 {
			continue
		}
		ifi, ok := b.Instrs[len(b.Instrs)-1].(*ssa.If)
		if !ok {
			continue
		}
		bo, ok := ifi.Cond.(*ssa.BinOp)
		if !ok || !(isNilConst(bo.X) || isNilConst(bo.Y)) {
			continue
		}
		other := bo.X
		if isNilConst(bo.X) {
			other = bo.Y
		}
		if !isErrorType(other.Type()) {
			continue
		}
		errSucc := b.Succs[0]
		if bo.Op.String() == "==" {
			errSucc = b.Succs[1]
		}
		if len(errSucc.Instrs) == 0 {
			continue
		}
		if errSucc.Instrs[0] == s.(ssa.Instruction) {
			return true
		}
		res := e.findPath(fn, errSucc.Instrs[0], func(in ssa.Instruction) bool { return in == s.(ssa.Instruction) }, nil, nil)
		if res.Found {
			return true
		}
	}
	return false
}

// ruleShrunkPredicate (C08, C20): whether a recorded snapshot file is a
// shrunk (payload-free) one is answered "no" without looking at the file
// only for state machines that are not on-disk and for witness/dummy
// snapshots; every other "no" comes from the file check. A shrunk file
// taken for a full one is fed to RecoverFromSnapshot and wipes the state.
func ruleShrunkPredicate(e *Engine, r *Report) {
	fn := r.need("(*internal/rsm.StateMachine).isShrunkSnapshot")
	onDisk := r.need("(*internal/rsm.StateMachine).OnDiskStateMachine")
	witness := r.needField("raftpb", "Snapshot", "Witness")
	dummy := r.needField("raftpb", "Snapshot", "Dummy")
	shrunkM := e.Method("internal/rsm", "ISnapshotter", "Shrunk")
	if fn == nil || onDisk == nil || witness == nil || dummy == nil || shrunkM == nil {
		if shrunkM == nil {
			r.undecided("ANCHOR", "rsm.ISnapshotter.Shrunk", "anchored method no longer resolves")
		}
		return
	}
	fromFileCheck := func(v ssa.Value) bool {
		return e.dependsOn(v, func(x ssa.Value) bool { return e.methodCallV(shrunkM)(x) }, 0)
	}
	n := 0
	forEachInstr(fn, func(in ssa.Instruction) {
		ret, ok := in.(*ssa.Return)
		if !ok || !e.isSuccessReturn(in) {
			return
		}
		v := retOperand(ret, 0)
		if cb, isC := isConstBool(v); isC && cb {
			return
		}
		n++
		if fromFileCheck(v) {
			r.ok("GD-shrunk-pred", "isShrunkSnapshot return #"+itoa(n)+" is the file check's answer", e.ipos(in), "answer comes from ISnapshotter.Shrunk")
			return
		}
		r.guard("GD-shrunk-pred", "isShrunkSnapshot answers \"not shrunk\" without the file check #"+itoa(n), in,
			reqAny("not an on-disk state machine, or a witness/dummy snapshot",
				reqBool("", e.callV(onDisk), false),
				reqBool("", fieldV(witness), true),
				reqBool("", fieldV(dummy), true)))
	})
	r.floor("GD-shrunk-pred", n, 2)
}

// ruleSnapshotWriterClose (C14, C16): the close sequence of the snapshot file
// writer (flush, header, fsync, close, directory sync) and the accessors
// that are only valid after it.
func ruleSnapshotWriterClose(e *Engine, r *Report) {
	// ---- writer Close order
	if wc := r.need("(*internal/rsm.SnapshotWriter).Close"); wc != nil {
		steps := []func(s ssa.CallInstruction) bool{
			func(s ssa.CallInstruction) bool { return e.CallsTo(s, e.Func("(*internal/rsm.SnapshotWriter).flush")) },
			func(s ssa.CallInstruction) bool {
				return e.CallsTo(s, e.Func("(*internal/rsm.SnapshotWriter).saveHeader"))
			},
			func(s ssa.CallInstruction) bool { return s.Common().IsInvoke() && s.Common().Method.Name() == "Sync" },
			func(s ssa.CallInstruction) bool { return s.Common().IsInvoke() && s.Common().Method.Name() == "Close" },
			func(s ssa.CallInstruction) bool { return e.CallsTo(s, e.Func("internal/fileutil.SyncDir")) },
		}
		names := []string{"flush", "saveHeader", "file.Sync", "file.Close", "SyncDir"}
		var at []ssa.Instruction
		for i, st := range steps {
			var found ssa.Instruction
			forEachCall(wc, func(s ssa.CallInstruction) {
				if found == nil && st(s) {
					found = s.(ssa.Instruction)
				}
			})
			r.check(found != nil, "MPT-writer-close", "SnapshotWriter.Close performs "+names[i], e.pos(wc.Pos()), "present", "SnapshotWriter.Close no longer performs "+names[i])
			at = append(at, found)
		}
		for i := 1; i < len(at); i++ {
			if at[i] == nil || at[i-1] == nil {
				continue
			}
			prev := at[i-1]
			o, _ := e.alwaysPrecededBy(at[i], func(in ssa.Instruction) bool { return in == prev }, 0)
			r.check(o, "MPT-writer-close", names[i]+" after "+names[i-1]+" in SnapshotWriter.Close", e.ipos(at[i]),
				"payload flushed, header written, file synced and closed, directory synced - in this order", "the close sequence of the snapshot file writer is out of order")
		}
		// every step on every path
		for i, a := range at {
			if a == nil {
				continue
			}
			x := a
			res := e.findPath(wc, nil, isReturn, func(in ssa.Instruction) bool { return in == x }, nil)
			r.check(!res.Found, "MPT-writer-close", names[i]+" on every path of SnapshotWriter.Close", e.ipos(a), "unconditional", names[i]+" can be skipped on some path of SnapshotWriter.Close")
		}
		closed := e.Field("internal/rsm", "SnapshotWriter", "closed")
		for _, gn := range []string{"GetPayloadSize", "GetPayloadChecksum"} {
			g := r.need("(*internal/rsm.SnapshotWriter)." + gn)
			if g == nil {
				continue
			}
			okg := true
			forEachInstr(g, func(in ssa.Instruction) {
				if _, ok := in.(*ssa.Return); ok {
					if gg, _ := e.guardedOnAllPaths(in, reqBool("", fieldV(closed), true)); !gg {
						okg = false
					}
				}
			})
			r.check(okg, "MPT-writer-close", gn+" only after Close", e.pos(g.Pos()), "size and checksum are final", gn+" can be read before the writer was closed")
		}
	}
}

// ruleRestoreRebase (C02, C19): see the comment in the body.
func ruleRestoreRebase(e *Engine, r *Report) {
	imT := e.Named("internal/raft", "inMemory")
	if imT == nil {
		r.undecided("ANCHOR", "internal/raft.inMemory", "type not found")
		return
	}
	st := imT.Underlying().(*types.Struct)
	// ---- restore rebases the in-memory log on the snapshot alone: no cursor
	// keeps (a function of) its previous value
	if rs := r.need("(*internal/raft.inMemory).restore"); rs != nil {
		isOldState := func(v ssa.Value) bool {
			f, _, ok := loadedField(v)
			if !ok {
				return false
			}
			for i := 0; i < st.NumFields(); i++ {
				if st.Field(i) == f {
					return true
				}
			}
			return false
		}
		cnt := 0
		for _, fn := range []string{"markerIndex", "savedTo", "appliedToIndex", "appliedToTerm"} {
			fld := e.Field("internal/raft", "inMemory", fn)
			if fld == nil {
				continue
			}
			for _, w := range e.FieldWrites(fld) {
				if w.Fn != rs || w.Val == nil {
					continue
				}
				cnt++
				fromSS := e.dependsOn(w.Val, func(v ssa.Value) bool { p, ok := v.(*ssa.Parameter); return ok && p.Parent() == rs && p.Name() != "im" }, 0)
				r.check(fromSS && !e.dependsOn(w.Val, isOldState, 0), "DEP-restore-rebase", "inMemory."+fn+" in restore is a function of the snapshot only", e.ipos(w.Instr),
					"the cursor is rebased on the snapshot", "restore keeps (a function of) the previous "+fn+": a stale cursor survives the rebase, e.g. entries re-appended after the snapshot are considered saved/applied")
			}
		}
		r.floor("DEP-restore-rebase", cnt, 4)
	}
}

// ruleLogReaderRebase (C09, C19): LogReader.ApplySnapshot replaces the
// reader's window by the snapshot: whatever it (or a helper it calls)
// stores into markerIndex/markerTerm/length is a function of the snapshot
// only, never of the previous window. A window that keeps its old length
// keeps answering for indexes whose entries were discarded.
func ruleLogReaderRebase(e *Engine, r *Report) {
	as := r.need("(*internal/logdb.LogReader).ApplySnapshot")
	lrT := e.Named("internal/logdb", "LogReader")
	if as == nil || lrT == nil {
		return
	}
	st := lrT.Underlying().(*types.Struct)
	window := map[*types.Var]bool{}
	for _, n := range []string{"markerIndex", "markerTerm", "length"} {
		f := r.needField("internal/logdb", "LogReader", n)
		if f == nil {
			return
		}
		window[f] = true
	}
	_ = st
	isOld := func(v ssa.Value) bool {
		f, _, ok := loadedField(v)
		return ok && window[f]
	}
	n := 0
	seen := map[*ssa.Function]bool{}
	var visit func(fn *ssa.Function, depth int)
	visit = func(fn *ssa.Function, depth int) {
		if seen[fn] || depth > 2 {
			return
		}
		seen[fn] = true
		forEachInstr(fn, func(in ssa.Instruction) {
			if s, ok := in.(*ssa.Store); ok {
				if f, _, ok := fieldOfAddr(s.Addr); ok && window[f] {
					n++
					r.check(!e.dependsOn(s.Val, isOld, 0), "DEP-logreader-rebase", "LogReader."+f.Name()+" stored in "+fname(fn)+" on the ApplySnapshot path is a function of the snapshot only", e.ipos(in),
						"the window is rebased on the snapshot",
						"on the ApplySnapshot path LogReader."+f.Name()+" is computed from the previous window: after a snapshot inside the persisted range the reader keeps answering for discarded entries")
				}
			}
			if c, ok := in.(*ssa.Call); ok {
				for _, g := range e.Callees(c) {
					if recv := g.Signature.Recv(); recv != nil && fnPkg(g) == fnPkg(as) {
						t := recv.Type()
						if p, isP := t.(*types.Pointer); isP {
							t = p.Elem()
						}
						if types.Identical(t, lrT) {
							visit(g, depth+1)
						}
					}
				}
			}
		})
	}
	visit(as, 0)
	r.floor("DEP-logreader-rebase", n, 3)
}

// ruleTermInMemFirst (C02, C19): the raft core answers term queries from its
// in-memory view first (it holds the entries, the applied entry's term and
// a pending snapshot's term, all newer than the log store); the log store
// is consulted only when the in-memory view has no answer.
func ruleTermInMemFirst(e *Engine, r *Report) {
	tf := r.need("(*internal/raft.entryLog).term")
	getTerm := r.need("(*internal/raft.inMemory).getTerm")
	termM := e.Method("internal/raft", "ILogDB", "Term")
	if tf == nil || getTerm == nil || termM == nil {
		if termM == nil {
			r.undecided("ANCHOR", "internal/raft.ILogDB.Term", "anchored method no longer resolves")
		}
		return
	}
	n := 0
	var okOf VM = func(v ssa.Value) bool {
		ex, ok := v.(*ssa.Extract)
		if !ok || ex.Index != 1 {
			return false
		}
		c, ok := ex.Tuple.(*ssa.Call)
		return ok && e.CallsTo(c, getTerm)
	}
	for _, s := range e.MethodSitesIn(tf, termM) {
		n++
		r.guard("GD-term-inmem-first", "log store Term() consulted in "+fname(tf), s.(ssa.Instruction),
			reqBool("the in-memory view has no term for the index (getTerm !ok)", okOf, false))
	}
	r.floor("GD-term-inmem-first", n, 1)
}

// ruleChunkPayloadFresh (C14, C15): streamed chunk payloads are fresh buffers.
func ruleChunkPayloadFresh(e *Engine, r *Report) {
	// ---- streamed chunk payloads are fresh buffers
	chunkData := e.Field("raftpb", "Chunk", "Data")
	if onb := r.need("(*internal/rsm.ChunkWriter).onNewBlock"); onb != nil && chunkData != nil {
		cnt := 0
		forEachInstr(onb, func(in ssa.Instruction) {
			st, ok := in.(*ssa.Store)
			if !ok {
				return
			}
			f, _, ok := fieldOfAddr(st.Addr)
			if !ok || f != chunkData {
				return
			}
			cnt++
			// trace the append chain to its base
			okBase := true
			seen := map[ssa.Value]bool{}
			var walk func(v ssa.Value)
			walk = func(v ssa.Value) {
				if seen[v] {
					return
				}
				seen[v] = true
				switch x := v.(type) {
				case *ssa.Phi:
					for _, ed := range x.Edges {
						walk(ed)
					}
				case *ssa.Call:
					if b, ok := x.Call.Value.(*ssa.Builtin); ok && b.Name() == "append" {
						walk(x.Call.Args[0])
						return
					}
					// a function result (getHeader): fresh
				case *ssa.MakeSlice:
				case *ssa.Slice:
					walk(x.X)
				case *ssa.Parameter:
					okBase = false
				case *ssa.Const:
				default:
					if _, _, isF := loadedField(v); isF {
						okBase = false
					}
				}
			}
			walk(st.Val)
			r.check(okBase, "OWN-chunk-payload", "chunk payload in "+fname(onb)+" is a fresh buffer", e.ipos(in),
				"each chunk owns its bytes until the sink consumed it", "the chunk payload is appended onto the caller's block buffer: the next block overwrites chunks still queued in an asynchronous sink")
		})
		r.floor("OWN-chunk-payload", cnt, 1)
	}
	// BlockWriter hands out its internal buffer only to onNewBlock synchronously: the callee must copy (above)
}

// ruleRaftPredicates: exact-polarity obligations for the small predicates of
// the raft core that decide elections, log matching and ReadIndex. Each line
// is "the predicate answers <pol> only under <facts>"; the facts are the
// ones the protocol's safety argument uses. Used by C02, C03, C06, C17.
func ruleRaftPredicates(e *Engine, r *Report, which ...string) {
	want := map[string]bool{}
	for _, w := range which {
		want[w] = true
	}
	termF := e.Field("internal/raft", "raft", "term")
	msgTerm := e.Field("raftpb", "Message", "Term")
	msgFrom := e.Field("raftpb", "Message", "From")
	msgHint := e.Field("raftpb", "Message", "Hint")
	if termF == nil || msgTerm == nil || msgFrom == nil || msgHint == nil {
		r.undecided("ANCHOR", "raft.term/Message.Term/From/Hint", "anchored field no longer resolves")
		return
	}
	param := func(fn *ssa.Function, name string) VM {
		return func(v ssa.Value) bool {
			p, ok := stripConv(v).(*ssa.Parameter)
			return ok && p.Parent() == fn && p.Name() == name
		}
	}
	if want["upToDate"] {
		if fn := r.need("(*internal/raft.entryLog).upToDate"); fn != nil {
			termOf := e.Func("(*internal/raft.entryLog).term")
			lastIndex := e.Func("(*internal/raft.entryLog).lastIndex")
			r.returnsOnlyUnder("GD-pred-uptodate", fname(fn), fn, 0, true, nil,
				reqCmp("candidate's last term >= own last term", ">=", param(fn, "term"), e.callV(termOf)),
				reqAny("candidate's last term > own last term, or its last index >= own last index",
					reqCmp("", ">", param(fn, "term"), e.callV(termOf)),
					reqCmp("", ">=", param(fn, "index"), e.callV(lastIndex))))
		}
	}
	if want["matchTerm"] {
		if fn := r.need("(*internal/raft.entryLog).matchTerm"); fn != nil {
			termOf := e.Func("(*internal/raft.entryLog).term")
			r.returnsOnlyUnder("GD-pred-matchterm", fname(fn), fn, 0, true, nil,
				reqCmp("term of the local entry at index == given term", "==", e.callV(termOf), param(fn, "term")))
		}
	}
	if want["hasCommittedEntryAtCurrentTerm"] {
		if fn := r.need(raftT + "hasCommittedEntryAtCurrentTerm"); fn != nil {
			termOf := e.Func("(*internal/raft.entryLog).term")
			r.returnsOnlyUnder("GD-pred-committed-own-term", fname(fn), fn, 0, true, nil,
				reqCmp("term of the entry at the commit index == current term", "==", e.callV(termOf), fieldV(termF)))
			// and the index asked for is the commit index
			committed := e.Field("internal/raft", "entryLog", "committed")
			okA := false
			for _, s := range e.SitesIn(fn, termOf) {
				a := s.Common().Args
				if len(a) > 0 && fieldV(committed)(a[len(a)-1]) {
					okA = true
				}
			}
			r.check(okA, "GD-pred-committed-own-term", fname(fn)+" asks for the term at log.committed", e.pos(fn.Pos()), "the commit index", "the term is no longer looked up at the commit index")
		}
	}
	if want["dropRequestVote"] {
		if fn := r.need(raftT + "dropRequestVoteFromHighTermNode"); fn != nil {
			leaderID := e.Field("internal/raft", "raft", "leaderID")
			eTick := e.Field("internal/raft", "raft", "electionTick")
			eTimeout := e.Field("internal/raft", "raft", "electionTimeout")
			cq := e.Field("internal/raft", "raft", "checkQuorum")
			isRV := e.Func("internal/raft.isRequestVoteMessage")
			r.returnsOnlyUnder("GD-pred-lease-drop", fname(fn), fn, 0, true, nil,
				reqBool("the message is a RequestVote/RequestPreVote", e.callV(isRV), true),
				reqBool("check-quorum is on", fieldV(cq), true),
				reqCmp("m.Term > r.term", ">", fieldV(msgTerm), fieldV(termF)),
				reqCmp("not a leader-transfer vote (m.Hint != m.From)", "!=", fieldV(msgHint), fieldV(msgFrom)),
				reqCmp("a leader is known (leaderID != NoLeader)", "!=", fieldV(leaderID), anyV()),
				reqCmp("within the lease (electionTick < electionTimeout)", "<", fieldV(eTick), fieldV(eTimeout)))
		}
	}
	if want["time"] {
		eTick := e.Field("internal/raft", "raft", "electionTick")
		for _, t := range [][3]string{
			{"timeForElection", "electionTick", "randomizedElectionTimeout"},
			{"timeForHeartbeat", "heartbeatTick", "heartbeatTimeout"},
			{"timeForCheckQuorum", "electionTick", "electionTimeout"},
		} {
			fn := r.need(raftT + t[0])
			a := e.Field("internal/raft", "raft", t[1])
			b := e.Field("internal/raft", "raft", t[2])
			if fn == nil || a == nil || b == nil {
				continue
			}
			// both directions: true only when tick >= timeout, false only when tick < timeout
			r.returnsOnlyUnder("GD-pred-time", fname(fn), fn, 0, true, nil, reqCmp(t[1]+" >= "+t[2], ">=", fieldV(a), fieldV(b)))
			r.returnsOnlyUnder("GD-pred-time", fname(fn), fn, 0, false, nil, reqCmp(t[1]+" < "+t[2], "<", fieldV(a), fieldV(b)))
		}
		_ = eTick
	}
	if want["termNotMatched"] {
		if fn := r.need(raftT + "onMessageTermNotMatched"); fn != nil {
			drop := e.Func(raftT + "dropRequestVoteFromHighTermNode")
			// a message is ignored only when it is a lease-protected vote request or carries a lower term
			r.returnsOnlyUnder("GD-pred-term-mismatch", fname(fn), fn, 0, true, nil,
				reqAny("lease-protected vote request, or m.Term < r.term",
					reqBool("", e.callV(drop), true),
					reqCmp("", "<", fieldV(msgTerm), fieldV(termF))))
			// a term change (become*) only for a strictly higher term
			n := 0
			forEachCall(fn, func(s ssa.CallInstruction) {
				for _, g := range e.Callees(s) {
					if strings.HasPrefix(g.Name(), "become") {
						n++
						r.guard("GD-pred-term-mismatch", g.Name()+" called in "+fname(fn), s.(ssa.Instruction),
							reqCmp("m.Term > r.term", ">", fieldV(msgTerm), fieldV(termF)))
						return
					}
				}
			})
			r.floor("GD-pred-term-mismatch", n, 3)
		}
	}
}

// ruleDurableMkdir (C04, C10): the directories handed to the embedded KV
// store (data dir and, when configured, the separate WAL dir) are created
// through fileutil.MkdirAll, which fsyncs every parent it creates an entry
// in; the store itself creates missing directories without making their
// parent entries durable, so after a power loss the whole WAL directory can
// be gone.
func ruleDurableMkdir(e *Engine, r *Report) {
	open := r.need("internal/logdb/kv/pebble.openPebbleDB")
	mk := r.need("internal/fileutil.MkdirAll")
	if open == nil || mk == nil {
		return
	}
	n := 0
	check := func(at ssa.Instruction, dirVal ssa.Value, what string) {
		n++
		pred := func(in ssa.Instruction) bool {
			c, ok := in.(*ssa.Call)
			if !ok || !e.CallsTo(c, mk) || len(c.Call.Args) == 0 {
				return false
			}
			return sameSizeExpr(stripConv(c.Call.Args[0]), stripConv(dirVal)) || c.Call.Args[0] == dirVal
		}
		ok, _ := e.alwaysPrecededBy(at, pred, 0)
		r.check(ok, "PAIR-durable-mkdir", what+" in "+fname(open)+" was created with fileutil.MkdirAll", e.ipos(at),
			"the directory and its parent entries are durable before the store uses it",
			"the KV store is given a "+what+" that was not created through fileutil.MkdirAll: its directory entry is never fsynced and the log store can vanish after a power loss")
	}
	forEachInstr(open, func(in ssa.Instruction) {
		if st, ok := in.(*ssa.Store); ok {
			if f, _, ok := fieldOfAddr(st.Addr); ok && f.Name() == "WALDir" {
				if c, isC := st.Val.(*ssa.Const); isC && c.Value != nil && c.Value.ExactString() == `""` {
					return
				}
				check(in, st.Val, "WAL directory")
			}
		}
		if c, ok := in.(*ssa.Call); ok {
			if sc := c.Call.StaticCallee(); sc != nil && sc.Name() == "Open" && sc.Pkg != nil && strings.HasSuffix(sc.Pkg.Pkg.Path(), "/pebble") && len(c.Call.Args) > 0 {
				check(in, c.Call.Args[0], "data directory")
			}
		}
	})
	r.floor("PAIR-durable-mkdir", n, 2)
	// MkdirAll really syncs the parents it touches
	syncDir := e.Func("internal/fileutil.SyncDir")
	okS := false
	e.forEachInstrRegion(mk, 2, func(in ssa.Instruction) {
		if c, ok := in.(*ssa.Call); ok && syncDir != nil && e.CallsTo(c, syncDir) {
			okS = true
		}
	})
	r.check(okS, "PAIR-durable-mkdir", "fileutil.MkdirAll syncs the parent directories", e.pos(mk.Pos()), "durable mkdir", "fileutil.MkdirAll no longer fsyncs the parent of a directory it creates")
}

// ruleTanManifestSync (C04, C10): an edit appended to Tan's MANIFEST
// (registration of a new log file, deletions) is fsynced before logAndApply
// reports success, whether or not a new manifest file was started.
func ruleTanManifestSync(e *Engine, r *Report) {
	la := r.need("(*internal/tan.versionSet).logAndApply")
	mf := r.needField("internal/tan", "versionSet", "manifestFile")
	man := r.needField("internal/tan", "versionSet", "manifest")
	if la == nil || mf == nil || man == nil {
		return
	}
	n := 0
	for _, fn := range e.regionOf(la, 1) {
		forEachCall(fn, func(c ssa.CallInstruction) {
			sc := c.Common().StaticCallee()
			if sc == nil || sc.Name() != "flush" || len(c.Common().Args) == 0 || !fieldV(man)(c.Common().Args[0]) {
				return
			}
			n++
			isSync := e.throughHelpers(func(x ssa.CallInstruction) bool {
				cc := x.Common()
				return cc.IsInvoke() && cc.Method.Name() == "Sync" && fieldV(mf)(cc.Value)
			})
			res := e.findPath(fn, c.(ssa.Instruction), func(in ssa.Instruction) bool { return e.isSuccessReturn(in) }, isSync, nil)
			r.check(!res.Found, "PAIR-tan-manifest-sync", "manifest edit flushed in "+fname(fn)+" is fsynced before success", e.ipos(c),
				"a recorded version edit is durable when logAndApply returns",
				"logAndApply can return success with the manifest edit only flushed, not fsynced: after a power loss the log file it registered is unknown and deleted on open")
		})
	}
	r.floor("PAIR-tan-manifest-sync", n, 1)
}

// ruleRegisterOnce (C05): registering a client id that is already in the
// session table must not replace the stored session (history and watermark):
// on the register path the insertion happens only on the not-found edge of
// a lookup of that id.
func ruleRegisterOnce(e *Engine, r *Report) {
	reg := r.need("(*internal/rsm.SessionManager).RegisterClientID")
	addL := r.need("(*internal/rsm.lrusession).addSessionLocked")
	if reg == nil || addL == nil {
		return
	}
	var found VM = func(v ssa.Value) bool {
		ex, ok := v.(*ssa.Extract)
		if !ok || ex.Index != 1 {
			return false
		}
		c, ok := ex.Tuple.(*ssa.Call)
		if !ok {
			return false
		}
		sc := c.Call.StaticCallee()
		return sc != nil && (sc.Name() == "getSession" || sc.Name() == "getSessionLocked") && fnPkg(sc) == fnPkg(reg)
	}
	n := 0
	for _, fn := range e.regionOf(reg, 2) {
		for _, s := range e.SitesIn(fn, addL) {
			n++
			r.guard("GD-register-once", "session inserted on the register path in "+fname(fn), s.(ssa.Instruction),
				reqBool("the client id is not registered yet (lookup !ok)", found, false))
		}
	}
	r.floor("GD-register-once", n, 1)
}

// ruleTanIndexAllNodes (C09): when a Tan log file is retired its index file
// lists every node known to the db - state and snapshot pointers move
// without touching entry ranges, so a node without entries in that file
// still has pointers to persist. In nodeStates.save nothing but an I/O
// error lets the loop over the nodes skip one.
func ruleTanIndexAllNodes(e *Engine, r *Report) {
	sv := r.need("(*internal/tan.nodeStates).save")
	idx := r.needField("internal/tan", "nodeStates", "indexes")
	if sv == nil || idx == nil {
		return
	}
	// the count that is written and the nodes that are written both come from s.indexes itself
	nRanges := 0
	okAll := true
	var bad ssa.Instruction
	forEachInstr(sv, func(in ssa.Instruction) {
		rg, ok := in.(*ssa.Range)
		if !ok {
			return
		}
		if !fieldV(idx)(rg.X) {
			return
		}
		nRanges++
	})
	// every slice/map the function iterates to write nodes must be s.indexes; a filtered copy loses nodes
	forEachInstr(sv, func(in ssa.Instruction) {
		c, ok := in.(*ssa.Call)
		if !ok {
			return
		}
		if b, isB := c.Call.Value.(*ssa.Builtin); isB && b.Name() == "len" && len(c.Call.Args) == 1 {
			// len(x) written as the node count: x must be s.indexes
			if refs := c.Referrers(); refs != nil {
				for _, ref := range *refs {
					if cv, isCv := ref.(*ssa.Convert); isCv {
						if rr := cv.Referrers(); rr != nil {
							for _, u := range *rr {
								if cc, isCall := u.(*ssa.Call); isCall {
									if sc := cc.Call.StaticCallee(); sc != nil && sc.Name() == "writeUvarint" && !fieldV(idx)(c.Call.Args[0]) {
										okAll = false
										bad = in
									}
								}
							}
						}
					}
				}
			}
		}
	})
	pos := e.pos(sv.Pos())
	if bad != nil {
		pos = e.ipos(bad)
	}
	r.check(okAll && nRanges >= 1, "MPT-tan-index-all-nodes", "nodeStates.save writes the count and the records of all nodes in s.indexes", pos,
		"every node's pointers are persisted with the retired log file",
		"nodeStates.save writes a node count taken from something other than s.indexes (a filtered subset): state/snapshot pointers of the omitted nodes are lost on reopen")
	// within the loop over s.indexes no path skips the node's record except through an error return
	forEachInstr(sv, func(in ssa.Instruction) {
		rg, ok := in.(*ssa.Range)
		if !ok || !fieldV(idx)(rg.X) {
			return
		}
		header, body := rangeLoopBlocks(rg)
		if header == nil {
			return
		}
		// a write of the node record: a call of Write on the record writer inside the body
		isWrite := func(x ssa.Instruction) bool {
			c, ok := x.(ssa.CallInstruction)
			return ok && c.Common().IsInvoke() && c.Common().Method.Name() == "Write"
		}
		hasWrite := false
		for b := range body {
			for _, x := range b.Instrs {
				if isWrite(x) {
					hasWrite = true
				}
			}
		}
		if !hasWrite {
			return // a collecting loop, the writing loop is checked by the count rule
		}
		// from the loop body entry, a path back to the header without a Write
		for _, s := range header.Succs {
			if !body[s] || len(s.Instrs) == 0 {
				continue
			}
			res := e.findPath(sv, s.Instrs[0], func(x ssa.Instruction) bool { return x.Block() == header }, isWrite, func(p, q *ssa.BasicBlock) bool { return body[q] || q == header })
			if isWrite(s.Instrs[0]) {
				res.Found = false
			}
			r.check(!res.Found, "MPT-tan-index-all-nodes", "every iteration of the node loop in nodeStates.save writes the node's record", e.ipos(rg),
				"no node is skipped", "an iteration of the node loop can continue without writing the node's record")
		}
	})
}

// ruleSyncUnconditional (C08, C16): StateMachine.sync makes the on-disk
// state machine durable whenever it is one: no other condition (such as "the
// applied index did not move") may skip the user Sync - the cursors it
// would compare are batch-level and lag behind a mid-task snapshot.
func ruleSyncUnconditional(e *Engine, r *Report) {
	sy := r.need("(*internal/rsm.StateMachine).sync")
	onDisk := r.need("(*internal/rsm.StateMachine).OnDiskStateMachine")
	syncM := e.Method("internal/rsm", "IManagedStateMachine", "Sync")
	if sy == nil || onDisk == nil || syncM == nil {
		return
	}
	isSync := e.throughHelpers(func(c ssa.CallInstruction) bool { return e.IsMethodCall(c, syncM) })
	res := e.pathUnless(sy, nil, func(in ssa.Instruction) bool { return e.isSuccessReturn(in) }, isSync, reqBool("not an on-disk state machine", e.callV(onDisk), false))
	var w []string
	for _, x := range res.Witness {
		w = append(w, e.ipos(x))
	}
	r.check(!res.Found, "MPT-sync-unconditional", "StateMachine.sync syncs the on-disk state machine on every path", e.pos(sy.Pos()),
		"the only way to skip the user Sync is not being an on-disk state machine",
		"StateMachine.sync can return success without calling the user Sync for an on-disk state machine: a snapshot taken afterwards refers to state that is not durable", w...)
}

// ruleReadyKeyedByCtx (C01, C06): a ReadyToRead record confirms exactly the
// batch registered under its own ctx: in pendingReadIndex.addReady every
// update of the batches table is keyed by the record's SystemCtx, never by
// a key obtained from iterating the table (batches cut later were not
// covered by that confirmation).
func ruleReadyKeyedByCtx(e *Engine, r *Report) {
	ar := r.need("(*dragonboat.pendingReadIndex).addReady")
	batches := r.needField("", "pendingReadIndex", "batches")
	sysCtx := r.needField("raftpb", "ReadyToRead", "SystemCtx")
	if ar == nil || batches == nil || sysCtx == nil {
		return
	}
	n := 0
	e.forEachInstrRegion(ar, 1, func(in ssa.Instruction) {
		mu, ok := in.(*ssa.MapUpdate)
		if !ok || !fieldV(batches)(mu.Map) {
			return
		}
		n++
		fromCtx := e.dependsOn(mu.Key, func(v ssa.Value) bool { return fieldV(sysCtx)(v) }, 0)
		fromRange := e.dependsOn(mu.Key, func(v ssa.Value) bool {
			rg, ok := v.(*ssa.Range)
			return ok && fieldV(batches)(rg.X)
		}, 0)
		r.check(fromCtx && !fromRange, "WMW-ready-keyed", "batches updated in addReady #"+itoa(n)+" under the confirmed record's ctx", e.ipos(in),
			"only the confirmed batch receives the read index",
			"addReady writes the read index into a batch selected by iterating the table, not the batch of the confirmed ctx: batches that were never confirmed are released with it")
	})
	r.floor("WMW-ready-keyed", n, 1)
}

// ruleStopBeforeTerminate (C12): a table whose acceptance is decided by an
// input queue (proposals, read-index requests) closes that queue before it
// terminates the requests it holds: once a request was terminated no new
// request may be accepted into the same table, or it is registered after
// the sweep and never gets a result. In the table's close (or in every
// caller, before the call) the queue's close() precedes each terminated().
func ruleStopBeforeTerminate(e *Engine, r *Report) {
	termFn := r.need("(*dragonboat.RequestState).terminated")
	if termFn == nil {
		return
	}
	tables := []struct{ closeFn, queueClose string }{
		{"(*dragonboat.proposalShard).close", "(*dragonboat.entryQueue).close"},
		{"(*dragonboat.pendingReadIndex).close", "(*dragonboat.readIndexQueue).close"},
	}
	n := 0
	for _, t := range tables {
		cf := r.need(t.closeFn)
		qc := r.need(t.queueClose)
		if cf == nil || qc == nil {
			continue
		}
		isQC := func(in ssa.Instruction) bool {
			c, ok := in.(*ssa.Call)
			return ok && e.CallsTo(c, qc)
		}
		// the queue pointer being nil (tests build tables without a queue) exempts
		qt := qc.Signature.Recv().Type()
		nilQueue := Req{Name: "the table has no queue", Has: func(fs []Fact) bool {
			for _, f := range fs {
				b, ok := f.V.(*ssa.BinOp)
				if !ok || !(isNilConst(b.X) || isNilConst(b.Y)) {
					continue
				}
				x := b.X
				if isNilConst(b.X) {
					x = b.Y
				}
				isNil := (b.Op == token.EQL) == f.Pol
				if isNil && types.Identical(x.Type(), qt) {
					return true
				}
			}
			return false
		}}
		var preceded func(site ssa.Instruction, depth int) bool
		preceded = func(site ssa.Instruction, depth int) bool {
			fn := site.Parent()
			res := e.pathUnless(fn, nil, func(in ssa.Instruction) bool { return in == site }, isQC, nilQueue)
			if !res.Found {
				return true
			}
			if depth == 0 {
				return false
			}
			cnt := 0
			for _, cs := range e.CallerSites(fn) {
				if p := fnPkg(cs.Parent()); p == nil || !scopePkg(p.Path()) || !e.IsLive(outermostFn(cs.Parent())) {
					continue
				}
				cnt++
				if !preceded(cs.(ssa.Instruction), depth-1) {
					return false
				}
			}
			return cnt > 0
		}
		for _, s := range e.SitesIn(cf, termFn) {
			n++
			r.check(preceded(s.(ssa.Instruction), 2), "MPT-stop-before-terminate", "terminated() in "+fname(cf)+" #"+itoa(n)+" comes after the input queue was closed", e.ipos(s),
				"no request can be accepted after the sweep that terminates the pending ones",
				"pending requests are terminated while the table's input queue still accepts: a request accepted after the sweep is registered in a closed table and never receives a result")
		}
	}
	r.floor("MPT-stop-before-terminate", n, 2)
}

func reqAll(name string, parts ...Req) Req {
	return Req{Name: name, Has: func(fs []Fact) bool {
		for _, p := range parts {
			if !p.Has(fs) {
				return false
			}
		}
		return true
	}}
}

// ruleSelfRemoved (C18, C03): "am I still a member" is answered per role: a
// replica running as non-voting is present only if it is in nonVotings, a
// witness only if in witnesses, any other state only if in remotes. A
// role-agnostic lookup lets a replica that runs the follower state machine
// but is listed as non-voting/witness pass the election gate.
func ruleSelfRemoved(e *Engine, r *Report) {
	fn := r.need(raftT + "selfRemoved")
	isNV := r.need(raftT + "isNonVoting")
	isW := r.need(raftT + "isWitness")
	remotes := r.needField("internal/raft", "raft", "remotes")
	nonVotings := r.needField("internal/raft", "raft", "nonVotings")
	witnesses := r.needField("internal/raft", "raft", "witnesses")
	replicaID := r.needField("internal/raft", "raft", "replicaID")
	if fn == nil || isNV == nil || isW == nil || remotes == nil || nonVotings == nil || witnesses == nil || replicaID == nil {
		return
	}
	inMap := func(m *types.Var) VM {
		return func(v ssa.Value) bool {
			ex, ok := v.(*ssa.Extract)
			if !ok || ex.Index != 1 {
				return false
			}
			lk, ok := ex.Tuple.(*ssa.Lookup)
			return ok && fieldV(m)(lk.X) && fieldV(replicaID)(lk.Index)
		}
	}
	r.returnsOnlyUnder("GD-self-removed", fname(fn), fn, 0, false, nil,
		reqAny("present in the member map of its own role",
			reqAll("", reqBool("", e.callV(isNV), true), reqBool("", inMap(nonVotings), true)),
			reqAll("", reqBool("", e.callV(isW), true), reqBool("", inMap(witnesses), true)),
			reqAll("", reqBool("", e.callV(isNV), false), reqBool("", e.callV(isW), false), reqBool("", inMap(remotes), true))))
}

// ruleCampaignPredicateUpper (C17): the election guard may answer "a config
// change is waiting to be applied" only when committed > applied - any
// further condition (e.g. an uncommitted config change somewhere in the log)
// can keep a healthy majority from ever electing a leader.
func ruleCampaignPredicateUpper(e *Engine, r *Report) {
	hasCC := r.need(raftT + "hasConfigChangeToApply")
	committed := r.needField("internal/raft", "entryLog", "committed")
	applied := r.needField("internal/raft", "raft", "applied")
	if hasCC == nil || committed == nil || applied == nil {
		return
	}
	getApplied := e.Func(raftT + "getApplied")
	var appliedV VM = func(v ssa.Value) bool {
		return fieldV(applied)(v) || (getApplied != nil && e.callV(getApplied)(v))
	}
	hook := e.Field("internal/raft", "raft", "hasNotAppliedConfigChange")
	exempt := func(v ssa.Value) bool {
		c, ok := stripConv(v).(*ssa.Call)
		return ok && hook != nil && fieldV(hook)(c.Call.Value)
	}
	r.returnsOnlyUnder("GD-campaign-pred", fname(hasCC)+" (upper bound)", hasCC, 0, true, exempt,
		reqCmp("committed > applied", ">", fieldV(committed), appliedV))
}

// ruleAppliedPair (C19): after an apply acknowledgement the in-memory log
// remembers (index, term) of the last applied entry - both taken from the
// same entry.
func ruleAppliedPair(e *Engine, r *Report) {
	fn := r.need("(*internal/raft.inMemory).appliedLogTo")
	idxF := r.needField("internal/raft", "inMemory", "appliedToIndex")
	termF := r.needField("internal/raft", "inMemory", "appliedToTerm")
	eIndex := e.Field("raftpb", "Entry", "Index")
	eTerm := e.Field("raftpb", "Entry", "Term")
	if fn == nil || idxF == nil || termF == nil || eIndex == nil || eTerm == nil {
		return
	}
	// the entry a stored value was read from: the address the Entry was loaded from
	entryOf := func(v ssa.Value, fld *types.Var) string {
		f, base, ok := loadedField(stripConv(v))
		if !ok || f != fld {
			return ""
		}
		// base: the entry value (loaded from an element address) or an address
		if ld, ok := base.(*ssa.UnOp); ok {
			return exprKey(ld.X)
		}
		if fa, ok := base.(*ssa.FieldAddr); ok {
			return exprKey(fa.X)
		}
		return exprKey(base)
	}
	var ik, tk string
	var ti ssa.Instruction
	forEachInstr(fn, func(in ssa.Instruction) {
		st, ok := in.(*ssa.Store)
		if !ok {
			return
		}
		f, _, ok := fieldOfAddr(st.Addr)
		if !ok {
			return
		}
		if f == idxF {
			ik = entryOf(st.Val, eIndex)
			if ik == "" {
				ik = "param"
			}
		}
		if f == termF {
			tk = entryOf(st.Val, eTerm)
			ti = in
		}
	})
	pos := e.pos(fn.Pos())
	if ti != nil {
		pos = e.ipos(ti)
	}
	// the index may also be stored from the acknowledged parameter (checked equal to the entry's index by the panic above it)
	same := tk != "" && (ik == tk || ik == "param")
	if same && ik == "param" {
		// the term's entry must be the one indexed by (index - markerIndex)
		marker := e.Field("internal/raft", "inMemory", "markerIndex")
		same = false
		forEachInstr(fn, func(in ssa.Instruction) {
			if ia, ok := in.(*ssa.IndexAddr); ok && exprKey(ia) == tk {
				if b, ok := stripConv(ia.Index).(*ssa.BinOp); ok && b.Op.String() == "-" && fieldV(marker)(b.Y) {
					if _, isP := stripConv(b.X).(*ssa.Parameter); isP {
						same = true
					}
				}
			}
		})
	}
	r.check(same, "DEP-applied-pair", "appliedToIndex and appliedToTerm in appliedLogTo come from the same entry", pos,
		"the remembered (index, term) pair describes one entry",
		"appliedLogTo remembers the term of a different entry than the one whose index it records: term(appliedIndex) answers with another entry's term")
}

// ruleAppendSetsRange (C09, C19): LogReader.Append always forwards the saved
// range to SetRange (which extends or truncates the reader's window); only
// an empty slice is a no-op.
func ruleAppendSetsRange(e *Engine, r *Report) {
	ap := r.need("(*internal/logdb.LogReader).Append")
	sr := r.need("(*internal/logdb.LogReader).SetRange")
	if ap == nil || sr == nil {
		return
	}
	isSR := e.throughHelpers(func(c ssa.CallInstruction) bool { return e.CallsTo(c, sr) })
	var ents VM = func(v ssa.Value) bool {
		p, ok := stripConv(v).(*ssa.Parameter)
		return ok && p.Parent() == ap && p.Name() != "lr"
	}
	res := e.pathUnless(ap, nil, func(in ssa.Instruction) bool { return e.isSuccessReturn(in) }, isSR,
		reqAny("no entries", reqCmp("", "==", lenOfV(ents), intConstV(0)), reqCmp("", "<=", lenOfV(ents), intConstV(0))))
	var w []string
	for _, x := range res.Witness {
		w = append(w, e.ipos(x))
	}
	r.check(!res.Found, "MPT-append-setrange", "LogReader.Append hands every non-empty saved range to SetRange", e.pos(ap.Pos()),
		"the reader's window follows what was saved, including a shorter replacement tail",
		"LogReader.Append can return without SetRange for a non-empty range: a replaced (shorter) tail is never reflected, the reader keeps answering for truncated entries", w...)
}

// ruleDelayedRepack (C17): MessageQueue.getDelayed hands out the due records
// and keeps every record that is not due yet: on the not-due edge of the
// tick test the record is written back into the delayed list before the
// next record is looked at.
func ruleDelayedRepack(e *Engine, r *Report) {
	gd := r.need("(*internal/server.MessageQueue).getDelayed")
	delayed := r.needField("internal/server", "MessageQueue", "delayed")
	if gd == nil || delayed == nil {
		return
	}
	recTick := e.Field("internal/server", "delayedMessage", "tick")
	if recTick == nil {
		// the record type may be named differently: find the element type of the delayed slice
		if sl, ok := delayed.Type().Underlying().(*types.Slice); ok {
			if st := derefStruct(sl.Elem()); st != nil {
				for i := 0; i < st.NumFields(); i++ {
					if st.Field(i).Name() == "tick" {
						recTick = st.Field(i)
					}
				}
			}
		}
	}
	if recTick == nil {
		r.undecided("ANCHOR", "delayed record tick field", "not found")
		return
	}
	isKeep := func(in ssa.Instruction) bool {
		st, ok := in.(*ssa.Store)
		if !ok {
			return false
		}
		ia, ok := st.Addr.(*ssa.IndexAddr)
		if !ok {
			return false
		}
		f, _, ok := loadedField(ia.X)
		return ok && f == delayed
	}
	n := 0
	forEachInstr(gd, func(in ssa.Instruction) {
		ifi, ok := in.(*ssa.If)
		if !ok {
			return
		}
		// a comparison of a record's tick with the current tick
		isTickCmp := false
		var dueOnTrue bool
		for _, f := range expandFacts([]Fact{{ifi.Cond, true}}) {
			if b, ok := f.V.(*ssa.BinOp); ok && cmpString(b.Op) != "" && (fieldV(recTick)(b.X) || fieldV(recTick)(b.Y)) {
				isTickCmp = true
				op := cmpString(b.Op)
				if !f.Pol {
					op = negCmp(op)
				}
				if fieldV(recTick)(b.Y) {
					op = flipCmp(op)
				}
				dueOnTrue = op == "<" || op == "<="
			}
		}
		if !isTickCmp {
			return
		}
		n++
		notDue := in.Block().Succs[1]
		if !dueOnTrue {
			notDue = in.Block().Succs[0]
		}
		if len(notDue.Instrs) == 0 {
			return
		}
		found := false
		if !isKeep(notDue.Instrs[0]) {
			if notDue.Instrs[0] == in || isReturn(notDue.Instrs[0]) {
				found = true
			} else {
				found = e.findPath(gd, notDue.Instrs[0], func(x ssa.Instruction) bool { return x == in || isReturn(x) }, isKeep, nil).Found
			}
		}
		r.check(!found, "MPT-delayed-repack", "getDelayed keeps a record that is not due yet", e.ipos(in),
			"not-due records stay queued", "a record that is not due yet can be dropped from the delayed list (it is neither returned nor written back): a delayed snapshot status is lost and the leader's remote stays paused")
	})
	r.floor("MPT-delayed-repack", n, 1)
}

// ruleReaderBoundFromFile (C14): the V2 snapshot reader limits the block
// stream by the size of the file itself (minus header and tail), not by a
// number read from the (possibly corrupted) file.
func ruleReaderBoundFromFile(e *Engine, r *Report) {
	gh := r.need("(*internal/rsm.SnapshotReader).getHeader")
	if gh == nil {
		return
	}
	n := 0
	e.forEachInstrRegion(gh, 1, func(in ssa.Instruction) {
		c, ok := in.(*ssa.Call)
		if !ok {
			return
		}
		sc := c.Call.StaticCallee()
		if sc == nil || sc.Name() != "LimitReader" || sc.Pkg == nil || sc.Pkg.Pkg.Path() != "io" || len(c.Call.Args) < 2 {
			return
		}
		n++
		lim := c.Call.Args[1]
		fromStat := e.dependsOn(lim, func(v ssa.Value) bool {
			cc, ok := v.(*ssa.Call)
			return ok && cc.Call.IsInvoke() && cc.Call.Method.Name() == "Size"
		}, 2)
		fromContent := e.dependsOn(lim, func(v ssa.Value) bool {
			cc, ok := v.(*ssa.Call)
			if !ok {
				return false
			}
			if cc.Call.IsInvoke() {
				return cc.Call.Method.Name() == "Uint64" || cc.Call.Method.Name() == "Uint32"
			}
			s2 := cc.Call.StaticCallee()
			return s2 != nil && s2.Pkg != nil && s2.Pkg.Pkg.Path() == "encoding/binary"
		}, 2)
		r.check(fromStat && !fromContent, "DEP-reader-bound", "the V2 block stream in "+fname(c.Parent())+" is limited by the file size", e.ipos(in),
			"every byte between header and tail is read and checksummed", "the block stream is limited by a number decoded from the file: a corrupted tail makes the reader return a clean prefix of the payload without an error")
	})
	r.floor("DEP-reader-bound", n, 1)
}

// ruleResetProgress (C02, C17): a replica that becomes leader starts every
// follower's progress from scratch: in the reset functions the per-member
// record is replaced by a freshly allocated one (match = 0), or match is
// explicitly zeroed; only the leader's own slot carries its last index.
// Reusing the old records keeps match values of an earlier leadership, and
// heartbeats carry commit = min(match, committed) unchecked.
func ruleResetProgress(e *Engine, r *Report) {
	matchF := r.needField("internal/raft", "remote", "match")
	if matchF == nil {
		return
	}
	n := 0
	for _, p := range [][2]string{{"resetRemotes", "remotes"}, {"resetNonVotings", "nonVotings"}, {"resetWitnesses", "witnesses"}} {
		fn := r.need(raftT + p[0])
		fld := r.needField("internal/raft", "raft", p[1])
		if fn == nil || fld == nil {
			continue
		}
		n++
		fresh, zeroed := false, false
		// the map updated: the field itself, or a parameter of a helper that fn calls with the field
		isMemberMap := func(m ssa.Value) bool {
			if fieldV(fld)(m) {
				return true
			}
			pm, ok := m.(*ssa.Parameter)
			if !ok {
				return false
			}
			idx := -1
			for i, q := range pm.Parent().Params {
				if q == pm {
					idx = i
				}
			}
			okc := false
			for _, cs := range e.SitesIn(fn, pm.Parent()) {
				if idx >= 0 && idx < len(cs.Common().Args) && fieldV(fld)(cs.Common().Args[idx]) {
					okc = true
				}
			}
			return okc
		}
		e.forEachInstrRegion(fn, 1, func(in ssa.Instruction) {
			if mu, ok := in.(*ssa.MapUpdate); ok && isMemberMap(mu.Map) {
				if _, isAlloc := stripConv(mu.Value).(*ssa.Alloc); isAlloc {
					fresh = true
				}
			}
			if st, ok := in.(*ssa.Store); ok {
				if f, _, ok := fieldOfAddr(st.Addr); ok && f == matchF && intConstV(0)(st.Val) {
					zeroed = true
				}
			}
		})
		r.check(fresh || zeroed, "MPT-reset-progress", p[0]+" starts every member's match from zero", e.pos(fn.Pos()),
			"progress records are re-created (or match zeroed) when leadership is assumed",
			p[0]+" keeps the previous progress records without clearing match: match values of an earlier leadership survive and are advertised as commit indexes in heartbeats")
	}
	r.floor("MPT-reset-progress", n, 3)
}

// ruleTallyDistinct (C03, C18): the number of granted votes is obtained by
// counting the entries of the per-sender vote map, so a duplicated response
// cannot be counted twice.
func ruleTallyDistinct(e *Engine, r *Report) {
	hv := r.need(raftT + "handleVoteResp")
	votes := r.needField("internal/raft", "raft", "votes")
	if hv == nil || votes == nil {
		return
	}
	// the function iterates the vote map, and what it returns is not read from a field
	dep := false
	forEachInstr(hv, func(in ssa.Instruction) {
		if rg, ok := in.(*ssa.Range); ok && fieldV(votes)(rg.X) {
			dep = true
		}
	})
	raftT2 := e.Named("internal/raft", "raft")
	if raftT2 != nil && e.returnDependsOn(hv, func(v ssa.Value) bool {
		f, _, ok := loadedField(v)
		if !ok || f == votes {
			return false
		}
		if bt, isB := f.Type().Underlying().(*types.Basic); isB && bt.Info()&types.IsInteger != 0 {
			st := raftT2.Underlying().(*types.Struct)
			for i := 0; i < st.NumFields(); i++ {
				if st.Field(i) == f {
					return true
				}
			}
		}
		return false
	}, 0) {
		dep = false
	}
	// no numeric field of raft is incremented as a running tally
	counter := false
	forEachInstr(hv, func(in ssa.Instruction) {
		if st, ok := in.(*ssa.Store); ok {
			if f, _, ok := fieldOfAddr(st.Addr); ok && f != votes {
				if b, isB := st.Val.(*ssa.BinOp); isB && b.Op.String() == "+" && fieldV(f)(b.X) {
					counter = true
				}
			}
		}
	})
	r.check(dep && !counter, "GD-tally", "the vote tally counts the distinct senders recorded in raft.votes", e.pos(hv.Pos()),
		"each sender is counted once however often its response arrives", "the vote tally is a running counter / does not derive from iterating the per-sender vote map: a duplicated response is counted twice")
}

// ruleSessionLookupSource (C05): whether a client is registered is answered
// from the session table itself on every call: the session returned by
// ClientRegistered is the result of the table lookup, not a remembered copy
// (which would survive eviction or unregistration by another path).
func ruleSessionLookupSource(e *Engine, r *Report) {
	cr := r.need("(*internal/rsm.SessionManager).ClientRegistered")
	if cr == nil {
		return
	}
	var lookup VM = func(v ssa.Value) bool {
		ex, ok := v.(*ssa.Extract)
		if !ok {
			return false
		}
		c, ok := ex.Tuple.(*ssa.Call)
		if !ok {
			return false
		}
		sc := c.Call.StaticCallee()
		return sc != nil && (sc.Name() == "getSession" || sc.Name() == "getSessionLocked")
	}
	n := 0
	forEachInstr(cr, func(in ssa.Instruction) {
		ret, ok := in.(*ssa.Return)
		if !ok || len(ret.Results) < 2 {
			return
		}
		if cb, isC := isConstBool(retOperand(ret, 1)); isC && !cb {
			return
		}
		n++
		v := retOperand(ret, 0)
		okv := lookup(v)
		if ph, isPhi := v.(*ssa.Phi); isPhi {
			okv = true
			for _, ed := range ph.Edges {
				if !lookup(ed) && !isNilConst(ed) {
					okv = false
				}
			}
		}
		r.check(okv, "DEP-session-lookup", "ClientRegistered return #"+itoa(n)+" is the table lookup's result", e.ipos(in),
			"registration is decided by the session table on every call", "ClientRegistered can answer from something other than the session table lookup: an evicted or unregistered session may still be reported as registered")
	})
	r.floor("DEP-session-lookup", n, 1)
}

// membershipFieldsRead: the pb.Membership map fields loaded anywhere in the region of fn.
func (e *Engine) membershipFieldsRead(fn *ssa.Function) map[string]bool {
	out := map[string]bool{}
	e.forEachInstrRegion(fn, 0, func(in ssa.Instruction) {
		v, ok := in.(ssa.Value)
		if !ok {
			return
		}
		if f, _, ok := loadedField(v); ok {
			if _, isMap := f.Type().Underlying().(*types.Map); isMap && f.Pkg() != nil && strings.HasSuffix(f.Pkg().Path(), "raftpb") {
				out[f.Name()] = true
			}
		}
		if fa, ok := in.(*ssa.FieldAddr); ok {
			if st := derefStruct(fa.X.Type()); st != nil {
				f := st.Field(fa.Field)
				if _, isMap := f.Type().Underlying().(*types.Map); isMap && f.Pkg() != nil && strings.HasSuffix(f.Pkg().Path(), "raftpb") {
					out[f.Name()] = true
				}
			}
		}
	})
	return out
}

// ruleRestoreRegistersAll (C08, C18): when membership is learned from a
// snapshot the node registers the address of every member kind (voters,
// non-voting members and witnesses) and handles the removed set.
func ruleRestoreRegistersAll(e *Engine, r *Report) {
	rr := r.need("(*dragonboat.node).RestoreRemotes")
	if rr == nil {
		return
	}
	got := keysOf(e.membershipFieldsRead(rr))
	r.check(got == "Addresses,NonVotings,Removed,Witnesses", "TBL-restore-registry", "node.RestoreRemotes handles all four membership maps", e.pos(rr.Pos()),
		"addresses of voters, non-voting members and witnesses are registered, removed ids handled", "node.RestoreRemotes reads only {"+got+"}: members of the missing kind are unreachable for a replica that learned the membership from a snapshot")
}

// ruleAddressScanAllKinds (C07): an address already used by any member kind
// cannot be added again under another id: the address scan of
// isAddExistingMember covers Addresses, NonVotings and Witnesses.
func ruleAddressScanAllKinds(e *Engine, r *Report) {
	fn := r.need("(*internal/rsm.membership).isAddExistingMember")
	addrEq := e.Func("internal/rsm.addressEqual")
	if fn == nil {
		return
	}
	// maps whose *values* are scanned: ranged directly, or passed to a helper that ranges its parameter
	scanned := map[string]bool{}
	// (the scan may live in a helper of the predicate: any same-package function below it
	// that compares addresses counts)
	comparesAddr := func(g *ssa.Function) bool {
		if addrEq == nil {
			return true
		}
		return len(e.SitesIn(g, addrEq)) > 0
	}
	e.forEachInstrRegion(fn, 2, func(in ssa.Instruction) {
		if rg, ok := in.(*ssa.Range); ok && comparesAddr(in.Parent()) {
			if f, _, ok := loadedField(rg.X); ok {
				scanned[f.Name()] = true
			}
		}
		if in.Parent() != fn {
			return
		}
		if c, ok := in.(*ssa.Call); ok {
			g := c.Call.StaticCallee()
			if g == nil || fnPkg(g) != fnPkg(fn) || g == addrEq {
				return
			}
			for ai, a := range c.Call.Args {
				f, _, ok := loadedField(a)
				if !ok || ai >= len(g.Params) {
					continue
				}
				p := g.Params[ai]
				ranged := false
				forEachInstr(g, func(x ssa.Instruction) {
					if rg, ok := x.(*ssa.Range); ok && rg.X == ssa.Value(p) {
						ranged = true
					}
				})
				if ranged {
					scanned[f.Name()] = true
				}
			}
		}
	})
	got := keysOf(scanned)
	r.check(got == "Addresses,NonVotings,Witnesses", "TBL-cc-predicate", "isAddExistingMember scans the addresses of all three member kinds", e.pos(fn.Pos()),
		"an address in use by a voter, non-voting member or witness is refused", "the address-in-use scan covers only {"+got+"}: an address used by a member of the missing kind can be added again under a new id")
}

// ruleReadyToStream (C08): a snapshot is streamed to a follower only when
// the state machine says it is ready to stream (for an on-disk state machine:
// its applied index has reached what is already on disk).
func ruleReadyToStream(e *Engine, r *Report) {
	cs := r.need("(*dragonboat.node).canStream")
	rts := r.need("(*internal/rsm.StateMachine).ReadyToStream")
	if cs == nil || rts == nil {
		return
	}
	r.returnsOnlyUnder("GD-ready-to-stream", fname(cs), cs, 0, true, nil, reqBool("StateMachine.ReadyToStream() is true", e.callV(rts), true))
}

// ruleTanRemoveAll (C09): removing a node's data resets its whole index:
// every component of nodeIndex (entries, currEntries with their compaction
// watermarks, snapshot, state) is assigned as a whole.
func ruleTanRemoveAll(e *Engine, r *Report) {
	ra := r.need("(*internal/tan.nodeIndex).removeAll")
	niT := e.Named("internal/tan", "nodeIndex")
	if ra == nil || niT == nil {
		return
	}
	st := niT.Underlying().(*types.Struct)
	assigned := map[string]bool{}
	forEachInstr(ra, func(in ssa.Instruction) {
		s, ok := in.(*ssa.Store)
		if !ok {
			return
		}
		fa, ok := s.Addr.(*ssa.FieldAddr)
		if !ok {
			return
		}
		if p, isP := fa.X.(*ssa.Parameter); isP && p == ra.Params[0] {
			if ds := derefStruct(fa.X.Type()); ds != nil {
				assigned[ds.Field(fa.Field).Name()] = true
			}
		}
	})
	for _, want := range []string{"entries", "currEntries", "snapshot", "state"} {
		found := false
		for i := 0; i < st.NumFields(); i++ {
			if st.Field(i).Name() == want {
				found = true
			}
		}
		if !found {
			continue
		}
		r.check(assigned[want], "MPT-tan-remove-all", "nodeIndex.removeAll resets "+want+" as a whole", e.pos(ra.Pos()),
			"nothing of the removed node's index survives (including compaction watermarks)", "nodeIndex.removeAll no longer assigns "+want+" as a whole: parts of it (e.g. the compactedTo watermark) survive RemoveNodeData/ImportSnapshot and hide entries saved later")
	}
}

// ruleTanNewLogOrder (C04, C10): a new Tan log file's directory entry is
// made durable before the MANIFEST is told about the file (logAndApply), and
// inside a write the log is rotated before the record is written, never
// between the record write and the caller's fsync of "the current file".
func ruleTanNewLogOrder(e *Engine, r *Report) {
	cn := r.need("(*internal/tan.db).createNewLog")
	la := r.need("(*internal/tan.versionSet).logAndApply")
	dataDir := r.needField("internal/tan", "db", "dataDir")
	if cn != nil && la != nil && dataDir != nil {
		isDirSync := func(in ssa.Instruction) bool {
			c, ok := in.(ssa.CallInstruction)
			return ok && c.Common().IsInvoke() && c.Common().Method.Name() == "Sync" && fieldV(dataDir)(c.Common().Value)
		}
		for _, s := range e.SitesIn(cn, la) {
			ok, _ := e.alwaysPrecededBy(s.(ssa.Instruction), isDirSync, 0)
			r.check(ok, "MPT-tan-newlog-order", "createNewLog syncs the data directory before the manifest references the new log", e.ipos(s),
				"the file exists durably when the manifest names it", "the manifest can name a log file whose directory entry is not durable yet: a crash in between makes the consistency check fail on reopen")
		}
	}
	wr := r.need("(*internal/tan.db).write")
	sw := r.need("(*internal/tan.db).switchToNewLog")
	if wr == nil || sw == nil {
		return
	}
	wrec := e.Func("(*internal/tan.writer).writeRecord")
	if wrec == nil {
		r.undecided("ANCHOR", "(*internal/tan.writer).writeRecord", "anchored function no longer resolves")
		return
	}
	reaches := func(target *ssa.Function) func(ssa.Instruction) bool {
		set := map[*ssa.Function]bool{target: true}
		for _, g := range e.regionOf(wr, 3) {
			if len(e.SitesIn(g, target)) > 0 {
				set[g] = true
			}
		}
		// one more round for wrappers of wrappers
		for _, g := range e.regionOf(wr, 3) {
			forEachCall(g, func(c ssa.CallInstruction) {
				if sc := c.Common().StaticCallee(); sc != nil && set[sc] {
					set[g] = true
				}
			})
		}
		return func(in ssa.Instruction) bool {
			c, ok := in.(*ssa.Call)
			if !ok {
				return false
			}
			sc := c.Call.StaticCallee()
			return sc != nil && set[sc]
		}
	}
	isWrite, isRotate := reaches(wrec), reaches(sw)
	n := 0
	for _, g := range e.regionOf(wr, 3) {
		forEachInstr(g, func(in ssa.Instruction) {
			if !isWrite(in) {
				return
			}
			n++
			// no rotation after the record write inside the same function, unless that call is the same one (it rotates first, then writes)
			res := e.findPath(g, in, func(x ssa.Instruction) bool { return isRotate(x) }, nil, nil)
			r.check(!res.Found, "MPT-tan-newlog-order", "no log rotation after the record write in "+fname(g), e.ipos(in),
				"the file the caller fsyncs is the file the record went to", "the log can be rotated after the record was written and before the caller's fsync: the fsync hits the new empty file and the record in the old file is never synced")
		})
	}
	r.floor("MPT-tan-newlog-order", n, 1)
}

// ruleConfigChangeClearsPending (C07, C17): applying (or rejecting) a
// membership change of any kind clears the leader's one-pending-change flag
// on every path of the ConfigChangeEvent handler; a kind that keeps the flag
// set turns every later membership change into an empty entry.
func ruleConfigChangeClearsPending(e *Engine, r *Report) {
	clrP := r.need(raftT + "clearPendingConfigChange")
	tbl, err := e.RaftHandlerTable()
	if clrP == nil || err != nil {
		return
	}
	clears := e.throughHelpers(func(c ssa.CallInstruction) bool { return e.CallsTo(c, clrP) })
	seen := map[*ssa.Function]bool{}
	for _, c := range tbl.Cells {
		if c.Type != "ConfigChangeEvent" || c.Fn == nil || seen[c.Fn] {
			continue
		}
		seen[c.Fn] = true
		res := e.findPath(c.Fn, nil, isReturn, clears, nil)
		w := []string{}
		if res.Found {
			w = res.Trace(e)
		}
		r.check(!res.Found, "MPT-cc-clears-pending", "every path of "+fname(c.Fn)+" clears the pending-config-change flag", e.pos(c.Fn.Pos()),
			"whatever kind of change was applied or rejected, the next one can be proposed", "a config change of some kind is applied without clearing the pending flag: every later membership change is dropped while this replica stays leader", w...)
	}
	r.floor("MPT-cc-clears-pending", len(seen), 1)
}

// ruleRemovedLeaderStepsDown (C18, C07): when the membership change removes
// this replica and it is the leader, it becomes a follower — on every path,
// whatever else is going on (a pending leadership transfer included).
func ruleRemovedLeaderStepsDown(e *Engine, r *Report) {
	rm := r.need(raftT + "removeNode")
	selfF := r.needField("internal/raft", "raft", "replicaID")
	stateF := r.needField("internal/raft", "raft", "state")
	if rm == nil || selfF == nil || stateF == nil {
		return
	}
	isLeader := r.helper(raftT + "isLeader")
	followerC := e.Const("internal/raft", "follower")
	leaderC := e.Const("internal/raft", "leader")
	// "steps down": a call that on every path stores state = follower
	stepDown := e.throughHelpers(func(c ssa.CallInstruction) bool {
		for _, g := range e.Callees(c) {
			hit := false
			forEachInstr(g, func(in ssa.Instruction) {
				if st, ok := in.(*ssa.Store); ok {
					if f, _, ok := fieldOfAddr(st.Addr); ok && f == stateF && followerC != nil && constV(followerC)(st.Val) {
						hit = true
					}
				}
			})
			if hit {
				return true
			}
		}
		return false
	})
	var notLeader []Req
	if isLeader != nil {
		notLeader = append(notLeader, reqBool("", e.callV(isLeader), false))
	}
	if leaderC != nil {
		notLeader = append(notLeader, reqCmp("", "!=", fieldV(stateF), constV(leaderC)))
	}
	exempt := reqAny("the removed replica is another one, or this replica is not the leader",
		append(notLeader, reqCmp("", "!=", fieldV(selfF), anyV()))...)
	res := e.pathUnless(rm, nil, isReturn, stepDown, exempt)
	w := []string{}
	if res.Found {
		w = res.Trace(e)
	}
	r.check(!res.Found, "MPT-removed-leader-steps-down", "removeNode: a leader that removed itself becomes follower on every path", e.pos(rm.Pos()),
		"no path with (removed == self, leader) returns without the step down", "a leader can apply its own removal and stay leader (e.g. while a leadership transfer is pending): the remaining members never elect a leader of their own", w...)
}

// ruleConfirmFromAllVoters (C18, C06): a read confirmation is counted for
// every member the quorum is computed over (full members and witnesses): the
// confirm step is not behind a lookup in the full-member map only.
func ruleConfirmFromAllVoters(e *Engine, r *Report) {
	confirm := r.need("(*internal/raft.readIndex).confirm")
	remotes := r.needField("internal/raft", "raft", "remotes")
	if confirm == nil || remotes == nil {
		return
	}
	votersOnly := func(in ssa.Instruction) (bool, string) {
		for _, f := range FactsAt(in) {
			ex, ok := f.V.(*ssa.Extract)
			if !ok || ex.Index != 1 || !f.Pol {
				continue
			}
			lk, ok := ex.Tuple.(*ssa.Lookup)
			if ok && lk.CommaOk && fieldV(remotes)(lk.X) {
				return true, e.ipos(lk)
			}
		}
		return false, ""
	}
	n := 0
	var walk func(s ssa.Instruction, depth int)
	walk = func(s ssa.Instruction, depth int) {
		n++
		bad, at := votersOnly(s)
		r.check(!bad, "GD-confirm-voters", "read confirmation reaches readIndex.confirm from "+fname(s.Parent())+" for witnesses too", e.ipos(s),
			"not restricted to the full-member map", "the confirmation is counted only when the sender is in raft.remotes (test at "+at+"): a witness' confirmation is dropped although the quorum counts witnesses")
		if depth == 0 {
			return
		}
		for _, cs := range e.CallerSites(s.Parent()) {
			if cs.Common().StaticCallee() == nil || !e.IsLive(cs.Parent()) {
				continue
			}
			walk(cs.(ssa.Instruction), depth-1)
		}
	}
	for _, s := range e.CallerSites(confirm) {
		if e.IsLive(s.Parent()) {
			walk(s.(ssa.Instruction), 2)
		}
	}
	r.floor("GD-confirm-voters", n, 2)
}

// ruleSendQueueWorkerCleanup (C17): the worker that drains a send queue
// removes the queue from the transport's map when it ends, for whatever
// reason (failure, idle timeout, stop): otherwise later messages to that
// host are queued where nobody reads them.
func ruleSendQueueWorkerCleanup(e *Engine, r *Report) {
	cap := r.need("(*internal/transport.Transport).connectAndProcess")
	if cap == nil {
		return
	}
	delQueue := func(c ssa.CallInstruction) bool {
		b, ok := c.Common().Value.(*ssa.Builtin)
		if !ok || b.Name() != "delete" || len(c.Common().Args) == 0 {
			return false
		}
		f, _, ok := loadedField(c.Common().Args[0])
		return ok && f.Name() == "queues"
	}
	removes := e.throughHelpers(delQueue)
	n := 0
	for _, s := range e.CallerSites(cap) {
		if !e.IsLive(outermostFn(s.Parent())) {
			continue
		}
		n++
		res := e.findPath(s.Parent(), s.(ssa.Instruction), isReturn, removes, nil)
		w := []string{}
		if res.Found {
			w = res.Trace(e)
		}
		r.check(!res.Found, "PAIR-sendqueue-cleanup", "send-queue worker in "+fname(s.Parent())+" removes its queue when connectAndProcess returns", e.ipos(s),
			"every exit of the worker deletes the queue from the map", "the worker can end (e.g. idle timeout, a graceful end) and leave its queue in the map: later messages to that host are never sent and nothing reports it", w...)
	}
	r.floor("PAIR-sendqueue-cleanup", n, 1)
}

// ruleLogDBDirs (C20, C10): whoever opens the log store passes the data
// directory and the WAL (low latency) directory each from its own source:
// the tool must open the store exactly where the NodeHost will.
func ruleLogDBDirs(e *Engine, r *Report) {
	create := e.Method("config", "LogDBFactory", "Create")
	n := 0
	isDirSrc := func(idx int) func(ssa.Value) bool {
		return func(v ssa.Value) bool {
			ex, ok := v.(*ssa.Extract)
			if !ok || ex.Index != idx {
				return false
			}
			c, ok := ex.Tuple.(*ssa.Call)
			if !ok {
				return false
			}
			sc := c.Call.StaticCallee()
			return sc != nil && (sc.Name() == "GetLogDBDirs" || sc.Name() == "CreateNodeHostDir")
		}
	}
	for _, fn := range e.ScopeFuncs() {
		if !e.IsLive(outermostFn(fn)) {
			continue
		}
		forEachCall(fn, func(s ssa.CallInstruction) {
			args := s.Common().Args
			isOpen := false
			if s.Common().IsInvoke() {
				isOpen = create != nil && s.Common().Method == create
			} else if sc := s.Common().StaticCallee(); sc != nil && sc.Pkg != nil && strings.HasSuffix(sc.Pkg.Pkg.Path(), "internal/logdb") {
				isOpen = strings.HasPrefix(sc.Name(), "NewDefaultLogDB") || strings.HasPrefix(sc.Name(), "NewTanLogDB")
			}
			if !isOpen || len(args) < 2 {
				return
			}
			dirs, ll := args[len(args)-2], args[len(args)-1]
			if !isStringSlice(dirs.Type()) || !isStringSlice(ll.Type()) {
				return
			}
			// pass-through inside a factory: both are parameters
			if _, ok := dirs.(*ssa.Parameter); ok {
				if _, ok := ll.(*ssa.Parameter); ok {
					return
				}
			}
			n++
			ok0 := e.dependsOn(dirs, isDirSrc(0), 0)
			ok1 := e.dependsOn(ll, isDirSrc(1), 0)
			r.check(ok0 && ok1, "DEP-logdb-dirs", "log store opened in "+fname(fn)+" with its data dir and WAL dir #"+itoa(n), e.ipos(s),
				"data dirs from the environment's first directory, WAL dirs from its second", "the log store is opened with directories that are not the environment's (data, WAL) pair in that order: the tool and the NodeHost open different stores when WALDir is set")
		})
	}
	r.floor("DEP-logdb-dirs", n, 3)
}

func isStringSlice(t types.Type) bool {
	s, ok := t.Underlying().(*types.Slice)
	if !ok {
		return false
	}
	b, ok := s.Elem().Underlying().(*types.Basic)
	return ok && b.Kind() == types.String
}

// ruleSessionTableOnly (C05): a session handed out by the LRU session table
// comes out of the ordered cache in the same call (never from a remembered
// pointer: eviction and snapshot load replace the cache behind it), and the
// serialized form written into a snapshot is produced by traversing the
// cache in the same call (never a remembered encoding).
func ruleSessionTableOnly(e *Engine, r *Report) {
	lruT := e.Named("internal/rsm", "lrusession")
	if lruT == nil {
		r.undecided("ANCHOR", "internal/rsm.lrusession", "type not found")
		return
	}
	// methods of the ordered cache (a dependency outside the module): by package and name
	cacheCall := func(c ssa.CallInstruction, name string) bool {
		sc := c.Common().StaticCallee()
		return sc != nil && sc.Name() == name && sc.Pkg != nil && strings.HasSuffix(sc.Pkg.Pkg.Path(), "goutils/cache") && sc.Signature.Recv() != nil
	}
	isLRUMethod := func(f *ssa.Function) bool {
		if f.Signature.Recv() == nil {
			return false
		}
		return recvTypeName(f.Signature.Recv().Type()) == "internal/rsm.lrusession"
	}
	n := 0
	for _, fn := range e.ScopeFuncs() {
		if !isLRUMethod(fn) || !e.IsLive(fn) {
			continue
		}
		res := fn.Signature.Results()
		if res.Len() == 0 {
			continue
		}
		pt, ok := res.At(0).Type().(*types.Pointer)
		if !ok {
			continue
		}
		if nt, ok := pt.Elem().(*types.Named); !ok || nt.Obj().Name() != "Session" {
			continue
		}
		forEachInstr(fn, func(in ssa.Instruction) {
			ret, ok := in.(*ssa.Return)
			if !ok {
				return
			}
			v := retOperand(ret, 0)
			if isNilConst(v) {
				return
			}
			n++
			fromCache := e.dependsOn(v, func(x ssa.Value) bool {
				c, ok := x.(*ssa.Call)
				if !ok {
					return false
				}
				if cacheCall(c, "Get") {
					return true
				}
				// delegated to another lookup of the same table
				sc := c.Call.StaticCallee()
				return sc != nil && sc != fn && isLRUMethod(sc) && sc.Signature.Results().Len() > 0 && types.Identical(sc.Signature.Results().At(0).Type(), res.At(0).Type())
			}, 0)
			r.check(fromCache, "DEP-session-lookup", "session returned by "+fname(fn)+" #"+itoa(n)+" comes out of the ordered cache", e.ipos(in),
				"every lookup consults the table as it is now", "a session is handed out without consulting the ordered cache (a remembered pointer): after an eviction or a snapshot load it is a session the table no longer holds")
		})
	}
	r.floor("DEP-session-lookup-returns", n, 1)
	if save := r.need("(*internal/rsm.lrusession).save"); save != nil {
		trav := e.throughHelpers(func(c ssa.CallInstruction) bool { return cacheCall(c, "OrderedDo") })
		res := e.findPath(save, nil, func(in ssa.Instruction) bool { return e.isSuccessReturn(in) }, trav, nil)
		w := []string{}
		if res.Found {
			w = res.Trace(e)
		}
		r.check(!res.Found, "MPT-session-save-traverses", "lrusession.save traverses the table on every successful path", e.pos(save.Pos()),
			"what is written into the snapshot is the table as it is now", "lrusession.save can succeed without traversing the session table (a remembered encoding): the snapshot can carry a session table older than the state machine image next to it", w...)
	}
}

// ruleNotifyApplied (C07, C03): what the raft core is told as "last applied"
// is the state machine's applied index, not a cursor of what was merely
// handed to the apply queue: the core refuses to campaign while a committed
// membership change is not applied, and judges that by this value.
func ruleNotifyApplied(e *Engine, r *Report) {
	notify := r.need("(*internal/raft.Peer).NotifyRaftLastApplied")
	getLA := r.need("(*internal/rsm.StateMachine).GetLastApplied")
	if notify == nil || getLA == nil {
		return
	}
	fromSM := func(v ssa.Value) bool {
		return e.dependsOn(v, func(x ssa.Value) bool {
			c, ok := x.(*ssa.Call)
			if !ok {
				return false
			}
			if e.CallsTo(c, getLA) {
				return true
			}
			for _, g := range e.Callees(c) {
				if p := fnPkg(g); p != nil && inModule(p) && e.returnDependsOn(g, e.callV(getLA), 0) {
					return true
				}
			}
			return false
		}, 0)
	}
	n := 0
	for _, s := range e.CallerSites(notify) {
		if !e.IsLive(outermostFn(s.Parent())) {
			continue
		}
		args := s.Common().Args
		if len(args) < 2 {
			continue
		}
		n++
		v := args[len(args)-1]
		ok := fromSM(v)
		if !ok {
			// a field that is only ever assigned the state machine's applied index
			if f, _, isF := loadedField(v); isF {
				ws := e.FieldWrites(f)
				ok = len(ws) > 0
				for _, w := range ws {
					if w.Kind == "init" {
						continue
					}
					if !fromSM(w.Val) {
						ok = false
					}
				}
			}
		}
		r.check(ok, "DEP-notify-applied", "NotifyRaftLastApplied argument in "+fname(s.Parent()), e.ipos(s),
			"the raft core learns the state machine's applied index", "the raft core is told "+e.describeValue(v)+" as last applied, which is not the state machine's applied index: it may campaign while a committed membership change is still unapplied")
	}
	r.floor("DEP-notify-applied", n, 1)
}

// ruleOpenSetsOnDiskIndex (C08): opening an on-disk state machine records
// the index it reports both as the initial and as the current on-disk index:
// a snapshot streamed before the next update must advertise what the sender
// really has on disk.
func ruleOpenSetsOnDiskIndex(e *Engine, r *Report) {
	open := r.need("(*internal/rsm.StateMachine).OpenOnDiskStateMachine")
	mOpen := r.needMethod("internal/rsm", "IManagedStateMachine", "Open")
	if open == nil || mOpen == nil {
		return
	}
	for _, fnm := range []string{"onDiskInitIndex", "onDiskIndex"} {
		fld := r.needField("internal/rsm", "StateMachine", fnm)
		if fld == nil {
			continue
		}
		isStore := func(in ssa.Instruction) bool {
			st, ok := in.(*ssa.Store)
			if !ok {
				return false
			}
			f, _, ok := fieldOfAddr(st.Addr)
			if !ok || f != fld {
				return false
			}
			return e.dependsOn(st.Val, func(x ssa.Value) bool {
				c, ok := x.(*ssa.Call)
				return ok && e.IsMethodCall(c, mOpen)
			}, 0)
		}
		res := e.findPath(open, nil, func(in ssa.Instruction) bool { return e.isSuccessReturn(in) }, isStore, nil)
		r.check(!res.Found, "MPT-open-ondisk-index", "OpenOnDiskStateMachine records the opened index in "+fnm, e.pos(open.Pos()),
			"set from Open()'s result on every successful path", "OpenOnDiskStateMachine can succeed without setting "+fnm+" from the index Open() returned: snapshots streamed before the next update advertise a wrong on-disk index and the receiver skips recovery", res.Trace(e)...)
	}
}

// ruleReplaySetsState (C03, C04): on restart the persisted hard state (term,
// vote, commit) reaches the log reader whenever there is one, whatever else
// the store holds - a replica that voted before it received any entry must
// come back with that vote.
func ruleReplaySetsState(e *Engine, r *Report) {
	replay := r.need("(*dragonboat.node).replayLog")
	setState := r.need("(*internal/logdb.LogReader).SetState")
	readRS := r.needMethod("raftio", "ILogDB", "ReadRaftState")
	isEmpty := r.need("raftpb.IsEmptyState")
	if replay == nil || setState == nil || readRS == nil || isEmpty == nil {
		return
	}
	n := 0
	for _, s := range e.MethodSitesIn(replay, readRS) {
		c, ok := s.(*ssa.Call)
		if !ok {
			continue
		}
		n++
		res := e.pathUnless(replay, c, func(in ssa.Instruction) bool { return e.isSuccessReturn(in) }, func(in ssa.Instruction) bool {
			cc, ok := in.(*ssa.Call)
			return ok && e.CallsTo(cc, setState)
		}, reqAny("the stored state is empty, or ReadRaftState failed",
			reqBool("", e.callV(isEmpty), true),
			Req{Name: "err", Has: func(fs []Fact) bool {
				for _, f := range fs {
					// any test of ReadRaftState's error (sentinel or nil) that says "failed"
					if cc, idx, kind, pol := calleeFact(f); cc == c && kind == "nil" && !pol && idx == 1 {
						return true
					}
					if call, ok := f.V.(*ssa.Call); ok && f.Pol {
						for _, a := range call.Call.Args {
							if ex, ok := stripChangeInterface(a).(*ssa.Extract); ok && ex.Tuple == ssa.Value(c) && ex.Index == 1 {
								return true // errors.Is(err, ...) is true
							}
						}
					}
				}
				return false
			}}))
		r.check(!res.Found, "MPT-replay-sets-state", "replayLog hands the persisted hard state to the log reader", e.ipos(s),
			"every successful path with a non-empty stored state calls LogReader.SetState", "replayLog can return successfully with a non-empty persisted state that never reaches the log reader: the replica restarts without its term and vote", res.Trace(e)...)
	}
	r.floor("MPT-replay-sets-state", n, 1)
}

// ruleSnapshotRecordKeepsLogEnd (C04, C09): recording a locally generated
// snapshot (ILogDB.SaveSnapshots) does not touch the max-index record: the
// snapshot is taken from the applied state, the log continues past it.
func ruleSnapshotRecordKeepsLogEnd(e *Engine, r *Report) {
	ss := r.need("(*internal/logdb.db).saveSnapshots")
	// the writers of the max index: the cache setter and the KV put (db.setMaxIndex is a
	// wrapper around both and may be inlined)
	cs := r.need("(*internal/logdb.cache).setMaxIndex")
	put := r.need("(*internal/logdb.db).saveMaxIndex")
	if ss == nil || cs == nil || put == nil {
		return
	}
	reach := e.Reach([]*ssa.Function{ss}, nil)
	r.check(!reach[cs] && !reach[put], "WMC-maxindex-writers", "no writer of the max index is reachable from db.saveSnapshots", e.pos(ss.Pos()),
		"the logical end of the log is unchanged by a local snapshot record", "recording a local snapshot now rewrites the max-index record: entries persisted beyond the snapshot index are no longer returned after a restart")
}

// ruleRemoveNodeDataOrder (C09): the metadata of a removed replica (state,
// bootstrap, max index, snapshots) is deleted durably before its entries
// are: a crash in between must not leave a max-index record that claims
// entries which no longer exist.
func ruleRemoveNodeDataOrder(e *Engine, r *Report) {
	rnd := r.need("(*internal/logdb.db).removeNodeData")
	ret := r.need("(*internal/logdb.db).removeEntriesTo")
	commit := r.needMethod("internal/logdb/kv", "IKVStore", "CommitWriteBatch")
	if rnd == nil || ret == nil || commit == nil {
		return
	}
	n := 0
	isCommit := func(in ssa.Instruction) bool {
		c, ok := in.(*ssa.Call)
		return ok && e.IsMethodCall(c, commit)
	}
	for _, s := range e.SitesIn(rnd, ret) {
		n++
		o, _ := e.alwaysPrecededBy(s.(ssa.Instruction), isCommit, 0)
		okErr := true
		for _, cs := range e.MethodSitesIn(rnd, commit) {
			if cc, ok := cs.(*ssa.Call); ok && e.reachableFromErrEdgeOf(rnd, cc, s.(ssa.Instruction)) {
				okErr = false
			}
		}
		r.check(o && okErr, "MPT-remove-order", "removeNodeData deletes the entries only after the metadata batch was committed", e.ipos(s),
			"metadata (max index included) goes first", "the entries of a removed replica can be deleted before (or without) the committed metadata batch: after a crash the max-index record claims entries that no longer exist")
	}
	r.floor("MPT-remove-order", n, 1)
}

// ruleTanCompactionUpdate (C09): the marker record written by a Tan
// compaction carries a pseudo state (commit = compacted-to index, reserved
// term): it only moves the compaction watermarks and never re-points the
// node's entries, snapshot or state index.
func ruleTanCompactionUpdate(e *Engine, r *Report) {
	ui := r.need("(*internal/tan.db).updateIndex")
	isCU := r.need("internal/tan.isCompactionUpdate")
	if ui == nil || isCU == nil {
		return
	}
	notCompaction := reqBool("not a compaction marker (isCompactionUpdate is false)", func(v ssa.Value) bool {
		ex, ok := v.(*ssa.Extract)
		if !ok || ex.Index != 1 {
			return false
		}
		c, ok := ex.Tuple.(*ssa.Call)
		return ok && e.CallsTo(c, isCU)
	}, false)
	n := 0
	niT := e.Named("internal/tan", "nodeIndex")
	e.forEachInstrRegion(ui, 0, func(in ssa.Instruction) {
		switch x := in.(type) {
		case *ssa.Store:
			f, _, ok := fieldOfAddr(x.Addr)
			if !ok || niT == nil {
				return
			}
			if f.Name() != "state" && f.Name() != "snapshot" {
				return
			}
			if fa, ok := x.Addr.(*ssa.FieldAddr); !ok || !isPtrToNamed(fa.X.Type(), niT) {
				return
			}
			n++
			r.guard("GD-tan-compaction-marker", "nodeIndex."+f.Name()+" re-pointed in "+fname(in.Parent()), in, notCompaction)
		case *ssa.Call:
			sc := x.Call.StaticCallee()
			if sc == nil || sc.Name() != "update" || sc.Signature.Recv() == nil || !strings.HasSuffix(recvTypeName(sc.Signature.Recv().Type()), "tan.index") {
				return
			}
			n++
			r.guard("GD-tan-compaction-marker", "index.update (entries) in "+fname(in.Parent()), in, notCompaction)
		}
	})
	r.floor("GD-tan-compaction-marker", n, 3)
}

func isPtrToNamed(t types.Type, n *types.Named) bool {
	p, ok := t.(*types.Pointer)
	if !ok {
		return false
	}
	return types.Identical(p.Elem(), n)
}

// ruleBootstrapSorted (C02, C07): the bootstrap entries are generated from
// the member list in one canonical (sorted) order: the list every loop of
// bootstrap walks is the one that was sorted.
func ruleBootstrapSorted(e *Engine, r *Report) {
	bs := r.need("internal/raft.bootstrap")
	if bs == nil {
		return
	}
	var sorted ssa.Value
	forEachCall(bs, func(c ssa.CallInstruction) {
		sc := c.Common().StaticCallee()
		if sc == nil || sc.Pkg == nil || sc.Pkg.Pkg.Path() != "sort" || len(c.Common().Args) == 0 {
			return
		}
		if mi, ok := c.Common().Args[0].(*ssa.MakeInterface); ok {
			sorted = mi.X
		}
	})
	if !r.check(sorted != nil, "DET-bootstrap-sorted", "bootstrap sorts the member list", e.pos(bs.Pos()), "sorted by replica id", "bootstrap no longer sorts the member list: initial members generate their bootstrap entries in different orders") {
		return
	}
	n := 0
	forEachInstr(bs, func(in ssa.Instruction) {
		ia, ok := in.(*ssa.IndexAddr)
		if !ok || !types.Identical(ia.X.Type(), sorted.Type()) {
			return
		}
		n++
		sameVar := ia.X == sorted
		if a, ok := ia.X.(*ssa.UnOp); ok {
			if b, ok := sorted.(*ssa.UnOp); ok && a.X == b.X {
				if _, isAlloc := a.X.(*ssa.Alloc); isAlloc {
					sameVar = true
				}
			}
		}
		r.check(sameVar, "DET-bootstrap-sorted", "bootstrap walks the sorted member list #"+itoa(n), e.ipos(in),
			"entries and membership are generated in the canonical order", "bootstrap walks a member list that is not the one it sorted: replicas whose callers pass the members in different orders write different entries at the same index")
	})
	r.floor("DET-bootstrap-sorted", n, 2)
}

// ruleStreamValidatorLookahead (C14): the V2 stream validator checks a block
// only out of its own buffer and only while at least two full blocks are
// buffered: the last (possibly partial) block and the 16-byte tail can only
// be told apart at the end of the stream, so nothing that may contain them
// is ever validated as a block on arrival.
func ruleStreamValidatorLookahead(e *Engine, r *Report) {
	add := r.need("(*internal/rsm.v2validator).AddChunk")
	blockF := r.needField("internal/rsm", "v2validator", "block")
	if add == nil || blockF == nil {
		return
	}
	vb := r.helper("(*internal/rsm.v2validator).validateBlock")
	raw := e.Func("internal/rsm.validateBlock")
	lenOfBlock := func(v ssa.Value) bool {
		v = stripConv(v)
		c, ok := v.(*ssa.Call)
		if !ok {
			return false
		}
		b, ok := c.Call.Value.(*ssa.Builtin)
		return ok && b.Name() == "len" && len(c.Call.Args) == 1 && fieldV(blockF)(c.Call.Args[0])
	}
	n := 0
	forEachCall(add, func(s ssa.CallInstruction) {
		isV := false
		for _, g := range []*ssa.Function{vb, raw} {
			if g != nil {
				if c, ok := s.(*ssa.Call); ok && e.CallsTo(c, g) {
					isV = true
				}
			}
		}
		if !isV {
			return
		}
		n++
		r.guard("GD-validator-lookahead", "block validation in "+fname(add)+" #"+itoa(n), s.(ssa.Instruction),
			reqCmp("len(v.block) >= (two full blocks)", ">=", lenOfBlock, func(v ssa.Value) bool {
				_, isConst := v.(*ssa.Const)
				return !isConst // the block-size expression, not a literal such as 0
			}))
	})
	r.floor("GD-validator-lookahead", n, 1)
}

// ruleExternalFileSize (C14): the size recorded for an external snapshot
// file is the size of the file content (Stat, which follows links), the
// number of bytes the transport will read and send.
func ruleExternalFileSize(e *Engine, r *Report) {
	pf := r.need("(*internal/rsm.Files).PrepareFiles")
	fs := r.needField("raftpb", "SnapshotFile", "FileSize")
	if pf == nil || fs == nil {
		return
	}
	n := 0
	e.forEachInstrRegion(pf, 1, func(in ssa.Instruction) {
		st, ok := in.(*ssa.Store)
		if !ok {
			return
		}
		f, _, ok := fieldOfAddr(st.Addr)
		if !ok || f != fs {
			return
		}
		n++
		names := map[string]bool{}
		e.dependsOn(st.Val, func(x ssa.Value) bool {
			if c, ok := x.(*ssa.Call); ok {
				if c.Call.IsInvoke() {
					names[c.Call.Method.Name()] = true
				} else if sc := c.Call.StaticCallee(); sc != nil {
					names[sc.Name()] = true
				}
			}
			return false
		}, 0)
		r.check(names["Stat"] && !names["Lstat"], "DEP-external-file-size", "SnapshotFile.FileSize in PrepareFiles comes from Stat of the linked file", e.ipos(in),
			"the recorded size is the size of the content that will be sent", "the recorded size of an external file does not come from Stat (following links): for a linked file it is not the number of bytes that will be read and sent")
	})
	r.floor("DEP-external-file-size", n, 1)
}

// ruleChunkDescribesSnapshot (C15): every chunk built by the sender carries
// the index and term of the snapshot it belongs to (not of the message or
// the sender's current term), and the receiver's notification copies them
// back from the chunk.
func ruleChunkDescribesSnapshot(e *Engine, r *Report) {
	n := 0
	for _, fld := range []string{"Index", "Term"} {
		cf := r.needField("raftpb", "Chunk", fld)
		sf := r.needField("raftpb", "Snapshot", fld)
		if cf == nil || sf == nil {
			continue
		}
		for _, w := range e.FieldWrites(cf) {
			if (w.Kind != "init" && w.Kind != "store") || fnPkg(w.Fn) != e.pkgTypes("internal/transport") || !e.IsLive(outermostFn(w.Fn)) {
				continue
			}
			// zero initialisation of a literal is not a value
			if c, isC := w.Val.(*ssa.Const); isC && (c.Value == nil || c.Value.ExactString() == "0") {
				continue
			}
			n++
			ok := e.dependsOn(w.Val, func(v ssa.Value) bool { return fieldV(sf)(v) }, 0)
			r.check(ok, "DEP-chunk-describes-snapshot", "Chunk."+fld+" set in "+fname(w.Fn), e.ipos(w.Instr),
				"taken from the snapshot being sent", "a chunk's "+fld+" is not taken from the snapshot being sent: the receiver's InstallSnapshot notification describes a snapshot that does not exist")
		}
	}
	r.floor("DEP-chunk-describes-snapshot", n, 4)
}

// rulePoisonBlocking (C17): the poison chunk that ends a streaming job is
// delivered or the job is known to have failed/stopped: every select that
// sends on the job's channel has no default branch.
func rulePoisonBlocking(e *Engine, r *Report) {
	add := r.need("(*internal/transport.job).AddChunk")
	if add == nil {
		return
	}
	n := 0
	forEachInstr(add, func(in ssa.Instruction) {
		sel, ok := in.(*ssa.Select)
		if !ok {
			return
		}
		sends := false
		for _, st := range sel.States {
			if st.Dir == types.SendOnly {
				if f, _, ok := loadedField(st.Chan); ok && f.Name() == "ch" {
					sends = true
				}
			}
		}
		if !sends {
			return
		}
		n++
		r.check(sel.Blocking, "MPT-job-chunk-delivered", "send on job.ch in "+fname(add)+" #"+itoa(n)+" blocks until delivered, failed or stopped", e.ipos(in),
			"no default branch", "a chunk (the poison chunk included) is dropped when the job's window is full: the stream neither completes nor fails and the remote stays in the snapshot state")
	})
	r.floor("MPT-job-chunk-delivered", n, 1)
}

// ruleUpdateCarriesEntriesToSave (C19): every Update carries the entries
// that still have to be saved, whatever else it carries (a snapshot
// included): entries are handed out for apply only after they were handed
// out for persistence.
func ruleUpdateCarriesEntriesToSave(e *Engine, r *Report) {
	gu := r.helper("(*internal/raft.Peer).getUpdate")
	if gu == nil {
		gu = r.need("(*internal/raft.Peer).GetUpdate") // builder inlined into the exported entry
	}
	ets := r.need("(*internal/raft.entryLog).entriesToSave")
	fld := r.needField("raftpb", "Update", "EntriesToSave")
	if gu == nil || ets == nil || fld == nil {
		return
	}
	isStore := func(in ssa.Instruction) bool {
		st, ok := in.(*ssa.Store)
		if !ok {
			return false
		}
		f, _, ok := fieldOfAddr(st.Addr)
		return ok && f == fld && e.dependsOn(st.Val, e.callV(ets), 0)
	}
	res := e.findPath(gu, nil, func(in ssa.Instruction) bool { return e.isSuccessReturn(in) }, isStore, nil)
	r.check(!res.Found, "MPT-update-entries-to-save", "Peer.getUpdate sets EntriesToSave from entriesToSave() on every path", e.pos(gu.Pos()),
		"unconditional", "an Update can be produced without the entries that still have to be saved (e.g. when it carries a snapshot): committed entries among them are applied before they are persisted", res.Trace(e)...)
}

// ruleFirstIndexSnapshotFirst (C19): the first index of the raft log view is
// defined by the pending in-memory snapshot whenever there is one; the log
// reader's range is consulted only when there is none.
func ruleFirstIndexSnapshotFirst(e *Engine, r *Report) {
	fi := r.need("(*internal/raft.entryLog).firstIndex")
	gsi := r.need("(*internal/raft.inMemory).getSnapshotIndex")
	gr := r.needMethod("internal/raft", "ILogDB", "GetRange")
	if fi == nil || gsi == nil || gr == nil {
		return
	}
	n := 0
	forEachInstr(fi, func(in ssa.Instruction) {
		ret, ok := in.(*ssa.Return)
		if !ok {
			return
		}
		fromReader := e.dependsOn(retOperand(ret, 0), func(v ssa.Value) bool {
			c, ok := v.(*ssa.Call)
			return ok && e.IsMethodCall(c, gr)
		}, 1)
		if !fromReader {
			return
		}
		n++
		r.guard("GD-firstindex-snapshot", "firstIndex answered from the log reader's range", in,
			reqBool("there is no pending in-memory snapshot (getSnapshotIndex ok is false)", func(v ssa.Value) bool {
				ex, ok := v.(*ssa.Extract)
				if !ok || ex.Index != 1 {
					return false
				}
				c, ok := ex.Tuple.(*ssa.Call)
				return ok && e.CallsTo(c, gsi)
			}, false))
	})
	r.floor("GD-firstindex-snapshot", n, 1)
}

// ruleImportedAlwaysRecovered (C20): on the initial recovery an imported
// snapshot is always loaded into an on-disk state machine, whatever index
// the state machine reports: the import replaces the history.
func ruleImportedAlwaysRecovered(e *Engine, r *Report) {
	rr := r.need("(*internal/rsm.StateMachine).recoverRequired")
	imp := r.needField("raftpb", "Snapshot", "Imported")
	if rr == nil || imp == nil {
		return
	}
	var initP *ssa.Parameter
	for _, p := range rr.Params {
		if bt, ok := p.Type().Underlying().(*types.Basic); ok && bt.Kind() == types.Bool {
			initP = p
		}
	}
	if initP == nil {
		r.undecided("GD-imported-recovered", fname(rr), "initial-recovery flag parameter not found")
		return
	}
	r.returnsOnlyUnder("GD-imported-recovered", "recoverRequired answers false", rr, 0, false, nil,
		reqAny("not the initial recovery, or not an imported snapshot",
			reqBool("", func(v ssa.Value) bool { return v == ssa.Value(initP) }, false),
			reqBool("", fieldV(imp), false)))
}

// ruleTanRemoveAllFirst (C09, C20): when a node's data is removed from a Tan
// db (import, node removal) its index is cleared before anything asks which
// log files are still in use: otherwise the node's own old files stay
// referenced and its old entries come back after a reopen.
func ruleTanRemoveAllFirst(e *Engine, r *Report) {
	ral := r.need("(*internal/tan.db).removeAllLocked")
	ra := r.need("(*internal/tan.nodeIndex).removeAll")
	inUse := r.need("(*internal/tan.nodeIndex).fileInUse")
	if ral == nil || ra == nil || inUse == nil {
		return
	}
	isRA := func(in ssa.Instruction) bool {
		c, ok := in.(*ssa.Call)
		return ok && e.CallsTo(c, ra)
	}
	n := 0
	forEachCall(ral, func(s ssa.CallInstruction) {
		reach := false
		for _, g := range e.Callees(s) {
			if g == inUse || e.Reach([]*ssa.Function{g}, nil)[inUse] {
				reach = true
			}
		}
		if !reach {
			return
		}
		n++
		o, _ := e.alwaysPrecededBy(s.(ssa.Instruction), isRA, 0)
		r.check(o, "MPT-tan-removeall-first", "file-in-use query in removeAllLocked #"+itoa(n)+" runs after the node's index was cleared", e.ipos(s),
			"the removed node no longer pins its files", "removeAllLocked asks which files are in use before clearing the removed node's index: its own files stay in the manifest and its old entries return after a reopen")
	})
	// every path clears the index before the version edit is applied
	la := e.Func("(*internal/tan.versionSet).logAndApply")
	if la != nil {
		for _, s := range e.SitesIn(ral, la) {
			o, _ := e.alwaysPrecededBy(s.(ssa.Instruction), isRA, 0)
			r.check(o, "MPT-tan-removeall-first", "removeAllLocked clears the node's index before applying the version edit", e.ipos(s), "removeAll precedes logAndApply", "the version edit is applied without clearing the node's index first")
		}
	}
}

// ruleReadIndexRespIndex (C01, C06): the index sent back to a replica that
// forwarded a ReadIndex request is the confirmed read index itself, not a
// value capped by what the requester is known to have.
func ruleReadIndexRespIndex(e *Engine, r *Report) {
	typF := r.needField("raftpb", "Message", "Type")
	liF := r.needField("raftpb", "Message", "LogIndex")
	rir := r.needConst("raftpb", "ReadIndexResp")
	idxF := r.needField("internal/raft", "readStatus", "index")
	if typF == nil || liF == nil || rir == nil || idxF == nil {
		return
	}
	n := 0
	raftPkg := e.pkgTypes("internal/raft")
	for _, fn := range e.ScopeFuncs() {
		if fnPkg(fn) != raftPkg || !e.IsLive(fn) {
			continue
		}
		// message literals whose Type is ReadIndexResp, built by the leader from a readStatus
		forEachInstr(fn, func(in ssa.Instruction) {
			st, ok := in.(*ssa.Store)
			if !ok {
				return
			}
			f, base, ok := fieldOfAddr(st.Addr)
			if !ok || f != typF || !constV(rir)(st.Val) {
				return
			}
			// the LogIndex store into the same literal
			forEachInstr(fn, func(in2 ssa.Instruction) {
				st2, ok := in2.(*ssa.Store)
				if !ok {
					return
				}
				f2, base2, ok := fieldOfAddr(st2.Addr)
				if !ok || f2 != liF || base2 != base {
					return
				}
				// only the sites that answer from a readStatus (the confirmation path)
				if !e.dependsOn(st2.Val, func(v ssa.Value) bool { return fieldV(idxF)(v) }, 1) {
					return
				}
				n++
				r.check(fieldV(idxF)(stripConv(st2.Val)), "DEP-readindexresp-index", "ReadIndexResp.LogIndex in "+fname(fn)+" is the confirmed read index", e.ipos(in2),
					"the requester waits for exactly the index the leader recorded", "the index reported to the forwarding replica is computed from the confirmed read index instead of being it (e.g. capped by the requester's match): the requester may serve the read before it has applied an acknowledged write")
			})
		})
	}
	r.floor("DEP-readindexresp-index", n, 1)
}

// ruleHeartbeatMatchArg (C02): the commit index a heartbeat carries to a
// member is capped by that member's match: every caller of
// sendHeartbeatMessage passes the match of the remote it iterates over.
func ruleHeartbeatMatchArg(e *Engine, r *Report) {
	sendHB := r.need(raftT + "sendHeartbeatMessage")
	matchF := r.needField("internal/raft", "remote", "match")
	commitF := r.needField("raftpb", "Message", "Commit")
	committed := r.needField("internal/raft", "entryLog", "committed")
	if sendHB == nil || matchF == nil || commitF == nil || committed == nil {
		return
	}
	// which parameter is the match: the one that flows into Message.Commit through min(...)
	matchIdx := -1
	forEachInstr(sendHB, func(in ssa.Instruction) {
		st, ok := in.(*ssa.Store)
		if !ok {
			return
		}
		if f, _, ok := fieldOfAddr(st.Addr); ok && f == commitF {
			for pi, p := range sendHB.Params {
				if bt, ok := p.Type().Underlying().(*types.Basic); ok && bt.Kind() == types.Uint64 {
					if e.dependsOn(st.Val, func(v ssa.Value) bool { return v == ssa.Value(p) }, 0) && p.Name() != "to" {
						matchIdx = pi
					}
				}
			}
			// and the value is capped by the local commit index
			r.check(e.dependsOn(st.Val, func(v ssa.Value) bool { return fieldV(committed)(v) }, 1), "DEP-heartbeat-commit", "Heartbeat.Commit in sendHeartbeatMessage depends on the local commit index", e.ipos(in), "min(match, committed)", "the heartbeat commit no longer depends on the leader's commit index")
		}
	})
	if matchIdx < 0 {
		r.undecided("DEP-heartbeat-commit", fname(sendHB), "the parameter that caps Message.Commit was not found")
		return
	}
	n := 0
	for _, s := range e.CallerSites(sendHB) {
		args := s.Common().Args
		if matchIdx >= len(args) || !e.IsLive(s.Parent()) {
			continue
		}
		n++
		r.check(fieldV(matchF)(stripConv(args[matchIdx])), "DEP-heartbeat-commit", "sendHeartbeatMessage in "+fname(s.Parent())+" #"+itoa(n)+" is given the target's match", e.ipos(s),
			"the commit index sent never exceeds what the target is known to hold", "a heartbeat's commit index is not capped by the target's match ("+e.describeValue(args[matchIdx])+"): a member with a stale uncommitted tail commits and applies entries the leader never replicated to it")
	}
	r.floor("DEP-heartbeat-commit", n, 2)
}

// ruleRestoreFastForward (C02): an InstallSnapshot is skipped (only the
// commit index moves) exactly when the local log holds the snapshot's last
// entry - same index and same term - decided by matchTerm.
func ruleRestoreFastForward(e *Engine, r *Report) {
	restore := r.need(raftT + "restore")
	mt := r.need("(*internal/raft.entryLog).matchTerm")
	logRestore := r.need("(*internal/raft.entryLog).restore")
	if restore == nil || mt == nil || logRestore == nil {
		return
	}
	var isMatch VM = func(v ssa.Value) bool {
		ex, ok := v.(*ssa.Extract)
		if !ok || ex.Index != 0 {
			return false
		}
		c, ok := ex.Tuple.(*ssa.Call)
		return ok && e.CallsTo(c, mt)
	}
	n := 0
	forEachInstr(restore, func(in ssa.Instruction) {
		ret, ok := in.(*ssa.Return)
		if !ok || len(ret.Results) < 2 || !isNilConst(retOperand(ret, 1)) {
			return
		}
		cb, isC := isConstBool(retOperand(ret, 0))
		if !isC || cb {
			return
		}
		// a "not restored, no error" exit: either the snapshot is not newer than the commit
		// index (first guard of restore), or the log matches the snapshot's last entry
		committed := e.Field("internal/raft", "entryLog", "committed")
		n++
		r.guard("GD-restore-fastforward", "restore skipped in "+fname(restore)+" #"+itoa(n), in,
			reqAny("matchTerm(ss.Index, ss.Term) is true, or ss.Index <= committed",
				reqBool("", isMatch, true),
				reqCmp("", "<=", anyV(), fieldV(committed))))
	})
	r.floor("GD-restore-fastforward", n, 2)
	// and the log is replaced only when it does not match
	for _, s := range e.SitesIn(restore, logRestore) {
		r.guard("GD-restore-fastforward", "entryLog.restore in "+fname(restore), s.(ssa.Instruction), reqBool("matchTerm is false", isMatch, false))
	}
}

// ruleHeartbeatRespProducer (C06, C18): a HeartbeatResp - the message the
// leader counts as a read confirmation when it carries a hint - is built only
// in reply to a Heartbeat: only the Heartbeat cells of the handler table
// reach a function that builds one.
func ruleHeartbeatRespProducer(e *Engine, r *Report) {
	typF := r.needField("raftpb", "Message", "Type")
	hbr := r.needConst("raftpb", "HeartbeatResp")
	tbl, err := e.RaftHandlerTable()
	if typF == nil || hbr == nil || err != nil {
		return
	}
	n := 0
	raftPkg := e.pkgTypes("internal/raft")
	for _, fn := range e.ScopeFuncs() {
		if fnPkg(fn) != raftPkg || !e.IsLive(fn) {
			continue
		}
		forEachInstr(fn, func(in ssa.Instruction) {
			st, ok := in.(*ssa.Store)
			if !ok {
				return
			}
			f, _, ok := fieldOfAddr(st.Addr)
			if !ok || f != typF || !constV(hbr)(st.Val) {
				return
			}
			n++
			bad := ""
			for _, c := range e.CellsReaching(tbl, fn) {
				if c.Type != "Heartbeat" {
					bad += " " + c.State + "/" + c.Type
				}
			}
			r.check(bad == "", "WMC-heartbeatresp-producer", "HeartbeatResp built in "+fname(fn), e.ipos(in),
				"only in reply to a Heartbeat", "a HeartbeatResp (counted by the leader as a leadership confirmation when it carries a hint) is produced outside the Heartbeat handlers (reachable from"+bad+"): a replica the leader never asked, possibly a non-voting one, is counted towards the read quorum")
		})
	}
	r.floor("WMC-heartbeatresp-producer", n, 1)
}

// ruleConfigChangeNeverSkipped (C07): the "already in the on-disk state
// machine" test that turns an entry into a no-op is applied to user entries
// only: a membership change is applied to the membership whatever the
// on-disk index says (membership lives in the snapshot metadata, not in the
// user state machine).
func ruleConfigChangeNeverSkipped(e *Engine, r *Report) {
	he := r.need("(*internal/rsm.StateMachine).handleEntry")
	inInit := r.need("(*internal/rsm.StateMachine).entryInInitDiskSM")
	isCC := r.need("(*raftpb.Entry).IsConfigChange")
	if he == nil || inInit == nil || isCC == nil {
		return
	}
	n := 0
	e.forEachInstrRegion(he, 1, func(in ssa.Instruction) {
		ifi, ok := in.(*ssa.If)
		if !ok {
			return
		}
		hit := false
		for _, f := range expandFacts([]Fact{{ifi.Cond, true}}) {
			if e.callV(inInit)(f.V) {
				hit = true
			}
		}
		if !hit {
			return
		}
		n++
		r.guard("GD-cc-never-skipped", "on-disk-index skip test in "+fname(in.Parent())+" #"+itoa(n), in,
			reqBool("the entry is not a config change", e.callV(isCC), false))
	})
	r.floor("GD-cc-never-skipped", n, 1)
}

// ruleSnapshotJobExclusion (C08, C11): the snapshot worker pool never runs a
// recover job of a shard while another snapshot job of that shard (save,
// recover or stream) is in progress, never a save while any other is, and a
// stream never together with a save or a recover.
func ruleSnapshotJobExclusion(e *Engine, r *Report) {
	wp := "(*dragonboat.workerPool)."
	absent := func(fld string) Req {
		f := r.needField("dragonboat", "workerPool", fld)
		return reqBool("no "+fld+" job of the shard", func(v ssa.Value) bool {
			ex, ok := v.(*ssa.Extract)
			if !ok || ex.Index != 1 {
				return false
			}
			lk, ok := ex.Tuple.(*ssa.Lookup)
			return ok && lk.CommaOk && f != nil && fieldV(f)(lk.X)
		}, false)
	}
	for _, c := range []struct {
		fn   string
		maps []string
	}{
		{"canRecover", []string{"saving", "recovering", "streaming"}},
		{"canSave", []string{"saving", "recovering", "streaming"}},
		{"canStream", []string{"saving", "recovering"}},
	} {
		fn := r.need(wp + c.fn)
		if fn == nil {
			continue
		}
		var reqs []Req
		for _, m := range c.maps {
			reqs = append(reqs, absent(m))
		}
		r.returnsOnlyUnder("GD-snapshot-job-exclusion", fname(fn)+" answers true", fn, 0, true, nil, reqs...)
	}
}

// rulePointReadClamped (C09): the single-entry fast path of the plain
// format's iterate is taken only for an index inside the logical log
// (low <= maxIndex), like the ranged path, which clamps its upper bound.
func rulePointReadClamped(e *Engine, r *Report) {
	it := r.need("(*internal/logdb.plainEntries).iterate")
	ge := r.need("(*internal/logdb.plainEntries).getEntry")
	if it == nil || ge == nil {
		return
	}
	var maxP *ssa.Parameter
	for _, p := range it.Params {
		if p.Name() == "maxIndex" {
			maxP = p
		}
	}
	if maxP == nil {
		// identified by role: the parameter the ranged path clamps `high` with
		forEachInstr(it, func(in ssa.Instruction) {
			b, ok := in.(*ssa.BinOp)
			if !ok || b.Op != token.GTR {
				return
			}
			if add, ok := b.Y.(*ssa.BinOp); ok && add.Op == token.ADD {
				if p, ok := add.X.(*ssa.Parameter); ok {
					maxP = p
				}
			}
		})
	}
	if maxP == nil {
		r.undecided("GD-point-read-clamped", fname(it), "max index parameter not found")
		return
	}
	n := 0
	for _, g := range e.regionOf(it, 1) {
		for _, s := range e.SitesIn(g, ge) {
			n++
			if g == it {
				r.guard("GD-point-read-clamped", "point read in "+fname(it)+" #"+itoa(n), s.(ssa.Instruction),
					reqCmp("index <= maxIndex", "<=", anyV(), func(v ssa.Value) bool { return v == ssa.Value(maxP) }))
				continue
			}
			// the point read moved into a helper: every call of the helper from iterate sits behind the clamp
			for _, cs := range e.SitesIn(it, g) {
				r.guard("GD-point-read-clamped", "point read (via "+fname(g)+") in "+fname(it)+" #"+itoa(n), cs.(ssa.Instruction),
					reqCmp("index <= maxIndex", "<=", anyV(), func(v ssa.Value) bool { return v == ssa.Value(maxP) }))
			}
		}
	}
	r.floor("GD-point-read-clamped", n, 1)
}

// ruleTanSyncSameDB (C10, C04): when a Tan LogDB method writes through one
// db handle per update and syncs after the loop through a handle chosen
// earlier, all updates must provably go to the same db (the loop fail-stops
// when the collection key changes); otherwise every written db is synced.
func ruleTanSyncSameDB(e *Engine, r *Report) {
	write := r.need("(*internal/tan.db).write")
	dbSync := r.need("(*internal/tan.db).sync")
	key := r.need("(*internal/tan.collection).key")
	if write == nil || dbSync == nil || key == nil {
		return
	}
	n := 0
	for _, fn := range e.ScopeFuncs() {
		if fnPkg(fn) != e.pkgTypes("internal/tan") || !e.IsLive(fn) || fn.Signature.Recv() == nil || !strings.HasSuffix(fn.Signature.Recv().Type().String(), "tan.LogDB") {
			continue
		}
		ws := e.SitesIn(fn, write)
		ss := e.SitesIn(fn, dbSync)
		if len(ws) == 0 || len(ss) == 0 {
			continue
		}
		for _, w := range ws {
			wrecv := w.Common().Args[0]
			for _, s := range ss {
				srecv := s.Common().Args[0]
				if srecv == wrecv {
					continue
				}
				n++
				// a different handle value: the loop must assert a single collection key
				asserted := false
				forEachInstr(fn, func(in ssa.Instruction) {
					ifi, ok := in.(*ssa.If)
					if !ok {
						return
					}
					b, ok := ifi.Cond.(*ssa.BinOp)
					if !ok || (b.Op != token.NEQ && b.Op != token.EQL) {
						return
					}
					dep := func(v ssa.Value) bool { return e.dependsOn(v, e.callV(key), 0) }
					if !dep(b.X) || !dep(b.Y) {
						return
					}
					bad := ifi.Block().Succs[0]
					if b.Op == token.EQL {
						bad = ifi.Block().Succs[1]
					}
					for _, x := range bad.Instrs {
						if _, isP := x.(*ssa.Panic); isP {
							asserted = true
						}
						if c, ok := x.(*ssa.Call); ok && e.NoReturnCall(c) {
							asserted = true
						}
					}
				})
				r.check(asserted, "PAIR-tan-sync-same-db", "db.sync in "+fname(fn)+" through a handle other than the written one", e.ipos(s),
					"all updates of the call share one db (asserted by a fail-stop on a changing collection key)", "the method writes through per-update db handles but syncs only one handle chosen in the loop, without asserting that all updates go to the same db: records written to the other dbs are acknowledged without fsync")
			}
		}
	}
	_ = n
}
