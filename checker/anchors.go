package main

// anchors.go: rename tolerance for function anchors. Rules name internal
// functions (r.need / e.Func). A behaviour-preserving rename would otherwise
// fail closed with UNDECIDED ANCHOR. anchors.json (generated from the pinned
// tree by `dbcheck -survey anchors`) records, for every function a rule
// asked for, its receiver type, signature and the set of callees. When a
// name no longer resolves, the unique function of the same package with the
// same receiver and signature whose callee set is most similar (Jaccard >=
// 0.6, and clearly ahead of the runner-up) and which is not itself an
// anchored name is taken as the renamed function; the evidence notes the
// substitution. Anything ambiguous stays unresolved (fails closed).

import (
	_ "embed"
	"encoding/json"
	"fmt"
	"go/types"
	"os"
	"sort"
	"strings"

	"golang.org/x/tools/go/ssa"
)

//go:embed anchors.json
var anchorsJSON []byte

type anchorDesc struct {
	Pkg     string   `json:"pkg"`
	Recv    string   `json:"recv"`
	Sig     string   `json:"sig"`
	Callees []string `json:"callees"`
}

var anchorTable map[string]anchorDesc

func loadAnchors() {
	if anchorTable != nil {
		return
	}
	anchorTable = map[string]anchorDesc{}
	_ = json.Unmarshal(anchorsJSON, &anchorTable)
}

func (e *Engine) describeAnchor(f *ssa.Function) anchorDesc {
	d := anchorDesc{}
	if p := fnPkg(f); p != nil {
		d.Pkg = p.Path()
	}
	if r := f.Signature.Recv(); r != nil {
		d.Recv = short(r.Type().String())
	}
	// parameter and result types only (names may change)
	var ps, rs []string
	if r := f.Signature.Recv(); r != nil {
		// the receiver counts as the first parameter: a method turned into a
		// plain function taking the former receiver (or the reverse) keeps it
		ps = append(ps, short(r.Type().String()))
	}
	for i := 0; i < f.Signature.Params().Len(); i++ {
		ps = append(ps, short(f.Signature.Params().At(i).Type().String()))
	}
	for i := 0; i < f.Signature.Results().Len(); i++ {
		rs = append(rs, short(f.Signature.Results().At(i).Type().String()))
	}
	d.Sig = "(" + strings.Join(ps, ",") + ")(" + strings.Join(rs, ",") + ")"
	set := map[string]bool{}
	forEachCall(f, func(c ssa.CallInstruction) {
		cc := c.Common()
		if cc.IsInvoke() {
			set["invoke:"+cc.Method.Name()] = true
			return
		}
		if sc := cc.StaticCallee(); sc != nil {
			set[fname(sc)] = true
		}
	})
	for k := range set {
		d.Callees = append(d.Callees, k)
	}
	sort.Strings(d.Callees)
	return d
}

func jaccard(a, b []string) float64 {
	if len(a) == 0 && len(b) == 0 {
		return 1
	}
	sa := map[string]bool{}
	for _, x := range a {
		sa[x] = true
	}
	inter, union := 0, len(sa)
	for _, x := range b {
		if sa[x] {
			inter++
		} else {
			union++
		}
	}
	return float64(inter) / float64(union)
}

// renamedAnchor tries to find the function that used to be called name.
func (e *Engine) renamedAnchor(name string) *ssa.Function {
	loadAnchors()
	want, ok := anchorTable[name]
	if !ok || strings.Contains(name, "$") {
		return nil
	}
	if e.renamed == nil {
		e.renamed = map[string]*ssa.Function{}
	}
	if f, ok := e.renamed[name]; ok {
		return f
	}
	var best, second float64
	var bestF *ssa.Function
	for _, f := range e.ModFuncs {
		if _, anchored := anchorTable[fname(f)]; anchored {
			continue // still present under an anchored name of its own
		}
		d := e.describeAnchor(f)
		if d.Pkg != want.Pkg || d.Sig != want.Sig {
			continue
		}
		if d.Recv != want.Recv && d.Recv != "" && want.Recv != "" {
			continue // both are methods, of different types
		}
		j := jaccard(d.Callees, want.Callees)
		if j > best {
			second, best, bestF = best, j, f
		} else if j > second {
			second = j
		}
	}
	if bestF != nil && best >= 0.6 && best-second >= 0.2 {
		e.renamed[name] = bestF
		e.RenameNotes = append(e.RenameNotes, fmt.Sprintf("anchor %s no longer resolves; %s has the same receiver, signature and callees (similarity %.2f) and is used in its place", name, fname(bestF), best))
		return bestF
	}
	e.renamed[name] = nil
	return nil
}

// dumpAnchors writes the descriptor table for the names in requested.
func (e *Engine) dumpAnchors(names []string) {
	out := map[string]anchorDesc{}
	for _, n := range names {
		if f := e.byName[n]; f != nil && !strings.Contains(n, "$") {
			out[n] = e.describeAnchor(f)
		}
	}
	b, _ := json.MarshalIndent(out, "", " ")
	_, _ = os.Stdout.Write(b)
}

// ---------------------------------------------------------------------------
// fields

type fieldDesc struct {
	Index int    `json:"index"`
	Type  string `json:"type"`
}

//go:embed anchor_fields.json
var anchorFieldsJSON []byte

var anchorFieldTable map[string]fieldDesc

func loadFieldAnchors() {
	if anchorFieldTable != nil {
		return
	}
	anchorFieldTable = map[string]fieldDesc{}
	_ = json.Unmarshal(anchorFieldsJSON, &anchorFieldTable)
}

// renamedField: pkg.typ.field no longer exists; if the struct still has, at
// the recorded position, a field of the recorded type whose name is not an
// anchored field name of that struct, that field is the renamed one.
func (e *Engine) renamedField(pkg, typ, field string) *types.Var {
	loadFieldAnchors()
	key := pkg + "." + typ + "." + field
	want, ok := anchorFieldTable[key]
	if !ok {
		return nil
	}
	n := e.Named(pkg, typ)
	if n == nil {
		return nil
	}
	st, ok := n.Underlying().(*types.Struct)
	if !ok || want.Index >= st.NumFields() {
		return nil
	}
	f := st.Field(want.Index)
	if short(f.Type().String()) != want.Type {
		return nil
	}
	if _, anchored := anchorFieldTable[pkg+"."+typ+"."+f.Name()]; anchored {
		return nil
	}
	e.RenameNotes = append(e.RenameNotes, fmt.Sprintf("anchored field %s no longer resolves; %s (same struct position and type) is used in its place", key, f.Name()))
	return f
}
