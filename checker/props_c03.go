package main

import (
	"go/token"
	"go/types"

	"golang.org/x/tools/go/ssa"
)

func init() {
	register(&Property{
		ID:          "C03",
		Explanation: "Decides structural necessary conditions of election safety: every writer of raft.term/vote/state is one of the classified shapes (reset on term change, guarded grant, self-vote after term+1, load at launch, become* family); the vote grant is guarded by can-grant AND log-up-to-date and the can-grant predicate reads the stored vote; leadership is assumed only under a quorum comparison of the vote tally (or single-node quorum); non-voting vote responses are dropped before the tally; no campaign while a committed config change is unapplied; response messages from unknown senders are dropped. Does not decide at-most-one-leader over schedules. A network message reaches a node only when addressed to its replica id; progress-on-acknowledgement and fsync-accumulator rules are borrowed.",
		NotCovered:  "election safety over message schedules; vote durability across restart (C04/C10 clauses)",
		Run:         runC03,
	})
}

const raftT = "(*internal/raft.raft)."

func runC03(e *Engine, r *Report) {
	// borrowed mechanisms (session 6, round 8): leader completeness rests on match moving only on acknowledgements (C02); a vote survives a restart only if every record of a batch that needs an fsync gets one (C04)
	borrow(e, r, "C02", "WMC-match-ack")
	borrow(e, r, "C04", "LOOP-ACC")
	voteF := r.needField("internal/raft", "raft", "vote")
	termF := r.needField("internal/raft", "raft", "term")
	stateF := r.needField("internal/raft", "raft", "state")
	replicaIDF := r.needField("internal/raft", "raft", "replicaID")
	msgFrom := r.needField("raftpb", "Message", "From")
	stVote := r.needField("raftpb", "State", "Vote")
	stTerm := r.needField("raftpb", "State", "Term")
	if voteF == nil || termF == nil || stateF == nil || replicaIDF == nil || msgFrom == nil || stVote == nil || stTerm == nil {
		return
	}
	canGrant := r.helper(raftT + "canGrantVote")
	upToDate := r.need("(*internal/raft.entryLog).upToDate")
	reset := r.need(raftT + "reset")
	launch := r.need("internal/raft.Launch")

	// ---- WMW raft.vote: classify every writer by the shape of the value
	nv := 0
	for _, w := range e.FieldWrites(voteF) {
		if w.Kind == "init" {
			continue
		}
		nv++
		key := "raft.vote written in " + fname(w.Fn)
		val := stripConv(w.Val)
		switch {
		case intConstV(0)(val):
			// reset class: only when the term changes, together with the term
			r.guard("WMW-vote-reset", key+" (cleared)", w.Instr,
				reqCmp("raft.term != new term", "!=", fieldV(termF), anyV()))
			termStored := false
			for _, in := range w.Instr.Block().Instrs {
				if st, ok := in.(*ssa.Store); ok {
					if f, _, ok := fieldOfAddr(st.Addr); ok && f == termF {
						termStored = true
					}
				}
			}
			r.check(termStored, "WMW-vote-reset", key+" (cleared) with term store", e.ipos(w.Instr),
				"vote is cleared in the same block that stores the new term",
				"vote is cleared without storing a new term in the same block: a vote could be forgotten within a term")
		case fieldV(msgFrom)(val):
			reqs := []Req{}
			// the grant condition itself (whether spelled as canGrantVote(m) or inline):
			// no vote cast in this term yet, a repeated grant to the same
			// candidate, or a candidate of a higher term
			msgTermF := e.Field("raftpb", "Message", "Term")
			alts := []Req{
				reqCmp("", "==", fieldV(voteF), intConstV(0)),
				reqCmp("", "==", fieldV(voteF), fieldV(msgFrom)),
				reqCmp("", ">", fieldV(msgTermF), fieldV(termF)),
			}
			if canGrant != nil {
				alts = append(alts, reqBool("", e.callV(canGrant), true))
			}
			reqs = append(reqs, reqAny("the candidate may be granted the vote (no vote yet | same candidate | higher term)", alts...))
			if upToDate != nil {
				reqs = append(reqs, reqBool("log upToDate(m.LogIndex,m.LogTerm) is true", e.callV(upToDate), true))
			}
			r.guard("GD-vote-grant", key+" (grant to m.From)", w.Instr, reqs...)
		case fieldV(replicaIDF)(val):
			// self vote: dominated by reset(term+1)
			ok := false
			if reset != nil {
				for _, s := range e.SitesIn(w.Fn, reset) {
					if len(s.Common().Args) >= 2 && dominatesInstr(s, w.Instr) {
						if b, isBin := stripConv(s.Common().Args[1]).(*ssa.BinOp); isBin && b.Op == token.ADD &&
							fieldV(termF)(b.X) && intConstV(1)(b.Y) {
							ok = true
						}
					}
				}
			}
			r.check(ok, "WMW-vote-self", key+" (self vote)", e.ipos(w.Instr),
				"self vote is dominated by reset(term+1): one self vote per new term",
				"self vote is not preceded by a term increment through reset(term+1)")
		case fieldV(stVote)(val):
			// load of persisted state: every call-graph root above the writer is Launch
			okc := launch != nil
			if launch != nil {
				for c := range e.CallersClosure(w.Fn, func(f *ssa.Function) bool { return f == launch }) {
					if p := fnPkg(c); p == nil || !scopePkg(p.Path()) || c == launch {
						continue
					}
					if len(e.DirectCallers(c)) == 0 {
						okc = false // a root other than Launch
					}
				}
			}
			r.check(okc, "WMW-vote-load", key+" (persisted state)", e.ipos(w.Instr),
				"persisted vote is loaded only on the Launch path",
				"persisted vote is (re)loaded from a path other than Launch")
		default:
			r.bad("WMW-vote", key+" (unclassified)", e.ipos(w.Instr),
				"unclassified writer of raft.vote: value "+e.describeValue(w.Val)+" is none of {NoNode on term change, m.From under grant guard, own id after term+1, persisted state at launch}")
		}
	}
	r.floor("WMW-vote", nv, 4)

	// ---- DEP: the can-grant predicate reads the stored vote and compares it
	if canGrant != nil {
		dep := e.returnDependsOn(canGrant, isFieldLoad(voteF), 1)
		r.check(dep, "DEP-cangrant", fname(canGrant)+" depends on raft.vote", e.pos(canGrant.Pos()),
			"the grant predicate's result depends on the recorded vote",
			"the grant predicate no longer depends on raft.vote: a replica could vote twice in a term")
		// must not return constant true on all paths; and each disjunct that
		// makes it true is one of: vote==NoNode, vote==m.From, m.Term > r.term
		okShape := true
		forEachInstr(canGrant, func(in ssa.Instruction) {
			ret, ok := in.(*ssa.Return)
			if !ok {
				return
			}
			if cb, isC := isConstBool(retOperand(ret, 0)); isC && cb {
				// constant true return must be guarded by one of the disjunct facts
				fs := FactsAt(in)
				if !(hasCmpFact(fs, "==", fieldV(voteF), anyV()) || hasCmpFact(fs, ">", anyV(), fieldV(termF))) {
					okShape = false
				}
			}
		})
		ph := canGrantTrueEdges(e, canGrant, voteF, termF)
		r.check(okShape && ph, "DEP-cangrant", fname(canGrant)+" grants only on vote==none|vote==candidate|higher term", e.pos(canGrant.Pos()),
			"every way the predicate becomes true is a comparison of raft.vote or a higher message term",
			"the predicate can become true through a disjunct that is neither a comparison of raft.vote nor m.Term > r.term")
	}

	// ---- WMW raft.term
	nt := 0
	for _, w := range e.FieldWrites(termF) {
		if w.Kind == "init" {
			continue
		}
		nt++
		key := "raft.term written in " + fname(w.Fn)
		switch {
		case fieldV(stTerm)(stripConv(w.Val)):
			r.ok("WMW-term", key+" (persisted state)", e.ipos(w.Instr), "load of persisted term")
		default:
			// must be the reset shape: guarded by term != new and value is a parameter
			_, isParam := stripConv(w.Val).(*ssa.Parameter)
			g := hasCmpFact(FactsAt(w.Instr), "!=", fieldV(termF), anyV())
			r.check(isParam && g && w.Fn == reset, "WMW-term", key, e.ipos(w.Instr),
				"term is stored only by the reset step, under term != new term",
				"raft.term is written outside the reset step or without the term-change guard")
		}
	}
	r.floor("WMW-term", nt, 2)

	// every caller of reset passes a term that is r.term, r.term+1 or a
	// message/parameter term and never a smaller constant
	if reset != nil {
		for _, s := range e.CallerSites(reset) {
			if len(s.Common().Args) < 2 {
				continue
			}
			a := stripConv(s.Common().Args[1])
			ok := false
			switch x := a.(type) {
			case *ssa.Parameter:
				ok = true
			case *ssa.BinOp:
				ok = x.Op == token.ADD && fieldV(termF)(x.X) && intConstV(1)(x.Y)
			default:
				ok = fieldV(termF)(a)
			}
			r.check(ok, "WMW-term", "reset term argument in "+fname(s.Parent()), e.ipos(s),
				"reset is called with the current term, term+1 or a received term",
				"reset is called with an unexpected term expression "+e.describeValue(a))
		}
	}

	// ---- WMW raft.state: only become*/toFollowerState family + construction
	ns := 0
	stateConsts := map[string]bool{}
	for _, w := range e.FieldWrites(stateF) {
		if w.Kind == "init" {
			continue
		}
		ns++
		c, isConst := stripConv(w.Val).(*ssa.Const)
		name := ""
		if isConst {
			name = constNameByVal(e.pkgTypes("internal/raft"), e.Named("internal/raft", "State"), c)
		}
		stateConsts[name] = true
		key := "raft.state=" + name + " in " + fname(w.Fn)
		// a state store must be followed (on every path to return) by reset
		okReset := false
		if reset != nil {
			res := e.findPath(w.Fn, w.Instr, isReturn, func(in ssa.Instruction) bool {
				c, ok := in.(*ssa.Call)
				return ok && e.CallsTo(c, reset)
			}, nil)
			okReset = !res.Found
		}
		// construction in newRaft is exempt (state assigned before first use)
		if fname(w.Fn) == "internal/raft.newRaft" {
			okReset = true
		}
		r.check(isConst && name != "" && okReset, "WMW-state", key, e.ipos(w.Instr),
			"role store of a constant role followed by reset on every path",
			"raft.state stored with a non-constant role or without the reset that clears votes/readIndex/pending change")
	}
	r.floor("WMW-state", ns, 4)

	// ---- becomeLeader only under a quorum comparison
	becomeLeader := r.need(raftT + "becomeLeader")
	quorum := r.need(raftT + "quorum")
	tally := r.need(raftT + "handleVoteResp")
	single := r.need(raftT + "isSingleNodeQuorum")
	nonVotings := r.needField("internal/raft", "raft", "nonVotings")
	if becomeLeader != nil && quorum != nil && tally != nil && single != nil {
		n := 0
		for _, s := range e.CallerSites(becomeLeader) {
			n++
			key := "becomeLeader called in " + fname(s.Parent())
			r.guard("GD-leader", key, s.(ssa.Instruction), reqAny("vote tally == quorum() or single-node quorum",
				reqCmp("", "==", e.callV(tally), e.callV(quorum)),
				reqCmp("", ">=", e.callV(tally), e.callV(quorum)),
				reqBool("", e.callV(single), true)))
		}
		r.floor("GD-leader", n, 2)
	}
	// quorum() is numVoting/2+1 shaped: depends on remotes and witnesses, is a
	// strict majority expression (x/2 + 1)
	if quorum != nil {
		okq := false
		forEachInstr(quorum, func(in ssa.Instruction) {
			if ret, ok := in.(*ssa.Return); ok {
				if b, ok := ret.Results[0].(*ssa.BinOp); ok && b.Op == token.ADD && intConstV(1)(b.Y) {
					if q, ok := b.X.(*ssa.BinOp); ok && q.Op == token.QUO && intConstV(2)(q.Y) {
						okq = true
					}
				}
			}
		})
		r.check(okq, "SHAPE-quorum", fname(quorum)+" is n/2+1", e.pos(quorum.Pos()),
			"quorum is the strict majority n/2+1 of the voting-member count",
			"quorum is no longer of the form n/2+1")
	}
	// the tally is reached from response handlers only when the sender is not
	// a non-voting member
	if tally != nil && nonVotings != nil {
		// floor: both kinds of vote response (vote, pre-vote) reach a checked tally
		// site - counted by handler role, so that merging the two handlers' common
		// tail into one helper does not change the count
		roles := map[string]bool{}
		tblT, _ := e.RaftHandlerTable()
		for _, s := range e.CallerSites(tally) {
			// calls with the own replica id (self vote) are exempt
			if len(s.Common().Args) >= 2 && fieldV(replicaIDF)(s.Common().Args[1]) {
				continue
			}
			if tblT != nil {
				for _, c := range e.CellsReaching(tblT, s.Parent()) {
					if c.Type == "RequestVoteResp" || c.Type == "RequestPreVoteResp" {
						roles[c.Type] = true
					}
				}
			}
			fs := FactsAt(s.(ssa.Instruction))
			ok := false
			for _, f := range fs {
				// `_, ok := r.nonVotings[m.From]` is Lookup with commaok; fact: extract#1 false
				if ex, isEx := f.V.(*ssa.Extract); isEx && ex.Index == 1 && !f.Pol {
					if lk, isL := ex.Tuple.(*ssa.Lookup); isL && fieldV(nonVotings)(lk.X) {
						ok = true
					}
				}
			}
			r.check(ok, "GD-tally", "vote tally in "+fname(s.Parent())+" requires sender not in nonVotings", e.ipos(s),
				"votes of non-voting members are dropped before the tally",
				"a vote response reaches the tally without the non-voting sender test")
		}
		r.floor("GD-tally", len(roles), 2)
	}

	// ---- no campaign with an unapplied config change
	hasCC := r.need(raftT + "hasConfigChangeToApply")
	tbl, err := e.RaftHandlerTable()
	if err != nil {
		r.undecided("TBL", "raft.handlers", err.Error())
		return
	}
	ruleCampaignGuard(e, r, tbl)
	ruleElectionMessageGuard(e, r)
	if hasCC != nil {
		// the predicate compares committed with applied
		committed := r.needField("internal/raft", "entryLog", "committed")
		if committed != nil {
			r.check(e.returnDependsOn(hasCC, isFieldLoad(committed), 1), "DEP-campaign", fname(hasCC)+" depends on entryLog.committed", e.pos(hasCC.Pos()),
				"the pending-config-change test reads the commit index", "the pending-config-change test no longer reads the commit index")
			ruleCampaignPredicate(e, r)
		}
	}

	// ---- hard-state comparisons cover term, vote and commit (a vote-only
	// change must be seen as a change, or it is never persisted)
	checkStateComparisons(e, r)

	// ---- Peer.Handle: responses only from known members
	peerHandle := r.need("(*internal/raft.Peer).Handle")
	raftHandle := r.need(raftT + "Handle")
	if peerHandle != nil && raftHandle != nil {
		remotes := r.needField("internal/raft", "raft", "remotes")
		witnesses := r.needField("internal/raft", "raft", "witnesses")
		isReq := r.need("internal/raft.isResponseMessageType")
		n := 0
		for _, s := range e.SitesIn(peerHandle, raftHandle) {
			n++
			inMap := func(v ssa.Value) bool {
				ex, ok := v.(*ssa.Extract)
				if !ok || ex.Index != 1 {
					return false
				}
				lk, ok := ex.Tuple.(*ssa.Lookup)
				return ok && (fieldV(remotes)(lk.X) || fieldV(nonVotings)(lk.X) || fieldV(witnesses)(lk.X)) && fieldV(msgFrom)(lk.Index)
			}
			alts := []Req{reqBool("", inMap, true)}
			if isReq != nil {
				alts = append(alts, reqBool("", e.callV(isReq), false))
			}
			r.guard("GD-known-sender", "raft.Handle in "+fname(peerHandle), s.(ssa.Instruction),
				reqAny("sender is a known member (remotes/nonVotings/witnesses[m.From]) or the message is not a response", alts...))
		}
		r.floor("GD-known-sender", n, 1)
	}
	ruleSingleNodeQuorum(e, r)
	ruleRaftPredicates(e, r, "upToDate", "dropRequestVote", "termNotMatched")
	ruleSelfRemoved(e, r)
	borrow(e, r, "C04", "TBL-free-order", "MPT-persist-before-send", "MPT-persist-before-ack")
	borrow(e, r, "C08", "MPT-restore-replaces")
	ruleTallyDistinct(e, r)
	ruleReplaySetsState(e, r)
	ruleNotifyApplied(e, r)
	ruleResponseTypes(e, r, "RequestVoteResp")
	ruleMessageAddressed(e, r)
	ruleTanStateCache(e, r)
}

// canGrantTrueEdges: in the boolean phi that forms the predicate's result,
// every edge that contributes `true` comes from an equality test of raft.vote
// or from the strict comparison (message term > raft.term).
func canGrantTrueEdges(e *Engine, fn *ssa.Function, voteF, termF *types.Var) bool {
	msgTerm := e.Field("raftpb", "Message", "Term")
	okDisjunct := func(c ssa.Value) bool {
		fs := []Fact{{c, true}}
		return hasCmpFact(fs, "==", fieldV(voteF), anyV()) ||
			(msgTerm != nil && hasCmpFact(fs, ">", fieldV(msgTerm), fieldV(termF)))
	}
	ok := true
	n := 0
	forEachInstr(fn, func(in ssa.Instruction) {
		ret, isRet := in.(*ssa.Return)
		if !isRet {
			return
		}
		v := retOperand(ret, 0)
		ph, isPhi := v.(*ssa.Phi)
		if !isPhi {
			if !okDisjunct(v) {
				ok = false
			}
			n++
			return
		}
		for i, ed := range ph.Edges {
			if cb, isC := isConstBool(ed); isC {
				if !cb {
					continue
				}
				pred := ph.Block().Preds[i]
				if len(pred.Instrs) == 0 {
					ok = false
					continue
				}
				ifi, isIf := pred.Instrs[len(pred.Instrs)-1].(*ssa.If)
				if !isIf || !okDisjunct(ifi.Cond) {
					ok = false
				}
				n++
			} else {
				if !okDisjunct(ed) {
					ok = false
				}
				n++
			}
		}
	})
	return ok && n > 0
}

// checkStateComparisons: sibling rule over every function that decides
// "did the hard state change?" by comparing fields of two pb.State values: if
// it compares Term it must also compare Vote and Commit (directly or through
// a callee that does).
func checkStateComparisons(e *Engine, r *Report) {
	fT := r.needField("raftpb", "State", "Term")
	fV := r.needField("raftpb", "State", "Vote")
	fC := r.needField("raftpb", "State", "Commit")
	if fT == nil || fV == nil || fC == nil {
		return
	}
	cmpFields := func(fn *ssa.Function) map[*types.Var]bool {
		out := map[*types.Var]bool{}
		forEachInstr(fn, func(in ssa.Instruction) {
			b, ok := in.(*ssa.BinOp)
			if !ok || cmpString(b.Op) == "" {
				return // ==, != and the ordering comparisons: any test of "did the hard state change"
			}
			fx, _, ok1 := loadedField(stripConv(b.X))
			fy, _, ok2 := loadedField(stripConv(b.Y))
			if ok1 && ok2 && fx == fy && (fx == fT || fx == fV || fx == fC) {
				out[fx] = true
			}
		})
		return out
	}
	n := 0
	for _, fn := range e.ScopeFuncs() {
		if !e.IsLive(fn) && fname(fn) != "raftpb.IsStateEqual" {
			continue
		}
		cf := cmpFields(fn)
		if len(cf) == 0 {
			continue
		}
		n++
		missing := ""
		for _, f := range []*types.Var{fT, fV, fC} {
			if !cf[f] {
				isEq := e.PkgFunc("raftpb", "IsStateEqual")
				fullToo := isEq != nil && len(e.SitesIn(fn, isEq)) > 0 && fnPkg(fn) == e.pkgTypes("internal/tan")
				if f == fC && (fname(fn) == "internal/tan.stateSyncChange" || fullToo) {
					r.exception("internal/tan.stateSyncChange compares Term and Vote only: it decides whether an fsync is needed, and a commit-only change need not be synced (the commit index is re-learned from the leader)")
					continue
				}
				missing += " " + f.Name()
			}
		}
		r.check(missing == "", "TBL-state-compare", "hard-state comparison in "+fname(fn), e.pos(fn.Pos()),
			"the comparison covers Term, Vote and Commit",
			"the hard-state comparison ignores"+missing+": a change of only that field is not treated as a change (not emitted / not persisted)")
	}
	r.floor("TBL-state-compare", n, 1)
}
