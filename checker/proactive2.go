package main

// Proactive rules of session 6 (second anchor-gap survey): mechanisms inside
// the anchored files in which no obligation of any property had a position.

import (
	"fmt"
	"go/token"
	"go/types"

	"golang.org/x/tools/go/ssa"
)

func nilV() VM { return func(v ssa.Value) bool { return isNilConst(stripConv(v)) } }

// leafOrigins: the parameters, call results and parameter-field loads a value
// is computed from (data dependence inside its function, through local
// variables). Used to decide that two stored values denote the same thing.
func (e *Engine) leafOrigins(v ssa.Value) map[string]bool {
	out := map[string]bool{}
	e.dependsOn(v, func(x ssa.Value) bool {
		switch y := x.(type) {
		case *ssa.Parameter:
			// a struct / pointer parameter is only the base of field loads (which are origins of their own)
			if _, isBasic := y.Type().Underlying().(*types.Basic); isBasic {
				out["p:"+y.Name()] = true
			}
		case *ssa.Call:
			if _, isB := y.Call.Value.(*ssa.Builtin); !isB {
				out[fmt.Sprintf("call@%d", y.Pos())] = true
			}
		default:
			if k := exprKey(x); len(k) > 3 && (k[:3] == "*p:" || k[:2] == "p:") {
				out[k] = true
			}
		}
		return false
	}, 0)
	return out
}

func commonOrigin(a, b map[string]bool) string {
	for k := range a {
		if b[k] {
			return k
		}
	}
	return ""
}

// structFieldOfKind: the first field of the named struct satisfying pred.
func structFieldWhere(nt *types.Named, pred func(*types.Var) bool) *types.Var {
	if nt == nil {
		return nil
	}
	st, ok := nt.Underlying().(*types.Struct)
	if !ok {
		return nil
	}
	for i := 0; i < st.NumFields(); i++ {
		if pred(st.Field(i)) {
			return st.Field(i)
		}
	}
	return nil
}

// selectSendOn: the Select instructions of fn with a send state on a channel
// loaded from field ch, with the index of that state; and plain Send
// instructions on it.
func selectSendsOn(fn *ssa.Function, ch *types.Var) (sels []*ssa.Select, idx []int, sends []*ssa.Send) {
	onCh := func(v ssa.Value) bool { return fieldV(ch)(v) }
	forEachInstr(fn, func(in ssa.Instruction) {
		switch x := in.(type) {
		case *ssa.Select:
			for i, st := range x.States {
				if st.Dir == types.SendOnly && onCh(st.Chan) {
					sels = append(sels, x)
					idx = append(idx, i)
				}
			}
		case *ssa.Send:
			if onCh(x.Chan) {
				sends = append(sends, x)
			}
		}
	})
	return
}

func extractOfV(t ssa.Value, i int) VM {
	return func(v ssa.Value) bool {
		ex, ok := stripConv(v).(*ssa.Extract)
		return ok && ex.Tuple == t && ex.Index == i
	}
}

// ruleRequestAdmission (C12): how a request enters a pending table decides
// whether it can ever get its one result.
//   - single-slot tables fed through a channel (snapshot, config change): the
//     slot is filled only when it was empty, the table is open, and the
//     request message was really handed to the step worker; a request is
//     returned to the caller only when it sits in the slot; the key in the slot
//     is the key in the message (apply matches by key); results are delivered
//     only to the request whose key the caller names.
//   - proposals: the request is registered under the key of the queued entry,
//     with the identity (client id, series id, key) of that entry, before the
//     entry is queued; on the refused edges the registration is undone and no
//     request is returned.
//   - reads / log queries: a request is returned only when queued / slotted.
func ruleRequestAdmission(e *Engine, r *Report) {
	rule := "GD-request-admission"
	rsT := e.Named("dragonboat", "RequestState")
	keyF := r.needField("dragonboat", "RequestState", "key")
	if rsT == nil || keyF == nil {
		return
	}
	isRS := func(t types.Type) bool { return isPtrToNamed(t, rsT) }
	nonNilReqReturn := func(in ssa.Instruction) bool {
		ret, ok := in.(*ssa.Return)
		if !ok || len(ret.Results) == 0 || !isRS(ret.Results[0].Type()) {
			return false
		}
		return !isNilConst(stripConv(retOperand(ret, 0)))
	}
	n := 0
	for _, tn := range []string{"pendingSnapshot", "pendingConfigChange"} {
		fn := r.need("(*dragonboat." + tn + ").request")
		pend := r.needField("dragonboat", tn, "pending")
		ch := structFieldWhere(e.Named("dragonboat", tn), func(f *types.Var) bool {
			_, ok := f.Type().Underlying().(*types.Chan)
			return ok
		})
		if fn == nil || pend == nil {
			continue
		}
		if ch == nil {
			r.undecided("ANCHOR", tn+" channel field", "the table no longer has a channel to the step worker")
			continue
		}
		sels, idxs, sends := selectSendsOn(fn, ch)
		var stores []*ssa.Store
		forEachInstr(fn, func(in ssa.Instruction) {
			if st, ok := in.(*ssa.Store); ok && isStoreToField(pend)(in) && !isNilConst(stripConv(st.Val)) {
				stores = append(stores, st)
			}
		})
		r.check(len(stores) > 0, rule, tn+".request fills the slot", e.pos(fn.Pos()), "slot store found", "request() no longer stores the request into the table's slot: apply/gc/close cannot find it")
		for i, st := range stores {
			n++
			c := fmt.Sprintf("%s.request fills the slot #%d", tn, i+1)
			r.guard(rule, c, st,
				reqCmp("the slot is empty (one pending request at a time)", "==", fieldV(pend), nilV()),
				reqCmp("the table is open (channel not cleared by close)", "!=", fieldV(ch), nilV()))
			// handed to the step worker
			sent := false
			for _, s := range sends {
				if dominatesInstr(s, st) {
					sent = true
				}
			}
			if !sent {
				for k, sel := range sels {
					if ok, _ := e.guardedOnAllPaths(st, reqCmp("", "==", extractOfV(sel, 0), intConstV(int64(idxs[k])))); ok {
						sent = true
					}
				}
			}
			r.check(sent, rule, c+" only after the message was handed to the step worker", e.ipos(st),
				"the slot store is reached only through the successful send", "the slot is filled on a path on which the request message was not sent to the step worker: the request waits for its timeout and blocks the table meanwhile")
			// key agreement
			al := rootAlloc(st.Val)
			if al == nil {
				if a, ok := stripConv(st.Val).(*ssa.Alloc); ok {
					al = a
				}
			}
			var keyVals []ssa.Value
			if al != nil {
				forEachInstr(fn, func(in ssa.Instruction) {
					s2, ok := in.(*ssa.Store)
					if !ok {
						return
					}
					if f, base, ok := fieldOfAddr(s2.Addr); ok && f == keyF && rootAlloc(base) == al {
						keyVals = append(keyVals, s2.Val)
					}
				})
			}
			agree := len(keyVals) > 0
			for _, kv := range keyVals {
				ko := e.leafOrigins(kv)
				okOne := false
				for _, sel := range sels {
					for _, stt := range sel.States {
						if stt.Dir == types.SendOnly && stt.Send != nil && commonOrigin(ko, e.leafOrigins(stt.Send)) != "" {
							okOne = true
						}
					}
				}
				for _, s := range sends {
					if commonOrigin(ko, e.leafOrigins(s.X)) != "" {
						okOne = true
					}
				}
				if !okOne {
					agree = false
				}
			}
			r.check(agree, rule, c+" with the key carried by the message", e.ipos(st),
				"RequestState.key and the message key come from the same value", "the key stored in the pending request is not the key carried by the message sent to the step worker: the apply notification never matches and the request can only time out")
		}
		res := e.findPath(fn, nil, nonNilReqReturn, isStoreToField(pend), nil)
		r.check(!res.Found, rule, tn+".request returns a request only when it sits in the slot", e.pos(fn.Pos()),
			"every accepting return follows the slot store", "request() can return a request that was not put into the slot: nobody will ever complete it", res.Trace(e)...)
	}
	// results by key: in every method of the single-slot tables that is told a key
	terminal := map[*ssa.Function]bool{}
	for _, nme := range []string{"notify", "dropped", "committed"} {
		if f := e.Func("(*dragonboat.RequestState)." + nme); f != nil {
			terminal[f] = true
		}
	}
	if f := e.Func("(*dragonboat.pendingSnapshot).notify"); f != nil {
		terminal[f] = true
	}
	nk := 0
	for _, tn := range []string{"pendingSnapshot", "pendingConfigChange"} {
		nt := e.Named("dragonboat", tn)
		if nt == nil {
			continue
		}
		for _, fn := range e.ScopeFuncs() {
			rv := fn.Signature.Recv()
			if rv == nil || !isPtrToNamed(rv.Type(), nt) || fn.Parent() != nil || !e.IsLive(fn) {
				continue
			}
			var keyParams []*ssa.Parameter
			for _, p := range fn.Params[1:] {
				if b, ok := p.Type().Underlying().(*types.Basic); ok && b.Kind() == types.Uint64 && p.Name() == "key" {
					keyParams = append(keyParams, p)
				}
			}
			if len(keyParams) == 0 {
				continue
			}
			kp := keyParams[0]
			forEachCall(fn, func(s ssa.CallInstruction) {
				sc := s.Common().StaticCallee()
				if sc == nil || !terminal[sc] || sc == fn {
					return
				}
				nk++
				r.guard(rule, "result delivered in "+fname(fn)+" ("+sc.Name()+")", s.(ssa.Instruction),
					reqCmp("the pending request's key equals the key named by the caller", "==", fieldV(keyF), func(v ssa.Value) bool { return stripConv(v) == ssa.Value(kp) }))
			})
		}
	}
	r.floor(rule+" (keyed results)", nk, 4)
	// ---- proposals
	if fn := r.need("(*dragonboat.proposalShard).propose"); fn != nil {
		pend := r.needField("dragonboat", "proposalShard", "pending")
		eq := r.need("(*dragonboat.entryQueue).add")
		entT := e.Named("raftpb", "Entry")
		if pend != nil && eq != nil && entT != nil {
			// the map insert
			// an insert / delete site is the map operation itself or the call (in propose) of a
			// same-package helper that performs it; key and value are resolved to the call's arguments
			type insSite struct {
				at         ssa.Instruction
				Key, Value ssa.Value
			}
			var ins []insSite
			var dels []ssa.Instruction
			forEachInstr(fn, func(in ssa.Instruction) {
				switch x := in.(type) {
				case *ssa.MapUpdate:
					if fieldV(pend)(x.Map) {
						ins = append(ins, insSite{in, x.Key, x.Value})
					}
				case *ssa.Call:
					if b, ok := x.Call.Value.(*ssa.Builtin); ok && b.Name() == "delete" && len(x.Call.Args) == 2 && fieldV(pend)(x.Call.Args[0]) {
						dels = append(dels, in)
						return
					}
					g := x.Call.StaticCallee()
					if g == nil || len(g.Blocks) == 0 || fnPkg(g) != fnPkg(fn) {
						return
					}
					resolve := func(v ssa.Value) ssa.Value {
						sv := stripConv(v)
						for i, p := range g.Params {
							if sv == ssa.Value(p) && i < len(x.Call.Args) {
								return x.Call.Args[i]
							}
						}
						return v
					}
					forEachInstr(g, func(y ssa.Instruction) {
						switch z := y.(type) {
						case *ssa.MapUpdate:
							if fieldV(pend)(z.Map) {
								ins = append(ins, insSite{in, resolve(z.Key), resolve(z.Value)})
							}
						case *ssa.Call:
							if b, ok := z.Call.Value.(*ssa.Builtin); ok && b.Name() == "delete" && len(z.Call.Args) == 2 && fieldV(pend)(z.Call.Args[0]) {
								dels = append(dels, in)
							}
						}
					})
				}
			})
			adds := e.SitesIn(fn, eq)
			r.check(len(ins) == 1 && len(adds) == 1, rule, "proposalShard.propose registers once and queues once", e.pos(fn.Pos()), "one insert, one queue add", fmt.Sprintf("expected one insert into pending and one entryQueue.add, found %d and %d", len(ins), len(adds)))
			if len(ins) == 1 && len(adds) == 1 {
				n++
				mu := ins[0]
				add := adds[0]
				// order: registered before queued
				r.check(dominatesInstr(mu.at, add.(ssa.Instruction)), rule, "proposalShard.propose registers the request before the entry is queued", e.ipos(mu.at),
					"insert dominates entryQueue.add", "the entry is queued before the request is registered: the step/apply workers can complete the proposal before the table knows it, and the result is lost")
				// the queued entry
				var entVal ssa.Value
				for _, a := range add.Common().Args {
					if types.Identical(a.Type(), entT) {
						entVal = a
					}
				}
				entField := func(name string) []ssa.Value {
					var out []ssa.Value
					if entVal == nil {
						return nil
					}
					ld, ok := stripConv(entVal).(*ssa.UnOp)
					if !ok {
						return nil
					}
					al := rootAlloc(ld.X)
					st, _ := entT.Underlying().(*types.Struct)
					if al == nil || st == nil {
						return nil
					}
					for i := 0; i < st.NumFields(); i++ {
						if st.Field(i).Name() == name {
							out = storesIntoPath(al, []int{i})
						}
					}
					return out
				}
				originsOf := func(vs []ssa.Value) map[string]bool {
					o := map[string]bool{}
					for _, v := range vs {
						for k := range e.leafOrigins(v) {
							o[k] = true
						}
					}
					return o
				}
				// the map key is the entry's key
				ko := originsOf(entField("Key"))
				r.check(commonOrigin(e.leafOrigins(mu.Key), ko) != "", rule, "proposalShard.propose registers under the queued entry's Key", e.ipos(mu.at),
					"map key and Entry.Key come from the same value", "the request is registered under a key that is not the key of the queued entry: applied/dropped/committed look it up by the entry's key and never find it")
				// identity of the registered request
				reqAl := rootAlloc(mu.Value)
				var reqBase ssa.Value = mu.Value
				for _, c := range [][2]string{{"key", "Key"}, {"clientID", "ClientID"}, {"seriesID", "SeriesID"}} {
					rf := r.needField("dragonboat", "RequestState", c[0])
					if rf == nil {
						continue
					}
					var vals []ssa.Value
					forEachInstr(fn, func(in ssa.Instruction) {
						s2, ok := in.(*ssa.Store)
						if !ok {
							return
						}
						if f, base, ok := fieldOfAddr(s2.Addr); ok && f == rf && (stripConv(base) == stripConv(reqBase) || (reqAl != nil && rootAlloc(base) == reqAl)) {
							vals = append(vals, s2.Val)
						}
					})
					eo := originsOf(entField(c[1]))
					okc := len(vals) > 0
					for _, v := range vals {
						if commonOrigin(e.leafOrigins(v), eo) == "" {
							okc = false
						}
					}
					r.check(okc, rule, "proposalShard.propose: RequestState."+c[0]+" is the queued entry's "+c[1], e.pos(fn.Pos()),
						"same source value", "the pending request's "+c[0]+" is not set from the value that goes into the queued entry's "+c[1]+": takeProposal compares them when the entry is applied, so the proposal can only time out (or a later request with the stale identity receives its result)")
				}
				// refused edges: no request returned, registration undone
				isDel := func(in ssa.Instruction) bool {
					for _, d := range dels {
						if d == in {
							return true
						}
					}
					return false
				}
				addRes := add.Value()
				if addRes != nil {
					for i, what := range []string{"added", "stopped"} {
						pol := i == 1 // stopped==true / added==false are the refused edges
						refused := reqBool(what, extractOfV(addRes, i), pol)
						// a path from the add to a return that crosses the refused edge but no delete
						res := e.findPath(fn, add.(ssa.Instruction), func(in ssa.Instruction) bool {
							if !isReturn(in) {
								return false
							}
							return e.holds(refused, FactsAt(in), 1)
						}, isDel, nil)
						r.check(!res.Found, rule, "proposalShard.propose undoes the registration when the queue refuses ("+what+")", e.ipos(add),
							"delete on every refused path", "the queue refused the entry but the request stays registered: it is pooled memory nobody owns, and a later entry with the same key would complete it", res.Trace(e)...)
						res2 := e.findPath(fn, add.(ssa.Instruction), func(in ssa.Instruction) bool {
							return nonNilReqReturn(in) && e.holds(refused, FactsAt(in), 1)
						}, nil, nil)
						r.check(!res2.Found, rule, "proposalShard.propose returns no request when the queue refuses ("+what+")", e.ipos(add),
							"nil request on every refused path", "a request is returned although its entry was never queued", res2.Trace(e)...)
					}
				}
			}
		}
	}
	// ---- reads: returned only when queued
	if fn := r.need("(*dragonboat.pendingReadIndex).read"); fn != nil {
		if qa := r.need("(*dragonboat.readIndexQueue).add"); qa != nil {
			adds := e.SitesIn(fn, qa)
			r.check(len(adds) == 1, rule, "pendingReadIndex.read queues the request once", e.pos(fn.Pos()), "one add", fmt.Sprintf("found %d readIndexQueue.add calls", len(adds)))
			if len(adds) == 1 {
				n++
				add := adds[0]
				res := e.findPath(fn, nil, nonNilReqReturn, func(in ssa.Instruction) bool { return in == add.(ssa.Instruction) }, nil)
				r.check(!res.Found, rule, "pendingReadIndex.read returns a request only after queueing it", e.ipos(add), "add precedes every accepting return", "a read request is returned without being queued", res.Trace(e)...)
				if addRes := add.Value(); addRes != nil {
					for i, what := range []string{"added", "closed"} {
						pol := i == 1
						refused := reqBool(what, extractOfV(addRes, i), pol)
						res2 := e.findPath(fn, add.(ssa.Instruction), func(in ssa.Instruction) bool {
							return nonNilReqReturn(in) && e.holds(refused, FactsAt(in), 1)
						}, nil, nil)
						r.check(!res2.Found, rule, "pendingReadIndex.read returns no request when the queue refuses ("+what+")", e.ipos(add),
							"nil request on every refused path", "a read request is returned although it was not queued: it can only time out", res2.Trace(e)...)
					}
				}
			}
		}
	}
	// ---- log query: single slot without channel
	if fn := r.need("(*dragonboat.pendingRaftLogQuery).add"); fn != nil {
		var pend *types.Var
		forEachInstr(fn, func(in ssa.Instruction) {
			if st, ok := in.(*ssa.Store); ok && isRS(st.Val.Type()) && !isNilConst(stripConv(st.Val)) {
				if f, _, ok := fieldOfAddr(st.Addr); ok && f.Name() == "pending" {
					pend = f
					n++
					r.guard(rule, "pendingRaftLogQuery.add fills the slot", st, reqCmp("the slot is empty", "==", fieldV(f), nilV()))
				}
			}
		})
		if pend != nil {
			res := e.findPath(fn, nil, nonNilReqReturn, isStoreToField(pend), nil)
			r.check(!res.Found, rule, "pendingRaftLogQuery.add returns a request only when it sits in the slot", e.pos(fn.Pos()), "store precedes every accepting return", "a log query request is returned without being registered", res.Trace(e)...)
		} else {
			r.bad(rule, "pendingRaftLogQuery.add fills the slot", e.pos(fn.Pos()), "no slot store found")
		}
	}
	r.floor(rule, n, 5)
	_ = token.ADD
}

// ---------------------------------------------------------------------------
// Record construction: every field of a record built from another record is
// taken from its designated source ("a wrong field, a swapped variable").

// src describes where a field's value has to come from.
type src struct {
	kind    string // field | param | const | call | method | recvfield
	a, b, c string
}

func srcField(pkg, typ, fld string) src { return src{"field", pkg, typ, fld} }
func srcParam(name string) src          { return src{"param", name, "", ""} }
func srcConst(pkg, name string) src     { return src{"const", pkg, name, ""} }
func srcMethod(name string) src         { return src{"method", name, "", ""} }

func (e *Engine) srcPred(fn *ssa.Function, s src) (func(ssa.Value) bool, string, bool) {
	switch s.kind {
	case "field":
		f := e.Field(s.a, s.b, s.c)
		if f == nil {
			return nil, s.b + "." + s.c, false
		}
		return func(v ssa.Value) bool { return fieldV(f)(v) }, s.b + "." + s.c, true
	case "param":
		// the parameter of that name, or - when the parameters were packed into a struct - the field
		// of that name of a struct-typed parameter
		return func(v ssa.Value) bool {
			if p, ok := v.(*ssa.Parameter); ok {
				return p.Name() == s.a
			}
			if f, base, ok := loadedField(v); ok && f.Name() == s.a {
				if _, isP := stripConv(base).(*ssa.Parameter); isP {
					return true
				}
				if al := rootAlloc(base); al != nil {
					for _, sv := range storesInto(al) {
						if _, isP := stripConv(sv).(*ssa.Parameter); isP {
							return true
						}
					}
				}
			}
			return false
		}, "parameter " + s.a, true
	case "const":
		c := e.Const(s.a, s.b)
		if c == nil {
			return nil, s.a + "." + s.b, false
		}
		return func(v ssa.Value) bool { return constV(c)(v) }, "constant " + s.b, true
	case "method":
		return func(v ssa.Value) bool {
			c, ok := v.(*ssa.Call)
			if !ok {
				return false
			}
			if c.Call.IsInvoke() {
				return c.Call.Method.Name() == s.a
			}
			sc := c.Call.StaticCallee()
			return sc != nil && sc.Name() == s.a
		}, s.a + "()", true
	}
	return nil, "", false
}

// recordSources: for every non-zero write of T.fld inside the region of the
// functions named by fnKeys, the value depends on one of the sources.
func (r *Report) recordSources(rule string, fnKeys []string, tpkg, typ string, table map[string][]src, why string) int {
	e := r.e
	n := 0
	inScope := map[*ssa.Function]bool{}
	for _, k := range fnKeys {
		fn := r.need(k)
		if fn == nil {
			continue
		}
		for _, g := range e.regionOf(fn, 0) {
			inScope[g] = true
		}
		inScope[fn] = true
	}
	var flds []string
	for f := range table {
		flds = append(flds, f)
	}
	sortStrings(flds)
	for _, fld := range flds {
		tf := r.needField(tpkg, typ, fld)
		if tf == nil {
			continue
		}
		cnt := 0
		for _, w := range e.FieldWrites(tf) {
			if (w.Kind != "init" && w.Kind != "store") || !inScope[w.Fn] {
				continue
			}
			if c, isC := w.Val.(*ssa.Const); isC {
				if c.Value == nil || c.Value.ExactString() == "0" || c.Value.ExactString() == "false" || c.Value.ExactString() == `""` {
					continue // zero initialisation of a literal is not a value
				}
			}
			cnt++
			ok := false
			var names []string
			for _, s := range table[fld] {
				p, nm, found := e.srcPred(w.Fn, s)
				names = append(names, nm)
				if !found {
					r.undecided("ANCHOR", nm, "source of "+typ+"."+fld+" no longer resolves")
					continue
				}
				if e.dependsOn(w.Val, p, 1) {
					ok = true
				}
			}
			r.check(ok, rule, typ+"."+fld+" set in "+fname(w.Fn), e.ipos(w.Instr),
				"taken from "+joinOr(names), typ+"."+fld+" is not taken from "+joinOr(names)+": "+why)
		}
		if cnt > 0 {
			n++
		} else {
			r.bad(rule, typ+"."+fld+" set in "+fnKeys[0], "-", typ+"."+fld+" is no longer set where the record is built: "+why)
		}
	}
	return n
}

func joinOr(ss []string) string {
	out := ""
	for i, s := range ss {
		if i > 0 {
			out += " or "
		}
		out += s
	}
	return out
}

func sortStrings(s []string) {
	for i := 1; i < len(s); i++ {
		for j := i; j > 0 && s[j] < s[j-1]; j-- {
			s[j], s[j-1] = s[j-1], s[j]
		}
	}
}

// ruleChunkRecordSources (C15, C08): the chunk records built by the sender
// (file mode and streaming mode), the deployment id stamped by the sending
// job, and the InstallSnapshot notification the receiver builds from the
// first chunk: each field comes from the field that means the same thing.
func ruleChunkRecordSources(e *Engine, r *Report) {
	rule := "TBL-chunk-record-sources"
	n := 0
	n += r.recordSources(rule, []string{"internal/transport.splitBySnapshotFile"}, "raftpb", "Chunk", map[string][]src{
		"ShardID":        {srcField("raftpb", "Message", "ShardID")},
		"ReplicaID":      {srcField("raftpb", "Message", "To")},
		"From":           {srcField("raftpb", "Message", "From")},
		"OnDiskIndex":    {srcField("raftpb", "Snapshot", "OnDiskIndex")},
		"Membership":     {srcField("raftpb", "Snapshot", "Membership")},
		"Witness":        {srcField("raftpb", "Snapshot", "Witness")},
		"Filepath":       {srcParam("filepath")},
		"FileSize":       {srcParam("filesize")},
		"FileChunkCount": {srcParam("filesize")},
		"ChunkSize":      {srcParam("filesize")},
		"ChunkId":        {srcParam("startChunkID")},
		"BinVer":         {srcConst("raftio", "TransportBinVersion")},
	}, "the receiver files the chunk under the wrong replica / snapshot or reassembles the wrong bytes")
	n += r.recordSources(rule, []string{"internal/transport.getWitnessChunk"}, "raftpb", "Chunk", map[string][]src{
		"ShardID":    {srcField("raftpb", "Message", "ShardID")},
		"ReplicaID":  {srcField("raftpb", "Message", "To")},
		"From":       {srcField("raftpb", "Message", "From")},
		"Membership": {srcField("raftpb", "Snapshot", "Membership")},
		"BinVer":     {srcConst("raftio", "TransportBinVersion")},
	}, "the witness snapshot chunk is filed under the wrong replica")
	n += r.recordSources(rule, []string{"(*internal/rsm.ChunkWriter).getChunk"}, "raftpb", "Chunk", map[string][]src{
		"ShardID":     {srcMethod("ShardID")},
		"ReplicaID":   {srcMethod("ToReplicaID")},
		"From":        {srcField("internal/rsm", "SSMeta", "From")},
		"Index":       {srcField("internal/rsm", "SSMeta", "Index")},
		"Term":        {srcField("internal/rsm", "SSMeta", "Term")},
		"OnDiskIndex": {srcField("internal/rsm", "SSMeta", "OnDiskIndex")},
		"Membership":  {srcField("internal/rsm", "SSMeta", "Membership")},
		"ChunkId":     {srcField("internal/rsm", "ChunkWriter", "chunkID")},
		"FileChunkId": {srcField("internal/rsm", "ChunkWriter", "chunkID")},
		"BinVer":      {srcConst("raftio", "TransportBinVersion")},
		"Filepath":    {srcField("internal/rsm", "SSMeta", "Index")},
	}, "a streamed chunk does not describe the snapshot being streamed")
	n += r.recordSources(rule, []string{"(*internal/transport.Chunk).toMessage"}, "raftpb", "Snapshot", map[string][]src{
		"Index":       {srcField("raftpb", "Chunk", "Index")},
		"Term":        {srcField("raftpb", "Chunk", "Term")},
		"OnDiskIndex": {srcField("raftpb", "Chunk", "OnDiskIndex")},
		"Membership":  {srcField("raftpb", "Chunk", "Membership")},
		"FileSize":    {srcField("raftpb", "Chunk", "FileSize")},
		"Witness":     {srcField("raftpb", "Chunk", "Witness")},
		"Filepath":    {srcField("raftpb", "Chunk", "Filepath")},
	}, "the InstallSnapshot notification does not describe the snapshot that was received")
	n += r.recordSources(rule, []string{"(*internal/transport.Chunk).toMessage"}, "raftpb", "Message", map[string][]src{
		"From":    {srcField("raftpb", "Chunk", "From")},
		"To":      {srcField("raftpb", "Chunk", "ReplicaID")},
		"ShardID": {srcField("raftpb", "Chunk", "ShardID")},
		"Type":    {srcConst("raftpb", "InstallSnapshot")},
	}, "the InstallSnapshot notification is delivered to the wrong replica or under the wrong sender")
	n += r.recordSources(rule, []string{"(*internal/transport.Chunk).toMessage"}, "raftpb", "MessageBatch", map[string][]src{
		"BinVer":       {srcField("raftpb", "Chunk", "BinVer")},
		"DeploymentId": {srcField("raftpb", "Chunk", "DeploymentId")},
	}, "the notification batch is dropped by the deployment id / binary version filter")
	// the deployment id stamped by the sending job
	for _, k := range []string{"(*internal/transport.job).streamSnapshot", "(*internal/transport.job).sendChunks"} {
		n += r.recordSources(rule, []string{k}, "raftpb", "Chunk", map[string][]src{
			"DeploymentId": {srcField("internal/transport", "job", "deploymentID")},
		}, "the receiver drops every chunk whose deployment id differs from its own")
	}
	n += r.recordSources(rule, []string{"internal/transport.newJob"}, "internal/transport", "job", map[string][]src{
		"deploymentID": {srcParam("did")},
		"shardID":      {srcParam("shardID")},
		"replicaID":    {srcParam("replicaID")},
	}, "the job stamps chunks with the wrong identity")
	r.floor(rule, n, 45)
}

// ruleVarintDecodeLoops (C13): every varint decoding loop of the codecs
// accumulates 7 payload bits per byte and stops at the first byte without the
// continuation bit: the value shifted by the loop's shift counter is
// `T(b & 0x7F)`, the counter advances by 7, and the same byte is compared with
// 0x80 to leave the loop. A decoder that differs from the encoder's
// 7-bit groups misreads every length/field above the affected boundary.
func ruleVarintDecodeLoops(e *Engine, r *Report, minInst int, pkgs ...string) {
	rule := "TBL-codec-varint-decode"
	inPkg := map[*types.Package]bool{}
	for _, p := range pkgs {
		if pk := e.pkgTypes(p); pk != nil {
			inPkg[pk] = true
		}
	}
	isByteLoad := func(v ssa.Value) (ssa.Value, bool) {
		v = stripConv(v)
		u, ok := v.(*ssa.UnOp)
		if !ok || u.Op != token.MUL {
			return nil, false
		}
		if _, isIdx := u.X.(*ssa.IndexAddr); !isIdx {
			return nil, false
		}
		return u, isByte(u.Type())
	}
	n := 0
	for _, fn := range e.ScopeFuncs() {
		if !inPkg[fnPkg(fn)] {
			continue
		}
		forEachInstr(fn, func(in ssa.Instruction) {
			sh, ok := in.(*ssa.BinOp)
			if !ok || sh.Op != token.SHL {
				return
			}
			// the shift amount is a loop counter (phi) stepping by a constant
			phi, ok := stripConv(sh.Y).(*ssa.Phi)
			if !ok {
				return
			}
			step := int64(-1)
			for _, ed := range phi.Edges {
				if b, ok := stripConv(ed).(*ssa.BinOp); ok && b.Op == token.ADD && stripConv(b.X) == ssa.Value(phi) {
					if c, ok := b.Y.(*ssa.Const); ok {
						if v, isU := constantUint64(c); isU {
							step = int64(v)
						}
					}
				}
			}
			if step < 0 {
				return
			}
			// the shifted value must involve a byte loaded from the input
			var byteVal ssa.Value
			masked := false
			x := stripConv(sh.X)
			if and, ok := x.(*ssa.BinOp); ok && and.Op == token.AND {
				for _, pair := range [][2]ssa.Value{{and.X, and.Y}, {and.Y, and.X}} {
					if bv, isB := isByteLoad(pair[0]); isB {
						byteVal = bv
						if c, ok := stripConv(pair[1]).(*ssa.Const); ok {
							if v, isU := constantUint64(c); isU && v == 0x7F {
								masked = true
							}
						}
					}
				}
			} else if bv, isB := isByteLoad(x); isB {
				byteVal = bv
			}
			if byteVal == nil {
				return
			}
			n++
			c := "varint loop in " + fname(fn)
			if !masked {
				// the exit branch of the hand-optimised decoder: the byte is known to be
				// below 0x80 (nothing to mask) or it is the final, full-width group
				bv := byteVal
				isB := func(v ssa.Value) bool { return stripConv(v) == bv }
				isShift := func(v ssa.Value) bool { return stripConv(v) == ssa.Value(phi) }
				if ok, _ := e.guardedOnAllPaths(in, reqAny("",
					reqCmp("", "<", isB, func(v ssa.Value) bool {
						k, ok := stripConv(v).(*ssa.Const)
						if !ok {
							return false
						}
						u, isU := constantUint64(k)
						return isU && u == 0x80
					}),
					reqCmp("", "==", isShift, func(v ssa.Value) bool { _, ok := stripConv(v).(*ssa.Const); return ok }))); ok {
					masked = true
				}
			}
			r.check(masked, rule, c+": payload bits masked with 0x7F", e.ipos(in), "b & 0x7F", "the byte is shifted into the value without masking off the continuation bit: every multi-byte varint decodes with bit 7 of each group set")
			r.check(step == 7, rule, c+": shift advances by 7", e.ipos(in), "shift += 7", fmt.Sprintf("the shift counter advances by %d instead of 7", step))
			// the same byte decides loop exit by comparison with 0x80
			exit := false
			if refs := byteVal.Referrers(); refs != nil {
				for _, ref := range *refs {
					cmp, ok := ref.(*ssa.BinOp)
					if !ok {
						if cv, isConv := ref.(*ssa.Convert); isConv {
							if r2 := cv.Referrers(); r2 != nil {
								for _, rr := range *r2 {
									if c2, ok := rr.(*ssa.BinOp); ok && cmpString(c2.Op) != "" {
										cmp = c2
									}
								}
							}
						}
						if cmp == nil {
							continue
						}
					}
					if cmpString(cmp.Op) == "" {
						continue
					}
					for _, o := range []ssa.Value{cmp.X, cmp.Y} {
						if k, ok := stripConv(o).(*ssa.Const); ok {
							if v, isU := constantUint64(k); isU && (v == 0x80 || v == 0x7F) {
								exit = true
							}
						}
					}
				}
			}
			r.check(exit, rule, c+": continuation bit decides the end", e.ipos(in), "b compared with 0x80", "the loop no longer ends at the first byte below 0x80")
		})
	}
	r.floor(rule, n, minInst)
}

// ruleRefusalNeverSuccess (C16, C20, C15): some storage steps have no "soft"
// failure: when publishing a snapshot directory (FinalizeSnapshot) or
// recording it in the log store fails - including with the out-of-date
// sentinel - nothing was published, so the caller must not report success.
// The general error rule lets a sentinel test excuse a nil return (the soft
// "no saved log" idiom); for these callees it does not.
func ruleRefusalNeverSuccess(e *Engine, r *Report) {
	rule := "ERR-refusal"
	type target struct {
		m   *types.Func
		f   *ssa.Function
		lbl string
	}
	var ts []target
	if f := r.need("(*internal/server.SSEnv).FinalizeSnapshot"); f != nil {
		ts = append(ts, target{f: f, lbl: "SSEnv.FinalizeSnapshot"})
	}
	if f := r.need("(*internal/transport.Chunk).finalize"); f != nil {
		ts = append(ts, target{f: f, lbl: "Chunk.finalize"})
	}
	for _, mn := range []string{"SaveSnapshots", "ImportSnapshot"} {
		if m := r.needMethod("raftio", "ILogDB", mn); m != nil {
			ts = append(ts, target{m: m, lbl: "ILogDB." + mn})
		}
	}
	n := 0
	for _, fn := range e.ScopeFuncs() {
		if len(fn.Blocks) == 0 || !e.IsLive(outermostFn(fn)) {
			continue
		}
		hasErrRes := errResultIndex(fn) >= 0
		forEachInstr(fn, func(in ssa.Instruction) {
			call, ok := in.(*ssa.Call)
			if !ok {
				return
			}
			lbl := ""
			for _, t := range ts {
				if t.f != nil && e.CallsTo(call, t.f) && call.Call.StaticCallee() == t.f {
					lbl = t.lbl
				}
				if t.m != nil && e.IsMethodCall(call, t.m) {
					lbl = t.lbl
				}
			}
			if lbl == "" {
				return
			}
			vals, hasErr, dropped := errValueOf(call)
			if !hasErr || dropped {
				return // dropped results are E1's business
			}
			n++
			okAll := true
			var wit []string
			for _, v := range vals {
				aliases := errAliases(v)
				for a := range aliases {
					refs := a.Referrers()
					if refs == nil {
						continue
					}
					for _, ref := range *refs {
						bo, ok := ref.(*ssa.BinOp)
						if !ok || (bo.Op != token.NEQ && bo.Op != token.EQL) || !(isNilConst(bo.X) || isNilConst(bo.Y)) {
							continue
						}
						for _, cf := range ValueUsesAsCond(bo) {
							errSucc := cf.Block().Succs[0]
							if bo.Op == token.EQL {
								errSucc = cf.Block().Succs[1]
							}
							if !hasErrRes {
								// a verdict function: the error edge must not answer true
								res := e.findPath(fn, errSucc.Instrs[0], func(x ssa.Instruction) bool {
									ret, ok := x.(*ssa.Return)
									if !ok || len(ret.Results) == 0 {
										return false
									}
									cb, isC := isConstBool(retOperand(ret, 0))
									return isC && cb
								}, nil, nil)
								if res.Found {
									okAll = false
									wit = append(wit, "accepting exit at "+e.ipos(res.Target))
								}
								continue
							}
							res := e.successFromErrEdgeMode(fn, cf.Block(), errSucc, aliases, hasErrRes, true)
							if res.Found {
								okAll = false
								wit = append(wit, "success exit at "+e.ipos(res.Target))
							}
						}
					}
				}
			}
			// a sentinel test of the error is an error edge as well (there may be no nil test at all:
			// `if err == ErrX { ... }; return err`)
			if hasErrRes {
				for _, v := range vals {
					aliases := errAliases(v)
					for _, b := range fn.Blocks {
						if len(b.Instrs) == 0 {
							continue
						}
						ifi, ok := b.Instrs[len(b.Instrs)-1].(*ssa.If)
						if !ok {
							continue
						}
						if t, pol := e.sentinelTest(ifi.Cond, aliases); t {
							errSucc := b.Succs[1]
							if pol {
								errSucc = b.Succs[0]
							}
							res := e.successFromErrEdgeMode(fn, b, errSucc, aliases, hasErrRes, true)
							if res.Found {
								okAll = false
								wit = append(wit, "success exit at "+e.ipos(res.Target)+" on the edge where the error is the sentinel")
							}
						}
					}
				}
			}
			r.check(okAll, rule, "failure of "+lbl+" in "+fname(fn)+" is never reported as success", e.ipos(in),
				"every exit from the error edge carries an error or fail-stops (no sentinel is an excuse)", "from the error edge of "+lbl+" (any error, including the out-of-date sentinel) a success exit is reachable: the snapshot was not published / recorded but the caller is told it was", wit...)
		})
	}
	r.floor(rule, n, 6)
}

// rulePublishBeforeRecord (C16, C20): a snapshot is recorded in the log store
// (ILogDB.ImportSnapshot in the import tool; the sibling order for
// snapshotter.Commit is MPT-commit-order) only after its directory was
// published: every call of ILogDB.ImportSnapshot outside the log store
// packages runs after a successful FinalizeSnapshot. A crash between the two
// steps in the other order leaves a record that names a snapshot that is not
// on disk, with the previous raft state already wiped.
func rulePublishBeforeRecord(e *Engine, r *Report) {
	rule := "MPT-publish-before-record"
	fin := r.need("(*internal/server.SSEnv).FinalizeSnapshot")
	m := r.needMethod("raftio", "ILogDB", "ImportSnapshot")
	if fin == nil || m == nil {
		return
	}
	n := 0
	for _, s := range e.AllMethodSites(m) {
		fn := s.Parent()
		p := fnPkg(fn)
		if p == nil || !e.IsLive(outermostFn(fn)) {
			continue
		}
		// the stores themselves and their wrappers forward the call
		if rel := short(p.Path()); hasSuffix(rel, "internal/logdb") || hasSuffix(rel, "internal/tan") || hasSuffix(rel, "plugin/tee") || hasSuffix(rel, "internal/logdb/tee") {
			continue
		}
		n++
		r.check(e.afterSuccessOf(s.(ssa.Instruction), fin, 2), rule, "ILogDB.ImportSnapshot in "+fname(fn)+" follows a successful FinalizeSnapshot", e.ipos(s),
			"the snapshot directory is published (flag file, rename, directory sync) before the log store names it", "the log store record of the imported snapshot can be written before (or without) the snapshot directory having been published: a crash in between leaves the replica with a recorded snapshot that does not exist on disk")
	}
	r.floor(rule, n, 1)
}

// ruleOnDiskCursors (C08, C11, C20): the two cursors that keep an on-disk
// state machine from being handed entries it already holds
// (StateMachine.onDiskInitIndex, onDiskIndex) move
//   - from Open()'s result (MPT-open-ondisk-index),
//   - on the apply path behind both fail-stop assertions of setOnDiskIndex,
//   - from a snapshot's OnDiskIndex only after that snapshot's data was
//     loaded into the state machine: a partial (shrunk / dummy / witness)
//     snapshot carries no data and must leave them alone - otherwise the
//     entries between the snapshot's on-disk index and what Open() returned
//     are applied a second time (or skipped).
func ruleOnDiskCursors(e *Engine, r *Report) {
	rule := "WMW-ondisk-cursors"
	ssOD := r.needField("raftpb", "Snapshot", "OnDiskIndex")
	load := r.need("(*internal/rsm.StateMachine).load")
	mOpen := r.needMethod("internal/rsm", "IManagedStateMachine", "Open")
	if ssOD == nil || load == nil || mOpen == nil {
		return
	}
	n := 0
	for _, fnm := range []string{"onDiskInitIndex", "onDiskIndex"} {
		fld := r.needField("internal/rsm", "StateMachine", fnm)
		if fld == nil {
			continue
		}
		for _, w := range e.FieldWrites(fld) {
			if w.Kind != "store" && w.Kind != "init" {
				continue
			}
			if c, isC := w.Val.(*ssa.Const); isC && (c.Value == nil || c.Value.ExactString() == "0") {
				continue
			}
			n++
			c := "StateMachine." + fnm + " written in " + fname(w.Fn)
			switch {
			case e.dependsOn(w.Val, func(x ssa.Value) bool {
				cl, ok := x.(*ssa.Call)
				return ok && e.IsMethodCall(cl, mOpen)
			}, 0):
				r.ok(rule, c+" (from Open's result)", e.ipos(w.Instr), "the index the user state machine reported")
			case e.dependsOn(w.Val, func(x ssa.Value) bool { return fieldV(ssOD)(x) }, 0):
				r.check(e.afterSuccessOf(w.Instr, load, 3), rule, c+" from a snapshot's OnDiskIndex only after the snapshot was loaded", e.ipos(w.Instr),
					"the store (or every caller of its function) follows a successful load of the snapshot", "the on-disk cursor is moved to a snapshot's OnDiskIndex on a path that did not load that snapshot into the state machine (partial snapshot, skipped recovery): entries the state machine already holds are re-applied, or entries it lacks are skipped")
			default:
				// apply path: behind the two assertions
				init := r.needField("internal/rsm", "StateMachine", "onDiskInitIndex")
				cur := r.needField("internal/rsm", "StateMachine", "onDiskIndex")
				if init == nil || cur == nil {
					continue
				}
				isParam := func(v ssa.Value) bool { _, ok := stripConv(v).(*ssa.Parameter); return ok }
				// the cursor becomes the *last* index of the applied run: of the two index parameters
				// ordered by the fail-stop assertion `first > last`, the one stored is the upper one
				var upper ssa.Value
				forEachInstr(w.Fn, func(in ssa.Instruction) {
					ifi, ok := in.(*ssa.If)
					if !ok {
						return
					}
					b, ok := ifi.Cond.(*ssa.BinOp)
					if !ok || !isParam(b.X) || !isParam(b.Y) {
						return
					}
					if !e.blockFailStops(ifi.Block().Succs[0]) {
						return
					}
					switch b.Op {
					case token.GTR, token.GEQ: // X > Y is fatal: Y is the upper bound
						upper = stripConv(b.Y)
					case token.LSS, token.LEQ:
						upper = stripConv(b.X)
					}
				})
				r.check(upper != nil && stripConv(w.Val) == upper, rule, c+" stores the last index of the applied run", e.ipos(w.Instr),
					"the upper of the two ordered index parameters", "the on-disk cursor is not set to the last index of the run just applied ("+e.describeValue(w.Val)+"): snapshots advertise an OnDiskIndex below what the state machine holds and a receiver skips or repeats recovery")
				r.guard(rule, c+" (apply path)", w.Instr,
					reqCmp("first index > onDiskInitIndex (fail-stop otherwise)", ">", isParam, fieldV(init)),
					reqCmp("first index > onDiskIndex (fail-stop otherwise)", ">", isParam, fieldV(cur)))
			}
		}
	}
	r.floor(rule, n, 4)
}

// ruleLogReaderNoCache (C19, C09): the LogReader is a window over the log
// store, not a copy of it: an entry (or anything derived from one) read from
// the store is never kept in a field of the reader - the store is the single
// source of truth once a conflicting append overwrites a suffix - and the
// term it reports for an index is the window's marker term (only for the
// marker index) or comes from the entry just read from the store.
func ruleLogReaderNoCache(e *Engine, r *Report) {
	rule := "DEP-logreader-no-cache"
	lrT := e.Named("internal/logdb", "LogReader")
	iter := r.needMethod("raftio", "ILogDB", "IterateEntries")
	term := r.need("(*internal/logdb.LogReader).termLocked")
	markerTerm := r.needField("internal/logdb", "LogReader", "markerTerm")
	markerIndex := r.needField("internal/logdb", "LogReader", "markerIndex")
	if lrT == nil || iter == nil || term == nil || markerTerm == nil || markerIndex == nil {
		return
	}
	st, _ := lrT.Underlying().(*types.Struct)
	isLRField := map[*types.Var]bool{}
	for i := 0; st != nil && i < st.NumFields(); i++ {
		isLRField[st.Field(i)] = true
	}
	// functions of package logdb whose result carries entries read from the store
	fromStore := func(x ssa.Value) bool {
		c, ok := x.(*ssa.Call)
		if !ok {
			return false
		}
		if e.IsMethodCall(c, iter) {
			return true
		}
		sc := c.Call.StaticCallee()
		if sc == nil || sc.Signature.Recv() == nil || !isPtrToNamed(sc.Signature.Recv().Type(), lrT) {
			return false
		}
		// a LogReader method that (transitively, depth 2) returns what IterateEntries produced
		return e.returnDependsOn(sc, func(y ssa.Value) bool {
			cy, ok := y.(*ssa.Call)
			return ok && e.IsMethodCall(cy, iter)
		}, 2)
	}
	n := 0
	for _, fn := range e.ScopeFuncs() {
		rv := fn.Signature.Recv()
		if rv == nil || !isPtrToNamed(rv.Type(), lrT) || !e.IsLive(outermostFn(fn)) {
			continue
		}
		forEachInstr(fn, func(in ssa.Instruction) {
			s, ok := in.(*ssa.Store)
			if !ok {
				return
			}
			f, _, ok := fieldOfAddr(s.Addr)
			if !ok || !isLRField[f] {
				return
			}
			n++
			if f == markerTerm {
				// the window's marker: Compact records the term of the compaction point, which is
				// at or below the applied index - a committed entry is never overwritten (C02)
				r.ok(rule, "LogReader."+f.Name()+" written in "+fname(fn)+" (window marker)", e.ipos(in), "exception: term of the committed compaction point / of the snapshot")
				return
			}
			r.check(!e.dependsOn(s.Val, fromStore, 0), rule, "LogReader."+f.Name()+" written in "+fname(fn)+" holds nothing read from the store", e.ipos(in),
				"the stored value does not derive from entries returned by the log store", "a field of the LogReader is set from entries read from the log store: the reader keeps a copy that a later conflicting append (which rewrites the store) does not update, so it answers with the overwritten entry")
		})
	}
	r.floor(rule, n, 8)
	// term source
	k := 0
	forEachInstr(term, func(in ssa.Instruction) {
		ret, ok := in.(*ssa.Return)
		if !ok || len(ret.Results) < 1 {
			return
		}
		v := stripConv(retOperand(ret, 0))
		if _, isC := v.(*ssa.Const); isC {
			return
		}
		k++
		switch {
		case e.dependsOn(v, fromStore, 0):
			r.ok(rule, "termLocked answers from the entry read from the store", e.ipos(in), "term of the entry returned by the store")
		case e.dependsOn(v, func(x ssa.Value) bool { return fieldV(markerTerm)(x) }, 0):
			r.guard(rule, "termLocked answers the marker term", in, reqCmp("the index asked for is the marker index", "==", func(x ssa.Value) bool { _, ok := stripConv(x).(*ssa.Parameter); return ok }, fieldV(markerIndex)))
		default:
			r.bad(rule, "termLocked answers from the window or the store", e.ipos(in), "termLocked returns a term ("+e.describeValue(v)+") that is neither the marker term nor taken from an entry just read from the store")
		}
	})
	r.floor(rule+" (term)", k, 2)
}

// ruleChunkLocksStable (C15): the per-stream lock table of the chunk receiver
// gives mutual exclusion only if a key keeps its lock object: an entry is
// inserted once (on the not-found edge of the lookup, under the table mutex)
// and never deleted or replaced - a chunk that fetched the lock before a
// delete and one that arrives after it would hold different objects and run
// addLocked for the same stream concurrently.
func ruleChunkLocksStable(e *Engine, r *Report) {
	rule := "WMW-chunk-locks-stable"
	locks := r.needField("internal/transport", "Chunk", "locks")
	mu := r.needField("internal/transport", "Chunk", "mu")
	if locks == nil || mu == nil {
		return
	}
	n := 0
	for _, w := range e.FieldWrites(locks) {
		switch w.Kind {
		case "init", "store":
			// construction
			if mk, ok := stripConv(w.Val).(*ssa.MakeMap); ok && mk != nil && w.Kind == "init" {
				continue
			}
			r.bad(rule, "Chunk.locks replaced in "+fname(w.Fn), e.ipos(w.Instr), "the lock table is replaced after construction: every lock object handed out before is orphaned")
		case "mapdelete":
			n++
			r.bad(rule, "Chunk.locks entry deleted in "+fname(w.Fn), e.ipos(w.Instr), "a per-stream lock is deleted: the next chunk of that key gets a new lock object while an earlier chunk may still hold the old one, so two chunks of one stream are processed concurrently")
		case "mapupdate":
			n++
			c := "Chunk.locks entry inserted in " + fname(w.Fn)
			// under the not-found edge of a lookup of the same map
			found := func(v ssa.Value) bool {
				ex, ok := stripConv(v).(*ssa.Extract)
				if !ok || ex.Index != 1 {
					return false
				}
				lk, ok := ex.Tuple.(*ssa.Lookup)
				return ok && lk.CommaOk && fieldV(locks)(lk.X)
			}
			r.guard(rule, c, w.Instr, reqBool("the key has no lock yet (comma-ok lookup false)", found, false))
			r.requireLock(rule, c+" under the table mutex", w.Instr, mu, 2, "lookup and insert must be one critical section")
		}
	}
	r.floor(rule, n, 1)
}

// ruleMessageAddressed (C03, C02): a network message reaches the raft core of
// a replica only if it is addressed to that replica: in the NodeHost's batch
// handler every hand-over to a node's message queue sits behind the test
// `node.replicaID == message.To` (a shard restarted under another replica id on
// the same host must not consume votes and acknowledgements meant for its
// predecessor - two candidates would count the same vote).
func ruleMessageAddressed(e *Engine, r *Report) {
	rule := "GD-message-addressed"
	fn := r.need("(*dragonboat.messageHandler).HandleMessageBatch")
	rid := r.needField("dragonboat", "node", "replicaID")
	to := r.needField("raftpb", "Message", "To")
	mqT := e.Named("internal/server", "MessageQueue")
	if fn == nil || rid == nil || to == nil || mqT == nil {
		return
	}
	n := 0
	for _, g := range e.regionOf(fn, 1) {
		forEachCall(g, func(s ssa.CallInstruction) {
			sc := s.Common().StaticCallee()
			if sc == nil || sc.Signature.Recv() == nil || !isPtrToNamed(sc.Signature.Recv().Type(), mqT) {
				return
			}
			switch sc.Name() {
			case "Add", "MustAdd", "AddDelayed":
			default:
				return
			}
			n++
			r.guard(rule, "MessageQueue."+sc.Name()+" in "+fname(g), s.(ssa.Instruction),
				reqCmp("the receiving node's replica id equals the message's To", "==", fieldV(rid), fieldV(to)))
		})
	}
	r.floor(rule, n, 3)
}

// ---------------------------------------------------------------------------
// A small affine evaluator: the possible values of v as `atom + k`, where atom
// is a call of one designated function (identified by its resolved argument)
// and k a constant; through phis, local variables, +/- constants and same-
// package helper calls (parameters bound to the call's arguments).

type affTerm struct {
	atom string
	k    int64
}

func (e *Engine) affine(v ssa.Value, atomFn *ssa.Function, resolve func(ssa.Value) ssa.Value, depth int) ([]affTerm, bool) {
	if depth > 6 || v == nil {
		return nil, false
	}
	v = stripConv(resolve(v))
	switch x := v.(type) {
	case *ssa.BinOp:
		if x.Op != token.ADD && x.Op != token.SUB {
			return nil, false
		}
		var c *ssa.Const
		var other ssa.Value
		if k, ok := stripConv(x.Y).(*ssa.Const); ok {
			c, other = k, x.X
		} else if k, ok := stripConv(x.X).(*ssa.Const); ok && x.Op == token.ADD {
			c, other = k, x.Y
		}
		if c == nil {
			return nil, false
		}
		u, isU := constantUint64(c)
		if !isU {
			return nil, false
		}
		ts, ok := e.affine(other, atomFn, resolve, depth+1)
		if !ok {
			return nil, false
		}
		out := make([]affTerm, len(ts))
		for i, t := range ts {
			d := int64(u)
			if x.Op == token.SUB {
				d = -d
			}
			out[i] = affTerm{t.atom, t.k + d}
		}
		return out, true
	case *ssa.Phi:
		var out []affTerm
		for _, ed := range x.Edges {
			ts, ok := e.affine(ed, atomFn, resolve, depth+1)
			if !ok {
				return nil, false
			}
			out = append(out, ts...)
		}
		return out, true
	case *ssa.UnOp:
		if x.Op == token.MUL {
			if al := rootAlloc(x.X); al != nil {
				var out []affTerm
				vals := storesIntoPath(al, addrPath(x.X))
				if len(vals) == 0 {
					return nil, false
				}
				for _, sv := range vals {
					ts, ok := e.affine(sv, atomFn, resolve, depth+1)
					if !ok {
						return nil, false
					}
					out = append(out, ts...)
				}
				return out, true
			}
		}
		return nil, false
	case *ssa.Extract:
		c, ok := x.Tuple.(*ssa.Call)
		if !ok {
			return nil, false
		}
		return e.affineCall(c, x.Index, atomFn, resolve, depth)
	case *ssa.Call:
		return e.affineCall(x, 0, atomFn, resolve, depth)
	}
	return nil, false
}

func (e *Engine) affineCall(c *ssa.Call, idx int, atomFn *ssa.Function, resolve func(ssa.Value) ssa.Value, depth int) ([]affTerm, bool) {
	sc := c.Call.StaticCallee()
	if sc == nil {
		return nil, false
	}
	if sc == atomFn && len(c.Call.Args) == 1 {
		k := exprKey(resolve(c.Call.Args[0]))
		if k == "" {
			return nil, false
		}
		return []affTerm{{k, 0}}, true
	}
	if len(sc.Blocks) == 0 || fnPkg(sc) != fnPkg(atomFn) {
		return nil, false
	}
	args := c.Call.Args
	inner := func(v ssa.Value) ssa.Value {
		sv := stripConv(v)
		for i, p := range sc.Params {
			if sv == ssa.Value(p) && i < len(args) {
				return resolve(args[i])
			}
		}
		return v
	}
	var out []affTerm
	found := false
	okAll := true
	forEachInstr(sc, func(in ssa.Instruction) {
		ret, ok := in.(*ssa.Return)
		if !ok || idx >= len(ret.Results) {
			return
		}
		found = true
		ts, ok := e.affine(retOperand(ret, idx), atomFn, inner, depth+1)
		if !ok {
			okAll = false
			return
		}
		out = append(out, ts...)
	})
	return out, found && okAll
}

// ruleBatchedDeleteBound (C09): removing entries up to `index` from the
// batched entry format deletes whole batches, so the (exclusive) upper key of
// the range must not lie above the batch that holds `index`: that batch also
// holds live entries index+1.. . The batch id given to the upper key is
// getBatchID(index)+k with k <= 0 on every path (today k = -1).
func ruleBatchedDeleteBound(e *Engine, r *Report) {
	rule := "DEP-batched-delete-bound"
	fn := r.need("(*internal/logdb.batchedEntries).rangedOp")
	gb := r.need("internal/logdb.getBatchID")
	if fn == nil || gb == nil || len(fn.Params) < 4 {
		return
	}
	idxParam := fn.Params[3]
	want := exprKey(idxParam)
	n := 0
	forEachCall(fn, func(s ssa.CallInstruction) {
		sc := s.Common().StaticCallee()
		if sc == nil || sc.Name() != "SetEntryBatchKey" {
			return
		}
		args := s.Common().Args
		id := args[len(args)-1]
		if c, ok := stripConv(id).(*ssa.Const); ok {
			if u, isU := constantUint64(c); isU && u == 0 {
				return // the lower key
			}
		}
		n++
		ts, ok := e.affine(id, gb, func(v ssa.Value) ssa.Value { return v }, 0)
		good := ok && len(ts) > 0
		worst := ""
		for _, t := range ts {
			if t.atom != want || t.k > 0 {
				good = false
				worst = fmt.Sprintf("getBatchID(%s)%+d", t.atom, t.k)
			}
		}
		if !ok {
			worst = e.describeValue(id) + " (not of the form getBatchID(index)+k)"
		}
		r.check(good, rule, "upper batch key of the ranged delete in rangedOp", e.ipos(s),
			"getBatchID(index)+k with k <= 0 on every path", "the exclusive upper bound of the batch range can be "+worst+": the batch holding `index` - and with it the live entries above index - is removed (or the bound cannot be related to index at all)")
	})
	r.floor(rule, n, 1)
}

// ruleSessionSaveLive (C05, C08): the session image that goes into a snapshot
// is serialised from the live session table at the moment of the call: every
// successful path of SessionManager.SaveSessions traverses the table
// (lrusession.save). A remembered image is stale as soon as the table is
// replaced behind the manager's back (LoadSessions on an installed snapshot),
// and a snapshot carrying it forgets applied series ids.
func ruleSessionSaveLive(e *Engine, r *Report) {
	rule := "MPT-session-save-live"
	fn := r.need("(*internal/rsm.SessionManager).SaveSessions")
	save := r.need("(*internal/rsm.lrusession).save")
	if fn == nil || save == nil {
		return
	}
	isSave := e.throughHelpers(func(s ssa.CallInstruction) bool { return e.CallsTo(s, save) })
	res := e.findPath(fn, nil, func(in ssa.Instruction) bool { return e.isSuccessReturn(in) }, isSave, nil)
	r.check(!res.Found, rule, "SessionManager.SaveSessions serialises the live table on every successful path", e.pos(fn.Pos()),
		"no success return without traversing the session table", "SaveSessions can succeed without serialising the current session table (a remembered image is written instead): a snapshot taken after the table was replaced or changed carries stale sessions, and a retried proposal is applied twice after recovering from it", res.Trace(e)...)
}

// ---------------------------------------------------------------------------
// Soft error pairs (generic): the general error rule lets a sentinel test
// excuse a success exit ("no saved log" means an empty store, not a failure).
// Which error of which operation may be read that way is a design decision,
// so the (operation, sentinel) pairs that are excused today are frozen as a
// table confirmed by reading; a success exit excused by any other pair - a
// new soft reading of an error - is a violation.

// sentinelLabel names the sentinel a test compares the error with.
func (e *Engine) sentinelLabel(cond ssa.Value, aliases map[ssa.Value]bool) string {
	glob := func(v ssa.Value) string {
		v = stripChangeInterface(v)
		if u, ok := v.(*ssa.UnOp); ok && u.Op == token.MUL {
			if g, ok := u.X.(*ssa.Global); ok {
				return g.Pkg.Pkg.Name() + "." + g.Name()
			}
		}
		if c, ok := v.(*ssa.Call); ok {
			return "call:" + calleeLabel(e, c)
		}
		return "?"
	}
	switch x := cond.(type) {
	case *ssa.UnOp:
		if x.Op == token.NOT {
			return e.sentinelLabel(x.X, aliases)
		}
	case *ssa.BinOp:
		a, b := stripChangeInterface(x.X), stripChangeInterface(x.Y)
		if aliases[a] {
			return glob(b)
		}
		return glob(a)
	case *ssa.Call:
		if sc := x.Call.StaticCallee(); sc != nil && sc.Name() == "Is" && len(x.Call.Args) == 2 {
			return glob(x.Call.Args[1])
		}
		return "pred:" + calleeLabel(e, x)
	}
	return "?"
}

type softPair struct{ Fn, Callee, Sentinel, Pos string }

// softPairs lists every success exit that is reachable only because a
// sentinel test of the failed call's error was taken.
func (e *Engine) softPairs() []softPair {
	var out []softPair
	for _, fn := range e.ScopeFuncs() {
		p := fnPkg(fn)
		if p == nil || !inModule(p) || len(fn.Blocks) == 0 || !e.IsLive(outermostFn(fn)) {
			continue
		}
		hasErrRes := errResultIndex(fn) >= 0
		if !hasErrRes {
			continue
		}
		forEachInstr(fn, func(in ssa.Instruction) {
			call, ok := in.(*ssa.Call)
			if !ok {
				return
			}
			if _, isB := call.Call.Value.(*ssa.Builtin); isB {
				return
			}
			vals, hasErr, dropped := errValueOf(call)
			if !hasErr || dropped {
				return
			}
			for _, v := range vals {
				aliases := errAliases(v)
				for _, b := range fn.Blocks {
					if len(b.Instrs) == 0 {
						continue
					}
					ifi, ok := b.Instrs[len(b.Instrs)-1].(*ssa.If)
					if !ok {
						continue
					}
					t, pol := e.sentinelTest(ifi.Cond, aliases)
					if !t {
						continue
					}
					succ := b.Succs[1]
					if pol {
						succ = b.Succs[0]
					}
					if res := e.successFromErrEdgeMode(fn, b, succ, aliases, hasErrRes, true); res.Found {
						out = append(out, softPair{fname(fn), calleeLabel(e, call), e.sentinelLabel(ifi.Cond, aliases), e.ipos(ifi)})
					}
				}
			}
		})
	}
	return out
}

// softPairTable: sentinel -> operations whose error may be read as that soft
// condition (confirmed by reading, 2026-09-24; one reason per sentinel).
var softPairTable = map[string]struct {
	why     string
	callees []string
}{
	"dragonboat.ErrRejected":                                {"a compaction request that raft refuses is not an error of log removal", []string{"(*dragonboat.node).requestCompaction"}},
	"pred:dragonboat.saveAborted":                           {"the user state machine aborted the save (ErrSnapshotStopped): the task ends without a snapshot", []string{"(*dragonboat.snapshotter).Commit", "(*internal/rsm.StateMachine).Save"}},
	"pred:dragonboat.snapshotCommitAborted":                 {"the snapshot being committed is older than one already published: dropped, nothing recorded", []string{"(*dragonboat.snapshotter).Commit"}},
	"dragonboat.ErrNoSnapshot":                              {"no snapshot recorded yet", []string{"(*dragonboat.snapshotter).GetSnapshotFromLogDB"}},
	"pred:(*dragonboat.snapshotter).IsNoSnapshotError":      {"no snapshot recorded yet", []string{"(*dragonboat.snapshotter).GetSnapshotFromLogDB"}},
	"pred:dragonboat.isSoftSnapshotError":                   {"the log reader refuses a snapshot that is out of date / already compacted: nothing to do", []string{"(*internal/logdb.LogReader).ApplySnapshot", "(*internal/logdb.LogReader).CreateSnapshot", "(*internal/rsm.StateMachine).Save"}},
	"raft.ErrCompacted":                                     {"the index asked for is already compacted: nothing left to remove / term unknown", []string{"(*internal/logdb.LogReader).Compact", "(*internal/raft.entryLog).term"}},
	"raftio.ErrNoSavedLog":                                  {"an empty store", []string{"(*internal/logdb.db).getMaxIndex", "raftio.ILogDB.ReadRaftState"}},
	"pred:dragonboat.openAborted":                           {"the user state machine's Open was stopped", []string{"(*internal/rsm.StateMachine).OpenOnDiskStateMachine"}},
	"pred:dragonboat.streamAborted":                         {"streaming was stopped or failed: reported through the snapshot status", []string{"(*internal/rsm.StateMachine).Stream"}},
	"pred:internal/tan.IsInvalidRecord":                     {"a torn tail record of a Tan log / manifest ends the replay", []string{"(*internal/tan.db).readLog", "(*internal/tan.reader).next", "(*internal/tan.versionEdit).decode"}},
	"io.EOF":                                                {"end of the record stream / of the header", []string{"(*internal/tan.reader).next", "(*internal/tan.versionEdit).decode", "encoding/binary.ReadUvarint", "io.ReadFull"}},
	"io.ErrUnexpectedEOF":                                   {"short read of a trailing block: treated as end of data and validated by the caller", []string{"io.ReadFull"}},
	"pred:github.com/cockroachdb/errors/oserror.IsNotExist": {"the file does not exist yet", []string{"github.com/lni/vfs.FS.Stat"}},
	"pred:internal/vfs.IsNotExist":                          {"the file does not exist yet", []string{"internal/vfs.IFS.Stat"}},
	"pred:internal/rsm.ISnapshotter.IsNoSnapshotError":      {"no snapshot recorded yet", []string{"internal/rsm.ISnapshotter.GetSnapshot"}},
	"raftio.ErrNoBootstrapInfo":                             {"the replica was never bootstrapped", []string{"raftio.ILogDB.GetBootstrapInfo"}},
}

// ruleSoftErrorPairs (C10; borrowed by C04, C14, C15, C16, C20).
func ruleSoftErrorPairs(e *Engine, r *Report) {
	rule := "ERR-soft-pairs"
	n := 0
	seen := map[string]bool{}
	for _, sp := range e.softPairs() {
		key := sp.Callee + " / " + sp.Sentinel + " in " + sp.Fn
		if seen[key] {
			continue
		}
		seen[key] = true
		n++
		ent, known := softPairTable[sp.Sentinel]
		if !known {
			r.bad(rule, "error of "+sp.Callee+" read as soft ("+sp.Sentinel+") in "+sp.Fn, sp.Pos,
				"a success exit is reached because the error of "+sp.Callee+" equals "+sp.Sentinel+", which is not one of the soft conditions of this code base: a refusal / failure is reported as success")
			continue
		}
		okc := false
		for _, c := range ent.callees {
			if c == sp.Callee {
				okc = true
			}
		}
		if !okc {
			// a renamed operation? only if one of the tabled operations for this sentinel is gone
			gone := false
			for _, c := range ent.callees {
				if len(c) > 0 && c[0] == '(' && e.Func(c) == nil {
					gone = true
				}
			}
			if gone {
				r.ok(rule, "error of "+sp.Callee+" read as soft ("+sp.Sentinel+") in "+sp.Fn, sp.Pos, "degraded: a tabled operation for this sentinel no longer resolves (renamed?) - accepted as its successor")
				r.note("ERR-soft-pairs: " + sp.Callee + " adopted for sentinel " + sp.Sentinel)
				continue
			}
			r.bad(rule, "error of "+sp.Callee+" read as soft ("+sp.Sentinel+") in "+sp.Fn, sp.Pos,
				sp.Sentinel+" is a soft condition only for "+joinOr(ent.callees)+" ("+ent.why+"); here it excuses a success exit after "+sp.Callee+" failed")
			continue
		}
		r.ok(rule, "error of "+sp.Callee+" read as soft ("+sp.Sentinel+") in "+sp.Fn, sp.Pos, ent.why)
	}
	r.floor(rule, n, 25)
}

// msgTypeSites: the instructions of fn at which a message of the constant type
// c is built: a store of c into Message.Type, or a call of a same-package
// helper that stores the parameter receiving c into Message.Type
// (`r.handleTickMessage(pb.Election)`).
func (e *Engine) msgTypeSites(fn *ssa.Function, msgType *types.Var, c *types.Const) []ssa.Instruction {
	var out []ssa.Instruction
	forEachInstr(fn, func(in ssa.Instruction) {
		switch x := in.(type) {
		case *ssa.Store:
			if f, _, ok := fieldOfAddr(x.Addr); ok && f == msgType && constV(c)(x.Val) {
				out = append(out, in)
			}
		case *ssa.Call:
			g := x.Call.StaticCallee()
			if g == nil || len(g.Blocks) == 0 || fnPkg(g) != fnPkg(fn) {
				return
			}
			args := x.Call.Args
			for i, a := range args {
				if !constV(c)(a) || i >= len(g.Params) {
					continue
				}
				p := g.Params[i]
				hit := false
				forEachInstr(g, func(y ssa.Instruction) {
					if st, ok := y.(*ssa.Store); ok {
						if f, _, ok := fieldOfAddr(st.Addr); ok && f == msgType && stripConv(st.Val) == ssa.Value(p) {
							hit = true
						}
					}
				})
				if hit {
					out = append(out, in)
				}
			}
		}
	})
	return out
}

// ruleStartExclusive (C11, C16): a replica is created only when no incarnation
// of it is still alive on this host: inside the start critical section newNode
// is reached only when the shard is not registered and the execution engine
// no longer holds the (shard, replica) node - the previous incarnation may
// still be saving / recovering a snapshot, and two incarnations would drive
// the same user state machine directory and log concurrently.
func ruleStartExclusive(e *Engine, r *Report) {
	rule := "GD-start-exclusive"
	nn := r.need("dragonboat.newNode")
	loaded := r.need("(*dragonboat.engine).nodeLoaded")
	if nn == nil || loaded == nil {
		return
	}
	n := 0
	for _, s := range e.CallerSites(nn) {
		if !e.IsLive(outermostFn(s.Parent())) {
			continue
		}
		n++
		in := s.(ssa.Instruction)
		isRegistered := func(v ssa.Value) bool {
			// the comma-ok of shards.Load(shardID)
			ex, ok := stripConv(v).(*ssa.Extract)
			if !ok || ex.Index != 1 {
				return false
			}
			c, ok := ex.Tuple.(*ssa.Call)
			if !ok {
				return false
			}
			sc := c.Call.StaticCallee()
			return sc != nil && sc.Name() == "Load"
		}
		r.guard(rule, "newNode in "+fname(s.Parent()), in,
			reqBool("the shard is not registered on this host (shards.Load not ok)", isRegistered, false),
			reqBool("the engine no longer holds the node (nodeLoaded is false)", e.callV(loaded), false))
	}
	r.floor(rule, n, 1)
}

// ruleCodecNested (C13): nested values inside a persisted/wire type.
//
//	(a) presence-self: whether a nested value X of T is encoded / sized is
//	    decided by X alone (nil / empty test of X) or unconditional - a
//	    condition on a *different* field of T (a "has X" flag) makes the
//	    decoder, which sets X whenever the tag is present, disagree with the
//	    encoder for values where the two differ;
//	(b) sizing covers encoding: when T's encoder writes nested X on every path,
//	    every sizing function of T (Size, SizeUpperLimit) counts X on every
//	    path.
func ruleCodecNested(e *Engine, r *Report, minInst int, pkgs ...string) {
	rule := "TBL-codec-nested"
	n := 0
	for _, pk := range pkgs {
		pkg := e.pkgTypes(pk)
		if pkg == nil {
			continue
		}
		sc := pkg.Scope()
		for _, name := range sc.Names() {
			tn, ok := sc.Lookup(name).(*types.TypeName)
			if !ok {
				continue
			}
			nt, ok := tn.Type().(*types.Named)
			if !ok {
				continue
			}
			st, ok := nt.Underlying().(*types.Struct)
			if !ok {
				continue
			}
			find := func(names ...string) *ssa.Function {
				for _, m := range names {
					if f := e.Func("(*" + pk + "." + name + ")." + m); f != nil && len(f.Blocks) > 0 {
						return f
					}
				}
				return nil
			}
			enc := find("MarshalTo", "marshalTo")
			if enc == nil {
				continue
			}
			// for a sibling: nested field name -> (calls, unconditional?)
			type use struct {
				calls  []ssa.Instruction
				uncond bool
			}
			nestedUses := func(fn *ssa.Function, methods map[string]bool) map[string]*use {
				out := map[string]*use{}
				if fn == nil {
					return out
				}
				forEachCall(fn, func(s ssa.CallInstruction) {
					c := s.Common().StaticCallee()
					if c == nil || !methods[c.Name()] || c.Signature.Recv() == nil || len(s.Common().Args) == 0 {
						return
					}
					// receiver derives from a field of T (of fn's receiver)
					var fld string
					e.dependsOn(s.Common().Args[0], func(x ssa.Value) bool {
						switch y := x.(type) {
						case *ssa.FieldAddr:
							if s2 := derefStruct(y.X.Type()); s2 != nil && types.Identical(s2, st) && fld == "" {
								fld = s2.Field(y.Field).Name()
							}
						case *ssa.Field:
							if s2, ok := y.X.Type().Underlying().(*types.Struct); ok && types.Identical(s2, st) && fld == "" {
								fld = s2.Field(y.Field).Name()
							}
						}
						return false
					}, 0)
					if fld == "" {
						return
					}
					u := out[fld]
					if u == nil {
						u = &use{}
						out[fld] = u
					}
					u.calls = append(u.calls, s.(ssa.Instruction))
				})
				for _, u := range out {
					hit := func(in ssa.Instruction) bool {
						for _, c := range u.calls {
							if c == in {
								return true
							}
						}
						return false
					}
					// a nil receiver has nothing to encode: paths behind `m == nil` are exempt
					recvNil := reqCmp("", "==", func(v ssa.Value) bool { return len(fn.Params) > 0 && stripConv(v) == ssa.Value(fn.Params[0]) }, nilV())
					u.uncond = !e.pathUnless(fn, nil, func(in ssa.Instruction) bool {
						return e.isSuccessReturn(in) || (isReturn(in) && errResultIndex(fn) < 0)
					}, hit, recvNil).Found
				}
				return out
			}
			fieldsOfT := func(v ssa.Value) map[string]bool {
				out := map[string]bool{}
				e.dependsOn(v, func(x ssa.Value) bool {
					if f, base, ok := loadedField(x); ok {
						if s2 := derefStruct(base.Type()); s2 != nil && types.Identical(s2, st) {
							out[f.Name()] = true
						} else if s3, ok := base.Type().Underlying().(*types.Struct); ok && types.Identical(s3, st) {
							out[f.Name()] = true
						}
					}
					return false
				}, 1)
				return out
			}
			encUses := nestedUses(enc, map[string]bool{"MarshalTo": true, "marshalTo": true, "MustMarshalTo": true})
			sizers := map[string]*ssa.Function{"Size": find("Size"), "SizeUpperLimit": find("SizeUpperLimit")}
			for sname, sf := range sizers {
				if sf == nil {
					continue
				}
				su := nestedUses(sf, map[string]bool{"Size": true, "SizeUpperLimit": true})
				for fld, eu := range encUses {
					if !eu.uncond {
						continue
					}
					n++
					u, ok := su[fld]
					// a sizing function that does not mention the nested field at all is the business of the
					// field-coverage rule (constant-size fields are covered by the constant part)
					if !ok {
						continue
					}
					r.check(u.uncond, rule, pk+"."+name+"."+sname+" counts nested "+fld+" whenever MarshalTo writes it", e.pos(sf.Pos()),
						"MarshalTo writes "+fld+" on every path and so does the sizing function", sname+" counts the nested "+fld+" only under a condition, but MarshalTo encodes it on every path: for values failing the condition the encoding is longer than the advertised size and a preallocated buffer is overrun")
				}
			}
			// (a) presence-self
			check := func(fnName string, uses map[string]*use) {
				for fld, u := range uses {
					for _, c := range u.calls {
						for _, f := range FactsAt(c) {
							// "the previous step did not fail" is not a presence condition
							if b, ok := f.V.(*ssa.BinOp); ok && (isErrorType(b.X.Type()) || isErrorType(b.Y.Type())) {
								continue
							}
							// the exit condition of an earlier loop (`for _, e := range m.Entries`) is not one either
							loopExit := false
							for _, ifi := range ValueUsesAsCond(f.V) {
								b := ifi.Block()
								for _, pr := range b.Preds {
									if b.Dominates(pr) {
										loopExit = true
									}
								}
							}
							if loopExit {
								continue
							}
							deps := fieldsOfT(f.V)
							var other []string
							for d := range deps {
								if d != fld {
									other = append(other, d)
								}
							}
							if len(other) == 0 {
								continue
							}
							sortStrings(other)
							n++
							r.bad(rule, pk+"."+name+"."+fnName+": presence of nested "+fld+" decided by "+joinOr(other), e.ipos(c),
								"the nested "+fld+" is encoded / counted only under a condition on another field ("+joinOr(other)+"): a value whose "+fld+" is set while that condition is false loses it in the round trip (the decoder knows only the tag)")
						}
					}
				}
			}
			check("MarshalTo", encUses)
			for sname, sf := range sizers {
				if sf != nil {
					check(sname, nestedUses(sf, map[string]bool{"Size": true, "SizeUpperLimit": true}))
				}
			}
		}
	}
	r.floor(rule, n, minInst)
}

// ruleReadCountFromRead (C14): in the snapshot reader code, a function that
// fills a buffer through io.ReadFull / io.ReadAtLeast / an underlying Read
// and reports a byte count reports the count of that read (possibly minus the
// framing it strips): the non-constant count it returns on a path that
// performed the read depends on the read's n. A count taken from a
// configured size instead hands the caller bytes that were never read
// whenever the read is short (the last block of a file).
func ruleReadCountFromRead(e *Engine, r *Report, minInst int, pkgs ...string) {
	rule := "DEP-read-count"
	inPkg := map[*types.Package]bool{}
	for _, p := range pkgs {
		if pk := e.pkgTypes(p); pk != nil {
			inPkg[pk] = true
		}
	}
	isRead := func(v ssa.Value) bool {
		c, ok := v.(*ssa.Call)
		if !ok {
			return false
		}
		if c.Call.IsInvoke() {
			return c.Call.Method.Name() == "Read"
		}
		sc := c.Call.StaticCallee()
		if sc == nil {
			return false
		}
		if sc.Pkg != nil && sc.Pkg.Pkg.Path() == "io" && (sc.Name() == "ReadFull" || sc.Name() == "ReadAtLeast") {
			return true
		}
		return false
	}
	n := 0
	for _, fn := range e.ScopeFuncs() {
		if !inPkg[fnPkg(fn)] || len(fn.Blocks) == 0 || !e.IsLive(outermostFn(fn)) {
			continue
		}
		res := fn.Signature.Results()
		if res.Len() != 2 || !isErrorType(res.At(1).Type()) {
			continue
		}
		if b, ok := res.At(0).Type().Underlying().(*types.Basic); !ok || b.Info()&types.IsInteger == 0 {
			continue
		}
		var reads []ssa.Instruction
		forEachInstr(fn, func(in ssa.Instruction) {
			if v, ok := in.(ssa.Value); ok && isRead(v) {
				reads = append(reads, in)
			}
		})
		if len(reads) == 0 {
			continue
		}
		// also accept counts produced by a same-package helper that itself satisfies the rule
		// (readBlock returns the read's n; Read adds up helper results)
		var fromRead func(x ssa.Value) bool
		fromRead = func(x ssa.Value) bool {
			if isRead(x) {
				return true
			}
			// a receiver field re-sliced to the read's n in this function (br.block = br.block[:n])
			if f, _, ok := loadedField(x); ok {
				hit := false
				forEachInstr(fn, func(y ssa.Instruction) {
					if st, ok := y.(*ssa.Store); ok && !hit {
						if g, _, ok := fieldOfAddr(st.Addr); ok && g == f {
							if e.dependsOn(st.Val, isRead, 0) {
								hit = true
							}
						}
					}
				})
				if hit {
					return true
				}
			}
			if c, ok := x.(*ssa.Call); ok {
				if sc := c.Call.StaticCallee(); sc != nil && inPkg[fnPkg(sc)] {
					return e.returnDependsOn(sc, isRead, 1)
				}
			}
			return false
		}
		forEachInstr(fn, func(in ssa.Instruction) {
			ret, ok := in.(*ssa.Return)
			if !ok || !e.isSuccessReturn(in) {
				return
			}
			v := stripConv(retOperand(ret, 0))
			if _, isC := v.(*ssa.Const); isC {
				return
			}
			// only returns that follow a read on some path
			after := false
			for _, rd := range reads {
				if e.findPath(fn, rd, func(x ssa.Instruction) bool { return x == in }, nil, nil).Found {
					after = true
				}
			}
			if !after {
				return
			}
			n++
			r.check(e.dependsOn(v, fromRead, 1), rule, fname(fn)+" reports the byte count of the read it made", e.ipos(in),
				"the returned count derives from the n of ReadFull/Read", "the byte count returned after reading ("+e.describeValue(v)+") does not derive from the number of bytes the read delivered: on a short read (the partial last block) the caller is told it got more bytes than were read and consumes checksum bytes / stale buffer contents as payload")
		})
	}
	r.floor(rule, n, minInst)
}

// ruleShortReadAccounted (C14, C10): io.ReadFull answers a short read with
// io.ErrUnexpectedEOF and a partial buffer. Code that treats that error as
// "end of data" must account for the bytes that did arrive: it uses the
// returned n, or the buffer is a 1-byte probe (for which a short read is
// impossible). Otherwise up to len(buf)-1 bytes of real data are silently
// taken for "nothing there".
func ruleShortReadAccounted(e *Engine, r *Report, minInst int) {
	rule := "DEP-short-read-accounted"
	n := 0
	for _, fn := range e.ScopeFuncs() {
		p := fnPkg(fn)
		if p == nil || !inModule(p) || len(fn.Blocks) == 0 || !e.IsLive(outermostFn(fn)) {
			continue
		}
		forEachInstr(fn, func(in ssa.Instruction) {
			c, ok := in.(*ssa.Call)
			if !ok {
				return
			}
			sc := c.Call.StaticCallee()
			if sc == nil || sc.Pkg == nil || sc.Pkg.Pkg.Path() != "io" || sc.Name() != "ReadFull" || len(c.Call.Args) != 2 {
				return
			}
			vals, hasErr, _ := errValueOf(c)
			if !hasErr {
				return
			}
			soft := false
			for _, v := range vals {
				aliases := errAliases(v)
				for _, b := range fn.Blocks {
					if len(b.Instrs) == 0 {
						continue
					}
					ifi, ok := b.Instrs[len(b.Instrs)-1].(*ssa.If)
					if !ok {
						continue
					}
					if t, _ := e.sentinelTest(ifi.Cond, aliases); t && e.sentinelLabel(ifi.Cond, aliases) == "io.ErrUnexpectedEOF" {
						soft = true
					}
				}
			}
			if !soft {
				return
			}
			n++
			usesN := false
			if refs := c.Referrers(); refs != nil {
				for _, ref := range *refs {
					if ex, ok := ref.(*ssa.Extract); ok && ex.Index == 0 {
						if rr := ex.Referrers(); rr != nil && len(*rr) > 0 {
							usesN = true
						}
					}
				}
			}
			probe := false
			e.dependsOn(c.Call.Args[1], func(x ssa.Value) bool {
				if mk, ok := x.(*ssa.MakeSlice); ok {
					if k, ok := mk.Len.(*ssa.Const); ok {
						if u, isU := constantUint64(k); isU && u == 1 {
							probe = true
						}
					}
				}
				if al, ok := x.(*ssa.Alloc); ok {
					if at, ok := al.Type().(*types.Pointer); ok {
						if arr, ok := at.Elem().Underlying().(*types.Array); ok && arr.Len() == 1 {
							probe = true
						}
					}
				}
				return false
			}, 0)
			r.check(usesN || probe, rule, "short read of io.ReadFull in "+fname(fn)+" is accounted for", e.ipos(in),
				"the byte count is used, or the buffer is a one-byte probe", "io.ErrUnexpectedEOF of this read is treated as end of data although the buffer is longer than one byte and the byte count is discarded: up to len(buf)-1 bytes that did arrive are taken for nothing")
		})
	}
	r.floor(rule, n, minInst)
}

// ruleRemoveRecommits (C17, C07): removing a voting member or a witness
// shrinks the quorum, so entries that were one acknowledgement short may now
// be committed: the leader re-evaluates the commit index on every path of
// removeNode, the only exemptions being "not the leader" and "no voting
// member left". (The removed replica's own late acknowledgement is dropped
// as coming from an unknown sender, so nothing else would trigger it.)
func ruleRemoveRecommits(e *Engine, r *Report) {
	rule := "MPT-remove-recommits"
	fn := r.need(raftT + "removeNode")
	tc := r.need(raftT + "tryCommit")
	isLeader := r.need(raftT + "isLeader")
	nvm := r.need(raftT + "numVotingMembers")
	if fn == nil || tc == nil || isLeader == nil || nvm == nil {
		return
	}
	isTC := e.throughHelpers(func(s ssa.CallInstruction) bool { return e.CallsTo(s, tc) })
	exempt := reqAny("not the leader, or no voting member left",
		reqBool("", e.callV(isLeader), false),
		reqCmp("", "<=", e.callV(nvm), intConstV(0)),
		reqCmp("", "==", e.callV(nvm), intConstV(0)))
	res := e.pathUnless(fn, nil, isReturn, isTC, exempt)
	r.check(!res.Found, rule, "removeNode re-evaluates the commit index on the leader", e.pos(fn.Pos()),
		"tryCommit on every path of a leader that still has voting members", "a leader can finish removeNode without re-evaluating the commit index (e.g. when the removed replica was a witness): an entry already stored on the new, smaller quorum stays uncommitted until some later proposal arrives", res.Trace(e)...)
}

// ruleImportRecordWriters (C20): in the import tool the snapshot record that
// is finalized and handed to the log store is built in one place (the function
// that returns the processed pb.Snapshot); the copy / check steps read the
// exported record and never write a field of a Snapshot or SnapshotFile - the
// external-file entries are shared pointers, so a write in the copy step
// silently rewrites the already processed record (e.g. to paths inside the
// temporary directory that is renamed away a moment later).
func ruleImportRecordWriters(e *Engine, r *Report) {
	rule := "WMW-import-record"
	tools := e.pkgTypes("tools")
	ssT := e.Named("raftpb", "Snapshot")
	if tools == nil || ssT == nil {
		return
	}
	builder := func(fn *ssa.Function) bool {
		g := outermostFn(fn)
		res := g.Signature.Results()
		for i := 0; i < res.Len(); i++ {
			if types.Identical(res.At(i).Type(), ssT) {
				return true
			}
		}
		return false
	}
	n := 0
	for _, tname := range []string{"Snapshot", "SnapshotFile"} {
		nt := e.Named("raftpb", tname)
		if nt == nil {
			continue
		}
		st, _ := nt.Underlying().(*types.Struct)
		for i := 0; st != nil && i < st.NumFields(); i++ {
			for _, w := range e.FieldWrites(st.Field(i)) {
				if fnPkg(w.Fn) != tools {
					continue
				}
				if w.Kind == "init" {
					// a fresh literal is not the shared record
					continue
				}
				n++
				r.check(builder(w.Fn), rule, tname+"."+st.Field(i).Name()+" written in "+fname(w.Fn), e.ipos(w.Instr),
					"written by the function that builds the processed record", "a field of the snapshot record is written outside the function that builds the processed record: the external-file entries are shared pointers, so the record that is finalized and stored in the log store is changed behind its back")
			}
		}
	}
	r.floor(rule, n, 1)
}

// ruleStreamCloseOnSuccess (C15, C14): closing the chunk writer flushes the
// last block, writes the size/magic tail and sends the final chunk, which is
// what makes the receiver validate and finalize the stream. It therefore
// happens only when the state machine's Stream call succeeded; after any
// error the sink is poisoned (or left to time out) instead - a writer closed
// after a failed save produces a truncated stream that validates.
func ruleStreamCloseOnSuccess(e *Engine, r *Report) {
	rule := "GD-stream-close-on-success"
	fn := r.need("(*dragonboat.snapshotter).Stream")
	m := r.needMethod("internal/rsm", "IStreamable", "Stream")
	if fn == nil || m == nil {
		return
	}
	isStreamErr := func(v ssa.Value) bool {
		v = stripChangeInterface(stripConv(v))
		if c, ok := v.(*ssa.Call); ok {
			return e.IsMethodCall(c, m)
		}
		return false
	}
	n := 0
	for _, g := range e.regionOf(fn, 0) {
		forEachCall(g, func(s ssa.CallInstruction) {
			if _, isDefer := s.(*ssa.Defer); isDefer {
				return
			}
			cc := s.Common()
			if !cc.IsInvoke() || cc.Method.Name() != "Close" {
				return
			}
			// the writer side (the compressor / chunk writer), not the sink
			if named, ok := cc.Value.Type().(*types.Named); ok && named.Obj().Name() == "IChunkSink" {
				return
			}
			n++
			r.guard(rule, "writer Close in "+fname(g), s.(ssa.Instruction),
				reqCmp("the state machine's Stream call returned no error", "==", isStreamErr, nilV()))
		})
	}
	r.floor(rule, n, 1)
}
