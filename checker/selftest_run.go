package main

import (
	"bufio"
	"bytes"
	"encoding/json"
	"fmt"
	"os"
	"os/exec"
	"path/filepath"
	"sort"
	"strings"
	"sync"
)

// A fixture is /verif/mutants/<prop>/<name>.patch. Leading comment lines:
//
//	# kind: broken|benign
//	# expect: <substring of "RULE construct"> (broken only; may repeat)
//	# why: free text
type fixture struct {
	Name   string
	Path   string
	Kind   string
	Expect []string
}

func readFixtures(dir string) []fixture {
	ents, err := os.ReadDir(dir)
	if err != nil {
		return nil
	}
	var out []fixture
	for _, en := range ents {
		if !strings.HasSuffix(en.Name(), ".patch") {
			continue
		}
		fx := fixture{Name: strings.TrimSuffix(en.Name(), ".patch"), Path: filepath.Join(dir, en.Name()), Kind: "broken"}
		f, err := os.Open(fx.Path)
		if err != nil {
			continue
		}
		sc := bufio.NewScanner(f)
		for sc.Scan() {
			l := sc.Text()
			if !strings.HasPrefix(l, "#") {
				break
			}
			l = strings.TrimSpace(strings.TrimPrefix(l, "#"))
			switch {
			case strings.HasPrefix(l, "kind:"):
				fx.Kind = strings.TrimSpace(strings.TrimPrefix(l, "kind:"))
			case strings.HasPrefix(l, "expect:"):
				fx.Expect = append(fx.Expect, strings.TrimSpace(strings.TrimPrefix(l, "expect:")))
			}
		}
		f.Close()
		out = append(out, fx)
	}
	sort.Slice(out, func(i, j int) bool { return out[i].Name < out[j].Name })
	return out
}

// readSeeded: the independent seeded changes of /verif/seeded/<prop>-<k>/
// whose meta.json records that a rule of this property reports them are
// regression fixtures too: the thorough tier re-checks that each is still
// reported by the recorded rule(s).
func readSeeded(dir, prop string) []fixture {
	ents, err := os.ReadDir(dir)
	if err != nil {
		return nil
	}
	var out []fixture
	for _, en := range ents {
		if !en.IsDir() || !strings.HasPrefix(en.Name(), prop+"-") {
			continue
		}
		b, err := os.ReadFile(filepath.Join(dir, en.Name(), "meta.json"))
		if err != nil {
			continue
		}
		var meta struct {
			DetectedBy []struct {
				Property string `json:"property"`
				Rule     string `json:"rule"`
			} `json:"detected_by"`
		}
		if json.Unmarshal(b, &meta) != nil {
			continue
		}
		seen := map[string]bool{}
		var expect []string
		for _, d := range meta.DetectedBy {
			if d.Property == prop && !seen[d.Rule] && d.Rule != "" {
				seen[d.Rule] = true
				expect = append(expect, " "+d.Rule+" ")
			}
		}
		if len(expect) == 0 {
			continue // recorded as not detected by this property's rules
		}
		out = append(out, fixture{Name: "seeded:" + en.Name(), Path: filepath.Join(dir, en.Name(), "patch.diff"), Kind: "broken", Expect: expect})
	}
	sort.Slice(out, func(i, j int) bool { return out[i].Name < out[j].Name })
	return out
}

func scratchBase() string {
	if s := os.Getenv("VERIF_SCRATCH"); s != "" {
		return s
	}
	return "/var/tmp"
}

// runFixture copies repo to a scratch dir, applies the patch and runs this
// binary on it. Returns the violation lines, whether the patch applied and
// whether the variant loaded (compiled).
func runFixture(repo string, p *Property, fx fixture) (lines []string, applied bool, loaded bool, errs string) {
	dir, err := os.MkdirTemp(scratchBase(), "dbcheck-selftest-")
	if err != nil {
		return nil, false, false, err.Error()
	}
	defer os.RemoveAll(dir)
	src := filepath.Join(dir, "repo")
	vdir := filepath.Join(dir, "verif")
	_ = os.MkdirAll(vdir, 0o755)
	cp := exec.Command("rsync", "-a", "--exclude=.git", "--exclude=single_nodehost_test_dir_safe_to_delete", repo+"/", src+"/")
	if out, err := cp.CombinedOutput(); err != nil {
		return nil, false, false, "copy: " + string(out)
	}
	ap := exec.Command("git", "apply", "--whitespace=nowarn", fx.Path)
	ap.Dir = src
	ap.Env = append(os.Environ(), "GIT_DIR=/nonexistent", "GIT_CEILING_DIRECTORIES="+dir)
	if out, err := ap.CombinedOutput(); err != nil {
		return nil, false, false, "apply: " + strings.TrimSpace(string(out))
	}
	self, _ := os.Executable()
	cmd := exec.Command(self, "-prop", p.ID, "-tier", "quick", "-repo", src, "-verif", vdir, "-noselftest")
	var buf bytes.Buffer
	cmd.Stdout = &buf
	cmd.Stderr = &buf
	_ = cmd.Run()
	loaded = true
	for _, l := range strings.Split(buf.String(), "\n") {
		t := strings.TrimSpace(l)
		if strings.HasPrefix(t, "VIOLATION ") || strings.HasPrefix(t, "UNDECIDED ") {
			if strings.Contains(t, " LOAD ") {
				loaded = false
			}
			if !strings.HasPrefix(t, "VIOLATION property=") {
				lines = append(lines, t)
			}
		}
	}
	return lines, true, loaded, ""
}

func runSelfTest(verifDir, repo string, p *Property) (map[string]interface{}, *Report) {
	fxs := readFixtures(filepath.Join(verifDir, "mutants", p.ID))
	fxs = append(fxs, readSeeded(filepath.Join(verifDir, "seeded"), p.ID)...)
	rep := &Report{Prop: p.ID, cfg: "selftest"}
	type res struct {
		fx      fixture
		lines   []string
		applied bool
		loaded  bool
		errs    string
	}
	results := make([]res, len(fxs))
	sem := make(chan struct{}, 4)
	var wg sync.WaitGroup
	for i, fx := range fxs {
		wg.Add(1)
		go func(i int, fx fixture) {
			defer wg.Done()
			sem <- struct{}{}
			defer func() { <-sem }()
			l, a, ld, es := runFixture(repo, p, fx)
			results[i] = res{fx, l, a, ld, es}
		}(i, fx)
	}
	wg.Wait()
	killed, benignOK, skipped := 0, 0, 0
	var detail []map[string]interface{}
	for _, rs := range results {
		d := map[string]interface{}{"fixture": rs.fx.Name, "kind": rs.fx.Kind}
		switch {
		case !rs.applied:
			skipped++
			d["result"] = "skipped: patch does not apply to the current tree (" + rs.errs + ")"
		case !rs.loaded:
			d["result"] = "variant does not type-check"
			rep.add(Ob{Rule: "SELFTEST", Construct: rs.fx.Name, Pos: "-", OK: false, Kind: "undecided",
				Detail: "fixture no longer compiles after applying; the self-test cannot tell whether the rule still fires"})
		case rs.fx.Kind == "benign":
			if len(rs.lines) == 0 {
				benignOK++
				d["result"] = "silent (as required)"
				rep.add(Ob{Rule: "SELFTEST", Construct: rs.fx.Name, Pos: "-", OK: true, Detail: "benign variant: rules stay silent"})
			} else {
				d["result"] = "FALSE ALARM"
				d["reports"] = rs.lines
				rep.add(Ob{Rule: "SELFTEST", Construct: rs.fx.Name, Pos: "-", OK: false, Kind: "undecided",
					Detail: "rules fire on a behaviour-preserving variant: " + strings.Join(rs.lines, " | ")})
			}
		default:
			hit := len(rs.lines) > 0
			for _, ex := range rs.fx.Expect {
				found := false
				for _, l := range rs.lines {
					if strings.Contains(l, ex) {
						found = true
					}
				}
				if !found {
					hit = false
				}
			}
			if hit {
				killed++
				d["result"] = "reported"
				d["reports"] = rs.lines
				rep.add(Ob{Rule: "SELFTEST", Construct: rs.fx.Name, Pos: "-", OK: true, Detail: "broken variant is reported and the report names the instance"})
			} else {
				d["result"] = "MISSED"
				d["reports"] = rs.lines
				rep.add(Ob{Rule: "SELFTEST", Construct: rs.fx.Name, Pos: "-", OK: false, Kind: "undecided",
					Detail: fmt.Sprintf("broken variant not reported as expected %v; got %v", rs.fx.Expect, rs.lines)})
			}
		}
		detail = append(detail, d)
	}
	st := map[string]interface{}{
		"fixtures": len(fxs), "broken_reported": killed, "benign_silent": benignOK, "skipped_not_applicable": skipped, "detail": detail,
	}
	if len(fxs) == 0 {
		return st, nil
	}
	return st, rep
}
