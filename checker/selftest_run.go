package main

func runSelfTest(verifDir, repo string, p *Property) (map[string]interface{}, *Report) {
	return nil, nil
}
