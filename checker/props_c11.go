package main

import (
	"go/types"
	"strings"

	"golang.org/x/tools/go/ssa"
)

func init() {
	register(&Property{
		ID:          "C11",
		Explanation: "Decides the structural clause of the user state machine threading contract: at every call site that enters the user state machine (through rsm.IStateMachine), in every calling context of the non-test program, the state-machine lock is held in the required mode (Update/BatchedUpdate/Sync/Open/Recover exclusive; Prepare/GetHash/plain Lookup/plain Save at least shared) or the context is one of the documented lock-free paths (concurrent lookup, concurrent save, stream) which are reachable only behind the Concurrent()/on-disk test; the user Close is called with the same lock under which Lookup tests the destroyed flag, only from the close worker, only after the managed state machine is fully offloaded; the Update family is reachable only from the apply entry; snapshot jobs are excluded from concurrent apply by the scheduling guards. Does not decide strictly increasing indexes or exactly-once delivery at run time. node.destroy runs behind the destroyed test of the executing worker; a replica is created only when no incarnation is registered or still loaded.",
		NotCovered:  "exactly-once, in-order delivery of the Update stream at run time (asserted by the code's own panics); lock instance identity (locks are abstracted to their field)",
		Run:         runC11,
	})
}

func runC11(e *Engine, r *Report) {
	// borrowed mechanism (round 9): a replica streams its on-disk state only once its applied index has caught up with what Open() reported (C08): otherwise the receiver is handed entries its installed state already contains
	borrow(e, r, "C08", "GD-ready-to-stream")
	smMu := r.needField("internal/rsm", "StateMachine", "mu")
	nsMu := r.needField("internal/rsm", "NativeSM", "mu")
	if smMu == nil || nsMu == nil {
		return
	}
	type req struct {
		method string
		mode   int // on StateMachine.mu
	}
	reqs := []req{
		{"Update", 2}, {"Sync", 2}, {"Open", 2}, {"Recover", 2},
		{"Prepare", 1}, {"GetHash", 1},
	}
	nsPkg := e.pkgTypes("internal/rsm")
	total := 0
	siteFns := map[string]bool{}
	for _, q := range reqs {
		m := r.needMethod("internal/rsm", "IStateMachine", q.method)
		if m == nil {
			continue
		}
		n := 0
		for _, s := range e.AllMethodSites(m) {
			if fnPkg(s.Parent()) != nsPkg {
				continue
			}
			n++
			total++
			siteFns[fname(s.Parent())] = true
			r.requireLock("LS-usersm", "user "+q.method+" called in "+fname(s.Parent()), s.(ssa.Instruction), smMu, q.mode, "StateMachine.mu")
		}
		r.floor("LS-usersm-"+q.method, n, 1)
	}
	// ---- Lookup / NALookup: plain path holds both locks shared; the
	// concurrent variants are lock-free by contract and reachable only under
	// Concurrent()
	concurrentFn := r.need("(*internal/rsm.StateMachine).Concurrent")
	for _, mn := range []string{"Lookup", "NALookup"} {
		m := r.needMethod("internal/rsm", "IStateMachine", mn)
		if m == nil {
			continue
		}
		n := 0
		for _, s := range e.AllMethodSites(m) {
			if fnPkg(s.Parent()) != nsPkg {
				continue
			}
			n++
			total++
			parent := fname(s.Parent())
			if strings.Contains(parent, "Concurrent") {
				// documented lock-free variant: every caller chain must come through the Concurrent() test
				mgr := e.Method("internal/rsm", "IManagedStateMachine", s.Parent().Name())
				cnt := 0
				for _, cs := range e.AllMethodSites(mgr) {
					cnt++
					// the site sits in a helper; the helper's callers must be guarded by Concurrent() == true
					helper := cs.Parent()
					for _, hs := range e.CallerSites(helper) {
						if concurrentFn != nil {
							r.guard("GD-concurrent-lookup", fname(helper)+" called in "+fname(hs.Parent()), hs.(ssa.Instruction),
								reqBool("StateMachine.Concurrent() is true", e.callV(concurrentFn), true))
						}
					}
				}
				r.check(cnt > 0, "GD-concurrent-lookup", parent+" has managed callers", e.ipos(s), "lock-free lookup variant is called through the managed interface", "no caller found")
				continue
			}
			r.requireLock("LS-usersm", "user "+mn+" called in "+parent+" (StateMachine.mu)", s.(ssa.Instruction), smMu, 1, "StateMachine.mu")
			r.requireLock("LS-usersm", "user "+mn+" called in "+parent+" (NativeSM.mu)", s.(ssa.Instruction), nsMu, 1, "NativeSM.mu")
			// destroyed is tested under the same lock before the call
			destroyed := r.needField("internal/rsm", "OffloadedStatus", "destroyed")
			if destroyed != nil {
				r.guard("GD-destroyed", "user "+mn+" in "+parent, s.(ssa.Instruction), reqBool("destroyed is false", fieldV(destroyed), false))
			}
		}
		r.floor("LS-usersm-"+mn, n, 2)
	}
	// ---- Save: plain path under StateMachine.mu (shared); lock-free only via concurrentSave / stream
	if m := r.needMethod("internal/rsm", "IStateMachine", "Save"); m != nil {
		n := 0
		for _, s := range e.AllMethodSites(m) {
			if fnPkg(s.Parent()) != nsPkg {
				continue
			}
			n++
			total++
			for i, c := range e.HeldAt(s.(ssa.Instruction)) {
				if c.Held[smMu] >= 1 {
					r.ok("LS-usersm-save", "user Save context #"+itoa(i+1)+" holds StateMachine.mu", e.ipos(s), "plain save runs under the state machine lock")
					continue
				}
				chain := strings.Join(c.Chain, " -> ")
				okc := strings.Contains(chain, "(*internal/rsm.StateMachine).concurrentSave") || strings.Contains(chain, "(*internal/rsm.StateMachine).stream")
				r.check(okc, "LS-usersm-save", "user Save context #"+itoa(i+1)+" lock-free via concurrentSave/stream", e.ipos(s),
					"lock-free save context is the concurrent-save or stream path",
					"user SaveSnapshot is reachable without StateMachine.mu outside the concurrent-save/stream paths", c.Chain...)
			}
		}
		r.floor("LS-usersm-Save", n, 1)
		// concurrentSave only behind Concurrent()
		if cs := r.need("(*internal/rsm.StateMachine).concurrentSave"); cs != nil && concurrentFn != nil {
			for _, s := range e.CallerSites(cs) {
				r.guard("GD-concurrent-save", "concurrentSave called in "+fname(s.Parent()), s.(ssa.Instruction),
					reqBool("StateMachine.Concurrent() is true", e.callV(concurrentFn), true))
			}
		}
		// Stream only for on-disk state machines: the node-level caller tests OnDiskStateMachine / canStream
	}
	// ---- Close
	if m := r.needMethod("internal/rsm", "IStateMachine", "Close"); m != nil {
		n := 0
		for _, s := range e.AllMethodSites(m) {
			if fnPkg(s.Parent()) != nsPkg {
				continue
			}
			n++
			total++
			r.requireLock("LS-usersm-close", "user Close called in "+fname(s.Parent()), s.(ssa.Instruction), nsMu, 2, "NativeSM.mu")
		}
		r.floor("LS-usersm-Close", n, 1)
		// destroyed written under the same lock
		destroyed := r.needField("internal/rsm", "OffloadedStatus", "destroyed")
		if destroyed != nil {
			for _, w := range e.FieldWrites(destroyed) {
				if w.Kind == "init" {
					continue
				}
				r.requireLock("LS-usersm-close", "destroyed flag written in "+fname(w.Fn), w.Instr, nsMu, 2, "NativeSM.mu")
			}
		}
	}
	r.floor("LS-usersm", total, 12)

	// ---- close chain: IManagedStateMachine.Close only from StateMachine.Close, only from node.destroy,
	// which is called only from the close worker after setCloseReady, which needs Offloaded()==true
	mgrClose := r.needMethod("internal/rsm", "IManagedStateMachine", "Close")
	if mgrClose != nil {
		for _, s := range e.AllMethodSites(mgrClose) {
			r.check(fname(s.Parent()) == "(*internal/rsm.StateMachine).Close", "WMC-close-chain", "managed Close called in "+fname(s.Parent()), e.ipos(s),
				"the managed state machine is closed only through StateMachine.Close", "unexpected caller of IManagedStateMachine.Close")
		}
	}
	smClose := r.need("(*internal/rsm.StateMachine).Close")
	if smClose != nil {
		cs := e.CallerSites(smClose)
		for _, s := range cs {
			if pk := fnPkg(s.Parent()); pk == nil || !scopePkg(pk.Path()) {
				continue
			}
			// the caller must be the node's destroy step
			r.check(fname(s.Parent()) == "(*dragonboat.node).destroy", "WMC-close-chain", "StateMachine.Close called in "+fname(s.Parent()), e.ipos(s),
				"the state machine is closed only by node.destroy", "unexpected caller of StateMachine.Close")
		}
	}
	if destroy := r.need("(*dragonboat.node).destroy"); destroy != nil {
		for _, s := range e.CallerSites(destroy) {
			p := s.Parent()
			for p.Parent() != nil {
				p = p.Parent()
			}
			r.check(strings.Contains(fname(p), "closeWorker") || strings.Contains(fname(p), "processCloses") || strings.Contains(fname(p), "closeWorkerMain"),
				"WMC-close-chain", "node.destroy called in "+fname(p), e.ipos(s),
				"node.destroy runs on the close worker", "node.destroy is called outside the close worker")
			// at most once: the worker tests the destroyed flag when it executes the request
			// (a test at enqueue time does not exclude a second request queued behind a running one)
			if dd := r.need("(*dragonboat.node).destroyed"); dd != nil {
				r.guard("GD-destroy-once", "node.destroy called in "+fname(s.Parent()), s.(ssa.Instruction),
					reqBool("the node is not destroyed yet (tested by the executing worker)", e.callV(dd), false))
			}
		}
	}
	// setCloseReady only when Offloaded() returned true
	setClose := r.need("(*dragonboat.workReady).shardReady")
	_ = setClose
	offloadedM := r.needMethod("internal/rsm", "IManagedStateMachine", "Offloaded")
	smOff := r.need("(*internal/rsm.StateMachine).Offloaded")
	if offloadedM != nil && smOff != nil {
		n := 0
		for _, fn := range e.ScopeFuncs() {
			if !strings.HasSuffix(fname(fn), ".setCloseReady") {
				continue
			}
			for _, s := range e.CallerSites(fn) {
				if pk := fnPkg(s.Parent()); pk == nil || !scopePkg(pk.Path()) {
					continue
				}
				n++
				r.guard("GD-close-ready", fname(fn)+" called in "+fname(s.Parent()), s.(ssa.Instruction),
					reqBool("sm.Offloaded() is true (last component gone)", e.callV(smOff), true))
			}
		}
		r.floor("GD-close-ready", n, 1)
		// Offloaded returns true only when the counter reached zero, under NativeSM.mu
		if off := r.need("(*internal/rsm.NativeSM).Offloaded"); off != nil {
			setOff := e.Func("(*internal/rsm.OffloadedStatus).SetOffloaded")
			okz := false
			forEachInstr(off, func(in ssa.Instruction) {
				if ret, ok := in.(*ssa.Return); ok {
					if hasCmpFact([]Fact{{retOperand(ret, 0), true}}, "==", e.callV(setOff), intConstV(0)) {
						okz = true
					}
				}
			})
			r.check(okz, "GD-close-ready", "NativeSM.Offloaded is `remaining == 0`", e.pos(off.Pos()),
				"fully offloaded means the loaded counter reached zero", "Offloaded no longer reports `SetOffloaded() == 0`")
		}
	}

	// ---- snapshot jobs run only on a node the pool still holds loaded: a
	// job is handed to a snapshot worker (send on ssWorker.requestC) only
	// when its shard is in the pool's loaded set (workerPool.nodes, whose
	// members hold a reference that keeps the state machine open) and the
	// loaded node is the instance the job was created for. A parked job of
	// a stopped shard would otherwise run against a closed state machine.
	reqC := r.needField("", "ssWorker", "requestC")
	nodesF := r.needField("", "workerPool", "nodes")
	nodeInst := r.needField("", "node", "instanceID")
	jobInst := r.needField("", "job", "instanceID")
	if reqC != nil && nodesF != nil && nodeInst != nil && jobInst != nil {
		var lookupOK VM = func(v ssa.Value) bool {
			ex, ok := v.(*ssa.Extract)
			if !ok || ex.Index != 1 {
				return false
			}
			lk, ok := ex.Tuple.(*ssa.Lookup)
			return ok && lk.CommaOk && fieldV(nodesF)(lk.X)
		}
		n := 0
		for _, fn := range e.ScopeFuncs() {
			forEachInstr(fn, func(in ssa.Instruction) {
				var ch ssa.Value
				switch x := in.(type) {
				case *ssa.Send:
					ch = x.Chan
				case *ssa.Select:
					for _, st := range x.States {
						if st.Dir == types.SendOnly && fieldV(reqC)(st.Chan) {
							ch = st.Chan
						}
					}
				}
				if ch == nil || !fieldV(reqC)(ch) {
					return
				}
				n++
				q := reqBool("the job's shard is in workerPool.nodes (lookup ok)", lookupOK, true)
				if ok, _ := e.guardedOnAllPaths(in, q); ok {
					r.ok("GD-job-loaded", "job dispatch in "+fname(fn)+" requires the shard to be loaded", e.ipos(in), "guard in the dispatching function")
				} else {
					cs := e.CallerSites(fn)
					r.check(len(cs) > 0, "GD-job-loaded", "job dispatch in "+fname(fn)+" has callers", e.ipos(in), "dispatch helper is called", "dispatch is neither guarded nor called")
					for _, s := range cs {
						r.guard("GD-job-loaded", "job dispatch via "+fname(fn)+" called in "+fname(s.Parent()), s.(ssa.Instruction), q)
					}
				}
				r.guard("GD-job-loaded", "job dispatch in "+fname(fn), in,
					reqCmp("loaded node's instanceID == job's instanceID", "==", fieldV(nodeInst), fieldV(jobInst)))
			})
		}
		r.floor("GD-job-loaded", n, 1)
	}

	// ---- Update family only from the apply entry (StateMachine.Handle)
	handle := r.need("(*internal/rsm.StateMachine).Handle")
	if handle != nil {
		reach := e.Reach([]*ssa.Function{handle}, nil)
		for _, mn := range []string{"Update", "BatchedUpdate"} {
			m := r.needMethod("internal/rsm", "IManagedStateMachine", mn)
			for _, s := range e.AllMethodSites(m) {
				r.check(reach[s.Parent()], "WMC-apply-entry", "managed "+mn+" called in "+fname(s.Parent()), e.ipos(s),
					"the update call is on the apply path below StateMachine.Handle", "the state machine is updated from outside the apply path")
				// and its callers chain: every root reaching it passes through Handle
				for _, c := range e.Contexts(s.Parent()) {
					ch := strings.Join(c.Chain, " -> ")
					r.check(strings.Contains(ch, "(*internal/rsm.StateMachine).Handle") || strings.Contains(ch, "(*internal/rsm.StateMachine).handle"),
						"WMC-apply-entry", "managed "+mn+" context via "+lastN(c.Chain, 1), e.ipos(s),
						"calling context passes through the apply entry", "a calling context reaches the update without passing the apply entry", c.Chain...)
				}
			}
		}
	}
	// ---- the snapshot pool drops its references (which keep the state
	// machines open) only after its workers have been stopped and joined:
	// every call of unloadNodes comes after workerStopper.Stop()
	if un := r.need("(*dragonboat.workerPool).unloadNodes"); un != nil {
		stopF := r.needField("", "workerPool", "workerStopper")
		isStop := func(in ssa.Instruction) bool {
			c, ok := in.(*ssa.Call)
			if !ok || len(c.Call.Args) == 0 {
				return false
			}
			sc := c.Call.StaticCallee()
			return sc != nil && sc.Name() == "Stop" && stopF != nil && fieldV(stopF)(c.Call.Args[0])
		}
		n := 0
		for _, s := range e.CallerSites(un) {
			n++
			okp, _ := e.alwaysPrecededBy(s.(ssa.Instruction), isStop, 1)
			r.check(okp, "MPT-pool-stop-order", "unloadNodes called in "+fname(s.Parent())+" after workerStopper.Stop()", e.ipos(s),
				"snapshot workers are joined before the pool releases the nodes",
				"the pool releases its node references while snapshot workers may still run: the offload count reaches zero and the user state machine is closed under a running save/recover/stream job")
		}
		r.floor("MPT-pool-stop-order", n, 1)
		// unloadNodes is the only place that offloads everything; it must exist on the stop path
		// and offload both the loaded and the busy nodes
		off := e.Func("(*dragonboat.node).offloaded")
		cnt := 0
		forEachCall(un, func(c ssa.CallInstruction) {
			if cc, ok := c.(*ssa.Call); ok && off != nil && e.CallsTo(cc, off) {
				cnt++
			}
		})
		r.check(cnt >= 2, "MPT-pool-stop-order", "unloadNodes offloads loaded and busy nodes", e.pos(un.Pos()), "both reference sets are released", "unloadNodes no longer releases both the loaded and the busy reference sets")
	}
	// "each entry is delivered once": the applied index advances in the function (and critical
	// section) that applied the entry, on every exit (decided by C02's rule set)
	borrow(e, r, "C02", "MPT-setapplied")
	// an on-disk state machine is never handed an entry at or below the index it holds: the cursors that enforce it (C08)
	borrow(e, r, "C08", "WMW-ondisk-cursors", "MPT-open-ondisk-index")
	ruleSnapshotJobExclusion(e, r)
	ruleLastAppliedContiguous(e, r)
	ruleTaskQueueFIFO(e, r)
	ruleStartExclusive(e, r)
	ruleJobRegistered(e, r)
	ruleJobUnregistered(e, r)
}

func lastN(ss []string, n int) string {
	if len(ss) <= n {
		return strings.Join(ss, " -> ")
	}
	return strings.Join(ss[len(ss)-n:], " -> ")
}
