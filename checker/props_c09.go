package main

import (
	"go/types"

	"golang.org/x/tools/go/ssa"
)

func init() {
	register(&Property{
		ID:          "C09",
		Explanation: "Decides narrow structural clauses of 'the log store returns the logical log': the recorded logical end (max index) is kept in the KV record and in the cache together - every non-reset update of the cached max index is paired with the KV put in the same write batch; recording entries and recording a snapshot both update the max index on every path; every entry-iteration implementation clamps its upper bound by the max index it is given, and the store obtains that bound from the max-index record before iterating or computing the range; gaps stop an iteration (expected-index test); read-side storage errors propagate. Equivalence with a reference log over operation sequences (batch merging, Tan index merge/overwrite arithmetic) is declined. The log reader keeps nothing read from the store; the batched ranged delete never reaches the batch holding the index (affine bound).",
		NotCovered:  "equivalence with the logical log model over arbitrary save/remove/reopen sequences; Tan index arithmetic (value-level; not applicable to static analysis)",
		Run:         runC09,
	})
}

func runC09(e *Engine, r *Report) {
	cacheSet := r.need("(*internal/logdb.cache).setMaxIndex")
	saveMI := r.need("(*internal/logdb.db).saveMaxIndex")
	dbSet := r.helper("(*internal/logdb.db).setMaxIndex") // wrapper around the cache setter and the KV put; may be inlined
	getMI := r.need("(*internal/logdb.db).getMaxIndex")
	if cacheSet == nil || saveMI == nil || getMI == nil {
		return
	}
	isCall := func(f *ssa.Function) func(ssa.Instruction) bool {
		return func(in ssa.Instruction) bool {
			c, ok := in.(*ssa.Call)
			return ok && e.CallsTo(c, f)
		}
	}
	// "sets the max index": the wrapper, or anything that on every return has written the KV record
	putsMaxIndex := e.throughHelpers(func(c ssa.CallInstruction) bool { return e.CallsTo(c, saveMI) })
	isSetMI := func(in ssa.Instruction) bool {
		if dbSet != nil && isCall(dbSet)(in) {
			return true
		}
		return putsMaxIndex(in)
	}
	// ---- cache and KV record move together
	n := 0
	for _, s := range e.CallerSites(cacheSet) {
		n++
		args := s.Common().Args
		key := "cache.setMaxIndex in " + fname(s.Parent())
		if len(args) >= 4 && intConstV(0)(args[3]) {
			// reset: allowed only after the node data (incl. the max index key) was removed
			// role: a step that deletes the max-index record - a helper (or the function
			// itself) that builds the max-index key and issues a write-batch Delete
			setMIKey := e.Func("(*internal/logdb.Key).SetMaxIndexKey")
			deletesMaxIndex := func(g *ssa.Function) bool {
				if g == nil || setMIKey == nil || len(e.SitesIn(g, setMIKey)) == 0 {
					return false
				}
				del := false
				forEachCall(g, func(c ssa.CallInstruction) {
					if c.Common().IsInvoke() && c.Common().Method.Name() == "Delete" {
						del = true
					}
				})
				return del
			}
			isRemoval := func(in ssa.Instruction) bool {
				c, ok := in.(*ssa.Call)
				if !ok {
					return false
				}
				for _, g := range e.Callees(c) {
					if deletesMaxIndex(g) {
						return true
					}
				}
				// inlined form: the Delete itself, in a function that builds the max-index key
				return c.Call.IsInvoke() && c.Call.Method.Name() == "Delete" && deletesMaxIndex(in.Parent())
			}
			ok, _ := e.alwaysPrecededBy(s.(ssa.Instruction), isRemoval, 0)
			r.check(ok, "PAIR-maxindex", key+" (reset to 0 after node data removal)", e.ipos(s), "the cache is reset together with the removal of the max-index record", "the cached max index is reset without removing the stored record")
			continue
		}
		c, isC := s.(*ssa.Call)
		if !isC {
			continue
		}
		res := e.findPath(s.Parent(), c, isReturn, isCall(saveMI), nil)
		before, _ := e.alwaysPrecededBy(s.(ssa.Instruction), isCall(saveMI), 0)
		r.check(!res.Found || before, "PAIR-maxindex", key+" is paired with the KV put (saveMaxIndex)", e.ipos(s),
			"the cached and the stored logical end change together", "the cached max index is updated without writing the max-index record: after reopen the store reports a stale logical end")
	}
	r.floor("PAIR-maxindex", n, 2)
	// ---- recording entries / a snapshot updates the max index
	logdbPkg := e.pkgTypes("internal/logdb")
	recordM := e.Method("internal/logdb", "entryManager", "record")
	saveSS := e.Func("(*internal/logdb.db).saveSnapshot")
	n = 0
	for _, fn := range e.ScopeFuncs() {
		if fnPkg(fn) != logdbPkg || !e.IsLive(fn) {
			continue
		}
		for _, s := range e.MethodSitesIn(fn, recordM) {
			c, ok := s.(*ssa.Call)
			if !ok {
				continue
			}
			n++
			// from the `mi > 0` true edge every path passes db.setMaxIndex
			okp := false
			forEachInstr(fn, func(in ssa.Instruction) {
				ifi, isIf := in.(*ssa.If)
				if !isIf || !hasCmpFact([]Fact{{ifi.Cond, true}}, ">", func(v ssa.Value) bool { return v == ssa.Value(c) }, intConstV(0)) {
					return
				}
				ts := in.Block().Succs[0]
				if len(ts.Instrs) == 0 {
					return
				}
				res := e.findPath(fn, ts.Instrs[0], func(x ssa.Instruction) bool { return isReturn(x) || x.Block() == in.Block() }, isSetMI, nil)
				if isSetMI(ts.Instrs[0]) || !res.Found {
					okp = true
				}
			})
			r.check(okp, "PAIR-maxindex", "entryManager.record in "+fname(fn)+" updates the max index when entries were recorded", e.ipos(s),
				"the logical end follows the recorded entries", "entries can be recorded without moving the max index")
		}
		if saveSS != nil && fn != saveSS {
			for _, s := range e.SitesIn(fn, saveSS) {
				c, ok := s.(*ssa.Call)
				if !ok {
					continue
				}
				n++
				// after a successful saveSnapshot the logical end is set to the snapshot index (db.setMaxIndex or saveMaxIndex)
				barrier := func(in ssa.Instruction) bool { return isSetMI(in) || isCall(saveMI)(in) }
				// success edge of saveSnapshot
				vals, _, _ := errValueOf(c)
				okp := false
				for _, v := range vals {
					for a := range errAliases(v) {
						if refs := a.Referrers(); refs != nil {
							for _, ref := range *refs {
								bo, isB := ref.(*ssa.BinOp)
								if !isB || !(isNilConst(bo.X) || isNilConst(bo.Y)) {
									continue
								}
								for _, cf := range ValueUsesAsCond(bo) {
									okSucc := cf.Block().Succs[1]
									if bo.Op.String() == "==" {
										okSucc = cf.Block().Succs[0]
									}
									if len(okSucc.Instrs) == 0 {
										continue
									}
									if barrier(okSucc.Instrs[0]) {
										okp = true
										continue
									}
									res := e.findPath(fn, okSucc.Instrs[0], func(x ssa.Instruction) bool {
										return e.isSuccessReturn(x) || x.Block() == c.Block()
									}, barrier, nil)
									okp = !res.Found
								}
							}
						}
					}
				}
				// saveSnapshots (snapshot-only path used by the snapshotter) does not touch the log end: exempt by design
				if ssFn := e.Func("(*internal/logdb.db).saveSnapshots"); ssFn != nil && (fn == ssFn || e.onlyCalledFrom(fn, map[string]bool{fname(ssFn): true}, map[string]bool{}, 2)) {
					r.ok("PAIR-maxindex", "saveSnapshot in "+fname(fn)+" (snapshot record only)", e.ipos(s), "SaveSnapshots records snapshot metadata for a snapshot taken from the applied state; the log end is unchanged")
					continue
				}
				r.check(okp, "PAIR-maxindex", "saveSnapshot in "+fname(fn)+" sets the max index to the snapshot index", e.ipos(s),
					"a saved snapshot truncates the logical log: the logical end is recorded", "a snapshot can be saved with the rest of an Update without recording the new logical end: stale entries past the snapshot are returned after reopen")
			}
		}
	}
	r.floor("PAIR-maxindex-sites", n, 3)

	// ---- iterate implementations clamp by maxIndex
	iterM := e.Method("internal/logdb", "entryManager", "iterate")
	impls := e.Implementations(iterM)
	r.floor("DEP-iterate-impls", len(impls), 2)
	for _, impl := range impls {
		var mi *ssa.Parameter
		var high *ssa.Parameter
		for _, p := range impl.Params {
			if p.Name() == "maxIndex" {
				mi = p
			}
			if p.Name() == "high" {
				high = p
			}
		}
		if mi == nil || high == nil {
			r.undecided("DEP-iterate-bound", fname(impl), "parameters maxIndex/high not found")
			continue
		}
		// there is a branch `high > maxIndex+1` whose true edge lowers high to maxIndex+1
		// the requested upper bound reaches the iteration only after being
		// limited by the recorded logical end: every use of the raw `high`
		// parameter is a comparison, the merge with a maxIndex-derived value
		// (`if high > maxIndex+1 { high = maxIndex+1 }` in any spelling), or the
		// call of a helper that receives maxIndex as well (a clamp helper);
		// and such a merge/helper exists
		isMi := func(v ssa.Value) bool { return stripConv(v) == ssa.Value(mi) }
		okClamp, okUse := false, true
		var rawUse ssa.Instruction
		if refs := high.Referrers(); refs != nil {
			for _, u := range *refs {
				switch x := u.(type) {
				case *ssa.DebugRef:
				case *ssa.BinOp:
					if cmpString(x.Op) == "" {
						okUse, rawUse = false, u
					}
				case *ssa.Phi:
					dep := false
					for _, ed := range x.Edges {
						if stripConv(ed) != ssa.Value(high) && e.dependsOn(ed, isMi, 0) {
							dep = true
						}
					}
					if dep {
						okClamp = true
					} else {
						okUse, rawUse = false, u
					}
				case *ssa.Call:
					dep := false
					for _, a := range x.Call.Args {
						if stripConv(a) != ssa.Value(high) && e.dependsOn(a, isMi, 0) {
							dep = true
						}
					}
					if sc := x.Call.StaticCallee(); dep && sc != nil && fnPkg(sc) == fnPkg(impl) {
						okClamp = true
					} else {
						okUse, rawUse = false, u
					}
				default:
					okUse, rawUse = false, u
				}
			}
		}
		pos := e.pos(impl.Pos())
		if rawUse != nil {
			pos = e.ipos(rawUse)
		}
		r.check(okClamp && okUse, "DEP-iterate-bound", fname(impl)+" clamps high to maxIndex+1", pos,
			"no entry past the logical end is returned", "the iteration uses the requested upper bound without limiting it by the recorded max index: stale entries past the logical end can be returned")
		// contiguity: an expected-index test exists
		entIndex := e.Field("raftpb", "Entry", "Index")
		okExp := false
		for _, f := range e.regionOf(impl, 1) {
			forEachInstr(f, func(in ssa.Instruction) {
				if b, ok := in.(*ssa.BinOp); ok && (b.Op.String() == "!=" || b.Op.String() == "==") && (fieldV(entIndex)(b.X) || fieldV(entIndex)(b.Y)) {
					okExp = true
				}
			})
		}
		r.check(okExp, "DEP-iterate-bound", fname(impl)+" stops at the first gap (expected index test)", e.pos(impl.Pos()),
			"returned entries are contiguous", "the iteration no longer compares each entry's index with the expected one")
	}
	// callers obtain the bound from the max-index record
	for _, fn := range e.ScopeFuncs() {
		if fnPkg(fn) != logdbPkg || !e.IsLive(fn) {
			continue
		}
		for _, s := range e.MethodSitesIn(fn, iterM) {
			args := s.Common().Args
			ok := len(args) >= 2 && e.dependsOn(args[1], e.callV(getMI), 0)
			r.check(ok, "DEP-iterate-bound", "iterate bound in "+fname(fn)+" comes from getMaxIndex", e.ipos(s),
				"iteration is bounded by the recorded logical end", "iterate is called with a bound that is not the recorded max index")
		}
	}
	if gr := r.need("(*internal/logdb.db).getRange"); gr != nil {
		r.check(len(e.SitesIn(gr, getMI)) > 0, "DEP-iterate-bound", "getRange reads the max index", e.pos(gr.Pos()), "first index/length derive from the logical end", "getRange no longer reads the recorded max index")
	}
	// getMaxIndex: cache first, then the stored record; absent record => ErrNoSavedLog
	cacheGet := e.Func("(*internal/logdb.cache).getMaxIndex")
	if cacheGet != nil {
		r.check(len(e.SitesIn(getMI, cacheGet)) > 0, "DEP-iterate-bound", "getMaxIndex consults the cache and the stored record", e.pos(getMI.Pos()), "present", "getMaxIndex no longer consults the cache")
	}
	// ---- Tan: when index files are reloaded, the first entry of each file is merged (update), never appended
	if ld := r.need("(*internal/tan.nodeStates).load"); ld != nil {
		app := r.need("(*internal/tan.index).append")
		upd := r.need("(*internal/tan.index).update")
		if app != nil && upd != nil {
			cnt := 0
			for _, s := range e.SitesIn(ld, app) {
				cnt++
				r.guard("GD-tan-index-merge", "index.append while reloading in "+fname(ld), s.(ssa.Instruction),
					reqCmp("not the first entry of the index file (idx != 0)", "!=", func(v ssa.Value) bool {
						b, ok := v.Type().Underlying().(*types.Basic)
						if !ok || b.Kind() != types.Int {
							return false
						}
						switch v.(type) {
						case *ssa.Phi, *ssa.BinOp:
							return true
						}
						return false
					}, intConstV(0)))
			}
			r.floor("GD-tan-index-merge", cnt, 1)
			r.check(len(e.SitesIn(ld, upd)) > 0, "GD-tan-index-merge", "index.update (merge) present in "+fname(ld), e.pos(ld.Pos()), "the first entry of a reloaded index file is merged with the previous file's tail", "the reload no longer merges the first entry of an index file")
		}
	}
	// ---- read-side errors propagate
	st := e.CheckErrDiscipline(r, errScope{pkgs: map[string]bool{"internal/logdb": true}, files: map[string]bool{}}, c10Accept)
	r.floor("ERR-calls", st.Calls, 80)
	ruleTanIndexState(e, r)
	ruleTanFileInUse(e, r)
	ruleLastBatchCache(e, r)
	ruleLogReaderRebase(e, r)
	ruleLogReaderNoCache(e, r)
	ruleBatchedDeleteBound(e, r)
	ruleTanIndexAllNodes(e, r)
	ruleAppendSetsRange(e, r)
	ruleTanRemoveAll(e, r)
	ruleSnapshotRecordKeepsLogEnd(e, r)
	ruleRemoveNodeDataOrder(e, r)
	ruleTanCompactionUpdate(e, r)
	ruleTanRemoveAllFirst(e, r)
	rulePointReadClamped(e, r)
	ruleSnapshotDeleteOlder(e, r)
	ruleSetRangeRebases(e, r)
	ruleTanInstallRemovesFirst(e, r)
	ruleShardRouting(e, r)
	ruleTanStateCache(e, r)
	borrow(e, r, "C20", "MPT-import-batch")
}
