package main

import (
	"encoding/json"
	"flag"
	"fmt"
	"os"
	"runtime/debug"
	"sort"
	"strconv"
	"strings"
	"time"
)

// Property is one registered property: its rules run against an Engine.
type Property struct {
	ID          string
	Explanation string // what the structural check decides
	NotCovered  string // the behavioural part that is not decided
	Run         func(e *Engine, r *Report)
}

var registry = map[string]*Property{}

func register(p *Property) { registry[p.ID] = p }

func main() {
	prop := flag.String("prop", "", "property id (C01..C20) or 'all'")
	tier := flag.String("tier", "", "quick|thorough (default $VERIF_TIER or quick)")
	repo := flag.String("repo", "/repo", "repository working tree to analyse")
	verif := flag.String("verif", "/verif", "verif directory (evidence, known findings)")
	only := flag.String("only", "", "evaluate a single obligation: <rule>/<construct>")
	replay := flag.String("replay", "", "violations file: re-evaluate the obligations it names")
	dump := flag.String("dump", "", "debug: dump facts for function name")
	pathq := flag.String("path", "", "debug: from,to[,stop] call-graph path")
	noself := flag.Bool("noselftest", false, "thorough: skip the mutation self-test")
	survey := flag.String("survey", "", "debug: list generic rule candidates (acc)")
	flag.Parse()
	if *tier == "" {
		*tier = os.Getenv("VERIF_TIER")
	}
	if *tier != "thorough" {
		*tier = "quick"
	}
	seed, _ := strconv.Atoi(os.Getenv("VERIF_SEED"))

	if *survey != "" {
		e, err := Load(*repo, defaultConfig)
		if err != nil {
			fmt.Println(err)
			os.Exit(2)
		}
		runSurvey(e, *survey)
		return
	}
	if *pathq != "" {
		e, err := Load(*repo, defaultConfig)
		if err != nil {
			fmt.Println(err)
			os.Exit(2)
		}
		ps := strings.Split(*pathq, ",")
		stop := ""
		if len(ps) > 2 {
			stop = ps[2]
		}
		dumpPath(e, ps[0], ps[1], stop)
		return
	}
	if *dump != "" {
		e, err := Load(*repo, defaultConfig)
		if err != nil {
			fmt.Println(err)
			os.Exit(2)
		}
		dumpFunc(e, *dump)
		return
	}

	ids := []string{*prop}
	if *prop == "all" {
		ids = nil
		for id := range registry {
			ids = append(ids, id)
		}
		sort.Strings(ids)
	}
	for _, id := range ids {
		if registry[id] == nil {
			fmt.Fprintf(os.Stderr, "unknown property %q\n", id)
			os.Exit(2)
		}
	}
	var replaySet map[string]bool
	if *replay != "" {
		// re-evaluate exactly the obligations named in a violations file, in every configuration
		var vf struct {
			Violations []Ob `json:"violations"`
		}
		b, err := os.ReadFile(*replay)
		if err != nil || json.Unmarshal(b, &vf) != nil {
			fmt.Fprintf(os.Stderr, "cannot read replay file %s\n", *replay)
			os.Exit(2)
		}
		replaySet = map[string]bool{}
		for _, o := range vf.Violations {
			replaySet[o.Rule+"/"+o.Construct] = true
			if o.Config != "" && o.Config != defaultConfig.Name {
				*tier = "thorough"
			}
		}
		fmt.Printf("replay: %d obligation(s) from %s\n", len(replaySet), *replay)
	}
	partialRun = *only != "" || replaySet != nil
	cfgs := []BuildConfig{defaultConfig}
	if *tier == "thorough" {
		cfgs = thoroughConfigs
	}
	exit := 0
	t0 := time.Now()
	reports := map[string][]*Report{}
	var engines []EngStat
	loadFailed := ""
	for _, cfg := range cfgs {
		e, err := Load(*repo, cfg)
		if err != nil {
			loadFailed = fmt.Sprintf("config %s: %v", cfg.Name, err)
			break
		}
		fmt.Printf("loaded %s: %d module packages, %d module functions, %d call-graph nodes (load %.1fs ssa %.1fs vta %.1fs)\n",
			cfg.Name, len(e.Pkgs), len(e.ModFuncs), len(e.CG.Nodes), e.LoadS, e.SSAS, e.CGS)
		for _, id := range ids {
			r := &Report{Prop: id, e: e, cfg: cfg.Name, only: *only, onlySet: replaySet}
			runProperty(registry[id], e, r)
			r.e = nil
			reports[id] = append(reports[id], r)
		}
		// keep only sizes; drop the program before loading the next config
		engines = append(engines, EngStat{Cfg: e.Cfg.Name, Pkgs: len(e.Pkgs), Funcs: len(e.ModFuncs), Nodes: len(e.CG.Nodes)})
		e = nil
		debug.FreeOSMemory()
	}
	for _, id := range ids {
		p := registry[id]
		rs := reports[id]
		if loadFailed != "" {
			r := &Report{Prop: id, cfg: defaultConfig.Name}
			r.undecided("LOAD", "program", loadFailed)
			rs = append(rs, r)
			if len(engines) == 0 {
				engines = append(engines, EngStat{Cfg: defaultConfig.Name})
			}
		}
		var st map[string]interface{}
		if *tier == "thorough" && !*noself && loadFailed == "" && !partialRun {
			var sr *Report
			st, sr = selfTest(*verif, *repo, p)
			if sr != nil {
				rs = append(rs, sr)
			}
		}
		if c := finish(*verif, p, *tier, seed, rs, time.Since(t0).Seconds(), engines, st); c != 0 {
			exit = 1
		}
	}
	os.Exit(exit)
}

// runProperty runs the rules; a panic inside a rule is an undecided
// obligation (fails closed), never a pass.
func runProperty(p *Property, e *Engine, r *Report) {
	defer func() {
		if x := recover(); x != nil {
			st := string(debug.Stack())
			lines := strings.Split(st, "\n")
			if len(lines) > 14 {
				lines = lines[:14]
			}
			r.undecided("PANIC", "checker", fmt.Sprintf("rule panicked: %v\n%s", x, strings.Join(lines, "\n")))
		}
	}()
	before := len(e.RenameNotes)
	p.Run(e, r)
	for _, n := range e.RenameNotes[before:] {
		r.note(n)
		r.Degraded = append(r.Degraded, n)
	}
}
