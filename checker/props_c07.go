package main

import (
	"go/token"
	"go/types"
	"sort"
	"strings"

	"golang.org/x/tools/go/ssa"
)

func init() {
	register(&Property{
		ID:          "C07",
		Explanation: "Decides structural necessary conditions of safe membership change: the membership maps are changed only by membership.apply, which is reached only under every reject predicate with the right polarity (up-to-date order id; not re-adding a removed id; not an existing member/address; no kind change other than non-voting promotion with the same address; not removing the only voter); each reject predicate still consults the maps and change types it is defined over; apply performs exactly the expected insert/delete set per change type and records the entry index as the new order id; the membership handed to snapshots/readers is a deep copy; the raft core's remotes/nonVotings/witnesses key sets change only from the ConfigChangeEvent and SnapshotReceived cells and bootstrap; the leader keeps at most one pending config change (second one is replaced by an empty entry, flag set on every path, cleared only by the classified writers); config change types are handled exhaustively; no campaign starts with an unapplied committed config change and a removed replica builds no Election message. Does not decide quorum overlap over interleavings.",
		NotCovered:  "safety of overlapping quorums across interleavings of changes, leader failure and snapshots",
		Run:         runC07,
	})
}

// ccTypesIn: the pb.ConfigChangeType constants a function compares against.
func ccTypesIn(e *Engine, fn *ssa.Function) map[string]bool {
	out := map[string]bool{}
	t := e.Named("raftpb", "ConfigChangeType")
	pk := e.pkgTypes("raftpb")
	if t == nil || pk == nil {
		return out
	}
	// fn and the same-package helpers it is split into
	e.forEachInstrRegion(fn, 2, func(in ssa.Instruction) {
		b, ok := in.(*ssa.BinOp)
		if !ok || (b.Op != token.EQL && b.Op != token.NEQ) {
			return
		}
		for _, side := range []ssa.Value{b.X, b.Y} {
			if c, ok := side.(*ssa.Const); ok && types.Identical(c.Type(), t) {
				if n := constNameByVal(pk, t, c); n != "" {
					out[n] = true
				}
			}
		}
	})
	return out
}

// mapsConsulted: Membership map fields looked up or ranged in fn.
func mapsConsulted(e *Engine, fn *ssa.Function) map[string]bool {
	out := map[string]bool{}
	e.forEachInstrBound(fn, 2, func(in ssa.Instruction, resolve func(ssa.Value) ssa.Value) {
		var m ssa.Value
		switch x := in.(type) {
		case *ssa.Lookup:
			m = x.X
		case *ssa.Range:
			m = x.X
		case *ssa.Call:
			if b, ok := x.Call.Value.(*ssa.Builtin); ok && b.Name() == "len" && len(x.Call.Args) == 1 {
				m = x.Call.Args[0]
			}
		}
		if m == nil {
			return
		}
		if f, _, ok := loadedField(resolve(m)); ok {
			if nt, isN := f.Type().Underlying().(*types.Map); isN && nt != nil {
				out[f.Name()] = true
			}
		}
	})
	return out
}

// forEachInstrBound visits the instructions of fn and of the same-package
// functions it calls statically (to the given depth), like the region view,
// but per call site: resolve() maps a parameter of the helper being visited
// to the argument it receives at that call site (transitively), so a rule
// that asks "which map is looked up" sees through `hasReplica(m.members.X, id)`.
func (e *Engine) forEachInstrBound(fn *ssa.Function, depth int, f func(in ssa.Instruction, resolve func(ssa.Value) ssa.Value)) {
	var visit func(g *ssa.Function, d int, resolve func(ssa.Value) ssa.Value, stack map[*ssa.Function]bool)
	visit = func(g *ssa.Function, d int, resolve func(ssa.Value) ssa.Value, stack map[*ssa.Function]bool) {
		if stack[g] {
			return
		}
		stack[g] = true
		defer delete(stack, g)
		forEachInstr(g, func(in ssa.Instruction) {
			f(in, resolve)
			if d == 0 {
				return
			}
			c, ok := in.(*ssa.Call)
			if !ok {
				return
			}
			sc := c.Call.StaticCallee()
			if sc == nil || len(sc.Blocks) == 0 || fnPkg(sc) != fnPkg(fn) || fnPkg(sc) == nil {
				return
			}
			args := c.Call.Args
			params := sc.Params
			inner := func(v ssa.Value) ssa.Value {
				sv := stripConv(v)
				for i, p := range params {
					if sv == ssa.Value(p) && i < len(args) {
						return resolve(args[i])
					}
				}
				return v
			}
			visit(sc, d-1, inner, stack)
		})
		for _, an := range g.AnonFuncs {
			visit(an, d, resolve, stack)
		}
	}
	visit(fn, depth, func(v ssa.Value) ssa.Value { return v }, map[*ssa.Function]bool{})
}

func keysOf(m map[string]bool) string {
	var ks []string
	for k := range m {
		ks = append(ks, k)
	}
	sort.Strings(ks)
	return strings.Join(ks, ",")
}

func runC07(e *Engine, r *Report) {
	// replica agreement across membership changes: a promoted member inherits only acknowledged progress (C02)
	borrow(e, r, "C02", "WMC-match-ack")
	const mT = "(*internal/rsm.membership)."
	apply := r.need(mT + "apply")
	hcc := r.need(mT + "handleConfigChange")
	if apply == nil || hcc == nil {
		return
	}
	// ---- every call of membership.apply is guarded by all predicates
	preds := []struct {
		name string
		pol  bool
		what string
	}{
		{"isUpToDate", true, "order id is current"},
		{"isAddRemovedNode", false, "not re-adding a removed replica"},
		{"isAddExistingMember", false, "not an existing member / address in use"},
		{"isAddNodeAsNonVoting", false, "voter not turned into non-voting"},
		{"isAddNodeAsWitness", false, "voter not turned into witness"},
		{"isAddWitnessAsNode", false, "witness not turned into voter"},
		{"isAddWitnessAsNonVoting", false, "witness not turned into non-voting"},
		{"isAddNonVotingAsWitness", false, "non-voting not turned into witness"},
		{"isDeleteOnlyNode", false, "not removing the only voter"},
		{"isInvalidNonVotingPromotion", false, "promotion keeps the address"},
	}
	n := 0
	for _, s := range e.CallerSites(apply) {
		n++
		var reqs []Req
		for _, p := range preds {
			if f := r.need(mT + p.name); f != nil {
				reqs = append(reqs, reqBool(p.name+"() is "+map[bool]string{true: "true", false: "false"}[p.pol]+" ("+p.what+")", e.callV(f), p.pol))
			}
		}
		r.guard("GD-cc-accept", "membership.apply called in "+fname(s.Parent()), s.(ssa.Instruction), reqs...)
	}
	r.floor("GD-cc-accept", n, 1)
	// handleConfigChange reports "applied" exactly when apply ran: either it
	// returns the very condition that guards apply, or (early-return form) no
	// path reaches a `return true` without passing apply and no path leads
	// from apply to a `return false`
	isApply := func(x ssa.Instruction) bool {
		c, ok := x.(*ssa.Call)
		return ok && e.CallsTo(c, apply)
	}
	forEachInstr(hcc, func(in ssa.Instruction) {
		ret, ok := in.(*ssa.Return)
		if !ok {
			return
		}
		v := retOperand(ret, 0)
		okv := false
		if cb, isC := isConstBool(v); isC {
			if cb {
				okv = !e.findPath(hcc, nil, func(x ssa.Instruction) bool { return x == in }, isApply, nil).Found
			} else {
				okv = true
				for _, s := range e.SitesIn(hcc, apply) {
					if e.findPath(hcc, s.(ssa.Instruction), func(x ssa.Instruction) bool { return x == in }, nil, nil).Found {
						okv = false
					}
				}
			}
		} else {
			for _, s := range e.SitesIn(hcc, apply) {
				if g, _ := e.guardedOnAllPaths(s.(ssa.Instruction), Req{Name: "", Has: func(fs []Fact) bool {
					return hasBoolFact(fs, func(x ssa.Value) bool { return x == v }, true)
				}}); g {
					okv = true
				}
			}
		}
		r.check(okv, "GD-cc-accept", "handleConfigChange returns the acceptance that guarded apply", e.ipos(in),
			"'applied' is reported exactly when the membership was changed", "the reported outcome is not the condition under which the membership was changed")
	})

	// ---- predicate shapes
	shapes := []struct {
		name  string
		types string
		maps  string
	}{
		{"isAddRemovedNode", "AddNode,AddNonVoting,AddWitness", "Removed"},
		{"isPromoteNonVoting", "AddNode", "NonVotings"},
		{"isInvalidNonVotingPromotion", "AddNode", "NonVotings"},
		{"isAddExistingMember", "AddNode,AddNonVoting,AddWitness", "Addresses,NonVotings,Witnesses"},
		{"isAddNodeAsNonVoting", "AddNonVoting", "Addresses"},
		{"isAddNodeAsWitness", "AddWitness", "Addresses"},
		{"isAddWitnessAsNonVoting", "AddNonVoting", "Witnesses"},
		{"isAddWitnessAsNode", "AddNode", "Witnesses"},
		{"isAddNonVotingAsWitness", "AddWitness", "NonVotings"},
		{"isDeleteOnlyNode", "RemoveNode", "Addresses"},
	}
	ccReplica := e.Field("raftpb", "ConfigChange", "ReplicaID")
	for _, sh := range shapes {
		fn := r.need(mT + sh.name)
		if fn == nil {
			continue
		}
		gotT, gotM := keysOf(ccTypesIn(e, fn)), keysOf(mapsConsulted(e, fn))
		r.check(gotT == sh.types && gotM == sh.maps, "TBL-cc-predicate", sh.name+" covers types {"+sh.types+"} and maps {"+sh.maps+"}", e.pos(fn.Pos()),
			"the predicate consults the change types and member maps it is defined over",
			"the predicate now covers types {"+gotT+"} and maps {"+gotM+"}: some requests it must reject (or must not reject) are decided differently")
		// id lookups are keyed by the change's replica id
		okKey := true
		e.forEachInstrBound(fn, 2, func(in ssa.Instruction, resolve func(ssa.Value) ssa.Value) {
			if lk, ok := in.(*ssa.Lookup); ok {
				if _, isMap := lk.X.Type().Underlying().(*types.Map); isMap && !fieldV(ccReplica)(resolve(lk.Index)) {
					okKey = false
				}
			}
		})
		r.check(okKey, "TBL-cc-predicate", sh.name+" looks members up by cc.ReplicaID", e.pos(fn.Pos()), "lookups use the change's replica id", "a member lookup is not keyed by the change's replica id")
	}
	if f := r.need(mT + "isDeleteOnlyNode"); f != nil {
		addrs := e.Field("raftpb", "Membership", "Addresses")
		okl := false
		forEachInstr(f, func(in ssa.Instruction) {
			if b, ok := in.(*ssa.BinOp); ok && b.Op == token.EQL && lenOfV(fieldV(addrs))(b.X) && intConstV(1)(b.Y) {
				okl = true
			}
		})
		r.check(okl, "TBL-cc-predicate", "isDeleteOnlyNode tests len(Addresses) == 1", e.pos(f.Pos()), "only-voter test", "the only-voter test no longer is len(Addresses) == 1")
	}
	if f := r.need(mT + "isUpToDate"); f != nil {
		ccid := e.Field("raftpb", "Membership", "ConfigChangeId")
		reqid := e.Field("raftpb", "ConfigChange", "ConfigChangeId")
		ordered := e.Field("internal/rsm", "membership", "ordered")
		okc := false
		forEachInstr(f, func(in ssa.Instruction) {
			if b, ok := in.(*ssa.BinOp); ok && b.Op == token.EQL {
				if (fieldV(ccid)(b.X) && fieldV(reqid)(b.Y)) || (fieldV(ccid)(b.Y) && fieldV(reqid)(b.X)) {
					okc = true
				}
			}
		})
		r.check(okc && len(FieldReads(f, ordered)) > 0, "TBL-cc-predicate", "isUpToDate compares the order ids when ordered", e.pos(f.Pos()),
			"stale ConfigChangeId is rejected with ordered config change", "isUpToDate no longer compares members.ConfigChangeId with the request's id")
	}
	for _, nm := range []string{"isPromoteNonVoting", "isInvalidNonVotingPromotion"} {
		if f := r.need(mT + nm); f != nil {
			ae := e.Func("internal/rsm.addressEqual")
			r.check(ae != nil && len(e.SitesIn(f, ae)) > 0, "TBL-cc-predicate", nm+" compares addresses", e.pos(f.Pos()), "promotion needs the same address", nm+" no longer compares the address")
		}
	}

	// ---- apply: expected writes per change type, order id = entry index
	type wr struct{ op, m, ty string }
	expect := map[wr]bool{
		{"delete", "NonVotings", "AddNode"}: true, {"update", "Addresses", "AddNode"}: true,
		{"update", "NonVotings", "AddNonVoting"}: true, {"update", "Witnesses", "AddWitness"}: true,
		{"delete", "Addresses", "RemoveNode"}: true, {"delete", "NonVotings", "RemoveNode"}: true,
		{"delete", "Witnesses", "RemoveNode"}: true, {"update", "Removed", "RemoveNode"}: true,
	}
	got := map[wr]bool{}
	ccT := e.Named("raftpb", "ConfigChangeType")
	pbPkg := e.pkgTypes("raftpb")
	typeAt := func(in ssa.Instruction) string {
		for _, f := range FactsAt(in) {
			if b, ok := f.V.(*ssa.BinOp); ok && b.Op == token.EQL && f.Pol {
				if c, ok := b.Y.(*ssa.Const); ok && ccT != nil && types.Identical(c.Type(), ccT) {
					return constNameByVal(pbPkg, ccT, c)
				}
			}
		}
		return "?"
	}
	forEachInstr(apply, func(in ssa.Instruction) {
		switch x := in.(type) {
		case *ssa.MapUpdate:
			if f, _, ok := loadedField(x.Map); ok {
				got[wr{"update", f.Name(), typeAt(in)}] = true
			}
		case *ssa.Call:
			if b, ok := x.Call.Value.(*ssa.Builtin); ok && b.Name() == "delete" {
				if f, _, ok := loadedField(x.Call.Args[0]); ok {
					got[wr{"delete", f.Name(), typeAt(in)}] = true
				}
			}
		}
	})
	for w := range expect {
		r.check(got[w], "TBL-cc-apply", "apply: "+w.op+" "+w.m+" on "+w.ty, e.pos(apply.Pos()), "expected membership write is present", "membership.apply no longer performs "+w.op+" on "+w.m+" for "+w.ty)
	}
	for w := range got {
		r.check(expect[w], "TBL-cc-apply", "apply: unexpected "+w.op+" "+w.m+" on "+w.ty, e.pos(apply.Pos()), "", "membership.apply performs an unexpected "+w.op+" on "+w.m+" for "+w.ty)
	}
	ccid := e.Field("raftpb", "Membership", "ConfigChangeId")
	okId := false
	for _, w := range e.FieldWrites(ccid) {
		if w.Fn == apply {
			if p, ok := stripConv(w.Val).(*ssa.Parameter); ok && p.Name() == "index" && w.Instr.Block() == apply.Blocks[0] {
				okId = true
			}
		}
	}
	r.check(okId, "TBL-cc-apply", "apply records the entry index as ConfigChangeId unconditionally", e.pos(apply.Pos()), "order id advances with every applied change", "apply no longer records the entry index as the new order id on every path")
	// enum exhaustiveness
	for _, nm := range []string{mT + "apply", raftT + "handleNodeConfigChange", "(*dragonboat.node).applyConfigChange"} {
		if f := r.need(nm); f != nil {
			gotT := keysOf(ccTypesIn(e, f))
			r.check(gotT == "AddNode,AddNonVoting,AddWitness,RemoveNode", "TBL-cc-enum", nm+" handles every ConfigChangeType", e.pos(f.Pos()),
				"all four change types are handled", "change types handled are {"+gotT+"}")
		}
	}

	// ---- who changes the key sets of the member maps
	rsmPkg := e.pkgTypes("internal/rsm")
	for _, fname2 := range []string{"Addresses", "NonVotings", "Witnesses", "Removed"} {
		fld := e.Field("raftpb", "Membership", fname2)
		for _, w := range e.FieldWrites(fld) {
			if w.Kind != "mapupdate" && w.Kind != "mapdelete" {
				continue
			}
			if fnPkg(w.Fn) != rsmPkg {
				continue
			}
			if al := rootAlloc(w.Base); al != nil {
				continue // a local copy being filled (deepCopy)
			}
			r.check(w.Fn == apply, "WMW-members", "Membership."+fname2+" changed in "+fname(w.Fn), e.ipos(w.Instr),
				"the live membership is changed only by membership.apply", "the live membership is changed outside membership.apply")
		}
	}
	ruleMembershipCopy(e, r)

	// ---- raft core: key sets of remotes/nonVotings/witnesses
	tbl, err := e.RaftHandlerTable()
	if err != nil {
		r.undecided("TBL", "raft.handlers", err.Error())
		return
	}
	launch := e.Func("internal/raft.Launch")
	n = 0
	for _, fn2 := range []string{"remotes", "nonVotings", "witnesses"} {
		fld := r.needField("internal/raft", "raft", fn2)
		if fld == nil {
			continue
		}
		for _, w := range e.FieldWrites(fld) {
			if w.Kind == "init" {
				continue
			}
			if w.Kind == "mapupdate" && isRangeKeyOf(w.Key, fld) {
				continue // value refresh of an existing key
			}
			n++
			key := "raft." + fn2 + " key set changed in " + fname(w.Fn)
			cells := e.CellsReaching(tbl, w.Fn)
			okc := true
			for _, c := range cells {
				if c.Type != "ConfigChangeEvent" && c.Type != "SnapshotReceived" {
					okc = false
					r.bad("WMW-raft-members", key+" reachable from cell "+c.State+"/"+c.Type, e.ipos(w.Instr), "the raft core's member set can change on a message other than the local ConfigChangeEvent/SnapshotReceived")
				}
			}
			// other roots: only Launch (bootstrap / newRaft)
			if launch != nil {
				for c := range e.CallersClosure(w.Fn, func(f *ssa.Function) bool { return f == launch || fname(f) == raftT+"Handle" }) {
					if p := fnPkg(c); p == nil || !scopePkg(p.Path()) || c == launch {
						continue
					}
					if len(e.DirectCallers(c)) == 0 && e.IsLive(c) && fname(c) != raftT+"Handle" {
						isCell := false
						for _, cl := range tbl.Cells {
							if cl.Fn == c {
								isCell = true
							}
						}
						if !isCell && c != w.Fn {
							okc = false
							r.bad("WMW-raft-members", key+" reachable from root "+fname(c), e.ipos(w.Instr), "the raft core's member set can change from an entry other than Launch or the two local cells")
						}
					}
				}
			}
			if okc {
				r.ok("WMW-raft-members", key, e.ipos(w.Instr), "driven only by ConfigChangeEvent/SnapshotReceived cells or Launch")
			}
		}
	}
	r.floor("WMW-raft-members", n, 6)

	// ---- one pending config change on the leader
	pcc := r.needField("internal/raft", "raft", "pendingConfigChange")
	setP := r.need(raftT + "setPendingConfigChange")
	hasP := r.helper(raftT + "hasPendingConfigChange")
	clrP := r.need(raftT + "clearPendingConfigChange")
	appendE := r.need(raftT + "appendEntries")
	entType := e.Field("raftpb", "Entry", "Type")
	ccEntry := e.Const("raftpb", "ConfigChangeEntry")
	// "a change is pending": the getter when it exists, or the flag itself
	var pendingV VM = func(v ssa.Value) bool {
		return (hasP != nil && e.callV(hasP)(v)) || fieldV(pcc)(v)
	}
	if pcc != nil && setP != nil && clrP != nil && appendE != nil {
		for _, w := range e.FieldWrites(pcc) {
			if w.Kind == "init" {
				continue
			}
			r.check(w.Fn == setP || w.Fn == clrP, "WMW-pending-cc", "raft.pendingConfigChange written in "+fname(w.Fn), e.ipos(w.Instr), "flag written only through its two accessors", "the pending-config-change flag is written directly")
		}
		// clear sites: reset, the ConfigChangeEvent cell (reject or after applying), Peer.ApplyConfigChange(empty)
		for _, s := range e.CallerSites(clrP) {
			p := s.Parent()
			okc := p == e.Func(raftT+"reset") || fname(p) == "(*internal/raft.Peer).ApplyConfigChange"
			if !okc {
				cells := e.CellsReaching(tbl, p)
				okc = len(cells) > 0
				for _, c := range cells {
					if c.Type != "ConfigChangeEvent" && c.Type != "SnapshotReceived" {
						okc = false
					}
				}
			}
			r.check(okc, "WMW-pending-cc", "clearPendingConfigChange called in "+fname(p), e.ipos(s),
				"the flag is cleared only when a change was applied/rejected or the role/term changed", "the pending flag can be cleared while a config change is still in the log unapplied")
		}
		// the leader's Propose handler
		for _, c := range tbl.Cells {
			if c.State != "leader" || c.Type != "Propose" {
				continue
			}
			handler := c.Fn
			// the admission step may sit in the handler or in a helper it calls per entry
			var admit []*ssa.Function
			for _, g := range e.regionOf(handler, 2) {
				if len(e.SitesIn(g, setP)) > 0 {
					admit = append(admit, g)
				}
			}
			r.check(len(admit) > 0, "GD-pending-cc", "leader Propose handler sets the pending flag", e.pos(handler.Pos()), "present", "the leader no longer records that a config change is pending")
			appC := e.Const("raftpb", "ApplicationEntry")
			isReplace := func(in ssa.Instruction) bool {
				st, ok := in.(*ssa.Store)
				if !ok {
					return false
				}
				// in-place form: the Type field of the element is overwritten with ApplicationEntry
				if fa, ok := st.Addr.(*ssa.FieldAddr); ok && constV(appC)(st.Val) {
					if f, _, ok := fieldOfAddr(fa); ok && f == entType {
						switch fa.X.(type) {
						case *ssa.IndexAddr, *ssa.Parameter:
							return true
						}
					}
				}
				// the element of the proposed slice: m.Entries[i] = ... or *e = ... through a pointer to it
				switch a := st.Addr.(type) {
				case *ssa.IndexAddr:
				case *ssa.Parameter:
				case *ssa.Alloc:
					_ = a
					return false
				default:
					return false
				}
				ld, ok := st.Val.(*ssa.UnOp)
				if !ok {
					return false
				}
				al, ok := ld.X.(*ssa.Alloc)
				if !ok {
					return false
				}
				for _, sv := range storesInto(al) {
					if constV(appC)(sv) {
						return true
					}
				}
				return false
			}
			replaced := false
			for _, fn := range admit {
				fn := fn
				isEnd := func(x ssa.Instruction) bool {
					if cc, ok := x.(*ssa.Call); ok && e.CallsTo(cc, appendE) {
						return true
					}
					return fn != handler && isReturn(x)
				}
				for _, s := range e.SitesIn(fn, setP) {
					r.guard("GD-pending-cc", "setPendingConfigChange in "+fname(fn), s.(ssa.Instruction),
						reqCmp("entry type == ConfigChangeEntry", "==", fieldV(entType), constV(ccEntry)))
				}
				// every path from the ConfigChangeEntry edge to appendEntries (or out of the helper) passes setPendingConfigChange
				forEachInstr(fn, func(in ssa.Instruction) {
					ifi, ok := in.(*ssa.If)
					if !ok {
						return
					}
					var tsucc *ssa.BasicBlock
					if hasCmpFact([]Fact{{ifi.Cond, true}}, "==", fieldV(entType), constV(ccEntry)) {
						tsucc = in.Block().Succs[0]
					} else if hasCmpFact([]Fact{{ifi.Cond, false}}, "==", fieldV(entType), constV(ccEntry)) {
						tsucc = in.Block().Succs[1]
					}
					if tsucc == nil || len(tsucc.Instrs) == 0 {
						return
					}
					isSet := func(x ssa.Instruction) bool {
						cc, ok := x.(*ssa.Call)
						return ok && e.CallsTo(cc, setP)
					}
					res := e.findPath(fn, tsucc.Instrs[0], isEnd, isSet, nil)
					if isSet(tsucc.Instrs[0]) {
						res.Found = false
					} else if isEnd(tsucc.Instrs[0]) {
						res.Found = true
					}
					r.check(!res.Found, "GD-pending-cc", "config change entry reaches appendEntries only after the flag is set", e.ipos(in),
						"every proposed config change marks the leader as having a pending change", "a config change entry can be appended without setting the pending flag")
				})
				// the second pending change is replaced by an empty application entry:
				// whenever hasPendingConfigChange() is true for a config change entry,
				// the element is overwritten before the flag is set / the entries are appended
				forEachInstr(fn, func(in ssa.Instruction) {
					ifi, ok := in.(*ssa.If)
					if !ok || !pendingV(ifi.Cond) {
						return
					}
					g2, _ := e.guardedOnAllPaths(in, reqCmp("", "==", fieldV(entType), constV(ccEntry)))
					if !g2 {
						return
					}
					tsucc := in.Block().Succs[0]
					if len(tsucc.Instrs) == 0 {
						return
					}
					hit := false
					if isReplace(tsucc.Instrs[0]) {
						hit = true
					}
					res := e.findPath(fn, tsucc.Instrs[0], func(x ssa.Instruction) bool {
						cc, ok := x.(*ssa.Call)
						return (ok && e.CallsTo(cc, setP)) || isEnd(x)
					}, isReplace, nil)
					if hit || !res.Found {
						replaced = true
					} else {
						replaced = false
						r.bad("GD-pending-cc", "pending config change is always replaced", e.ipos(in), "with a change already pending, a path reaches the append without replacing the new config change entry")
					}
				})
			}
			r.check(replaced, "GD-pending-cc", "a second pending config change is replaced by an empty entry", e.pos(handler.Pos()),
				"with a change already pending the new one is dropped and reported", "the leader no longer replaces a config change proposed while another one is pending")
			// and on the not-pending path nothing overwrites the entry: covered by the guard above
		}
	}
	// ---- shared election guards
	ruleCampaignGuard(e, r, tbl)
	ruleConfigChangeClearsPending(e, r)
	ruleRemovedLeaderStepsDown(e, r)
	ruleNotifyApplied(e, r)
	ruleConfigChangeNeverSkipped(e, r)
	ruleApplyIndexAtomic(e, r)
	ruleBootstrapGate(e, r)
	ruleBootstrapSorted(e, r)
	ruleCampaignPredicate(e, r)
	ruleElectionMessageGuard(e, r)

	// ---- the apply side reports rejected unless handleConfigChange accepted
	if cc := r.need("(*internal/rsm.StateMachine).configChange"); cc != nil {
		m := e.Method("internal/rsm", "INode", "ApplyConfigChange")
		for _, s := range e.MethodSitesIn(cc, m) {
			args := s.Common().Args
			last := args[len(args)-1]
			dep := e.dependsOn(last, e.callV(hcc), 1) || func() bool {
				// rejected is a captured variable written inside the locked closure
				okd := false
				for _, an := range cc.AnonFuncs {
					if len(e.SitesIn(an, hcc)) > 0 {
						okd = true
					}
				}
				return okd
			}()
			r.check(dep, "GD-cc-outcome", "configChange passes handleConfigChange's outcome to the node", e.ipos(s), "the raft core is told applied/rejected as decided by the membership", "the outcome passed to the node no longer depends on handleConfigChange")
		}
	}
	if ncc := r.need("(*dragonboat.node).ApplyConfigChange"); ncc != nil && len(ncc.Params) > 0 {
		// the `rejected` flag: the last parameter of INode.ApplyConfigChange, or a
		// parameter of a helper that receives it at every call
		var isRejected func(v ssa.Value, d int) bool
		isRejected = func(v ssa.Value, d int) bool {
			p, ok := stripConv(v).(*ssa.Parameter)
			if !ok {
				return false
			}
			if p == ncc.Params[len(ncc.Params)-1] {
				return true
			}
			if d == 0 || p.Parent() == nil {
				return false
			}
			idx := -1
			for i, q := range p.Parent().Params {
				if q == p {
					idx = i
				}
			}
			sites := e.CallerSites(p.Parent())
			if idx < 0 || len(sites) == 0 {
				return false
			}
			for _, cs := range sites {
				args := cs.Common().Args
				if cs.Common().IsInvoke() || idx >= len(args) || !isRejected(args[idx], d-1) {
					return false
				}
			}
			return true
		}
		rejV := func(v ssa.Value) bool { return isRejected(v, 2) }
		acc := r.helper("(*dragonboat.node).applyConfigChange")
		rej := e.Func("(*internal/raft.Peer).RejectConfigChange")
		na, nr := 0, 0
		for _, g := range e.regionOf(ncc, 2) {
			if acc != nil {
				for _, s := range e.SitesIn(g, acc) {
					na++
					r.guard("GD-cc-outcome", "node.applyConfigChange (raft core update) in "+fname(g), s.(ssa.Instruction),
						reqBool("rejected is false", rejV, false))
				}
			}
			for _, s := range e.SitesIn(g, rej) {
				nr++
				r.guard("GD-cc-outcome", "Peer.RejectConfigChange in "+fname(g), s.(ssa.Instruction),
					reqBool("rejected is true", rejV, true))
			}
		}
		r.floor("GD-cc-outcome-sites", nr, 1)
		_ = na
	}
	borrow(e, r, "C08", "MPT-restore-replaces")
	borrow(e, r, "C01", "MPT-lastapplied-after-apply")
	ruleAddressScanAllKinds(e, r)
}

// isRangeKeyOf: key is the key produced by ranging over the same map field.
func isRangeKeyOf(key ssa.Value, fld *types.Var) bool {
	ex, ok := stripConv(key).(*ssa.Extract)
	if !ok || ex.Index != 1 {
		return false
	}
	nx, ok := ex.Tuple.(*ssa.Next)
	if !ok {
		return false
	}
	rg, ok := nx.Iter.(*ssa.Range)
	if !ok {
		return false
	}
	return fieldV(fld)(rg.X)
}
