package main

// rules.go: the rule combinators used by the property files.

import (
	"fmt"
	"go/token"
	"go/types"
	"os"
	"sort"
	"strings"

	"golang.org/x/tools/go/ssa"
)

// need resolves a function by key; a lost anchor is an undecided obligation.
func (r *Report) need(name string) *ssa.Function {
	f := r.e.Func(name)
	if f == nil {
		r.undecided("ANCHOR", name, "anchored function no longer resolves: "+name)
	}
	return f
}

func (r *Report) needField(pkg, typ, field string) *types.Var {
	f := r.e.Field(pkg, typ, field)
	if f == nil {
		r.undecided("ANCHOR", pkg+"."+typ+"."+field, "anchored field no longer resolves")
	}
	return f
}

func (r *Report) needMethod(pkg, typ, m string) *types.Func {
	f := r.e.Method(pkg, typ, m)
	if f == nil {
		r.undecided("ANCHOR", pkg+"."+typ+"."+m, "anchored method no longer resolves")
	}
	return f
}

func (r *Report) needConst(pkg, name string) *types.Const {
	c := r.e.Const(pkg, name)
	if c == nil {
		r.undecided("ANCHOR", pkg+"."+name, "anchored constant no longer resolves")
	}
	return c
}

// Req is one required guard fact.
type Req struct {
	Name string
	Has  func(facts []Fact) bool
}

func reqBool(name string, m VM, pol bool) Req {
	return Req{Name: name, Has: func(fs []Fact) bool { return hasBoolFact(fs, m, pol) }}
}

func reqCmp(name, op string, lhs, rhs VM) Req {
	return Req{Name: name, Has: func(fs []Fact) bool { return hasCmpFact(fs, op, lhs, rhs) }}
}

func reqAny(name string, alts ...Req) Req {
	return Req{Name: name, Has: func(fs []Fact) bool {
		for _, a := range alts {
			if a.Has(fs) {
				return true
			}
		}
		return false
	}}
}

// guard checks that instruction in executes only under every required fact:
// every CFG path from the function entry to the instruction crosses a branch
// edge that establishes the fact (so `if a || b`, `if !a { return }`,
// `ok := a && b; if ok` and a switch all count). One obligation per
// requirement, keyed rule + construct + requirement name.
func (r *Report) guard(rule, construct string, in ssa.Instruction, reqs ...Req) bool {
	all := true
	for _, q := range reqs {
		ok, wit := r.e.guardedOnAllPaths(in, q)
		if !ok && r.e.guardedInCallers(in.Parent(), q, 3, map[*ssa.Function]bool{}) {
			// the guard sits in every caller of the helper the site was moved into
			ok, wit = true, nil
		}
		if !ok {
			all = false
		}
		var w []string
		for _, x := range wit {
			w = append(w, r.e.ipos(x))
		}
		r.check(ok, rule, construct+" requires "+q.Name, r.e.ipos(in),
			"guard present on every path to the site",
			"the site is reachable without the guard ["+q.Name+"]; facts on the dominator chain: "+strings.Join(r.e.describeFacts(FactsAt(in)), "; "), w...)
	}
	return all
}

// guardedOnAllPaths: no path entry -> in.Block() avoids every edge that
// establishes q.
func (e *Engine) guardedOnAllPaths(in ssa.Instruction, q Req) (bool, []ssa.Instruction) {
	r := e
	fn := in.Parent()
	target := in.Block()
	if len(fn.Blocks) == 0 {
		return false, nil
	}
	type node struct {
		b    *ssa.BasicBlock
		prev *node
	}
	entry := fn.Blocks[0]
	seen := map[*ssa.BasicBlock]bool{entry: true}
	queue := []*node{{b: entry}}
	for len(queue) > 0 {
		n := queue[0]
		queue = queue[1:]
		if n.b == target {
			var w []ssa.Instruction
			for x := n; x != nil; x = x.prev {
				if len(x.b.Instrs) > 0 {
					w = append([]ssa.Instruction{x.b.Instrs[len(x.b.Instrs)-1]}, w...)
				}
			}
			return false, w
		}
		var ifi *ssa.If
		if len(n.b.Instrs) > 0 {
			ifi, _ = n.b.Instrs[len(n.b.Instrs)-1].(*ssa.If)
		}
		if e.blockFailStops(n.b) {
			continue // control never leaves this block normally
		}
		for i, s := range n.b.Succs {
			if seen[s] {
				continue
			}
			if ifi != nil && n.b.Succs[0] != n.b.Succs[1] {
				if r.holds(q, expandFacts([]Fact{{ifi.Cond, i == 0}}), 2) {
					if os.Getenv("DBCHECK_DEBUG_GUARD") != "" {
						fmt.Fprintf(os.Stderr, "guard-debug: [%s] established on edge %d of %s: %s\n", q.Name, i, e.ipos(ifi), strings.Join(e.describeFacts([]Fact{{ifi.Cond, i == 0}}), ";"))
					}
					continue // this edge establishes the fact
				}
			}
			seen[s] = true
			queue = append(queue, &node{b: s, prev: n})
		}
	}
	return true, nil
}

// blockFailStops: the block contains a call that never returns.
func (e *Engine) blockFailStops(b *ssa.BasicBlock) bool {
	for _, in := range b.Instrs {
		if c, ok := in.(*ssa.Call); ok && e.NoReturnCall(c) {
			return true
		}
		if _, ok := in.(*ssa.Panic); ok {
			return true
		}
	}
	return false
}

// ---------------------------------------------------------------------------
// raft handler table

// Cell is one entry of raft.handlers[state][type].
type Cell struct {
	State, Type string
	Fn          *ssa.Function // the handler body (inner function for lw-wrapped)
	Wrapped     bool          // registered through the remote-lookup wrapper
	Pos         token.Pos
}

type HandlerTable struct {
	reach  map[*ssa.Function]map[*ssa.Function]bool
	Cells  []Cell
	States map[string]bool
	Types  map[string]bool
}

func (t *HandlerTable) Get(state, typ string) *Cell {
	for i := range t.Cells {
		if t.Cells[i].State == state && t.Cells[i].Type == typ {
			return &t.Cells[i]
		}
	}
	return nil
}

func constName(pkg *types.Package, t types.Type, c *ssa.Const) string {
	if c == nil || c.Value == nil || pkg == nil {
		return ""
	}
	for _, n := range pkg.Scope().Names() {
		if k, ok := pkg.Scope().Lookup(n).(*types.Const); ok && types.Identical(k.Type(), t) {
			if k.Val().ExactString() == c.Value.ExactString() {
				return n
			}
		}
	}
	return ""
}

// bodyOfFuncValue resolves a function value (closure over bound method,
// function literal, bound method) to the declared function it runs.
func bodyOfFuncValue(v ssa.Value) *ssa.Function {
	switch x := v.(type) {
	case *ssa.MakeClosure:
		if f, ok := x.Fn.(*ssa.Function); ok {
			return unwrap(f)
		}
	case *ssa.Function:
		return unwrap(x)
	case *ssa.ChangeType:
		return bodyOfFuncValue(x.X)
	}
	return nil
}

// RaftHandlerTable extracts raft.handlers[state][type] = f from the stores of
// the table's initialiser (whatever it is called): every Store whose address
// is handlers[const][const].
func (e *Engine) RaftHandlerTable() (*HandlerTable, error) {
	fld := e.Field("internal/raft", "raft", "handlers")
	if fld == nil {
		return nil, fmt.Errorf("field raft.handlers not found")
	}
	raftPkg := e.pkgTypes("internal/raft")
	pbPkg := e.pkgTypes("raftpb")
	stateT := e.Named("internal/raft", "State")
	mtT := e.Named("raftpb", "MessageType")
	if raftPkg == nil || pbPkg == nil || stateT == nil || mtT == nil {
		return nil, fmt.Errorf("raft State / pb.MessageType not found")
	}
	t := &HandlerTable{States: map[string]bool{}, Types: map[string]bool{}}
	for _, fn := range e.ScopeFuncs() {
		if p := fnPkg(fn); p == nil || p != raftPkg {
			continue
		}
		var err error
		forEachInstr(fn, func(in ssa.Instruction) {
			st, ok := in.(*ssa.Store)
			if !ok {
				return
			}
			ia2, ok := st.Addr.(*ssa.IndexAddr)
			if !ok {
				return
			}
			ia1, ok := ia2.X.(*ssa.IndexAddr)
			if !ok {
				return
			}
			f, _, ok := fieldOfAddr(ia1.X)
			if !ok || f != fld {
				return
			}
			scs := indexConsts(ia1.Index)
			tcs := indexConsts(ia2.Index)
			if len(scs) == 0 || len(tcs) == 0 {
				err = fmt.Errorf("non-constant handler table index at %s", e.ipos(in))
				return
			}
			for _, sc := range scs {
				for _, tc := range tcs {
					sn := constName(raftPkg, stateT, sc)
					tn := constName(pbPkg, mtT, tc)
					if sn == "" || tn == "" {
						// untyped index constant: match by value against the typed consts
						sn = constNameByVal(raftPkg, stateT, sc)
						tn = constNameByVal(pbPkg, mtT, tc)
					}
					if sn == "" || tn == "" {
						err = fmt.Errorf("cannot name handler table index at %s", e.ipos(in))
						return
					}
					c := Cell{State: sn, Type: tn, Pos: in.Pos()}
					if call, ok := st.Val.(*ssa.Call); ok {
						// wrapper(r, f): the body is the function-typed argument
						c.Wrapped = true
						for _, a := range call.Call.Args {
							if _, isSig := a.Type().Underlying().(*types.Signature); isSig {
								c.Fn = bodyOfFuncValue(a)
							}
						}
					} else {
						c.Fn = bodyOfFuncValue(st.Val)
					}
					if c.Fn == nil {
						err = fmt.Errorf("cannot resolve handler stored at %s", e.ipos(in))
						return
					}
					t.Cells = append(t.Cells, c)
					t.States[sn] = true
					t.Types[tn] = true
				}
			}
		})
		if err != nil {
			return nil, err
		}
	}
	if len(t.Cells) == 0 {
		return nil, fmt.Errorf("no handler table stores found")
	}
	sort.Slice(t.Cells, func(i, j int) bool { return t.Cells[i].Pos < t.Cells[j].Pos })
	return t, nil
}

// indexConsts: the constants an index expression can take: the constant
// itself, or - for the loop variable of a range over a slice/array literal of
// constants (`for _, st := range []State{a, b}`) - every element of the
// literal. nil when the index is not of that shape.
func indexConsts(v ssa.Value) []*ssa.Const {
	v = stripConv(v)
	if c, ok := v.(*ssa.Const); ok {
		return []*ssa.Const{c}
	}
	u, ok := v.(*ssa.UnOp)
	if !ok || u.Op != token.MUL {
		return nil
	}
	ia, ok := u.X.(*ssa.IndexAddr)
	if !ok {
		return nil
	}
	base := ia.X
	if sl, ok := base.(*ssa.Slice); ok {
		base = sl.X
	}
	al, ok := base.(*ssa.Alloc)
	if !ok {
		return nil
	}
	var out []*ssa.Const
	for _, sv := range storesInto(al) {
		c, ok := sv.(*ssa.Const)
		if !ok {
			return nil
		}
		out = append(out, c)
	}
	return out
}

func constNameByVal(pkg *types.Package, t types.Type, c *ssa.Const) string {
	if c == nil || c.Value == nil {
		return ""
	}
	for _, n := range pkg.Scope().Names() {
		if k, ok := pkg.Scope().Lookup(n).(*types.Const); ok && types.Identical(k.Type(), t) {
			if k.Val().ExactString() == c.Value.ExactString() {
				return n
			}
		}
	}
	return ""
}

// CellsReaching returns the cells whose handler can reach target through the
// call graph without re-entering the dispatcher (raft.Handle); re-entrant
// dispatch with a constant message type is followed into the cells of that
// type.
func (e *Engine) CellsReaching(t *HandlerTable, target *ssa.Function) []Cell {
	disp := e.Func("(*internal/raft.raft).Handle")
	var out []Cell
	memo := map[string]bool{}
	if t.reach == nil {
		t.reach = map[*ssa.Function]map[*ssa.Function]bool{}
	}
	reachOf := func(f *ssa.Function) map[*ssa.Function]bool {
		if s, ok := t.reach[f]; ok {
			return s
		}
		s := e.Reach([]*ssa.Function{f}, func(g *ssa.Function) bool { return g == disp })
		t.reach[f] = s
		return s
	}
	for _, c := range t.Cells {
		mk := c.State + "/" + fname(c.Fn)
		reach, ok := memo[mk]
		if !ok {
			set := reachOf(c.Fn)
			reach = set[target]
			if !reach && set[disp] {
				// re-dispatch: find constant message types passed to Handle
				for f := range set {
					if fnPkg(f) == nil || !inModule(fnPkg(f)) {
						continue
					}
					for _, s := range e.SitesIn(f, disp) {
						for _, ty := range constMsgTypes(e, s) {
							for _, c2 := range t.Cells {
								if c2.Type == ty && c2.State == c.State && c2.Fn != c.Fn {
									if reachOf(c2.Fn)[target] {
										reach = true
									}
								}
							}
						}
					}
				}
			}
			memo[mk] = reach
		}
		if reach {
			out = append(out, c)
		}
	}
	return out
}

// constMsgTypes: the constant pb.MessageType values stored into the Message
// argument of a dispatch call (composite literal), best effort.
func constMsgTypes(e *Engine, s ssa.CallInstruction) []string {
	var out []string
	pbPkg := e.pkgTypes("raftpb")
	mtT := e.Named("raftpb", "MessageType")
	if pbPkg == nil || mtT == nil {
		return nil
	}
	for _, a := range s.Common().Args {
		ld, ok := a.(*ssa.UnOp)
		if !ok || ld.Op != token.MUL {
			continue
		}
		al, ok := ld.X.(*ssa.Alloc)
		if !ok {
			continue
		}
		for _, ref := range *al.Referrers() {
			fa, ok := ref.(*ssa.FieldAddr)
			if !ok {
				continue
			}
			st := derefStruct(fa.X.Type())
			if st == nil || st.Field(fa.Field).Name() != "Type" {
				continue
			}
			for _, r2 := range *fa.Referrers() {
				if sto, ok := r2.(*ssa.Store); ok {
					if c, ok := sto.Val.(*ssa.Const); ok {
						if n := constNameByVal(pbPkg, mtT, c); n != "" {
							out = append(out, n)
						}
					}
				}
			}
		}
	}
	return out
}

// ---------------------------------------------------------------------------
// dependence

// dependsOn: does value v (in its function) data- or control-depend on a
// value satisfying pred? Follows operands, phi edges, the branch conditions
// that select phi edges, and (depth-bounded) results of module callees whose
// returned values depend on pred-values of their own.
func (e *Engine) dependsOn(v ssa.Value, pred func(ssa.Value) bool, depth int) bool {
	seen := map[ssa.Value]bool{}
	var visit func(x ssa.Value, d int) bool
	visit = func(x ssa.Value, d int) bool {
		if x == nil || seen[x] {
			return false
		}
		seen[x] = true
		if pred(x) {
			return true
		}
		switch y := x.(type) {
		case *ssa.Phi:
			for _, ed := range y.Edges {
				if visit(ed, d) {
					return true
				}
			}
			// control: conditions of the branches that select the phi's edge:
			// every `if` in the region dominated by the phi block's immediate
			// dominator from which the phi block is reachable (this includes
			// the body of a loop whose header holds the phi).
			// Only for boolean phis (short-circuit results and flag
			// accumulators): a loop counter is control-dependent on every
			// branch of its loop, which says nothing about its value.
			b := y.Block()
			isBool := false
			if bt, ok := y.Type().Underlying().(*types.Basic); ok && bt.Kind() == types.Bool {
				isBool = true
			}
			if id := b.Idom(); id != nil && isBool {
				reach := map[*ssa.BasicBlock]bool{}
				stack := []*ssa.BasicBlock{b}
				for len(stack) > 0 {
					x := stack[len(stack)-1]
					stack = stack[:len(stack)-1]
					for _, p := range x.Preds {
						if !reach[p] && (p == id || id.Dominates(p)) {
							reach[p] = true
							if p != id {
								stack = append(stack, p)
							}
						}
					}
				}
				for bb := range reach {
					if len(bb.Instrs) > 0 {
						if ifi, ok := bb.Instrs[len(bb.Instrs)-1].(*ssa.If); ok {
							if visit(ifi.Cond, d) {
								return true
							}
						}
					}
				}
			}
			return false
		case *ssa.Call:
			for _, a := range y.Call.Args {
				if visit(a, d) {
					return true
				}
			}
			if y.Call.IsInvoke() && visit(y.Call.Value, d) {
				return true
			}
			if d > 0 {
				for _, g := range e.Callees(y) {
					if p := fnPkg(g); p == nil || !inModule(p) {
						continue
					}
					if e.returnDependsOn(g, pred, d-1) {
						return true
					}
				}
			}
			return false
		}
		// a slice of a local array (a slice literal): its elements
		if sl, ok := x.(*ssa.Slice); ok {
			if al := rootAlloc(sl.X); al != nil {
				for _, sv := range storesIntoPath(al, addrPath(sl.X)) {
					if visit(sv, d) {
						return true
					}
				}
			}
		}
		// a load from a local variable: follow what was stored into it
		if ld, ok := x.(*ssa.UnOp); ok && ld.Op == token.MUL {
			if al := rootAlloc(ld.X); al != nil {
				for _, sv := range storesIntoPath(al, addrPath(ld.X)) {
					if visit(sv, d) {
						return true
					}
				}
			}
		}
		if in, ok := x.(ssa.Instruction); ok {
			for _, op := range in.Operands(nil) {
				if op != nil && *op != nil && visit(*op, d) {
					return true
				}
			}
		}
		return false
	}
	return visit(v, depth)
}

// rootAlloc: the local variable an address expression points into.
func rootAlloc(addr ssa.Value) *ssa.Alloc {
	for i := 0; i < 8; i++ {
		switch x := addr.(type) {
		case *ssa.Alloc:
			return x
		case *ssa.FieldAddr:
			addr = x.X
		case *ssa.IndexAddr:
			addr = x.X
		default:
			return nil
		}
	}
	return nil
}

// addrPath: the access path (field indexes; -1 for an element) from the root
// local variable to the addressed part.
func addrPath(addr ssa.Value) []int {
	var rev []int
	for i := 0; i < 8; i++ {
		switch x := addr.(type) {
		case *ssa.FieldAddr:
			rev = append(rev, x.Field)
			addr = x.X
			continue
		case *ssa.IndexAddr:
			rev = append(rev, -1)
			addr = x.X
			continue
		}
		break
	}
	out := make([]int, len(rev))
	for i := range rev {
		out[len(rev)-1-i] = rev[i]
	}
	return out
}

// storesIntoPath: every value stored into the part of the local variable
// named by path, into an enclosing part, or into a sub-part of it
// (field-sensitive: a store to uc.A is not a definition of uc.B).
func storesIntoPath(al *ssa.Alloc, path []int) []ssa.Value {
	var out []ssa.Value
	compatible := func(p []int) bool {
		n := len(p)
		if len(path) < n {
			n = len(path)
		}
		for i := 0; i < n; i++ {
			if p[i] != path[i] {
				return false
			}
		}
		return true
	}
	var walk func(v ssa.Value, p []int)
	walk = func(v ssa.Value, p []int) {
		refs := v.Referrers()
		if refs == nil || len(p) > 4 || !compatible(p) {
			return
		}
		for _, ref := range *refs {
			switch y := ref.(type) {
			case *ssa.Store:
				if y.Addr == v {
					out = append(out, y.Val)
				}
			case *ssa.FieldAddr:
				walk(y, append(append([]int{}, p...), y.Field))
			case *ssa.IndexAddr:
				walk(y, append(append([]int{}, p...), -1))
			}
		}
	}
	walk(al, nil)
	return out
}

// storesInto: every value stored into the local variable or a part of it.
func storesInto(al *ssa.Alloc) []ssa.Value {
	var out []ssa.Value
	var walk func(v ssa.Value, d int)
	walk = func(v ssa.Value, d int) {
		refs := v.Referrers()
		if refs == nil || d > 4 {
			return
		}
		for _, ref := range *refs {
			switch y := ref.(type) {
			case *ssa.Store:
				if y.Addr == v {
					out = append(out, y.Val)
				}
			case *ssa.FieldAddr:
				walk(y, d+1)
			case *ssa.IndexAddr:
				walk(y, d+1)
			}
		}
	}
	walk(al, 0)
	return out
}

// returnDependsOn: some returned value of fn depends on a pred-value, or the
// choice between return sites does.
func (e *Engine) returnDependsOn(fn *ssa.Function, pred func(ssa.Value) bool, depth int) bool {
	nret := 0
	for _, b := range fn.Blocks {
		for _, in := range b.Instrs {
			if ret, ok := in.(*ssa.Return); ok {
				nret++
				for i := range ret.Results {
					if e.dependsOn(retOperand(ret, i), pred, depth) {
						return true
					}
				}
			}
		}
	}
	// control dependence between several returns
	if nret > 1 {
		for _, b := range fn.Blocks {
			if len(b.Instrs) == 0 {
				continue
			}
			if ifi, ok := b.Instrs[len(b.Instrs)-1].(*ssa.If); ok {
				if e.dependsOn(ifi.Cond, pred, depth) {
					return true
				}
			}
		}
	}
	return false
}

func isFieldLoad(fld *types.Var) func(ssa.Value) bool {
	return func(v ssa.Value) bool {
		f, _, ok := loadedField(v)
		return ok && f == fld
	}
}

// ---------------------------------------------------------------------------
// entry roots

// ExportedRoots returns the exported functions/methods of pkg (module
// relative) from which fn is reachable, plus "go:<fn>" goroutine roots.
func (e *Engine) CallersClosure(fn *ssa.Function, stop func(*ssa.Function) bool) map[*ssa.Function]bool {
	seen := map[*ssa.Function]bool{fn: true}
	stack := []*ssa.Function{fn}
	for len(stack) > 0 {
		f := stack[len(stack)-1]
		stack = stack[:len(stack)-1]
		if stop != nil && f != fn && stop(f) {
			continue
		}
		n := e.CG.Nodes[f]
		if n == nil {
			continue
		}
		for _, ed := range n.In {
			if isGoSite(ed.Site) {
				continue
			}
			g := ed.Caller.Func
			if !seen[g] {
				seen[g] = true
				stack = append(stack, g)
			}
		}
	}
	return seen
}

// DirectCallers returns the scope functions with a call site that may call fn.
func (e *Engine) DirectCallers(fn *ssa.Function) []*ssa.Function {
	seen := map[*ssa.Function]bool{}
	var out []*ssa.Function
	for _, s := range e.CallerSites(fn) {
		p := s.Parent()
		if pk := fnPkg(p); pk == nil || !scopePkg(pk.Path()) {
			continue
		}
		if !seen[p] {
			seen[p] = true
			out = append(out, p)
		}
	}
	sort.Slice(out, func(i, j int) bool { return fname(out[i]) < fname(out[j]) })
	return out
}

func names(fs []*ssa.Function) []string {
	var out []string
	for _, f := range fs {
		out = append(out, fname(f))
	}
	sort.Strings(out)
	return out
}

func setOf(ss ...string) map[string]bool {
	m := map[string]bool{}
	for _, s := range ss {
		m[s] = true
	}
	return m
}

// callersWithin checks that every direct caller (in scope) of fn is in the
// allowed set; one obligation per caller.
func (r *Report) callersWithin(rule string, fn *ssa.Function, allowed map[string]bool, why string) {
	if fn == nil {
		return
	}
	cs := r.e.DirectCallers(fn)
	for _, c := range cs {
		// closures count as their outermost parent
		p := c
		for p.Parent() != nil {
			p = p.Parent()
		}
		r.check(allowed[fname(p)] || allowed[fname(c)], rule, fname(fn)+" called from "+fname(p), r.e.pos(c.Pos()),
			"caller is in the allowed set ("+why+")",
			"unexpected caller of "+fname(fn)+": "+why)
	}
	if len(cs) == 0 {
		r.add(Ob{Rule: rule, Construct: fname(fn) + " has no caller", Pos: r.e.pos(fn.Pos()), OK: true, Detail: "no non-test caller", Trivial: true})
	}
}

// ---------------------------------------------------------------------------
// predicates: "fn returns pol only under the required facts"

// returnsOnlyUnder: for every return of fn whose result #idx may have
// polarity pol, the required facts hold on the way there (branch facts on
// every path to the return, or facts implied by the returned value itself
// having that polarity). exempt (may be nil) skips returns by their value.
// One obligation per requirement.
func (r *Report) returnsOnlyUnder(rule, construct string, fn *ssa.Function, idx int, pol bool, exempt func(ssa.Value) bool, reqs ...Req) {
	e := r.e
	for _, q := range reqs {
		ok := true
		var bad ssa.Instruction
		nret := 0
		forEachInstr(fn, func(in ssa.Instruction) {
			ret, isR := in.(*ssa.Return)
			if !isR || idx >= len(ret.Results) {
				return
			}
			nret++
			v := retOperand(ret, idx)
			if cb, isC := isConstBool(v); isC && cb != pol {
				return
			}
			if exempt != nil && exempt(v) {
				return
			}
			if g, _ := e.guardedOnAllPaths(ret, q); g {
				return
			}
			// every way the returned value can have the polarity establishes the fact
			here := FactsAt(ret)
			all := true
			for _, alt := range valueAlternatives(v, pol, 0) {
				if !e.holds(q, append(append([]Fact{}, here...), alt...), 2) {
					all = false
				}
			}
			if all {
				return
			}
			ok = false
			bad = in
		})
		pos := e.pos(fn.Pos())
		if bad != nil {
			pos = e.ipos(bad)
		}
		r.check(ok && nret > 0, rule, construct+": returns "+boolStr(pol)+" only when "+q.Name, pos,
			"every return of "+boolStr(pol)+" is under the condition",
			fname(fn)+" can return "+boolStr(pol)+" without ["+q.Name+"]")
	}
}

// pathUnless: is there a path in fn from `from` (nil = entry) to an
// instruction satisfying target that passes no barrier instruction and
// crosses no edge establishing the exempting fact?
func (e *Engine) pathUnless(fn *ssa.Function, from ssa.Instruction, target, barrier func(ssa.Instruction) bool, exempt Req) PathResult {
	return e.findPath(fn, from, target, barrier, func(p, s *ssa.BasicBlock) bool {
		return !e.holds(exempt, expandFacts(edgeOnly(p, s)), 2)
	})
}

// isStoreToField: a store through a FieldAddr of fld.
func isStoreToField(fld *types.Var) func(ssa.Instruction) bool {
	return func(in ssa.Instruction) bool {
		s, ok := in.(*ssa.Store)
		if !ok {
			return false
		}
		f, _, ok := fieldOfAddr(s.Addr)
		return ok && f == fld
	}
}

// ---------------------------------------------------------------------------
// interprocedural guards

// guardedInCallers: every (non-go) call site of fn in live module code is
// itself guarded by q, in its function or, recursively, in that function's
// callers. A function without callers is an entry: not guarded.
func (e *Engine) guardedInCallers(fn *ssa.Function, q Req, depth int, seen map[*ssa.Function]bool) bool {
	if depth == 0 || seen[fn] {
		return false
	}
	seen[fn] = true
	if fn.Parent() != nil {
		// a closure: its "caller" is the place it is invoked; immediately
		// invoked literals are inlined by position: use the enclosing function's
		// facts at the MakeClosure site
		ok := false
		forEachInstr(fn.Parent(), func(in ssa.Instruction) {
			if mc, isMC := in.(*ssa.MakeClosure); isMC && mc.Fn == ssa.Value(fn) {
				if g, _ := e.guardedOnAllPaths(mc, q); g || e.guardedInCallers(fn.Parent(), q, depth-1, seen) {
					ok = true
				}
			}
		})
		return ok
	}
	sites := e.CallerSites(fn)
	n := 0
	for _, s := range sites {
		if _, isGo := s.(*ssa.Go); isGo {
			return false
		}
		if p := fnPkg(s.Parent()); p == nil || !scopePkg(p.Path()) || !e.IsLive(outermostFn(s.Parent())) {
			continue
		}
		n++
		if g, _ := e.guardedOnAllPaths(s.(ssa.Instruction), q); g {
			continue
		}
		if !e.guardedInCallers(s.Parent(), q, depth-1, seen) {
			return false
		}
	}
	return n > 0
}

func outermostFn(fn *ssa.Function) *ssa.Function {
	for fn.Parent() != nil {
		fn = fn.Parent()
	}
	return fn
}

// holds: the facts satisfy q, directly or through a predicate helper: when a
// fact says that a call of a small module function returned true/false (or a
// nil / non-nil error), q is also satisfied if every way that function can
// return such a value establishes q inside it (its own branch facts and the
// facts of the returned value). Values are matched by shape, so a
// requirement phrased over fields, constants and callees carries over; one
// phrased over a specific parameter of the outer function does not (and
// stays unsatisfied - no unsoundness, possibly a report).
func (e *Engine) holds(q Req, facts []Fact, depth int) bool {
	if q.Has(facts) {
		return true
	}
	if depth == 0 {
		return false
	}
	for _, f := range facts {
		// a boolean local built from several tests (`ok := a || b || c`): every
		// way it can have the polarity must establish q
		if phi, isPhi := f.V.(*ssa.Phi); isPhi {
			alts := valueAlternatives(phi, f.Pol, 0)
			if len(alts) > 1 {
				all := true
				for _, alt := range alts {
					if !e.holds(q, alt, depth-1) {
						all = false
						break
					}
				}
				if all {
					return true
				}
			}
		}
		call, idx, kind, pol := calleeFact(f)
		if call == nil {
			continue
		}
		g := call.Call.StaticCallee()
		if g == nil {
			cs := e.Callees(call)
			if len(cs) != 1 {
				continue
			}
			g = cs[0]
		}
		if p := fnPkg(g); p == nil || !inModule(p) || len(g.Blocks) == 0 || len(g.Blocks) > 40 {
			continue
		}
		alts := e.returnAlternatives(g, idx, kind, pol)
		if len(alts) == 0 {
			continue
		}
		// bind the helper's parameters to the call's arguments
		var bound []*ssa.Parameter
		args := call.Call.Args
		off := 0
		if call.Call.IsInvoke() {
			off = 1 // Params[0] is the receiver, Args excludes it
		}
		for i, a := range args {
			if i+off < len(g.Params) {
				p := g.Params[i+off]
				if _, exists := paramBind[p]; !exists {
					paramBind[p] = a
					bound = append(bound, p)
				}
			}
		}
		all := true
		for _, alt := range alts {
			if !e.holds(q, alt, depth-1) {
				all = false
				break
			}
		}
		for _, p := range bound {
			delete(paramBind, p)
		}
		if all {
			return true
		}
	}
	return false
}

// calleeFact: the fact is about the result of a call: a boolean result (or
// extracted boolean result) with a polarity, or an error result compared
// with nil. kind is "bool" or "nil"; for "nil" pol says "is nil".
func calleeFact(f Fact) (call *ssa.Call, idx int, kind string, pol bool) {
	v := f.V
	if b, ok := v.(*ssa.BinOp); ok && (b.Op == token.EQL || b.Op == token.NEQ) {
		other := ssa.Value(nil)
		if isNilConst(b.X) {
			other = b.Y
		} else if isNilConst(b.Y) {
			other = b.X
		}
		if other == nil {
			return nil, 0, "", false
		}
		isNil := (b.Op == token.EQL) == f.Pol
		other = stripChangeInterface(other)
		if ex, ok := other.(*ssa.Extract); ok {
			if c, ok := ex.Tuple.(*ssa.Call); ok {
				return c, ex.Index, "nil", isNil
			}
		}
		if c, ok := other.(*ssa.Call); ok {
			return c, 0, "nil", isNil
		}
		return nil, 0, "", false
	}
	if ex, ok := v.(*ssa.Extract); ok {
		if c, ok := ex.Tuple.(*ssa.Call); ok {
			if bt, isB := ex.Type().Underlying().(*types.Basic); isB && bt.Kind() == types.Bool {
				return c, ex.Index, "bool", f.Pol
			}
		}
		return nil, 0, "", false
	}
	if c, ok := v.(*ssa.Call); ok {
		if bt, isB := c.Type().Underlying().(*types.Basic); isB && bt.Kind() == types.Bool {
			return c, 0, "bool", f.Pol
		}
	}
	return nil, 0, "", false
}

// returnAlternatives: for each return of g whose result #idx can be of the
// wanted kind/polarity, the facts that hold there.
func (e *Engine) returnAlternatives(g *ssa.Function, idx int, kind string, pol bool) [][]Fact {
	var out [][]Fact
	forEachInstr(g, func(in ssa.Instruction) {
		ret, ok := in.(*ssa.Return)
		if !ok || idx >= len(ret.Results) {
			return
		}
		v := retOperand(ret, idx)
		here := FactsAt(ret)
		switch kind {
		case "bool":
			if cb, isC := isConstBool(v); isC {
				if cb == pol {
					out = append(out, here)
				}
				return
			}
			for _, alt := range valueAlternatives(v, pol, 0) {
				out = append(out, append(append([]Fact{}, here...), alt...))
			}
		case "nil":
			if isNilConst(v) {
				if pol {
					out = append(out, here)
				}
				return
			}
			if !pol || !e.knownNonNil(v, ret) {
				out = append(out, here)
			}
		}
	})
	return out
}

// onlyCalledFrom: fn is one of the allowed functions (by key), or a helper
// whose every live caller is (recursively, depth-bounded). covered collects
// the allowed functions reached.
func (e *Engine) onlyCalledFrom(fn *ssa.Function, allowed map[string]bool, covered map[string]bool, depth int) bool {
	fn = outermostFn(fn)
	if allowed[fname(fn)] {
		covered[fname(fn)] = true
		return true
	}
	if depth == 0 {
		return false
	}
	n := 0
	for _, s := range e.CallerSites(fn) {
		if p := fnPkg(s.Parent()); p == nil || !scopePkg(p.Path()) || !e.IsLive(outermostFn(s.Parent())) {
			continue
		}
		n++
		if !e.onlyCalledFrom(s.Parent(), allowed, covered, depth-1) {
			return false
		}
	}
	return n > 0
}

// regionOf: fn, its closures, and the functions of the same package it
// calls statically, transitively to the given depth: "the code of fn" for
// rules that must not depend on how fn is split into helpers.
func (e *Engine) regionOf(fn *ssa.Function, depth int) []*ssa.Function {
	seen := map[*ssa.Function]bool{}
	var out []*ssa.Function
	var visit func(f *ssa.Function, d int)
	visit = func(f *ssa.Function, d int) {
		if f == nil || seen[f] || len(f.Blocks) == 0 {
			return
		}
		seen[f] = true
		out = append(out, f)
		for _, a := range f.AnonFuncs {
			visit(a, d)
		}
		if d == 0 {
			return
		}
		forEachCall(f, func(c ssa.CallInstruction) {
			if _, isGo := c.(*ssa.Go); isGo {
				return
			}
			if sc := c.Common().StaticCallee(); sc != nil && fnPkg(sc) != nil && fnPkg(sc) == fnPkg(fn) {
				visit(sc, d-1)
			}
		})
	}
	visit(fn, depth)
	return out
}

// forEachInstrRegion applies f to every instruction of the region of fn.
func (e *Engine) forEachInstrRegion(fn *ssa.Function, depth int, f func(in ssa.Instruction)) {
	for _, g := range e.regionOf(fn, depth) {
		forEachInstr(g, f)
	}
}

// reachableFromErrEdgeOf: target is reachable in fn from the non-nil edge of
// a test of call c's error result.
func (e *Engine) reachableFromErrEdgeOf(fn *ssa.Function, c *ssa.Call, target ssa.Instruction) bool {
	vals, hasErr, dropped := errValueOf(c)
	if !hasErr {
		return false
	}
	if dropped {
		return true
	}
	for _, v := range vals {
		for a := range errAliases(v) {
			refs := a.Referrers()
			if refs == nil {
				continue
			}
			for _, ref := range *refs {
				bo, isB := ref.(*ssa.BinOp)
				if !isB || !(isNilConst(bo.X) || isNilConst(bo.Y)) {
					continue
				}
				for _, cf := range ValueUsesAsCond(bo) {
					errSucc := cf.Block().Succs[0]
					if bo.Op.String() == "==" {
						errSucc = cf.Block().Succs[1]
					}
					if len(errSucc.Instrs) == 0 {
						continue
					}
					if errSucc.Instrs[0] == target {
						return true
					}
					if e.findPath(fn, errSucc.Instrs[0], func(in ssa.Instruction) bool { return in == target }, nil, nil).Found {
						return true
					}
				}
			}
		}
	}
	return false
}

// ---------------------------------------------------------------------------
// borrowing obligations between properties

var borrowCache = map[*Engine]map[string]*Report{}

// borrow evaluates property `from` (once per engine) and copies its
// obligations whose rule name is listed into r: several properties rest on
// the same mechanism (the vote grant guard matters for election safety and
// for replica agreement), and each property's check must report a break of
// it on its own.
func borrow(e *Engine, r *Report, from string, rules ...string) {
	if from == r.Prop {
		return
	}
	m := borrowCache[e]
	if m == nil {
		m = map[string]*Report{}
		borrowCache[e] = m
	}
	src, ok := m[from]
	if !ok {
		src = &Report{Prop: from, e: e, cfg: r.cfg}
		m[from] = src // set first: guards against mutual borrowing
		if p := registry[from]; p != nil {
			func() {
				defer func() {
					if x := recover(); x != nil {
						src.undecided("PANIC", "borrowed rules of "+from, fmt.Sprint(x))
					}
				}()
				p.Run(e, src)
			}()
		}
	}
	want := map[string]bool{}
	for _, x := range rules {
		want[x] = true
	}
	for _, o := range src.Obs {
		if want[o.Rule] {
			o2 := o
			o2.Config = ""
			r.add(o2)
		}
	}
}

// helper resolves a function that only *sharpens* a rule (a small predicate
// or wrapper the rule names for precision). When it no longer exists - it
// was inlined or removed - the rule falls back to its role-level form or
// skips the obligations that name it, and the evidence lists the
// degradation; it is not an alarm (DESIGN §2.3 "names only sharpen").
func (r *Report) helper(name string) *ssa.Function {
	f := r.e.Func(name)
	if f == nil {
		r.Degraded = append(r.Degraded, "helper "+name+" no longer exists (inlined or removed): obligations naming it are evaluated in role-level form or skipped")
	}
	return f
}

// funcByBase resolves a function by its full key or, failing that, as the
// unique function or method of the same package with the same base name (a
// method turned into a plain function, a receiver dropped or renamed).
func (e *Engine) funcByBase(key string) *ssa.Function {
	if f := e.Func(key); f != nil {
		return f
	}
	base := key
	if i := strings.LastIndex(key, "."); i >= 0 {
		base = key[i+1:]
	}
	pkgPart := strings.TrimPrefix(key, "(*")
	pkgPart = strings.TrimPrefix(pkgPart, "(")
	if i := strings.Index(pkgPart, "."); i >= 0 {
		pkgPart = pkgPart[:i]
	}
	var found *ssa.Function
	for _, f := range e.ModFuncs {
		if f.Name() != base || f.Parent() != nil {
			continue
		}
		k := fname(f)
		k = strings.TrimPrefix(strings.TrimPrefix(k, "(*"), "(")
		if i := strings.Index(k, "."); i < 0 || k[:i] != pkgPart {
			continue
		}
		if found != nil {
			return nil
		}
		found = f
	}
	return found
}

// enumCasesReturning: the constants K of the enum type for which fn can
// return `pol` in result #idx on a path consistent with subject == K (edges
// that compare the subject with a constant are followed only when they agree
// with K). Independent of the if/switch/multi-value-case shape.
func (e *Engine) enumCasesReturning(fn *ssa.Function, enumT types.Type, pkg *types.Package, subject VM, idx int, pol bool) map[string]bool {
	out := map[string]bool{}
	if enumT == nil || pkg == nil {
		return out
	}
	consistent := func(fs []Fact, k *types.Const) bool {
		for _, f := range fs {
			b, ok := f.V.(*ssa.BinOp)
			if !ok || (b.Op != token.EQL && b.Op != token.NEQ) {
				continue
			}
			var c *ssa.Const
			if cc, ok := b.Y.(*ssa.Const); ok && subject(b.X) {
				c = cc
			} else if cc, ok := b.X.(*ssa.Const); ok && subject(b.Y) {
				c = cc
			}
			if c == nil || c.Value == nil || !types.Identical(c.Type(), enumT) {
				continue
			}
			same := c.Value.ExactString() == k.Val().ExactString()
			saysEqual := (b.Op == token.EQL) == f.Pol
			if same != saysEqual {
				return false
			}
		}
		return true
	}
	for _, n := range pkg.Scope().Names() {
		k, ok := pkg.Scope().Lookup(n).(*types.Const)
		if !ok || !types.Identical(k.Type(), enumT) {
			continue
		}
		target := func(in ssa.Instruction) bool {
			ret, ok := in.(*ssa.Return)
			if !ok || idx >= len(ret.Results) {
				return false
			}
			v := retOperand(ret, idx)
			if cb, isC := isConstBool(v); isC {
				return cb == pol
			}
			for _, alt := range valueAlternatives(v, pol, 0) {
				if consistent(expandFacts(alt), k) {
					return true
				}
			}
			return false
		}
		res := e.findPath(fn, nil, target, nil, func(p, s *ssa.BasicBlock) bool {
			return consistent(expandFacts(edgeOnly(p, s)), k)
		})
		if res.Found {
			out[n] = true
		}
	}
	return out
}
