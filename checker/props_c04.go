package main

import (
	"go/token"
	"go/types"
	"strings"

	"golang.org/x/tools/go/ssa"
)

func init() {
	register(&Property{
		ID:          "C04",
		Explanation: "Decides structural necessary conditions of persist-before-send: in the engine step function the ordered send of raft messages, the log-reader append and Peer.Commit happen on every path only after SaveRaftState returned nil; messages sent before the save pass the free-order filter, which admits only Replicate and Ping; the send callback has no other caller class; fast-apply before the save is taken only when the Update has no snapshot and its committed entries do not overlap the entries to save; every hard-state comparison that decides 'changed, must be persisted' covers term, vote and commit; Pebble writes use the constant Sync:true options; in Tan every write/remove/import is followed by a file sync on every success path unless the write's own sync flag is false, and asynchronous syncs are joined before returning; log replay precedes raft.Launch; storage errors in the step path are returned to the worker loop, which fail-stops. Does not decide crash behaviour at a given instant.",
		NotCovered:  "enumeration of crash points; that Sync:true / fsync persist what they claim (pebble, vfs and the kernel are trusted)",
		Run:         runC04,
	})
}

// alwaysPrecededBy: on every path (within site's function, and transitively
// through every live caller up to depth) the instruction is preceded by an
// instruction satisfying pred.
func (e *Engine) alwaysPrecededBy(site ssa.Instruction, pred func(ssa.Instruction) bool, depth int) (bool, []string) {
	fn := site.Parent()
	// within the function: is there a path entry -> site avoiding pred?
	res := e.findPath(fn, nil, func(in ssa.Instruction) bool { return in == site }, pred, nil)
	if !res.Found {
		return true, nil
	}
	if depth == 0 {
		return false, []string{"depth bound reached at " + fname(fn)}
	}
	callers := e.CallerSites(fn)
	if len(callers) == 0 {
		return false, []string{fname(fn) + " is an entry: nothing precedes it"}
	}
	for _, cs := range callers {
		if _, isGo := cs.(*ssa.Go); isGo {
			return false, []string{"spawned by go at " + e.ipos(cs)}
		}
		ok, w := e.alwaysPrecededBy(cs.(ssa.Instruction), pred, depth-1)
		if !ok {
			return false, append([]string{fname(cs.Parent()) + " at " + e.ipos(cs)}, w...)
		}
	}
	return true, nil
}

func runC04(e *Engine, r *Report) {
	// borrowed mechanisms (session 6, round 8): a received snapshot is acknowledged through raft state: its files are durable before that (C15)
	borrow(e, r, "C15", "MPT-chunk-file-sync")
	saveM := r.needMethod("raftio", "ILogDB", "SaveRaftState")
	sendField := r.needField("dragonboat", "node", "sendRaftMessage")
	freeOrder := r.need("dragonboat.isFreeOrderMessage")
	msgType := r.needField("raftpb", "Message", "Type")
	if saveM == nil || sendField == nil || freeOrder == nil || msgType == nil {
		return
	}
	root := e.pkgTypes("dragonboat")
	// the engine step function(s): call sites of ILogDB.SaveRaftState in package dragonboat
	var saveSites []ssa.CallInstruction
	for _, s := range e.AllMethodSites(saveM) {
		if fnPkg(s.Parent()) == root && e.IsLive(s.Parent()) {
			saveSites = append(saveSites, s)
		}
	}
	r.floor("MPT-save-sites", len(saveSites), 1)
	// "after a successful save": passing the nil-error edge of a SaveRaftState call
	isSavedOK := func(in ssa.Instruction) bool {
		c, ok := in.(*ssa.Call)
		if !ok {
			return false
		}
		for _, s := range saveSites {
			if ssa.Instruction(c) == s.(ssa.Instruction) {
				return true
			}
		}
		return false
	}
	// the error of SaveRaftState must gate: from its error edge no ordered action is reachable (ERR covers the return)
	// ---- R1 free-order predicate admits only Replicate and Ping
	allowed := map[string]bool{"Replicate": true, "Ping": true}
	okSet := true
	nDisj := 0
	pbPkg := e.pkgTypes("raftpb")
	mtT := e.Named("raftpb", "MessageType")
	checkDisjunct := func(c ssa.Value) {
		b, ok := c.(*ssa.BinOp)
		if !ok || b.Op.String() != "==" {
			okSet = false
			return
		}
		var k *ssa.Const
		if fieldV(msgType)(b.X) {
			k, _ = stripConv(b.Y).(*ssa.Const)
		} else if fieldV(msgType)(b.Y) {
			k, _ = stripConv(b.X).(*ssa.Const)
		}
		if k == nil || !allowed[constNameByVal(pbPkg, mtT, k)] {
			okSet = false
		}
		nDisj++
	}
	forEachInstr(freeOrder, func(in ssa.Instruction) {
		ret, ok := in.(*ssa.Return)
		if !ok {
			return
		}
		v := retOperand(ret, 0)
		if ph, isPhi := v.(*ssa.Phi); isPhi {
			for i, ed := range ph.Edges {
				if cb, isC := isConstBool(ed); isC {
					if !cb {
						continue
					}
					pred := ph.Block().Preds[i]
					if ifi, ok := pred.Instrs[len(pred.Instrs)-1].(*ssa.If); ok {
						checkDisjunct(ifi.Cond)
					} else {
						okSet = false
					}
				} else {
					checkDisjunct(ed)
				}
			}
		} else if cb, isC := isConstBool(v); isC {
			if cb {
				okSet = false
			}
		} else {
			checkDisjunct(v)
		}
	})
	r.check(okSet && nDisj >= 1, "TBL-free-order", fname(freeOrder)+" admits only {Replicate, Ping}", e.pos(freeOrder.Pos()),
		"only messages that acknowledge nothing may leave before the save", "the free-order predicate admits a message type other than Replicate/Ping: it would be sent before the state it implies is durable")

	// ---- R2 every invocation of the send callback is classified
	quiesceC := e.Const("raftpb", "Quiesce")
	n := 0
	for _, fn := range e.ScopeFuncs() {
		if fnPkg(fn) != root || !e.IsLive(fn) {
			continue
		}
		forEachCall(fn, func(s ssa.CallInstruction) {
			if !fieldV(sendField)(s.Common().Value) {
				return
			}
			key := "node.sendRaftMessage invoked in " + fname(fn)
			// classify the invocation per calling context: a helper that
			// merely forwards to the callback inherits the class of each of
			// its call sites
			var classify func(in ssa.Instruction, depth int, chain []string) (bool, []string)
			classify = func(in ssa.Instruction, depth int, chain []string) (bool, []string) {
				if g, _ := e.guardedOnAllPaths(in, reqBool("", e.callV(freeOrder), true)); g {
					n++
					return true, nil // free-order filter
				}
				if c, isC := in.(ssa.CallInstruction); isC && in == s.(ssa.Instruction) {
					// a locally built Quiesce message
					if len(c.Common().Args) > 0 {
						if ld, ok := c.Common().Args[0].(*ssa.UnOp); ok {
							if al := rootAlloc(ld.X); al != nil {
								isQ := false
								forEachInstr(in.Parent(), func(x ssa.Instruction) {
									if st, ok := x.(*ssa.Store); ok {
										if f, base, ok := fieldOfAddr(st.Addr); ok && f == msgType && base == ssa.Value(al) && constV(quiesceC)(st.Val) {
											isQ = true
										}
									}
								})
								if isQ {
									n++
									return true, nil
								}
							}
						}
					}
				}
				// ordered send: after a successful save inside this function?
				res := e.findPath(in.Parent(), nil, func(x ssa.Instruction) bool { return x == in }, isSavedOK, nil)
				if !res.Found {
					n++
					return true, nil
				}
				if depth == 0 {
					return false, append(chain, "depth bound reached at "+fname(in.Parent()))
				}
				callers := e.CallerSites(in.Parent())
				cnt := 0
				for _, cs := range callers {
					if p := fnPkg(cs.Parent()); p == nil || !scopePkg(p.Path()) || !e.IsLive(outermostFn(cs.Parent())) {
						continue
					}
					cnt++
					if _, isGo := cs.(*ssa.Go); isGo {
						return false, append(chain, "spawned by go at "+e.ipos(cs))
					}
					if ok, w := classify(cs.(ssa.Instruction), depth-1, append(chain, fname(cs.Parent())+" at "+e.ipos(cs))); !ok {
						return false, w
					}
				}
				if cnt == 0 {
					return false, append(chain, fname(in.Parent())+" is an entry: nothing precedes it")
				}
				return true, nil
			}
			ok, w := classify(s.(ssa.Instruction), 4, nil)
			r.check(ok, "MPT-persist-before-send", key+" (free-order filter, local Quiesce, or ordered send after the save in every calling context)", e.ipos(s),
				"the message leaves only after SaveRaftState returned on every call chain, unless it is a free-order or Quiesce message",
				"a raft message can be handed to the transport before the Update was saved", w...)
		})
	}
	r.floor("GD-send-class", n, 3)

	// ---- R3 log reader append and Peer.Commit only after the save
	for _, tgt := range []struct{ name, what string }{
		{"(*internal/logdb.LogReader).Append", "LogReader.Append"},
		{"(*internal/raft.Peer).Commit", "Peer.Commit"},
	} {
		fn := r.need(tgt.name)
		if fn == nil {
			continue
		}
		cnt := 0
		for _, s := range e.CallerSites(fn) {
			if fnPkg(s.Parent()) != root {
				continue
			}
			if strings.Contains(fname(s.Parent()), "replayLog") || strings.Contains(fname(s.Parent()), "startRaft") {
				r.ok("MPT-persist-before-ack", tgt.what+" in "+fname(s.Parent())+" (start-up replay of durable data)", e.ipos(s), "entries come from the log store")
				continue
			}
			cnt++
			ok, w := e.alwaysPrecededBy(s.(ssa.Instruction), isSavedOK, 4)
			r.check(ok, "MPT-persist-before-ack", tgt.what+" called in "+fname(s.Parent()), e.ipos(s),
				"happens only after SaveRaftState on every call chain",
				tgt.what+" can run before the Update was saved: entries would be considered persisted/acknowledged without being durable", w...)
		}
		r.floor("MPT-persist-before-ack-"+tgt.what, cnt, 1)
	}
	// ---- fast apply (apply before save) only when safe
	if sfa := r.need("internal/raft.setFastApply"); sfa != nil {
		fa := e.Field("raftpb", "Update", "FastApply")
		isEmptySS := e.PkgFunc("raftpb", "IsEmptySnapshot")
		entIndex := e.Field("raftpb", "Entry", "Index")
		ce := e.Field("raftpb", "Update", "CommittedEntries")
		es := e.Field("raftpb", "Update", "EntriesToSave")
		idxOf := func(src *types.Var) VM {
			return func(v ssa.Value) bool {
				fromSrc := func(x ssa.Value) bool { return fieldV(src)(x) }
				if fieldV(entIndex)(v) && e.dependsOn(v, fromSrc, 0) {
					return true
				}
				// index taken by a small helper: lastIndexOf(ud.CommittedEntries)
				if c, ok := stripConv(v).(*ssa.Call); ok {
					if sc := c.Call.StaticCallee(); sc != nil && fnPkg(sc) == fnPkg(sfa) && e.returnDependsOn(sc, isFieldLoad(entIndex), 0) {
						for _, a := range c.Call.Args {
							if e.dependsOn(a, fromSrc, 0) {
								return true
							}
						}
					}
				}
				return false
			}
		}
		applyIdx, saveIdx := idxOf(ce), idxOf(es)
		isFA := func(in ssa.Instruction) (*ssa.Store, bool) {
			st, ok := in.(*ssa.Store)
			if !ok {
				return nil, false
			}
			f, _, ok := fieldOfAddr(st.Addr)
			return st, ok && f == fa
		}
		var loadFA VM = func(v ssa.Value) bool { f, _, ok := loadedField(v); return ok && f == fa }
		// "FastApply is returned true only when no snapshot is pending and the
		// entries to apply do not overlap the entries still being saved": from
		// every store that can set it true, each path to return that passes no
		// later store establishes both facts (or is a path on which the stored
		// value was tested to be false).
		type need struct {
			name string
			has  func(fs []Fact, st *ssa.Store) bool
		}
		needs := []need{
			{"no snapshot pending", func(fs []Fact, st *ssa.Store) bool {
				if hasBoolFact(fs, e.callV(isEmptySS), true) {
					return true
				}
				return e.callV(isEmptySS)(st.Val) && hasBoolFact(fs, loadFA, true)
			}},
			{"no overlap between entries to apply and entries to save", func(fs []Fact, st *ssa.Store) bool {
				return hasCmpFact(fs, "<", applyIdx, saveIdx) || hasCmpFact(fs, ">", applyIdx, saveIdx) ||
					hasCmpFact(fs, "<=", lenOfV(fieldV(ce)), intConstV(0)) || hasCmpFact(fs, "<=", lenOfV(fieldV(es)), intConstV(0)) ||
					hasCmpFact(fs, "==", lenOfV(fieldV(ce)), intConstV(0)) || hasCmpFact(fs, "==", lenOfV(fieldV(es)), intConstV(0))
			}},
		}
		nStores := 0
		okAll := true
		var badPos ssa.Instruction
		forEachInstr(sfa, func(in ssa.Instruction) {
			st, ok := isFA(in)
			if !ok {
				return
			}
			if cb, isC := isConstBool(st.Val); isC && !cb {
				return
			}
			nStores++
			// the stored value is computed by a predicate helper: every way it
			// returns true must establish both facts inside the helper
			if hc, isCall := st.Val.(*ssa.Call); isCall {
				if g := hc.Call.StaticCallee(); g != nil && fnPkg(g) == fnPkg(sfa) && len(g.Blocks) > 0 {
					good := true
					nret := 0
					forEachInstr(g, func(x ssa.Instruction) {
						ret, isR := x.(*ssa.Return)
						if !isR || len(ret.Results) == 0 {
							return
						}
						v := retOperand(ret, 0)
						if cb, isC := isConstBool(v); isC && !cb {
							return
						}
						nret++
						for _, nd := range needs {
							nd := nd
							q := Req{Name: nd.name, Has: func(fs []Fact) bool { return nd.has(fs, st) }}
							if gd, _ := e.guardedOnAllPaths(x, q); gd {
								continue
							}
							okAlt := true
							for _, alt := range valueAlternatives(v, true, 0) {
								if !q.Has(append(append([]Fact{}, FactsAt(x)...), alt...)) {
									okAlt = false
								}
							}
							if _, isC := isConstBool(v); isC || !okAlt {
								good = false
							}
						}
					})
					if good && nret > 0 {
						return
					}
				}
			}
			for ni, nd := range needs {
				if ni == 0 && e.callV(isEmptySS)(st.Val) {
					// the stored value is the emptiness test itself: true only without a snapshot;
					// still required on paths that branch on it (handled by the load fact)
				}
				res := e.findPath(sfa, in, isReturn, func(x ssa.Instruction) bool { _, is := isFA(x); return is }, func(p, s2 *ssa.BasicBlock) bool {
					fs := expandFacts(edgeOnly(p, s2))
					if hasBoolFact(fs, loadFA, false) {
						return false // the value was tested false on this path
					}
					return !nd.has(fs, st)
				})
				if res.Found && !(ni == 0 && e.callV(isEmptySS)(st.Val) && !branchesOn(sfa, loadFA)) {
					okAll = false
					badPos = in
				}
			}
		})
		pos := e.pos(sfa.Pos())
		if badPos != nil {
			pos = e.ipos(badPos)
		}
		r.check(okAll && nStores >= 1, "GD-fastapply", "setFastApply clears FastApply for snapshots and for apply/save overlap", pos,
			"entries are applied before the save only when they are already durable and no snapshot is pending",
			"setFastApply no longer clears FastApply for a pending snapshot or for committed entries that overlap the entries to save")
		// callers: GetUpdate uses its result
		if gu := e.Func("(*internal/raft.Peer).GetUpdate"); gu != nil {
			r.check(len(e.SitesIn(gu, sfa)) > 0, "GD-fastapply", "Peer.GetUpdate applies setFastApply", e.pos(gu.Pos()), "every Update is classified", "Updates are no longer classified by setFastApply")
		}
	}
	// the engine applies before the save only FastApply updates
	if asu := r.need("(*dragonboat.engine).applySnapshotAndUpdate"); asu != nil {
		fa := e.Field("raftpb", "Update", "FastApply")
		aru := e.Func("(*dragonboat.node).applyRaftUpdates")
		ps := e.Func("(*dragonboat.node).processSnapshot")
		for _, tgt := range []*ssa.Function{aru, ps} {
			for _, s := range e.SitesIn(asu, tgt) {
				var fastParam VM = func(v ssa.Value) bool { p, ok := stripConv(v).(*ssa.Parameter); return ok && p.Name() == "fastApply" }
				r.guard("GD-fastapply", fname(tgt)+" in applySnapshotAndUpdate", s.(ssa.Instruction),
					reqCmp("ud.FastApply == fastApply", "==", fieldV(fa), fastParam))
			}
		}
		// call sites: the one not preceded by the save passes true, the one after passes false
		for _, s := range e.CallerSites(asu) {
			args := s.Common().Args
			if len(args) < 4 {
				continue
			}
			cb, isC := isConstBool(args[3])
			before, _ := e.alwaysPrecededBy(s.(ssa.Instruction), isSavedOK, 2)
			r.check(isC && (cb == !before), "GD-fastapply", "applySnapshotAndUpdate(fastApply) in "+fname(s.Parent())+" #"+map[bool]string{true: "after-save", false: "before-save"}[before], e.ipos(s),
				"fast-apply updates are applied before the save, all others only after it", "the fastApply argument does not match the position relative to SaveRaftState")
		}
	}
	// ---- hard-state comparisons are complete
	checkStateComparisons(e, r)

	// ---- R5 pebble write options are the constant Sync:true
	runPebbleSync(e, r)
	// ---- R6 Tan: write -> sync
	runTanSync(e, r)

	// ---- R7 replay precedes Launch
	if sr := r.need("(*dragonboat.node).startRaft"); sr != nil {
		launch := r.need("internal/raft.Launch")
		replay := r.need("(*dragonboat.node).replayLog")
		if launch != nil && replay != nil {
			for _, s := range e.SitesIn(sr, launch) {
				ok, _ := e.alwaysPrecededBy(s.(ssa.Instruction), func(in ssa.Instruction) bool {
					c, isC := in.(*ssa.Call)
					return isC && e.CallsTo(c, replay)
				}, 0)
				r.check(ok, "MPT-replay-before-launch", "raft.Launch in startRaft", e.ipos(s), "persisted state is replayed into the log reader before the raft core is created", "the raft core can be launched before the persisted log was replayed")
			}
		}
	}
	// ---- R4 storage errors in the step path propagate (engine.go/node.go)
	st := e.CheckErrDiscipline(r, errScope{pkgs: map[string]bool{}, files: map[string]bool{"engine.go": true}}, map[string]string{})
	r.floor("ERR-calls-engine", st.Calls, 10)
	// generic storage-path rules (generic.go)
	ruleLoopAcc(e, r, 2, "internal/tan", "internal/logdb")
	ruleDeferredErr(e, r, 8, "internal/tan", "internal/logdb")
	ruleSyncBeforeRename(e, r, 4, "internal/tan")
	// ---- Tan: whenever an Update with a hard state is written, the
	// index's state pointer is moved to that record (unconditionally: the
	// record's key is the commit index, which need not change when term or
	// vote do); same for entries
	ruleTanIndexState(e, r)
	ruleDurableMkdir(e, r)
	ruleTanManifestSync(e, r)
	ruleTanNewLogOrder(e, r)
	ruleTanSwitchOrder(e, r)
	ruleRawMkdir(e, r)
	ruleReplaySetsState(e, r)
	ruleSnapshotRecordKeepsLogEnd(e, r)
	ruleTanFileInUse(e, r)
	ruleTanSyncSameDB(e, r)
}

// runPebbleSync: every pebble write in the kv wrapper takes the options value
// from a `wo` field, and every store to a `wo` field is Sync:true or a copy of
// another wo.
func runPebbleSync(e *Engine, r *Report) {
	kvPkg := e.pkgTypes("internal/logdb/kv/pebble")
	if kvPkg == nil {
		r.undecided("ANCHOR", "internal/logdb/kv/pebble", "package not found")
		return
	}
	isWO := func(t types.Type) bool { return strings.HasSuffix(t.String(), "pebble.WriteOptions") }
	var woFields []*types.Var
	for _, tn := range []string{"KV", "pebbleWriteBatch"} {
		if f := e.Field("internal/logdb/kv/pebble", tn, "wo"); f != nil {
			woFields = append(woFields, f)
		}
	}
	r.floor("CONST-wo-fields", len(woFields), 2)
	isWOField := func(v ssa.Value) bool {
		for _, f := range woFields {
			if fieldV(f)(v) {
				return true
			}
		}
		return false
	}
	syncTrue := func(v ssa.Value) bool {
		al, ok := v.(*ssa.Alloc)
		if !ok {
			return false
		}
		okS := false
		for _, ref := range *al.Referrers() {
			if fa, ok := ref.(*ssa.FieldAddr); ok {
				stt := derefStruct(fa.X.Type())
				if stt != nil && stt.Field(fa.Field).Name() == "Sync" {
					for _, r2 := range *fa.Referrers() {
						if st, ok := r2.(*ssa.Store); ok {
							if cb, isC := isConstBool(st.Val); isC && cb {
								okS = true
							} else {
								return false
							}
						}
					}
				}
			}
		}
		return okS
	}
	n := 0
	for _, f := range woFields {
		for _, w := range e.FieldWrites(f) {
			n++
			v := w.Val
			ok := isWOField(v) || syncTrue(v)
			if !ok {
				// a local variable holding &WriteOptions{Sync:true}
				if ph, isPhi := v.(*ssa.Phi); isPhi {
					ok = true
					for _, ed := range ph.Edges {
						if !syncTrue(ed) && !isWOField(ed) {
							ok = false
						}
					}
				}
			}
			r.check(ok, "CONST-wo", "write options stored into "+f.Name()+" in "+fname(w.Fn)+" #"+itoa(n), e.ipos(w.Instr),
				"the options are &pebble.WriteOptions{Sync:true} or a copy of the store's options", "write options other than Sync:true reach the log store")
		}
	}
	r.floor("CONST-wo", n, 2)
	// pebble write calls
	m := 0
	for _, fn := range e.ScopeFuncs() {
		if fnPkg(fn) != kvPkg || !e.IsLive(fn) {
			continue
		}
		forEachCall(fn, func(s ssa.CallInstruction) {
			sig := s.Common().Signature()
			for i := 0; i < sig.Params().Len(); i++ {
				pt := sig.Params().At(i).Type()
				if p, ok := pt.(*types.Pointer); ok && isWO(p.Elem()) {
					args := s.Common().Args
					idx := i
					if !s.Common().IsInvoke() && sig.Recv() != nil {
						idx = i + 1
					}
					if idx >= len(args) {
						return
					}
					m++
					r.check(isWOField(args[idx]), "CONST-wo", "pebble write "+calleeLabel(e, s)+" in "+fname(fn), e.ipos(s),
						"durable write uses the store's Sync:true options", "a pebble write uses options that are not the store's Sync:true options")
				}
			}
		})
	}
	r.floor("CONST-wo-calls", m, 5)
}

// runTanSync: in every tan.LogDB method, after a write-class call every path
// to a success return passes db.sync() (or a goroutine running it that is
// joined by WaitGroup.Wait), unless it leaves through the false edge of a
// condition derived from write's own sync flag.
func runTanSync(e *Engine, r *Report) {
	dbSync := r.need("(*internal/tan.db).sync")
	if dbSync == nil {
		return
	}
	writers := map[string]bool{}
	var writerFns []*ssa.Function
	for _, n := range []string{"write", "removeEntries", "removeAll", "importSnapshot"} {
		if f := r.need("(*internal/tan.db)." + n); f != nil {
			writers[fname(f)] = true
			writerFns = append(writerFns, f)
		}
	}
	tanPkg := e.pkgTypes("internal/tan")
	dbT := e.Named("internal/tan", "db")
	n := 0
	for _, fn := range e.ScopeFuncs() {
		if fnPkg(fn) != tanPkg || !e.IsLive(fn) {
			continue
		}
		recv := fn.Signature.Recv()
		if recv == nil || !strings.HasSuffix(recv.Type().String(), "tan.LogDB") {
			continue
		}
		for _, wf := range writerFns {
			for _, s := range e.SitesIn(fn, wf) {
				c, ok := s.(*ssa.Call)
				if !ok {
					continue
				}
				n++
				// the sync flag (first result of write) if any
				var flag ssa.Value
				if wf.Name() == "write" {
					if refs := c.Referrers(); refs != nil {
						for _, ref := range *refs {
							if ex, ok := ref.(*ssa.Extract); ok && ex.Index == 0 {
								flag = ex
							}
						}
					}
				}
				isSync := func(in ssa.Instruction) bool {
					switch x := in.(type) {
					case *ssa.Call:
						return e.CallsTo(x, dbSync)
					case *ssa.Go:
						for _, g := range e.Callees(x) {
							if len(e.SitesIn(g, dbSync)) > 0 {
								return true
							}
						}
					}
					return false
				}
				// an edge is exempt when it establishes "the write's sync flag
				// (or a flag accumulated from it) is false", in whatever form the
				// test is written (`if sync`, `if !sync { return }`, `a || b`),
				// or "the selected *db handle is nil" (nothing was written)
				edgeOK2 := func(p, s2 *ssa.BasicBlock) bool {
					for _, f := range expandFacts(edgeOnly(p, s2)) {
						if u, isU := f.V.(*ssa.UnOp); isU && u.Op == token.NOT {
							continue
						}
						if !f.Pol && flag != nil && e.dependsOn(f.V, func(v ssa.Value) bool { return v == flag }, 0) {
							if _, isCmp := f.V.(*ssa.BinOp); !isCmp {
								return false // leaves because write said no sync is needed
							}
						}
						if b, ok := f.V.(*ssa.BinOp); ok && (isNilConst(b.Y) || isNilConst(b.X)) {
							x := b.X
							if isNilConst(b.X) {
								x = b.Y
							}
							isNil := (b.Op == token.EQL) == f.Pol
							if pt, ok := x.Type().(*types.Pointer); ok && isNil && dbT != nil && types.Identical(pt.Elem(), dbT) {
								return false
							}
						}
					}
					return true
				}
				res := e.findPath(fn, c, func(in ssa.Instruction) bool { return e.isSuccessReturn(in) }, isSync, edgeOK2)
				var w []string
				if res.Found {
					w = []string{"offending exit at " + e.ipos(res.Target)}
				}
				r.check(!res.Found, "PAIR-tan-sync", fname(wf)+" in "+fname(fn)+" is followed by db.sync()", e.ipos(c),
					"every success exit after the write passes a file sync (or the write reported that no sync is needed)",
					"a success exit is reachable after the write without a file sync", w...)
			}
		}
		// asynchronous syncs are joined
		forEachInstr(fn, func(in ssa.Instruction) {
			g, ok := in.(*ssa.Go)
			if !ok {
				return
			}
			runs := false
			for _, cal := range e.Callees(g) {
				if len(e.SitesIn(cal, dbSync)) > 0 {
					runs = true
					// the goroutine fail-stops on a sync error
					okp := true
					for _, s := range e.SitesIn(cal, dbSync) {
						if cc, isC := s.(*ssa.Call); isC {
							vals, _, dropped := errValueOf(cc)
							if dropped || len(vals) == 0 {
								okp = false
							}
						}
					}
					r.check(okp, "PAIR-tan-sync", "async sync error is checked in "+fname(cal), e.ipos(in), "sync error reaches the fail-stop", "the asynchronous sync's error is dropped")
				}
			}
			if !runs {
				return
			}
			res := e.findPath(fn, in, func(x ssa.Instruction) bool { return e.isSuccessReturn(x) }, func(x ssa.Instruction) bool {
				c, ok := x.(*ssa.Call)
				if !ok {
					return false
				}
				sc := c.Call.StaticCallee()
				return sc != nil && sc.Name() == "Wait" && sc.Pkg != nil && sc.Pkg.Pkg.Path() == "sync"
			}, nil)
			r.check(!res.Found, "PAIR-tan-sync", "async sync in "+fname(fn)+" is joined before return", e.ipos(in),
				"the save returns only after the spawned sync finished", "the save can return before the spawned sync finished")
		})
	}
	r.floor("PAIR-tan-sync", n, 6)
	// db.sync really syncs the log file
	okS := false
	forEachCall(dbSync, func(s ssa.CallInstruction) {
		if s.Common().IsInvoke() && s.Common().Method.Name() == "Sync" {
			okS = true
		}
	})
	r.check(okS, "PAIR-tan-sync", "tan db.sync calls File.Sync", e.pos(dbSync.Pos()), "sync is an fsync of the active log file", "db.sync no longer calls File.Sync")
	// ... on every path: no success return of db.sync skips the fsync (an elided "redundant" fsync is
	// only sound with a watermark that is reset at every log rollover; there is none), and the file
	// it syncs is the active log file
	{
		isFsync := e.throughHelpers(func(s ssa.CallInstruction) bool {
			return s.Common().IsInvoke() && s.Common().Method.Name() == "Sync"
		})
		res := e.findPath(dbSync, nil, func(in ssa.Instruction) bool { return e.isSuccessReturn(in) }, isFsync, nil)
		r.check(!res.Found, "PAIR-tan-sync", "tan db.sync fsyncs on every successful path", e.pos(dbSync.Pos()), "no success return without File.Sync",
			"db.sync can return success without having called File.Sync: saves acknowledged through that path are not durable", res.Trace(e)...)
		if lf := e.Field("internal/tan", "db", "mu"); lf != nil {
			okF := true
			forEachCall(dbSync, func(s ssa.CallInstruction) {
				if s.Common().IsInvoke() && s.Common().Method.Name() == "Sync" {
					if !e.dependsOn(s.Common().Value, fieldNameV("logFile"), 0) {
						okF = false
					}
				}
			})
			r.check(okF, "PAIR-tan-sync", "tan db.sync syncs the active log file", e.pos(dbSync.Pos()), "File.Sync on db.mu.logFile", "db.sync calls Sync on something other than the active log file")
		}
	}
	// write's sync flag depends on entries, snapshot, term and vote
	if wr := e.Func("(*internal/tan.db).write"); wr != nil {
		ets := e.Field("raftpb", "Update", "EntriesToSave")
		ss := e.Field("raftpb", "Update", "Snapshot")
		ssc := e.Func("internal/tan.stateSyncChange")
		okf := false
		forEachInstr(wr, func(in ssa.Instruction) {
			ret, ok := in.(*ssa.Return)
			if !ok || len(ret.Results) < 2 {
				return
			}
			v := retOperand(ret, 0)
			if cb, isC := isConstBool(v); isC && !cb {
				return
			}
			d1 := e.dependsOn(v, func(x ssa.Value) bool { return fieldV(ets)(x) }, 0)
			d2 := e.dependsOn(v, func(x ssa.Value) bool { return fieldV(ss)(x) }, 0)
			// the term/vote change test: the helper, or (inlined) comparisons of State.Term and State.Vote
			stT, stV := e.Field("raftpb", "State", "Term"), e.Field("raftpb", "State", "Vote")
			cmpOf := func(f *types.Var) func(ssa.Value) bool {
				return func(x ssa.Value) bool {
					b, ok := x.(*ssa.BinOp)
					return ok && (b.Op == token.EQL || b.Op == token.NEQ) && fieldV(f)(b.X) && fieldV(f)(b.Y)
				}
			}
			d3 := (ssc != nil && e.dependsOn(v, e.callV(ssc), 0)) || (e.dependsOn(v, cmpOf(stT), 0) && e.dependsOn(v, cmpOf(stV), 0))
			if d1 && d2 && d3 {
				okf = true
			}
		})
		r.check(okf, "PAIR-tan-sync", "write's sync flag covers entries, snapshot and term/vote change", e.pos(wr.Pos()),
			"a sync is requested whenever entries, a snapshot or a term/vote change were written", "write's sync flag no longer depends on entries, snapshot and the term/vote change test")
	}
}

// branchesOn: some If of fn tests a value matching m (possibly negated).
func branchesOn(fn *ssa.Function, m VM) bool {
	found := false
	forEachInstr(fn, func(in ssa.Instruction) {
		if ifi, ok := in.(*ssa.If); ok {
			for _, f := range expandFacts([]Fact{{ifi.Cond, true}}) {
				if m(f.V) {
					found = true
				}
			}
		}
	})
	return found
}
